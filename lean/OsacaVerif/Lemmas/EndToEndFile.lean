import OsacaVerif.Model.EndToEnd
import OsacaVerif.Lemmas.ParseX86File
import OsacaVerif.Lemmas.Pipeline
/-
  End to end, part 1: the file.  Which lines exist, how they are numbered, and that the per-line data of
  the file is a map over the numbered texts of a function that sees the number only to store it.
  For both ISAs: `BaseParser.parse_file` is one function, the two parser models transcribe it twice
  (`ParseX86.parseFile`, `ParseA64.parseFile`); `parseFile_numbered` shows that both are the same numbering
  of the same lines with the ISA's `parse_line` applied to each.
-/
namespace OsacaVerif.EndToEnd
open OsacaVerif OsacaVerif.Text OsacaVerif.X86 OsacaVerif.ParseX86 OsacaVerif.Pipeline
open OsacaVerif.Spec.X86R (joinLines IsSplit)

/-- numbers and texts of the instruction forms `parse_file` creates (blank lines count, but yield none) -/
def numbered (s : Nat) : Nat → List Txt → List (Nat × Txt)
  | _, [] => []
  | i, l :: ls => if isBlank l then numbered s (i + 1) ls else (i + 1 + s, l) :: numbered s (i + 1) ls

/-- one parsed line with its per-instruction data, from the TEXT alone; the number is only stored -/
def lineOfText (isa : Operand.Isa) (m : Model) (num : Nat) (t : Txt) : Line :=
  match parseLineOf isa t with
  | .ok f => lineOf isa m num t f
  | .err _ => { pl := { sel := ⟨num, none, none, none, []⟩, text := t } }

/-- the lines of a file given by its lines -/
def textLines (isa : Operand.Isa) (m : Model) (ls : List Txt) : List Line :=
  (numbered 0 0 ls).map fun p => lineOfText isa m p.1 p.2

/-! ### numbering -/

theorem fileLoop_numbered (p : Txt → Res) (s i : Nat) (ls : List Txt) :
    fileLoop p s i ls = (numbered s i ls).map fun q => ⟨q.1, q.2, p q.2⟩ := by
  induction ls generalizing i with
  | nil => rfl
  | cons l ls ih =>
    simp only [fileLoop, numbered]
    split
    · exact ih (i + 1)
    · simp [ih (i + 1)]

theorem numbered_append (s i : Nat) (xs zs : List Txt) :
    numbered s i (xs ++ zs) = numbered s i xs ++ numbered s (i + xs.length) zs := by
  induction xs generalizing i with
  | nil => simp [numbered]
  | cons x xs ih =>
    simp only [List.cons_append, numbered, List.length_cons]
    have e : i + (xs.length + 1) = i + 1 + xs.length := by omega
    split
    · rw [ih (i + 1), e]
    · rw [ih (i + 1), e]; rfl

theorem numbered_succ (s i : Nat) (ys : List Txt) :
    numbered s (i + 1) ys = (numbered s i ys).map fun p => (p.1 + 1, p.2) := by
  induction ys generalizing i with
  | nil => rfl
  | cons y ys ih =>
    simp only [numbered]
    split
    · exact ih (i + 1)
    · simp only [List.map_cons, ih (i + 1)]
      rw [show i + 1 + 1 + s = i + 1 + s + 1 by omega]

theorem numbered_lo (s i : Nat) (ls : List Txt) : ∀ p ∈ numbered s i ls, i + 1 + s ≤ p.1 := by
  induction ls generalizing i with
  | nil => intro p hp; cases hp
  | cons l ls ih =>
    intro p hp
    simp only [numbered] at hp
    split at hp
    · have := ih (i + 1) p hp; omega
    · rcases List.mem_cons.mp hp with h | h
      · subst h; exact Nat.le_refl _
      · have := ih (i + 1) p h; omega

theorem numbered_hi (s i : Nat) (ls : List Txt) : ∀ p ∈ numbered s i ls, p.1 ≤ i + ls.length + s := by
  induction ls generalizing i with
  | nil => intro p hp; cases hp
  | cons l ls ih =>
    intro p hp
    simp only [numbered] at hp
    simp only [List.length_cons]
    split at hp
    · have := ih (i + 1) p hp; omega
    · rcases List.mem_cons.mp hp with h | h
      · subst h; simp
      · have := ih (i + 1) p h; omega

theorem numbered_sorted (s i : Nat) (ls : List Txt) : ((numbered s i ls).map (·.1)).Pairwise (· < ·) := by
  induction ls generalizing i with
  | nil => exact List.Pairwise.nil
  | cons l ls ih =>
    simp only [numbered]
    split
    · exact ih (i + 1)
    · simp only [List.map_cons]
      refine List.Pairwise.cons ?_ (ih (i + 1))
      intro x hx
      obtain ⟨p, hp, rfl⟩ := List.mem_map.mp hx
      have := numbered_lo s (i + 1) ls p hp
      omega

/-- inserting a non-blank line: the lines in front keep their numbers, the lines behind move by one -/
theorem numbered_insert (xs ys : List Txt) (n : Txt) (hn : isBlank n = false) :
    numbered 0 0 (xs ++ n :: ys) =
      numbered 0 0 xs ++ (xs.length + 1, n) :: (numbered 0 xs.length ys).map fun p => (p.1 + 1, p.2) := by
  rw [numbered_append]
  simp only [numbered, hn, Nat.zero_add, Nat.add_zero]
  rw [numbered_succ]
  simp

/-- replacing a non-blank line by a non-blank line: every other line keeps number and text -/
theorem numbered_replace (xs ys : List Txt) (l : Txt) (hl : isBlank l = false) :
    numbered 0 0 (xs ++ l :: ys) = numbered 0 0 xs ++ (xs.length + 1, l) :: numbered 0 (xs.length + 1) ys := by
  rw [numbered_append]
  simp [numbered, hl]

/-! ### the lines of a file are its lines -/

theorem splitLines_joinLines (ls : List Txt) (hne : ls ≠ []) (hnl : ∀ l ∈ ls, 10 ∉ l) :
    splitLines (joinLines ls) = ls :=
  (split_unique (joinLines ls) ls ⟨hne, hnl, rfl⟩).symm

theorem parseFileX86_numbered (content : Txt) :
    parseFile 0 content = (numbered 0 0 (splitLines content)).map fun q => ⟨q.1, q.2, parseLine q.2⟩ :=
  fileLoop_numbered parseLine 0 0 (splitLines content)

/-! the AArch64 parser model transcribes `parse_file` a second time: same lines, same blank test, same numbers -/

theorem a64_splitLines (s : Txt) : ParseA64.splitLines s = splitLines s := by
  induction s with
  | nil => rfl
  | cons c r ih =>
    simp only [ParseA64.splitLines, splitLines, ih]
    split
    · rfl
    · cases splitLines r <;> rfl

theorem a64_isBlank (l : Txt) : ParseA64.isBlank l = isBlank l := rfl

theorem a64_lineBase : Gen.A64.lineBase = 1 := by decide

theorem parseLinesFrom_numbered (s i : Nat) (ls : List Txt) :
    ParseA64.parseLinesFrom s i ls = (numbered s i ls).map fun q => ⟨q.1, q.2, ParseA64.parseLine q.2⟩ := by
  induction ls generalizing i with
  | nil => rfl
  | cons l ls ih =>
    simp only [ParseA64.parseLinesFrom, numbered, a64_isBlank, a64_lineBase]
    split
    · exact ih (i + 1)
    · simp [ih (i + 1)]

/-- **`parse_file` is the numbering of the non-blank lines with the ISA's `parse_line` on each** -/
theorem parseFile_numbered (isa : Operand.Isa) (content : Txt) :
    parseFileOf isa content =
      (numbered 0 0 (splitLines content)).map fun q => ⟨q.1, q.2, parseLineOf isa q.2⟩ := by
  cases isa with
  | x86 =>
    simp only [parseFileOf, parseFileX86_numbered, List.map_map, parseLineOf]
    rfl
  | a64 =>
    simp only [parseFileOf, ParseA64.parseFile, parseLinesFrom_numbered, a64_splitLines, List.map_map, parseLineOf]
    rfl

/-! ### `collect` and the per-line data -/

theorem collect_map (isa : Operand.Isa) (m : Model) (nt : List (Nat × Txt)) (fs : List (Nat × Txt × Glue.Form))
    (h : collect (nt.map fun q => (⟨q.1, q.2, parseLineOf isa q.2⟩ : FLine)) = .ok fs) :
    linesOf isa m fs = nt.map fun p => lineOfText isa m p.1 p.2 := by
  induction nt generalizing fs with
  | nil => simp [collect] at h; subst h; rfl
  | cons q nt ih =>
    simp only [List.map_cons, collect] at h
    cases hp : parseLineOf isa q.2 with
    | err e => simp [hp] at h
    | ok f =>
      simp only [hp] at h
      cases hc : collect (nt.map fun q => (⟨q.1, q.2, parseLineOf isa q.2⟩ : FLine)) with
      | error e => simp [hc] at h
      | ok r =>
        simp only [hc] at h
        cases h
        simp only [linesOf, List.map_cons, lineOfText, hp]
        congr 1
        exact ih r hc

/-- **the per-line data of a file**: if the file parses, its lines are the numbered non-blank texts,
    each sent through `lineOfText` — a function of the model, the text, and (stored only) the number -/
theorem linesOf_file (isa : Operand.Isa) (m : Model) (content : Txt) (fs : List (Nat × Txt × Glue.Form))
    (h : collect (parseFileOf isa content) = .ok fs) :
    linesOf isa m fs = textLines isa m (splitLines content) := by
  rw [parseFile_numbered] at h
  exact collect_map isa m _ fs h

/-! ### the number is only stored -/

def setLineNum (n : Nat) (l : Line) : Line := { l with pl := { l.pl with sel := { l.pl.sel with num := n } } }

theorem lineOfText_num (isa : Operand.Isa) (m : Model) (n n' : Nat) (t : Txt) :
    lineOfText isa m n t = setLineNum n (lineOfText isa m n' t) := by
  unfold lineOfText
  cases parseLineOf isa t with
  | err e => rfl
  | ok f =>
    simp only [lineOf]
    cases semOfStages m (stagesOf isa m f) <;> rfl

@[simp] theorem lineOfText_pl_num (isa : Operand.Isa) (m : Model) (n : Nat) (t : Txt) :
    (lineOfText isa m n t).pl.num = n := by
  unfold lineOfText
  cases parseLineOf isa t with
  | err e => rfl
  | ok f =>
    simp only [lineOf]
    cases semOfStages m (stagesOf isa m f) <;> rfl

theorem textLines_nums (isa : Operand.Isa) (m : Model) (ls : List Txt) :
    (textLines isa m ls).map (·.pl.num) = (numbered 0 0 ls).map (·.1) := by
  simp [textLines, List.map_map, Function.comp_def]

theorem textLines_increasing (isa : Operand.Isa) (m : Model) (ls : List Txt) :
    Increasing ((textLines isa m ls).map (·.pl)) := by
  unfold Increasing
  rw [List.map_map]
  have := textLines_nums isa m ls
  simp only [Function.comp_def] at this ⊢
  rw [this]
  exact numbered_sorted 0 0 ls

end OsacaVerif.EndToEnd
