import OsacaVerif.Lemmas.ReportTable
/-
  C13: the list of loop-carried dependencies is read back (`parseLcdList` inverts `lcdList`), and the
  list shows every dependency (sorting is a permutation).
-/
namespace OsacaVerif.Report
open OsacaVerif.Text OsacaVerif.Fmt OsacaVerif.Spec.Report
open OsacaVerif.Gen.Report

theorem takeWhile_append_stop {α : Type} (p : α → Bool) (a rest : List α) (ha : ∀ c ∈ a, p c = true)
    (hr : ∀ c r, rest = c :: r → p c = false) : (a ++ rest).takeWhile p = a := by
  induction a with
  | nil =>
    cases rest with
    | nil => rfl
    | cons c r => simp [List.takeWhile, hr c r rfl]
  | cons c cs ih =>
    simp only [List.cons_append, List.takeWhile_cons, ha c (by simp), if_true]
    rw [ih (fun c' h' => ha c' (by simp [h']))]

theorem afterLastBar_render (A B : Txt) (hB : 124 ∉ B) : afterLastBar (A ++ 124 :: B) = B := by
  unfold afterLastBar
  have : (A ++ 124 :: B).reverse = B.reverse ++ 124 :: A.reverse := by simp
  rw [this, takeWhile_append_stop _ _ _ (by
    intro c hc
    have : c ∈ B := by simpa using hc
    simp only [bne_iff_ne, ne_eq]
    intro h; subst h; exact hB this) (by intro c r h; cases h; simp)]
  simp

/-! ### `[n1, n2, …]` -/

theorem items_joinWith (ds : List Txt) (hne : ds ≠ []) (h44 : ∀ d ∈ ds, 44 ∉ d) (hsp : ∀ d ∈ ds, NoSpaceHead d) :
    (splitOn 44 (joinWith [44, 32] ds)).map skipSpaces = ds := by
  induction ds with
  | nil => exact absurd rfl hne
  | cons a r ih =>
    cases r with
    | nil =>
      simp only [joinWith]
      rw [splitOn_no_sep 44 a (h44 a (by simp))]
      simp [skipSpaces_of_noSpaceHead a (hsp a (by simp))]
    | cons b r =>
      have ih' := ih (by simp) (fun d hd => h44 d (by simp [hd])) (fun d hd => hsp d (by simp [hd]))
      simp only [joinWith, List.append_assoc, List.cons_append, List.nil_append]
      rw [splitOn_append_sep 44 a _ (h44 a (by simp)), splitOn_cons]
      cases hs : splitOn 44 (joinWith [44, 32] (b :: r)) with
      | nil => exact absurd hs (splitOn_ne_nil _ _)
      | cons x y =>
        rw [hs] at ih'
        simp only [List.map_cons] at ih' ⊢
        have e : (if (32 : Nat) = 44 then [] :: x :: y else (32 :: x) :: y) = (32 :: x) :: y := by simp
        rw [e]
        simp only [List.map_cons, skipSpaces, skipSpaces_of_noSpaceHead a (hsp a (by simp))]
        rw [ih']

theorem natDigits_no44 (n : Nat) : 44 ∉ natDigits n := by
  intro h; have := natDigits_digits n 44 h; simp [isDigitC] at this

theorem natDigits_noSpaceHead (n : Nat) : NoSpaceHead (natDigits n) := by
  intro c r h
  have := natDigits_digits n c (by rw [h]; simp)
  intro e; subst e; simp [isDigitC] at this

theorem mapM'_natDigits (ms : List Nat) :
    mapM' (fun i => match parseNatPre i with | some (n, []) => some n | _ => none) (ms.map natDigits) = some ms := by
  induction ms with
  | nil => rfl
  | cons m ms ih =>
    simp only [List.map_cons, mapM']
    have := parseNatPre_natDigits m [] noDigitHead_nil
    rw [List.append_nil] at this
    rw [this, ih]

theorem parseNatList_listRepr (ms : List Nat) : parseNatList (32 :: listRepr ms) = some ms := by
  unfold parseNatList listRepr
  rw [show ∀ X : Txt, skipSpaces (32 :: X) = skipSpaces X from fun X => rfl]
  rw [skipSpaces_of_noSpaceHead _ (by intro c r h; cases h; decide)]
  rw [List.cons_append]
  simp only [List.getLast?_append, List.getLast?_singleton, Option.some_or, if_true, List.dropLast_concat]
  cases ms with
  | nil => simp [joinWith, splitOn, skipSpaces]
  | cons m ms =>
    rw [items_joinWith ((m :: ms).map natDigits) (by simp)
      (by intro d hd; simp only [List.mem_map] at hd; obtain ⟨n, _, rfl⟩ := hd; exact natDigits_no44 n)
      (by intro d hd; simp only [List.mem_map] at hd; obtain ⟨n, _, rfl⟩ := hd; exact natDigits_noSpaceHead n)]
    have hne : ¬ ((m :: ms).map natDigits = [[]]) := by
      simp only [List.map_cons]
      intro h
      have := (List.cons.inj h).1
      exact natDigits_ne_nil m this
    simp only [hne, if_false]
    exact mapM'_natDigits (m :: ms)

theorem listRepr_noBar (ms : List Nat) : 124 ∉ (32 :: listRepr ms) := by
  have hj : ∀ ds : List Txt, (∀ d ∈ ds, 124 ∉ d) → 124 ∉ joinWith [44, 32] ds := by
    intro ds
    induction ds with
    | nil => simp [joinWith]
    | cons a r ih =>
      intro h
      cases r with
      | nil => simpa [joinWith] using h a (by simp)
      | cons b r =>
        simp only [joinWith, List.mem_append, not_or]
        exact ⟨⟨h a (by simp), by decide⟩, ih (fun d hd => h d (by simp [hd]))⟩
  have := hj (ms.map natDigits) (by
    intro d hd; simp only [List.mem_map] at hd; obtain ⟨n, _, rfl⟩ := hd
    intro h; have := natDigits_digits n 124 h; simp [isDigitC] at this)
  unfold listRepr
  intro h
  simp [this] at h

/-! ### one line, the list -/

theorem parseLcdLine_render (d : Dep) : parseLcdLine (lcdLine d) = some (lcdView d) := by
  unfold parseLcdLine lcdLine
  rw [colSep_eq]
  have e1 : padLeft lcdNumWidth (natDigits (keyHead d.key)) =
      spaces (lcdNumWidth - (natDigits (keyHead d.key)).length) ++ natDigits (keyHead d.key) := rfl
  rw [e1]
  simp only [List.append_assoc, List.cons_append]
  rw [skipSpaces_spaces _ _ (by
    intro c r h
    obtain ⟨c0, r0, hq, hc0⟩ := natDigits_head (keyHead d.key)
    rw [hq] at h; simp at h; rw [← h.1]; intro e; subst e; simp [isDigitC] at hc0)]
  rw [parseNatPre_natDigits _ _ (noDigitHead_cons (by decide))]
  simp only [expectTxt, if_true]
  -- latency
  have e2 : padLeft lcdLatWidth (fmtFixed d.lat lcdLatDecimals) =
      spaces (lcdLatWidth - (fmtFixed d.lat lcdLatDecimals).length) ++ renderShown (shown d.lat lcdLatDecimals) := rfl
  rw [e2]
  obtain ⟨c, r, hc, hc32⟩ := renderShown_head (shown d.lat lcdLatDecimals)
  have e3 : ∀ X : Txt, 32 :: (spaces (lcdLatWidth - (fmtFixed d.lat lcdLatDecimals).length) ++
      renderShown (shown d.lat lcdLatDecimals) ++ X) =
      spaces (lcdLatWidth - (fmtFixed d.lat lcdLatDecimals).length + 1) ++
        (renderShown (shown d.lat lcdLatDecimals) ++ X) := by
    intro X; rw [spaces_succ]; simp
  simp only [List.append_assoc] at e3 ⊢
  rw [e3, skipSpaces_spaces _ _ (by intro c' r' h; rw [hc] at h; simp at h; rw [← h.1]; exact hc32)]
  rw [parseNum_renderShown _ _ (numEnd_cons (by decide) (by decide))]
  simp only [expectTxt, if_true]
  -- instruction text and member list
  have e4 : 32 :: (padRight lcdRootWidth (strip d.root) ++ 124 :: 32 :: listRepr (d.members.map (·.1))) =
      (32 :: padRight lcdRootWidth (strip d.root)) ++ 124 :: (32 :: listRepr (d.members.map (·.1))) := by simp
  rw [e4, afterLastBar_render _ _ (listRepr_noBar _), parseNatList_listRepr]
  rfl

theorem mapM'_lcd (ds : List Dep) : mapM' parseLcdLine (ds.map lcdLine) = some (ds.map lcdView) := by
  induction ds with
  | nil => rfl
  | cons d ds ih => simp only [List.map_cons, mapM', parseLcdLine_render, ih]

theorem lcdLine_ne_nil (d : Dep) : lcdLine d ≠ [] := by
  unfold lcdLine padLeft
  intro h
  have := congrArg List.length h
  simp at this

theorem noNL_listRepr (ms : List Nat) : NoNL (listRepr ms) := by
  have hj : ∀ ds : List Txt, (∀ d ∈ ds, NoNL d) → NoNL (joinWith [44, 32] ds) := by
    intro ds
    induction ds with
    | nil => intro _; exact noNL_nil
    | cons a r ih =>
      intro h
      cases r with
      | nil => simpa [joinWith] using h a (by simp)
      | cons b r =>
        simp only [joinWith]
        exact noNL_append (noNL_append (h a (by simp)) (by unfold NoNL; decide)) (ih (fun d hd => h d (by simp [hd])))
  unfold listRepr
  exact noNL_cons (by decide) (noNL_append (hj _ (by
    intro d hd; simp only [List.mem_map] at hd; obtain ⟨n, _, rfl⟩ := hd; exact noNL_natDigits n))
    (noNL_cons (by decide) noNL_nil))

theorem noNL_strip {t : Txt} (ht : NoNL t) : NoNL (strip t) := by
  intro h; exact ht (lstrip_sub t 10 (rstrip_sub _ 10 h))

theorem noNL_lcdLine (d : Dep) (hroot : NoNL d.root) : NoNL (lcdLine d) := by
  unfold lcdLine
  have hc : colSep ≠ 10 := by decide
  simp only [List.append_assoc, List.cons_append]
  refine noNL_append (noNL_padLeft _ (noNL_natDigits _)) (noNL_cons (by decide) (noNL_cons hc (noNL_cons (by decide) ?_)))
  refine noNL_append (noNL_padLeft _ (noNL_renderShown _)) (noNL_cons (by decide) (noNL_cons hc (noNL_cons (by decide) ?_)))
  refine noNL_append ?_ (noNL_cons hc (noNL_cons (by decide) (noNL_listRepr _)))
  exact noNL_append (noNL_strip hroot) (noNL_spaces _)

theorem lcdTitle2_lines :
    lcdTitle2 = [[], [], titleLcd, dashes titleLcd.length].flatMap (fun l => l ++ [10]) := by
  decide +kernel

/-- **the LCD list is read back**: one entry per dependency, in key order, with the first line
    number of the key, the latency at one decimal and the member lines -/
theorem parseLcdList_render (a : Analysis) (hroot : ∀ d ∈ a.deps, NoNL d.root)
    (hperm : ∀ d ∈ sortDeps a.deps, d ∈ a.deps) :
    parseLcdList (lcdList a) = some ((sortDeps a.deps).map lcdView) := by
  unfold parseLcdList lcdList unlines
  have hnil : ∀ ls : List Txt, (∀ l ∈ ls, 10 ∉ l) → splitOn 10 (ls.flatMap (fun l => l ++ [10])) = ls ++ splitOn 10 [] := by
    intro ls h
    have := splitOn_unlines ls [] h
    simpa using this
  rw [lcdTitle2_lines, splitOn_unlines _ _ (by
      intro l hl
      simp only [List.mem_cons, List.not_mem_nil, or_false] at hl
      rcases hl with hl | hl | hl | hl
      · rw [hl]; exact noNL_nil
      · rw [hl]; exact noNL_nil
      · rw [hl]; unfold titleLcd; decide
      · rw [hl]; exact noNL_dashes _),
    hnil _ (by
      intro l hl
      simp only [List.mem_map] at hl
      obtain ⟨d, hd, rfl⟩ := hl
      exact noNL_lcdLine d (hroot d (hperm d hd)))]
  have : afterTitle titleLcd ([[], [], titleLcd, dashes titleLcd.length] ++
      ((sortDeps a.deps).map lcdLine ++ splitOn 10 [])) =
      some (dashes titleLcd.length :: ((sortDeps a.deps).map lcdLine ++ splitOn 10 [])) := by
    simp [afterTitle, titleLcd]
  rw [this]
  simp only []
  rw [show splitOn 10 [] = [[]] from rfl, takeWhile_append_stop _ _ _ (by
    intro l hl
    simp only [List.mem_map] at hl
    obtain ⟨d, _, rfl⟩ := hl
    cases h : lcdLine d with
    | nil => exact absurd h (lcdLine_ne_nil d)
    | cons x y => rfl) (by intro c r h; cases h; rfl)]
  exact mapM'_lcd _

/-! ### sorting shows every dependency -/

theorem insertKey_perm (d : Dep) (l : List Dep) : (insertKey d l).Perm (d :: l) := by
  induction l with
  | nil => exact List.Perm.refl _
  | cons e r ih =>
    simp only [insertKey]
    split
    · exact List.Perm.refl _
    · exact (List.Perm.cons e ih).trans (List.Perm.swap d e r)

theorem sortDeps_perm (ds : List Dep) : (sortDeps ds).Perm ds := by
  induction ds with
  | nil => exact List.Perm.refl _
  | cons d ds ih =>
    show (insertKey d (sortDeps ds)).Perm (d :: ds)
    exact (insertKey_perm d _).trans (List.Perm.cons d ih)

end OsacaVerif.Report
