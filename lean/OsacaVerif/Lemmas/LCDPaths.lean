import OsacaVerif.Model.LCD
/-
  Helper development for C05: what a "simple path" of the LCD search is (`IsSimplePath`), and that
  the depth-first enumeration `LCD.pathsFrom` returns exactly the simple paths (soundness and
  completeness, for every edge list, every fuel and every visited set; induction on the fuel).

  A path is represented as the code represents it: the list of `(source vertex, edge weight)` of its
  edges; the vertex an edge leads to is the source of the next element, the last edge leads to `tgt`.
-/
namespace OsacaVerif.LCD
open OsacaVerif OsacaVerif.DG

/-- the vertex the edge in front of `rest` leads to: the source of the next edge, `tgt` at the end -/
def nextV (tgt : Nat) : List (Nat × Rat) → Nat
  | [] => tgt
  | x :: _ => x.1

/-- consecutive elements are edges of `es` (instruction node → instruction node, `LCD.succs`) with
    the recorded weight; the last edge enters `tgt` -/
def IsWalk (es : List Edge) (tgt : Nat) : List (Nat × Rat) → Prop
  | [] => True
  | x :: rest => (nextV tgt rest, x.2) ∈ succs es x.1 ∧ IsWalk es tgt rest

def decIsWalk (es : List Edge) (tgt : Nat) : (p : List (Nat × Rat)) → Decidable (IsWalk es tgt p)
  | [] => isTrue trivial
  | _ :: rest =>
    have := decIsWalk es tgt rest
    inferInstanceAs (Decidable (_ ∧ _))

instance (es : List Edge) (tgt : Nat) (p : List (Nat × Rat)) : Decidable (IsWalk es tgt p) := decIsWalk es tgt p

/-- the source vertices of a path -/
def verts (p : List (Nat × Rat)) : List Nat := p.map (·.1)

/-- `p` is a simple path `src ⇝ tgt` in `es`: it is non-empty and starts at `src`, consecutive
    pairs are edges with the recorded weights and the last edge enters `tgt`, no vertex is repeated,
    and `tgt` is not passed through on the way (vertices after the first differ from `tgt`). -/
def IsSimplePath (es : List Edge) (src tgt : Nat) (p : List (Nat × Rat)) : Prop :=
  (verts p).head? = some src ∧ IsWalk es tgt p ∧ (verts p).Nodup ∧ ∀ v ∈ (verts p).tail, v ≠ tgt

instance (es : List Edge) (src tgt : Nat) (p : List (Nat × Rat)) : Decidable (IsSimplePath es src tgt p) := by
  unfold IsSimplePath; infer_instance

/-- the path does not enter a vertex of `visited` (its start may be in `visited`) -/
def Avoids (visited : List Nat) (p : List (Nat × Rat)) : Prop := ∀ v ∈ (verts p).tail, v ∉ visited

instance (visited : List Nat) (p : List (Nat × Rat)) : Decidable (Avoids visited p) := by
  unfold Avoids; infer_instance

theorem nextV_of_head (tgt : Nat) (q : List (Nat × Rat)) (n : Nat) (h : (verts q).head? = some n) :
    nextV tgt q = n := by
  cases q with
  | nil => simp [verts] at h
  | cons x xs => simpa [verts, nextV] using h

/-- what the DFS guarantees for each returned path, without assuming anything about `visited` -/
theorem pathsFrom_sound_aux (es : List Edge) (tgt : Nat) (fuel cur : Nat) (visited : List Nat) :
    ∀ p ∈ pathsFrom es tgt fuel cur visited,
      (verts p).head? = some cur ∧ IsWalk es tgt p ∧ (verts p).tail.Nodup ∧
      (∀ v ∈ (verts p).tail, v ≠ tgt ∧ v ∉ visited) ∧ p.length ≤ fuel := by
  induction fuel generalizing cur visited with
  | zero => intro p hp; simp [pathsFrom] at hp
  | succ fuel ih =>
    intro p hp
    simp only [pathsFrom, List.mem_flatMap] at hp
    obtain ⟨⟨nxt, w⟩, hs, hp⟩ := hp
    dsimp only at hp
    by_cases h1 : (nxt == tgt) = true
    · simp only [h1, if_true, List.mem_singleton] at hp
      subst hp
      have : nxt = tgt := by simpa using h1
      subst this
      refine ⟨by simp [verts], ⟨by simpa [nextV] using hs, trivial⟩, by simp [verts], by simp [verts], by simp⟩
    · simp only [h1] at hp
      by_cases h2 : nxt ∈ visited
      · simp [h2] at hp
      · simp only [List.contains_eq_mem, h2, decide_false, Bool.false_eq_true, if_false, List.mem_map] at hp
        obtain ⟨q, hq, rfl⟩ := hp
        obtain ⟨q1, q2, q3, q4, q5⟩ := ih nxt (nxt :: visited) q hq
        have hn : nextV tgt q = nxt := nextV_of_head tgt q nxt q1
        have hne : nxt ≠ tgt := by simpa using h1
        have hnv : nxt ∉ visited := h2
        cases q with
        | nil => simp [verts] at q1
        | cons x xs =>
          have hx : x.1 = nxt := by simpa [verts] using q1
          simp only [verts, List.map_cons, List.tail_cons] at q3 q4 ⊢
          refine ⟨by simp, ⟨by simpa [hn] using hs, q2⟩, ?_, ?_, by simp at q5 ⊢; omega⟩
          · rw [List.nodup_cons]
            refine ⟨?_, q3⟩
            intro hmem
            have := (q4 _ hmem).2
            simp [hx] at this
          · intro v hv
            rcases List.mem_cons.mp hv with rfl | hv
            · rw [hx]; exact ⟨hne, hnv⟩
            · have := q4 v hv
              exact ⟨this.1, fun h => this.2 (List.mem_cons_of_mem _ h)⟩

/-- everything with these properties is returned -/
theorem pathsFrom_complete_aux (es : List Edge) (tgt : Nat) (fuel cur : Nat) (visited : List Nat)
    (p : List (Nat × Rat))
    (h1 : (verts p).head? = some cur) (h2 : IsWalk es tgt p) (h3 : (verts p).tail.Nodup)
    (h4 : ∀ v ∈ (verts p).tail, v ≠ tgt ∧ v ∉ visited) (h5 : p.length ≤ fuel) :
    p ∈ pathsFrom es tgt fuel cur visited := by
  induction fuel generalizing cur visited p with
  | zero =>
    cases p with
    | nil => simp [verts] at h1
    | cons x xs => simp at h5
  | succ fuel ih =>
    cases p with
    | nil => simp [verts] at h1
    | cons x rest =>
      obtain ⟨a, w⟩ := x
      have ha : a = cur := by simpa [verts] using h1
      subst ha
      simp only [pathsFrom, List.mem_flatMap]
      cases rest with
      | nil =>
        refine ⟨(tgt, w), by simpa [IsWalk, nextV] using h2.1, ?_⟩
        simp
      | cons y rest' =>
        obtain ⟨b, w'⟩ := y
        have hb : (b, w) ∈ succs es a := by simpa [IsWalk, nextV] using h2.1
        simp only [verts, List.map_cons, List.tail_cons] at h3 h4
        have hbt := h4 b (by simp)
        refine ⟨(b, w), hb, ?_⟩
        have e1 : (b == tgt) = false := by simpa using hbt.1
        have e2 : visited.contains b = false := by simpa using hbt.2
        simp only [e1, e2, Bool.false_eq_true, if_false, List.mem_map]
        refine ⟨(b, w') :: rest', ?_, rfl⟩
        rw [List.nodup_cons] at h3
        apply ih
        · simp [verts]
        · exact h2.2
        · simpa [verts] using h3.2
        · intro v hv
          simp only [verts, List.map_cons, List.tail_cons] at hv
          have := h4 v (List.mem_cons_of_mem _ hv)
          refine ⟨this.1, ?_⟩
          intro hc
          rcases List.mem_cons.mp hc with rfl | hc
          · exact h3.1 hv
          · exact this.2 hc
        · simp at h5 ⊢; omega

end OsacaVerif.LCD
