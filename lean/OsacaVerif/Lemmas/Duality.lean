import OsacaVerif.Spec.Assignment
import OsacaVerif.Lemmas.Feasible
import OsacaVerif.Lemmas.Round2
import Mathlib.Combinatorics.Hall.Finite
import Mathlib.Algebra.BigOperators.Fin
import Mathlib.Algebra.BigOperators.Group.Finset.Sigma
import Mathlib.Algebra.Order.BigOperators.Group.Finset
import Mathlib.Algebra.Order.Field.Rat
import Mathlib.Algebra.Order.BigOperators.GroupWithZero.Finset
import Mathlib.Algebra.BigOperators.Field
import Mathlib.Tactic.Positivity
import Mathlib.Data.Fintype.Sigma
import Mathlib.Data.Fintype.Prod
import Mathlib.Data.List.GetD
import Mathlib.Tactic.Ring
import Mathlib.Tactic.Linarith
import Mathlib.Tactic.FieldSimp
/-
  Helper lemmas of C02Duality: the fractional Hall / Gale supply–demand theorem.

  * `nat_hall`  — integral version: demands `d i`, admissible sets `N i`, uniform capacity `c`;
    if every set `J` of demanders satisfies `Σ_{i∈J} d i ≤ c·|⋃_{i∈J} N i|` there is an integral
    transport plan.  Proved from Hall's marriage theorem (Mathlib) on units × slots.
  * `frac_hall` — rational version, by clearing denominators.
  * list ↔ `Finset.sum` bridges used by `Props/C02Duality.lean`.
-/
namespace OsacaVerif.Duality
open Finset

/-- **integral supply–demand theorem** (uniform capacity `c` per port) -/
theorem nat_hall {ι P : Type} [Fintype ι] [DecidableEq ι] [Fintype P] [DecidableEq P]
    (d : ι → ℕ) (N : ι → Finset P) (c : ℕ)
    (hall : ∀ J : Finset ι, ∑ i ∈ J, d i ≤ c * #(J.biUnion N)) :
    ∃ y : ι → P → ℕ, (∀ i p, p ∉ N i → y i p = 0) ∧ (∀ i, ∑ p, y i p = d i) ∧
      (∀ p, ∑ i, y i p ≤ c) := by
  classical
  -- units: `d i` copies of demander `i`; slots: `c` copies of every port
  let t : (Σ i, Fin (d i)) → Finset (P × Fin c) := fun u => N u.1 ×ˢ Finset.univ
  have hHall : ∀ A : Finset (Σ i, Fin (d i)), #A ≤ #(A.biUnion t) := by
    intro A
    have h1 : A.biUnion t = ((A.image Sigma.fst).biUnion N) ×ˢ Finset.univ := by
      ext ⟨p, k⟩
      simp only [t, mem_biUnion, mem_product, mem_univ, and_true, mem_image]
      constructor
      · rintro ⟨u, hu, hp⟩; exact ⟨u.1, ⟨u, hu, rfl⟩, hp⟩
      · rintro ⟨i, ⟨u, hu, rfl⟩, hp⟩; exact ⟨u, hu, hp⟩
    have h2 : A ⊆ (A.image Sigma.fst).sigma (fun _ => Finset.univ) := by
      intro u hu
      simp only [mem_sigma, mem_image, mem_univ, and_true]
      exact ⟨u, hu, rfl⟩
    calc #A ≤ #((A.image Sigma.fst).sigma (fun i => (Finset.univ : Finset (Fin (d i))))) :=
          card_le_card h2
      _ = ∑ i ∈ A.image Sigma.fst, d i := by simp [card_sigma]
      _ ≤ c * #((A.image Sigma.fst).biUnion N) := hall _
      _ = #(A.biUnion t) := by rw [h1, card_product, card_univ, Fintype.card_fin, mul_comm]
  obtain ⟨f, hinj, hf⟩ := (Finset.all_card_le_biUnion_card_iff_existsInjective' t).mp hHall
  refine ⟨fun i p => #{k : Fin (d i) | (f ⟨i, k⟩).1 = p}, ?_, ?_, ?_⟩
  · intro i p hp
    rw [card_eq_zero, filter_eq_empty_iff]
    intro k _ h
    have := hf ⟨i, k⟩
    simp only [t, mem_product, mem_univ, and_true] at this
    exact hp (h ▸ this)
  · intro i
    have := card_eq_sum_card_fiberwise (f := fun k : Fin (d i) => (f ⟨i, k⟩).1)
      (s := Finset.univ) (t := Finset.univ) (by intro _ _; simp)
    simpa using this.symm
  · intro p
    have hs : ∑ i, #{k : Fin (d i) | (f ⟨i, k⟩).1 = p}
        = #{u : (Σ i, Fin (d i)) | (f u).1 = p} := by
      have : ({u : (Σ i, Fin (d i)) | (f u).1 = p} : Finset _)
          = (Finset.univ : Finset ι).sigma (fun i => {k : Fin (d i) | (f ⟨i, k⟩).1 = p}) := by
        ext ⟨i, k⟩; simp
      rw [this, card_sigma]
    rw [hs]
    have := card_le_card_of_injOn (s := ({u : (Σ i, Fin (d i)) | (f u).1 = p} : Finset _))
      (t := (Finset.univ : Finset (Fin c))) (fun u => (f u).2) (by intro _ _; simp)
      (by
        intro u hu u' hu' he
        simp only [coe_filter, mem_univ, true_and, Set.mem_ofPred_eq] at hu hu'
        exact hinj (Prod.ext (hu.trans hu'.symm) he))
    simpa using this

/-- a non-negative rational whose denominator divides `D` is a natural multiple of `1/D` -/
theorem exists_nat_eq_mul (q : ℚ) (hq : 0 ≤ q) (D : ℕ) (h : q.den ∣ D) :
    ∃ k : ℕ, (k : ℚ) = q * D := by
  obtain ⟨e, rfl⟩ := h
  refine ⟨q.num.toNat * e, ?_⟩
  have hnum : ((q.num.toNat : ℤ) : ℚ) = q.num := by
    rw [Int.toNat_of_nonneg (Rat.num_nonneg.mpr hq)]
  have h1 : ((q.num.toNat : ℕ) : ℚ) = q.num := by exact_mod_cast hnum
  have h2 : q * q.den = q.num := Rat.mul_den_eq_num q
  push_cast
  rw [h1, ← h2]; ring

/-- **fractional supply–demand theorem** (rational data, uniform capacity `T` per port): if every
    set `J` of demanders satisfies `Σ_{i∈J} a i ≤ T·|⋃_{i∈J} N i|`, there is a non-negative
    transport plan supported on the admissible ports, serving every demand exactly and loading
    no port beyond `T`. -/
theorem frac_hall {ι P : Type} [Fintype ι] [DecidableEq ι] [Fintype P] [DecidableEq P]
    (a : ι → ℚ) (N : ι → Finset P) (T : ℚ) (ha : ∀ i, 0 ≤ a i) (hT : 0 ≤ T)
    (hall : ∀ J : Finset ι, ∑ i ∈ J, a i ≤ T * (#(J.biUnion N) : ℚ)) :
    ∃ x : ι → P → ℚ, (∀ i p, 0 ≤ x i p) ∧ (∀ i p, p ∉ N i → x i p = 0) ∧
      (∀ i, ∑ p, x i p = a i) ∧ (∀ p, ∑ i, x i p ≤ T) := by
  classical
  obtain ⟨D, hDpos, hDT, hDa⟩ : ∃ D : ℕ, 0 < D ∧ T.den ∣ D ∧ ∀ i, (a i).den ∣ D :=
    ⟨T.den * ∏ i, (a i).den,
      Nat.mul_pos T.den_pos (Finset.prod_pos fun i _ => (a i).den_pos),
      dvd_mul_right _ _,
      fun i => dvd_mul_of_dvd_right (Finset.dvd_prod_of_mem _ (mem_univ i)) _⟩
  have hDq : (0 : ℚ) < D := by exact_mod_cast hDpos
  obtain ⟨c, hc⟩ := exists_nat_eq_mul T hT D hDT
  choose d hd using fun i => exists_nat_eq_mul (a i) (ha i) D (hDa i)
  obtain ⟨y, hy0, hyr, hyc⟩ := nat_hall d N c (by
    intro J
    have h' : ((∑ i ∈ J, d i : ℕ) : ℚ) ≤ ((c * #(J.biUnion N) : ℕ) : ℚ) := by
      push_cast
      simp only [hd, hc]
      rw [← Finset.sum_mul]
      have := mul_le_mul_of_nonneg_right (hall J) hDq.le
      linarith
    exact_mod_cast h')
  refine ⟨fun i p => (y i p : ℚ) / D, ?_, ?_, ?_, ?_⟩
  · intro i p; exact div_nonneg (Nat.cast_nonneg _) hDq.le
  · intro i p hp; simp [hy0 i p hp]
  · intro i
    rw [← Finset.sum_div, div_eq_iff hDq.ne']
    have : ((∑ p, y i p : ℕ) : ℚ) = d i := by rw [hyr i]
    push_cast at this
    rw [this, hd]
  · intro p
    rw [← Finset.sum_div, div_le_iff₀ hDq, ← hc]
    exact_mod_cast hyc p

/-! ### list ↔ `Finset.sum` bridges -/

open OsacaVerif OsacaVerif.Ports OsacaVerif.Spec

theorem sum_map_eq_range {α : Type} (l : List α) (f : α → ℚ) (d : α) :
    (l.map f).sum = ∑ i ∈ range l.length, f (l.getD i d) := by
  induction l with
  | nil => simp
  | cons a l ih =>
    rw [List.length_cons, Finset.sum_range_succ', List.map_cons, List.sum_cons, ih]
    simp [add_comm]

theorem sum_eq_range (l : List ℚ) : l.sum = ∑ i ∈ range l.length, l.getD i 0 := by
  simpa using sum_map_eq_range l id 0

theorem sum_filter_map {α : Type} (l : List α) (p : α → Bool) (f : α → ℚ) :
    ((l.filter p).map f).sum = (l.map fun u => if p u then f u else 0).sum := by
  induction l with
  | nil => simp
  | cons a l ih => by_cases h : p a <;> simp [h, ih]

theorem confined_eq_range (us : List Uop) (S : List Nat) :
    confined us S = ∑ i ∈ range us.length,
      if (us.getD i default).ports.all (· ∈ S) then (us.getD i default).amount else 0 := by
  unfold confined
  rw [sum_filter_map, sum_map_eq_range _ _ default]

theorem totalAmount_eq_range (us : List Uop) :
    totalAmount us = ∑ i ∈ range us.length, (us.getD i default).amount :=
  sum_map_eq_range _ _ _

theorem sumOn_eq_sum (v : List ℚ) (S : List Nat) (hS : S.Nodup) :
    sumOn v S = ∑ p ∈ S.toFinset, v.getD p 0 := by
  unfold sumOn
  exact (List.sum_toFinset _ hS).symm

theorem length_colSums (n : Nat) (x : List (List ℚ)) : (Spec.colSums n x).length = n := by
  simp [Spec.colSums]

theorem getD_colSums (n : Nat) (x : List (List ℚ)) (p : Nat) (hp : p < n) :
    (Spec.colSums n x).getD p 0 = ∑ i ∈ range x.length, (x.getD i []).getD p 0 := by
  unfold Spec.colSums
  rw [List.getD_eq_getElem _ _ (by simpa using hp)]
  simp only [List.getElem_map, List.getElem_range]
  exact sum_map_eq_range x (fun r => r.getD p 0) []

section
variable {n : Nat} {us : List Uop} {x : List (List ℚ)}

theorem _root_.OsacaVerif.Spec.Assignment.getD_mem (h : Assignment n us x) (i : Nat) (hi : i < us.length) :
    x.getD i [] ∈ x := by
  have : i < x.length := h.rows ▸ hi
  rw [List.getD_eq_getElem _ _ this]
  exact List.getElem_mem _

theorem _root_.OsacaVerif.Spec.Assignment.entry_nonneg (h : Assignment n us x) (i p : Nat) :
    0 ≤ (x.getD i []).getD p 0 := by
  by_cases hi : i < x.length
  · have hm : x.getD i [] ∈ x := by
      rw [List.getD_eq_getElem _ _ hi]; exact List.getElem_mem _
    by_cases hp : p < (x.getD i []).length
    · rw [List.getD_eq_getElem _ _ hp]
      exact h.nonneg _ hm _ (List.getElem_mem _)
    · rw [List.getD_eq_default _ _ (not_lt.mp hp)]
  · rw [List.getD_eq_default x _ (not_lt.mp hi)]
    simp

theorem _root_.OsacaVerif.Spec.Assignment.rowSum_range (h : Assignment n us x) (i : Nat) (hi : i < us.length) :
    ∑ p ∈ range n, (x.getD i []).getD p 0 = (us.getD i default).amount := by
  rw [← h.rowSum i hi, sum_eq_range, h.width _ (h.getD_mem i hi)]

end

/-- `maxLoad` dominates every entry -/
theorem getD_le_maxLoad (v : List ℚ) (p : Nat) (hp : p < v.length) : v.getD p 0 ≤ maxLoad v := by
  rw [List.getD_eq_getElem _ _ hp]
  exact (le_foldl_max v 0).2 _ (List.getElem_mem _)

theorem maxLoad_nonneg (v : List ℚ) : 0 ≤ maxLoad v := (le_foldl_max v 0).1

theorem maxLoad_le_iff (v : List ℚ) (B : ℚ) : maxLoad v ≤ B ↔ 0 ≤ B ∧ ∀ c ∈ v, c ≤ B :=
  foldl_max_le_iff v 0 B

end OsacaVerif.Duality
