import OsacaVerif.Model.Import
import Mathlib.Data.Rat.Floor
import Mathlib.Tactic.Linarith
import Mathlib.Tactic.NormNum
import Mathlib.Tactic.Ring
import Mathlib.Tactic.Positivity
/-
  Arithmetic facts about the snapping functions of the benchmark importer (C20).
-/
namespace OsacaVerif.Import
open OsacaVerif.Gen.Import

theorem floor_le' (q : ℚ) : ((q.floor : ℤ) : ℚ) ≤ q := Int.floor_le q
theorem lt_floor_add_one' (q : ℚ) : q < ((q.floor : ℤ) : ℚ) + 1 := Int.lt_floor_add_one q
theorem le_floor' (z : ℤ) (q : ℚ) (h : (z : ℚ) ≤ q) : z ≤ q.floor := Int.le_floor.mpr h

theorem le_ceilI (q : ℚ) : q ≤ ((ceilI q : ℤ) : ℚ) := by
  have := floor_le' (-q)
  unfold ceilI; push_cast; linarith
theorem ceilI_lt_add_one (q : ℚ) : ((ceilI q : ℤ) : ℚ) < q + 1 := by
  have := lt_floor_add_one' (-q)
  unfold ceilI; push_cast; linarith
theorem ceilI_le (z : ℤ) (q : ℚ) (h : q ≤ (z : ℚ)) : ceilI q ≤ z := by
  have : (-z) ≤ (-q).floor := le_floor' (-z) (-q) (by push_cast; linarith)
  unfold ceilI; omega

/-- `round` is a nearest integer -/
theorem roundHalfEven_near (q : ℚ) : |q - (roundHalfEven q : ℚ)| ≤ 1 / 2 := by
  have h1 := floor_le' q
  have h2 := lt_floor_add_one' q
  unfold roundHalfEven
  simp only []
  rw [abs_le]
  split
  · constructor <;> linarith
  · split
    · push_cast; constructor <;> linarith
    · split
      · constructor <;> linarith
      · push_cast; constructor <;> linarith

/-- it is the floor or the floor plus one; in the second case the fractional part is ≥ 1/2,
    and on an exact tie the even neighbour is taken -/
theorem roundHalfEven_cases (q : ℚ) :
    (roundHalfEven q = q.floor ∧ (q - (q.floor : ℚ) < 1 / 2 ∨ (q - (q.floor : ℚ) = 1 / 2 ∧ q.floor % 2 = 0))) ∨
    (roundHalfEven q = q.floor + 1 ∧ (1 / 2 < q - (q.floor : ℚ) ∨ (q - (q.floor : ℚ) = 1 / 2 ∧ q.floor % 2 ≠ 0))) := by
  unfold roundHalfEven
  simp only []
  split
  · left; exact ⟨rfl, Or.inl ‹_›⟩
  · split
    · right; exact ⟨rfl, Or.inl ‹_›⟩
    · have : q - (q.floor : ℚ) = 1 / 2 := le_antisymm (not_lt.mp ‹_›) (not_lt.mp ‹¬ q - (q.floor : ℚ) < 1 / 2›)
      split
      · left; exact ⟨rfl, Or.inr ⟨this, ‹_›⟩⟩
      · right; exact ⟨rfl, Or.inr ⟨this, ‹_›⟩⟩


/-! ### latency -/

theorem ceilI_eq_or (q : ℚ) : ceilI q = q.floor ∨ ceilI q = q.floor + 1 := by
  have h1 := floor_le' q
  have h2 := lt_floor_add_one' q
  have h3 := le_ceilI q
  have h4 := ceilI_lt_add_one q
  have a : q.floor ≤ ceilI q := by
    have : ((q.floor : ℤ) : ℚ) ≤ ((ceilI q : ℤ) : ℚ) := by linarith
    exact_mod_cast this
  have b : ceilI q < q.floor + 2 := by
    have : ((ceilI q : ℤ) : ℚ) < ((q.floor + 2 : ℤ) : ℚ) := by push_cast; linarith
    exact_mod_cast this
  omega

/-- accepted latency measurements: the result is a nearest integer, within 5 % of itself -/
theorem validateLt_sound (m r : ℚ) (h : validateLt m = some r) :
    ∃ k : ℤ, r = (k : ℚ) ∧ 0 ≤ k ∧ |m - (k : ℚ)| ≤ 1 / 2 ∧ |m - (k : ℚ)| ≤ 1 / 20 * (k : ℚ) := by
  unfold validateLt at h
  split at h
  case isFalse => cases h
  case isTrue hc =>
    simp only [ltHi, ltLo] at hc
    injection h with h
    refine ⟨roundHalfEven m, h.symm, ?_, roundHalfEven_near m, ?_⟩
    all_goals
      have h1 := floor_le' m
      have h2 := lt_floor_add_one' m
      have h3 := le_ceilI m
      have h4 := ceilI_lt_add_one m
    · -- non-negativity
      rcases roundHalfEven_cases m with ⟨e, _⟩ | ⟨e, _⟩ <;> rw [e]
      · rcases hc with hc | hc
        · have : (0 : ℚ) ≤ (m.floor : ℚ) := by linarith
          exact_mod_cast this
        · rcases ceilI_eq_or m with e2 | e2
          · rw [e2] at hc h3
            have : (0 : ℚ) ≤ (m.floor : ℚ) := by linarith
            exact_mod_cast this
          · rw [e2] at hc; push_cast at hc
            have : (-1 : ℚ) < (m.floor : ℚ) := by linarith
            have : (-1 : ℤ) < m.floor := by exact_mod_cast this
            omega
      · rcases hc with hc | hc
        · have : (0 : ℚ) ≤ (m.floor : ℚ) := by linarith
          have : (0 : ℤ) ≤ m.floor := by exact_mod_cast this
          omega
        · rcases ceilI_eq_or m with e2 | e2
          · rw [e2] at hc h3
            have : (0 : ℚ) ≤ (m.floor : ℚ) := by linarith
            have : (0 : ℤ) ≤ m.floor := by exact_mod_cast this
            omega
          · rw [e2] at hc; push_cast at hc
            have : (-1 : ℚ) < (m.floor : ℚ) := by linarith
            have : (-1 : ℤ) < m.floor := by exact_mod_cast this
            omega
    · -- within 5 % of the result
      rw [abs_le]
      rcases roundHalfEven_cases m with ⟨e, hd⟩ | ⟨e, hd⟩ <;> rw [e]
      · -- result = floor
        rcases hc with hc | hc
        · constructor <;> linarith
        · rcases ceilI_eq_or m with e2 | e2
          · rw [e2] at hc h3; constructor <;> linarith
          · rw [e2] at hc; push_cast at hc
            -- (f+1)*19/20 ≤ m, m - f ≤ 1/2  ⇒  f ≥ 9; f = 9 is an odd tie (excluded), else f ≥ 10
            have hd' : m - (m.floor : ℚ) ≤ 1 / 2 := by rcases hd with hd | ⟨hd, _⟩ <;> linarith
            have h9 : (9 : ℚ) ≤ (m.floor : ℚ) := by linarith
            have h9' : (9 : ℤ) ≤ m.floor := by exact_mod_cast h9
            rcases (show m.floor = 9 ∨ 10 ≤ m.floor by omega) with e9 | h10
            · exfalso
              rcases hd with hd | ⟨_, hev⟩
              · rw [e9] at hc hd; push_cast at hc hd; linarith
              · rw [e9] at hev; omega
            · have : (10 : ℚ) ≤ (m.floor : ℚ) := by exact_mod_cast h10
              constructor <;> linarith
      · -- result = floor + 1
        push_cast
        have hd' : 1 / 2 ≤ m - (m.floor : ℚ) := by rcases hd with hd | ⟨hd, _⟩ <;> linarith
        rcases hc with hc | hc
        · constructor <;> linarith
        · rcases ceilI_eq_or m with e2 | e2
          · rw [e2] at h3; exfalso; linarith
          · rw [e2] at hc; push_cast at hc; constructor <;> linarith

/-- a measurement strictly within 5 % of an integer is accepted -/
theorem validateLt_complete (m : ℚ) (k : ℤ) (h : |m - (k : ℚ)| < 1 / 20 * (k : ℚ)) :
    (validateLt m).isSome = true := by
  have h1 := floor_le' m
  have h3 := le_ceilI m
  have h4 := ceilI_lt_add_one m
  rw [abs_lt] at h
  unfold validateLt
  split
  · rfl
  exfalso
  rename_i hc
  apply hc
  simp only [ltHi, ltLo]
  rcases le_or_gt (k : ℚ) m with hk | hk
  · left
    have : k ≤ m.floor := le_floor' k m hk
    have : (k : ℚ) ≤ (m.floor : ℚ) := by exact_mod_cast this
    linarith
  · right
    have hck : ceilI m ≤ k := ceilI_le k m hk.le
    rcases (show ceilI m = k ∨ ceilI m + 1 ≤ k by omega) with e | hlt
    · rw [e]; linarith
    · have : ((ceilI m : ℤ) : ℚ) + 1 ≤ (k : ℚ) := by exact_mod_cast hlt
      have hk20 : (20 : ℚ) < (k : ℚ) := by linarith
      have : (19 : ℚ) < ((ceilI m : ℤ) : ℚ) := by linarith
      have : (19 : ℤ) < ceilI m := by exact_mod_cast this
      have : (20 : ℚ) ≤ ((ceilI m : ℤ) : ℚ) := by exact_mod_cast (show (20 : ℤ) ≤ ceilI m by omega)
      linarith


/-! ### throughput -/

theorem reciprocals_eq : reciprocals = [1, 2, 3, 4, 5, 6, 7, 8, 9, 10] := by decide

theorem mem_reciprocals (n : ℕ) : n ∈ reciprocals ↔ 1 ≤ n ∧ n ≤ 10 := by
  rw [reciprocals_eq]; simp only [List.mem_cons, List.not_mem_nil, or_false]; omega

/-- the window test, multiplied out -/
theorem inTpWindow_mul (m : ℚ) (n : ℕ) (hn : 0 < n) :
    inTpWindow m n = true ↔ 19 / 20 ≤ m * (n : ℚ) ∧ m * (n : ℚ) ≤ 21 / 20 := by
  have hq : (0 : ℚ) < (n : ℚ) := by exact_mod_cast hn
  unfold inTpWindow
  rw [decide_eq_true_iff]
  simp only [tpLo, tpHi]
  rw [one_div_mul_eq_div, one_div_mul_eq_div, div_le_iff₀ hq, le_div_iff₀ hq]

/-- the window test is "within 5 % of 1/n" -/
theorem inTpWindow_iff (m : ℚ) (n : ℕ) (hn : 0 < n) :
    inTpWindow m n = true ↔ |m - 1 / (n : ℚ)| ≤ 1 / 20 / (n : ℚ) := by
  have hq : (0 : ℚ) < (n : ℚ) := by exact_mod_cast hn
  rw [inTpWindow_mul m n hn, abs_le]
  have e1 : (1 : ℚ) / 20 / (n : ℚ) = 1 / 20 * (1 / (n : ℚ)) := by ring
  have e2 : m = m * (n : ℚ) * (1 / (n : ℚ)) := by field_simp
  have hp : (0 : ℚ) < 1 / (n : ℚ) := by positivity
  rw [e1]
  constructor
  · rintro ⟨a, b⟩
    constructor
    · have := mul_le_mul_of_nonneg_right a hp.le
      rw [← e2] at this; linarith
    · have := mul_le_mul_of_nonneg_right b hp.le
      rw [← e2] at this; linarith
  · rintro ⟨a, b⟩
    have e3 : (1 : ℚ) / (n : ℚ) * (n : ℚ) = 1 := by field_simp
    constructor
    · have := mul_le_mul_of_nonneg_right a hq.le
      nlinarith
    · have := mul_le_mul_of_nonneg_right b hq.le
      nlinarith

/-- the ten 5 % windows are pairwise disjoint (this is what fails for an eleventh reciprocal) -/
theorem tp_windows_disjoint' (m : ℚ) (a b : ℕ) (ha : 1 ≤ a) (hab : a < b) (hb : b ≤ 10)
    (wa : inTpWindow m a = true) (wb : inTpWindow m b = true) : False := by
  rw [inTpWindow_mul m a (by omega)] at wa
  rw [inTpWindow_mul m b (by omega)] at wb
  have h9 : (a : ℚ) ≤ 9 := by exact_mod_cast (show a ≤ 9 by omega)
  have h1 : (1 : ℚ) ≤ (a : ℚ) := by exact_mod_cast ha
  have hs : (a : ℚ) + 1 ≤ (b : ℚ) := by exact_mod_cast (show a + 1 ≤ b by omega)
  have hm : 0 < m := by
    by_contra hneg
    have : m * (a : ℚ) ≤ 0 := mul_nonpos_of_nonpos_of_nonneg (not_lt.mp hneg) (by linarith)
    linarith [wa.1]
  have k1 := mul_le_mul_of_nonneg_left hs hm.le
  have k2 := mul_le_mul_of_nonneg_left h9 hm.le
  nlinarith [wa.1, wb.2]

theorem tp_windows_disjoint (m : ℚ) (a b : ℕ) (ha : 1 ≤ a ∧ a ≤ 10) (hb : 1 ≤ b ∧ b ≤ 10)
    (wa : inTpWindow m a = true) (wb : inTpWindow m b = true) : a = b := by
  rcases Nat.lt_trichotomy a b with h | h | h
  · exact (tp_windows_disjoint' m a b ha.1 h hb.2 wa wb).elim
  · exact h
  · exact (tp_windows_disjoint' m b a hb.1 h ha.2 wb wa).elim

theorem validateTp_some_iff (m r : ℚ) :
    validateTp m = some r ↔
      ∃ n : ℕ, 1 ≤ n ∧ n ≤ 10 ∧ inTpWindow m n = true ∧ r = roundDigitsHE roundDigits (1 / (n : ℚ)) := by
  unfold validateTp
  constructor
  · intro h
    rw [Option.map_eq_some_iff] at h
    obtain ⟨n, hf, hr⟩ := h
    have hw := List.find?_some hf
    have hmem := List.mem_of_find?_eq_some hf
    rw [mem_reciprocals] at hmem
    exact ⟨n, hmem.1, hmem.2, hw, hr.symm⟩
  · rintro ⟨n, h1, h10, hw, hr⟩
    have hmem : n ∈ reciprocals := (mem_reciprocals n).mpr ⟨h1, h10⟩
    cases hf : reciprocals.find? (inTpWindow m) with
    | none =>
      rw [List.find?_eq_none] at hf
      exact absurd hw (hf n hmem)
    | some n' =>
      have hw' := List.find?_some hf
      have hmem' := (mem_reciprocals n').mp (List.mem_of_find?_eq_some hf)
      have : n' = n := tp_windows_disjoint m n' n hmem' ⟨h1, h10⟩ hw' hw
      subst this
      simp [hr]

theorem validateTp_none_iff (m : ℚ) :
    validateTp m = none ↔ ∀ n : ℕ, 1 ≤ n → n ≤ 10 → inTpWindow m n = false := by
  unfold validateTp
  rw [Option.map_eq_none_iff, List.find?_eq_none]
  constructor
  · intro h n h1 h10
    have := h n ((mem_reciprocals n).mpr ⟨h1, h10⟩)
    simpa using this
  · intro h n hn
    have := (mem_reciprocals n).mp hn
    simp [h n this.1 this.2]

/-- the ten values the importer can record -/
theorem tp_values :
    reciprocals.map (fun (n : ℕ) => roundDigitsHE roundDigits (1 / (n : ℚ))) =
      [1, 1 / 2, 33333 / 100000, 1 / 4, 1 / 5, 16667 / 100000, 14286 / 100000, 1 / 8, 11111 / 100000, 1 / 10] := by
  decide +kernel

end OsacaVerif.Import
