import OsacaVerif.Lemmas.ParseX86Mem
/-
  C09 — operand level: on the rendering of an operand of the domain, followed by blanks and a
  separator, the longest-match choice among the grammar's alternatives picks the intended one.
-/
namespace OsacaVerif.ParseX86
open OsacaVerif.Text OsacaVerif.X86 OsacaVerif.Spec.X86R

/-! ### `memory` where no memory operand starts -/

/-- no alternative of `memory` can start at such a character (or at the end of the text) -/
theorem memory_none_of_next {t : Txt}
    (h : ∀ c, nextC t = some c →
      c ≠ 42 ∧ c ≠ 37 ∧ c ≠ 45 ∧ c ≠ 40 ∧ isDigitC c = false ∧ isIdFirst c = false) :
    memory t = none := by
  have h42 : nextC t ≠ some 42 := fun e => (h 42 e).1 rfl
  have h37 : nextC t ≠ some 37 := fun e => (h 37 e).2.1 rfl
  have h40 : nextC t ≠ some 40 := fun e => (h 40 e).2.2.2.1 rfl
  have hoff : offsetG t = none := offsetG_none (fun c hc => ⟨(h c hc).2.2.1, (h c hc).2.2.2.2.1, (h c hc).2.2.2.2.2⟩)
  have hhex : hexNumber t = none := hexNumber_none (fun c hc =>
    ⟨(h c hc).2.2.1, by intro e; subst e; have := (h 48 hc).2.2.2.2.1; simp [isDigitC] at this⟩)
  have hdec : decimalNumber t = none := decimalNumber_none (fun c hc => ⟨(h c hc).2.2.1, (h c hc).2.2.2.2.1⟩)
  have hmain : memMain t = none := by
    unfold memMain
    simp only [optR, lit1_none h42, Option.getD_none]
    rw [opt_skipWs offsetG offsetG_skipWs]
    simp only [opt, hoff]
    simp [parenPart, lit1_none h40]
  have habs : memAbs t = none := by simp [memAbs, lit1_none h42]
  have hseg : memSeg t = none := by simp [memSeg, optR, lit1_none h42, register_none h37]
  have hbare : memBare t = none := by simp [memBare, hhex, hdec]
  simp [memory, hmain, habs, hseg, hbare]

theorem immediate_none {t : Txt} (h : nextC t ≠ some 36) : immediate t = none := by
  simp [immediate, lit1_none h]

theorem numericIdentifier_none {t : Txt} (h : ∀ c, nextC t = some c → isDigitC c = false) :
    numericIdentifier t = none := by
  unfold numericIdentifier word nextC at *
  cases hs : skipWs t with
  | nil => simp [wordRaw, spanP]
  | cons c cs => rw [hs] at h; simp [wordRaw_stops (Stops.cons (h c rfl))]

/-- after the last operand: nothing that could be an operand starts at `,`, `#`, `/` or the end -/
theorem operandRest_none {t : Txt} (h : ∀ c, nextC t = some c → SepC c = true) : operandRest t = none := by
  have hc : ∀ c, nextC t = some c → c = 44 ∨ c = 35 ∨ c = 47 := by
    intro c hc; have := h c hc; simp [SepC] at this; omega
  have h1 : register t = none := register_none (by intro e; rcases hc _ e with h | h | h <;> cases h)
  have h2 : immediate t = none := immediate_none (by intro e; rcases hc _ e with h | h | h <;> cases h)
  have h3 : memory t = none := memory_none_of_next (by
    intro c hcc; rcases hc c hcc with h | h | h <;> subst h <;> decide)
  simp [operandRest, h1, h2, h3, longest]

theorem operandFirst_none {t : Txt} (h : ∀ c, nextC t = some c → SepC c = true) : operandFirst t = none := by
  have hc : ∀ c, nextC t = some c → c = 44 ∨ c = 35 ∨ c = 47 := by
    intro c hc; have := h c hc; simp [SepC] at this; omega
  have h1 : register t = none := register_none (by intro e; rcases hc _ e with h | h | h <;> cases h)
  have h2 : immediate t = none := immediate_none (by intro e; rcases hc _ e with h | h | h <;> cases h)
  have h3 : memory t = none := memory_none_of_next (by
    intro c hcc; rcases hc c hcc with h | h | h <;> subst h <;> decide)
  have h4 : identifier isIdRest true t = none := identifier_none (by
    intro c hcc; rcases hc c hcc with h | h | h <;> subst h <;> decide)
  have h5 : numericIdentifier t = none := numericIdentifier_none (by
    intro c hcc; rcases hc c hcc with h | h | h <;> subst h <;> decide)
  simp [operandFirst, h1, h2, h3, h4, h5, longest]

/-! ### the other first-operand alternatives on a displacement -/

theorem digit_not_idFirst (c : Nat) (h : isDigitC c = true) : isIdFirst c = false := by
  simp [isDigitC, isIdFirst, isAlphaC] at *; omega
theorem digit_idRest (c : Nat) (h : isDigitC c = true) : isIdRest c = true := by
  simp [isIdRest, isAlnumC, h]
theorem hex_idRest (c : Nat) (h : isHexC c = true) : isIdRest c = true := by
  simp [isHexC, isDigitC, isIdRest, isAlnumC, isAlphaC] at *; omega

/-- what stands after a token never continues a name -/
theorem tail_name_stop {S : Nat → Bool} (hS : ∀ c, S c = true → Punct c = true) {T : Txt}
    (hT : Tail S T) : ∀ d, T.head? = some d → isIdRest d = false ∧ d ≠ 58 := by
  intro d hd
  rcases (hT.mono hS).1 d hd with h | h
  · exact ⟨ws_not_idRest d h, by intro e; subst e; simp [isWs] at h⟩
  · exact ⟨punct_not_idRest d h, by intro e; subst e; simp [Punct] at h⟩

/-- a name made of `-`, digits, `x`, hex digits directly before the tail -/
theorem identifier_minus {S : Nat → Bool} (hS : ∀ c, S c = true → Punct c = true) {B b T : Txt}
    (hB : ∀ c ∈ B, isIdRest c = true) (hb : AllWs b) (hT : Tail S T) :
    identifier isIdRest true (b ++ (45 :: B ++ T)) = some (45 :: B, skipWs T) := by
  have hTP := hT.mono hS
  simp only [List.cons_append]
  have hsk : skipWs (b ++ 45 :: (B ++ T)) = 45 :: (B ++ T) := by
    rw [skipWs_append hb]; exact skipWs_cons_not (by decide)
  have hnx : nextC (b ++ 45 :: (B ++ T)) = some 45 := by simp [nextC, hsk]
  have hido : idOffset (b ++ 45 :: (B ++ T)) = none :=
    idOffset_none (by intro d hd; rw [hnx] at hd; cases hd; decide)
  have hnt := nameTail_ok hB (tail_name_stop hS hT)
  have hrel : relocation T = none := relocation_none (hTP.next_ne (by decide))
  have htr : trailOffset (skipWs T) = none := trailOffset_none (by
    intro d hd; rw [nextC_skipWs] at hd
    have := hTP.2 d hd
    refine ⟨?_, ?_, punct_not_digit d this⟩ <;> (intro e; subst e; simp [Punct] at this))
  simp [identifier, optR, hido, hsk, skipWs_cons_not (show isWs 45 = false by decide), nameRaw,
    show isIdFirst 45 = true by decide, hnt, hrel, htr]

/-- on a rendered integer followed by a tail, the identifier alternative (a name may start with
    `-`) and the numeric-label alternative never get further than the blanks of the tail -/
theorem others_on_num {S : Nat → Bool} (hS : ∀ c, S c = true → Punct c = true) (f : NumFmt) (v : Int)
    {b T : Txt} (hb : AllWs b) (hT : Tail S T) :
    (∀ x r, identifier isIdRest true (b ++ (renderInt f v ++ T)) = some (x, r) →
      (skipWs T).length ≤ r.length) ∧
    (∀ x r, numericIdentifier (b ++ (renderInt f v ++ T)) = some (x, r) →
      (skipWs T).length ≤ r.length) := by
  have hTP := hT.mono hS
  have sd : Stops isDigitC T := hTP.stops ws_not_digit punct_not_digit
  have h43 : lit [43] T = none := lit1_none (hTP.next_ne (by decide))
  have hsuf : word1 isSuffixC T = none := word1_none (by
    intro c hc; have := hTP.2 c hc; simp [Punct] at this; simp [isSuffixC]; omega)
  rcases renderInt_shape f v with ⟨D, hne, hD, hR | hR⟩ | ⟨H, hne, hH, hR | hR⟩
  · -- decimal digits
    rw [hR]
    have hdw : ∀ c ∈ D, isWs c = false := fun c hc => digit_not_ws c (hD c hc)
    have hw : word isDigitC (b ++ (D ++ T)) = some (D, T) := word_append hb hne hD hdw sd
    obtain ⟨d, D', rfl⟩ : ∃ d D', D = d :: D' := by
      cases D with
      | nil => exact absurd rfl hne
      | cons d D' => exact ⟨d, D', rfl⟩
    simp only [List.cons_append] at hw ⊢
    have hsk : skipWs (b ++ d :: (D' ++ T)) = d :: (D' ++ T) := by
      rw [skipWs_append hb]; exact skipWs_cons_not (hdw d (by simp))
    constructor
    · intro x r h
      have hido : idOffset (b ++ d :: (D' ++ T)) = none := by
        simp only [idOffset, hw, Option.bind_some, h43]
      simp [identifier, optR, hido, hsk, skipWs_cons_not (hdw d (by simp)), nameRaw,
        digit_not_idFirst d (hD d (by simp))] at h
    · intro x r h
      simp only [numericIdentifier, hw, Option.map_some, optR, hsuf, Option.map_none,
        Option.getD_none, Option.some.injEq, Prod.mk.injEq] at h
      rw [← h.2]; exact Nat.le_refl _
  · -- `-` and decimal digits
    rw [hR]
    constructor
    · intro x r h
      rw [identifier_minus hS (fun c hc => digit_idRest c (hD c hc)) hb hT] at h
      simp at h; rw [← h.2]; exact Nat.le_refl _
    · intro x r h
      have : numericIdentifier (b ++ (45 :: D ++ T)) = none := numericIdentifier_none (by
        intro c hc
        rw [nextC_append hb, List.cons_append, nextC_cons (by decide)] at hc; cases hc; decide)
      rw [this] at h; cases h
  · -- `0x` and hex digits
    rw [hR]
    have hw : word isDigitC (b ++ ([48] ++ 120 :: (H ++ T))) = some ([48], 120 :: (H ++ T)) :=
      word_append (p := isDigitC) (w := [48]) (t := 120 :: (H ++ T)) hb (by simp)
        (by intro c hc; simp at hc; subst hc; decide) (by intro c hc; simp at hc; subst hc; decide)
        (Stops.cons (by decide))
    simp only [List.cons_append, List.nil_append] at hw ⊢
    have hsk : skipWs (b ++ 48 :: 120 :: (H ++ T)) = 48 :: 120 :: (H ++ T) := by
      rw [skipWs_append hb]; exact skipWs_cons_not (by decide)
    have h120 : nextC (120 :: (H ++ T)) = some 120 := nextC_cons (by decide)
    have hp120 : lit [43] (120 :: (H ++ T)) = none := lit1_none (by rw [h120]; decide)
    constructor
    · intro x r h
      have hido : idOffset (b ++ 48 :: 120 :: (H ++ T)) = none := by
        simp only [idOffset, hw, Option.bind_some, hp120]
      simp [identifier, optR, hido, hsk, skipWs_cons_not (show isWs 48 = false by decide), nameRaw,
        show isIdFirst 48 = false by decide] at h
    · intro x r h
      have hs2 : word1 isSuffixC (120 :: (H ++ T)) = none :=
        word1_none (by intro c hc; rw [h120] at hc; cases hc; decide)
      simp only [numericIdentifier, hw, Option.map_some, optR, hs2, Option.map_none,
        Option.getD_none, skipWs_cons_not (show isWs 120 = false by decide), Option.some.injEq,
        Prod.mk.injEq] at h
      rw [← h.2]
      have := skipWs_length_le T
      simp; omega
  · -- `-0x` and hex digits
    rw [hR]
    constructor
    · intro x r h
      have hB : ∀ c ∈ 48 :: 120 :: H, isIdRest c = true := by
        intro c hc
        rcases List.mem_cons.mp hc with h | hc
        · subst h; decide
        · rcases List.mem_cons.mp hc with h | hc
          · subst h; decide
          · exact hex_idRest c (hH c hc)
      have := identifier_minus hS hB hb hT
      simp only [List.cons_append] at this h
      rw [this] at h
      simp at h; rw [← h.2]; exact Nat.le_refl _
    · intro x r h
      have : numericIdentifier (b ++ (45 :: 48 :: 120 :: H ++ T)) = none := numericIdentifier_none (by
        intro c hc
        rw [nextC_append hb, List.cons_append, nextC_cons (by decide)] at hc; cases hc; decide)
      rw [this] at h; cases h

/-! ### `longest` -/

theorem longest_third {α : Type} (m : α) (r : Txt) (I N : Option (α × Txt))
    (hI : ∀ x r', I = some (x, r') → r.length ≤ r'.length)
    (hN : ∀ x r', N = some (x, r') → r.length ≤ r'.length) :
    longest [none, none, some (m, r), I, N] = some (m, r) := by
  cases I with
  | none =>
    cases N with
    | none => simp [longest]
    | some n =>
      obtain ⟨x, r'⟩ := n
      have := hN x r' rfl
      simp [longest]; omega
  | some i =>
    obtain ⟨y, r''⟩ := i
    have h1 := hI y r'' rfl
    cases N with
    | none => simp [longest]; omega
    | some n =>
      obtain ⟨x, r'⟩ := n
      have h2 := hN x r' rfl
      by_cases h : r'.length < r''.length <;> simp [longest, h] <;> omega

/-! ### `memory` on the other operand kinds, and on a bare number -/

theorem memory_none_reg {n b k : Txt} (hn : validReg n = true) (hb : AllWs b) (hk : Tail SepC k) :
    memory (b ++ 37 :: (n ++ k)) = none := by
  have hnx : nextC (b ++ 37 :: (n ++ k)) = some 37 := by
    rw [nextC_append hb]; exact nextC_cons (by decide)
  have h42 : nextC (b ++ 37 :: (n ++ k)) ≠ some 42 := by rw [hnx]; decide
  have h40 : nextC (b ++ 37 :: (n ++ k)) ≠ some 40 := by rw [hnx]; decide
  have hoff : offsetG (b ++ 37 :: (n ++ k)) = none :=
    offsetG_none (by intro c hc; rw [hnx] at hc; cases hc; decide)
  have hreg := register_ok SepC_punct (by decide) hn hb hk
  have h58 : lit [58] k = none := lit1_none (hk.next_ne (by decide))
  have hmain : memMain (b ++ 37 :: (n ++ k)) = none := by
    unfold memMain
    simp only [optR, lit1_none h42, Option.getD_none]
    rw [opt_skipWs offsetG offsetG_skipWs]
    simp only [opt, hoff]
    simp [parenPart, lit1_none h40]
  have habs : memAbs (b ++ 37 :: (n ++ k)) = none := by simp [memAbs, lit1_none h42]
  have hseg : memSeg (b ++ 37 :: (n ++ k)) = none := by
    simp [memSeg, optR, lit1_none h42, hreg, h58]
  have hbare : memBare (b ++ 37 :: (n ++ k)) = none := by
    have h1 : hexNumber (b ++ 37 :: (n ++ k)) = none :=
      hexNumber_none (by intro c hc; rw [hnx] at hc; cases hc; decide)
    have h2 : decimalNumber (b ++ 37 :: (n ++ k)) = none :=
      decimalNumber_none (by intro c hc; rw [hnx] at hc; cases hc; decide)
    simp [memBare, h1, h2]
  simp [memory, hmain, habs, hseg, hbare]

/-- `Group(hex_number | decimal_number | identifier)` on a label of the domain -/
theorem offsetG_ident {S : Nat → Bool} (hS : ∀ c, S c = true → Punct c = true) {n b k : Txt}
    (hn : validIdent n = true) (hb : AllWs b) (hk : Tail S k) :
    offsetG (b ++ (n ++ k)) = some (.ident n, skipWs k) ∧
    ∃ c, nextC (b ++ (n ++ k)) = some c ∧ isIdStart c = true := by
  cases n with
  | nil => simp [validIdent] at hn
  | cons c r =>
    have hc : isIdStart c = true := by
      simp only [validIdent, Bool.and_eq_true] at hn; exact hn.1
    obtain ⟨hf, hnd, hnw⟩ := spec_idStart c hc
    have h3 := identifier_ok hS hn hb hk
    simp only [List.cons_append] at h3 ⊢
    have hnx : nextC (b ++ c :: (r ++ k)) = some c := by
      rw [nextC_append hb]; exact nextC_cons hnw
    have hne : c ≠ 45 ∧ c ≠ 48 := by
      simp [isIdStart, Spec.X86R.isAlpha] at hc; omega
    have h1 : hexNumber (b ++ c :: (r ++ k)) = none :=
      hexNumber_none (by intro d hd; rw [hnx] at hd; cases hd; exact hne)
    have h2 : decimalNumber (b ++ c :: (r ++ k)) = none :=
      decimalNumber_none (by intro d hd; rw [hnx] at hd; cases hd; exact ⟨hne.1, hnd⟩)
    exact ⟨by simp only [offsetG, h1, h2, h3, Option.map_some], c, hnx, hc⟩

theorem idStart_facts (c : Nat) (hc : isIdStart c = true) :
    c ≠ 37 ∧ c ≠ 36 ∧ c ≠ 42 ∧ c ≠ 45 ∧ c ≠ 48 ∧ c ≠ 40 ∧ isDigitC c = false := by
  simp [isIdStart, Spec.X86R.isAlpha, isDigitC] at *; omega

theorem memory_none_ident {n b k : Txt} (hn : validIdent n = true) (hb : AllWs b) (hk : Tail SepC k) :
    memory (b ++ (n ++ k)) = none := by
  obtain ⟨hoff, c, hnx, hc⟩ := offsetG_ident SepC_punct hn hb hk
  obtain ⟨h37, _, h42, h45, h48, _, hnd⟩ := idStart_facts c hc
  have hs42 : nextC (b ++ (n ++ k)) ≠ some 42 := by rw [hnx]; intro e; cases e; exact h42 rfl
  have hs37 : nextC (b ++ (n ++ k)) ≠ some 37 := by rw [hnx]; intro e; cases e; exact h37 rfl
  have h40 : lit [40] k = none := lit1_none (hk.next_ne (by decide))
  have hmain : memMain (b ++ (n ++ k)) = none := by
    unfold memMain
    simp only [optR, lit1_none hs42, Option.getD_none]
    rw [opt_skipWs offsetG offsetG_skipWs]
    simp only [opt, hoff]
    simp [parenPart, h40]
  have habs : memAbs (b ++ (n ++ k)) = none := by simp [memAbs, lit1_none hs42]
  have hseg : memSeg (b ++ (n ++ k)) = none := by
    simp [memSeg, optR, lit1_none hs42, register_none hs37]
  have hbare : memBare (b ++ (n ++ k)) = none := by
    have h1 : hexNumber (b ++ (n ++ k)) = none :=
      hexNumber_none (by intro d hd; rw [hnx] at hd; cases hd; exact ⟨h45, h48⟩)
    have h2 : decimalNumber (b ++ (n ++ k)) = none :=
      decimalNumber_none (by intro d hd; rw [hnx] at hd; cases hd; exact ⟨h45, hnd⟩)
    simp [memBare, h1, h2]
  simp [memory, hmain, habs, hseg, hbare]

/-- first visible character of a rendered integer -/
theorem renderInt_next (f : NumFmt) (v : Int) {b k : Txt} (hb : AllWs b) :
    ∃ c, nextC (b ++ (renderInt f v ++ k)) = some c ∧ (c = 45 ∨ isDigitC c = true) := by
  obtain ⟨c, cs, hc, hcc⟩ := renderInt_head f v
  have hcw : isWs c = false := by
    rcases hcc with h | h
    · subst h; decide
    · exact digit_not_ws c h
  exact ⟨c, by rw [nextC_append hb, hc]; exact nextC_cons hcw, hcc⟩

/-- **displacement standing alone** (bare number): the last alternative of `memory` -/
theorem memory_bare (f : NumFmt) (v : Int) {b k : Txt} (hb : AllWs b) (hk : Tail SepC k) :
    memory (b ++ (renderInt f v ++ k)) =
      some ({ off := some (.num (renderInt f v)), offIsStr := true }, skipWs k) := by
  obtain ⟨c, hnx, hcc⟩ := renderInt_next f v (k := k) hb
  have hc : c ≠ 42 ∧ c ≠ 37 := by
    rcases hcc with h | h
    · subst h; decide
    · simp [isDigitC] at h; omega
  have hs42 : nextC (b ++ (renderInt f v ++ k)) ≠ some 42 := by
    rw [hnx]; intro e; cases e; exact hc.1 rfl
  have hs37 : nextC (b ++ (renderInt f v ++ k)) ≠ some 37 := by
    rw [hnx]; intro e; cases e; exact hc.2 rfl
  have hoff := offsetG_num SepC_punct f v hb hk
  have h40 : lit [40] k = none := lit1_none (hk.next_ne (by decide))
  have hmain : memMain (b ++ (renderInt f v ++ k)) = none := by
    unfold memMain
    simp only [optR, lit1_none hs42, Option.getD_none]
    rw [opt_skipWs offsetG offsetG_skipWs]
    simp only [opt, hoff]
    simp [parenPart, h40]
  have habs : memAbs (b ++ (renderInt f v ++ k)) = none := by simp [memAbs, lit1_none hs42]
  have hseg : memSeg (b ++ (renderInt f v ++ k)) = none := by
    simp [memSeg, optR, lit1_none hs42, register_none hs37]
  simp [memory, hmain, habs, hseg, memBare_num SepC_punct f v hb hk]

/-! ### operands -/

/-- how the grammar sees a memory operand of the domain -/
def rawMem (L : OpLayout) (off : Option Off) (base index : Option Txt) (scale : Nat) : RawMem :=
  if base.isNone && index.isNone then { off := rawOff L.num off, offIsStr := true }
  else { off := rawOff L.num off, base := base, index := index, scale := scaleSeen L scale index,
         empty := false }

/-- how the grammar sees an operand of the domain, before post-processing -/
def rawOp (L : OpLayout) : Operand → RawOp
  | .reg n => .reg n
  | .imm v => .imm (.num (renderInt L.num v))
  | .ident n => if L.bare then .ident n else .imm (.ident n)
  | .mem off base index scale _ => .mem (rawMem L off base index scale)

theorem validScale_of {scale : Nat}
    (h : (scale == 1 || scale == 2 || scale == 4 || scale == 8) = true) : validScale scale = true := h

/-- first visible character of a memory operand with parentheses -/
theorem renderMem_next (L : OpLayout) (hw1 : AllWs L.w1) (off : Option Off) (hoff : validOff off = true)
    (X : Txt) {b : Txt} (hb : AllWs b) :
    ∃ c, nextC (b ++ (renderOff L.num off ++ (L.w1 ++ 40 :: X))) = some c ∧
      (c = 40 ∨ c = 45 ∨ isDigitC c = true ∨ isIdStart c = true) := by
  match off, hoff with
  | none, _ =>
    refine ⟨40, ?_, Or.inl rfl⟩
    simp only [renderOff, List.nil_append]
    rw [nextC_append hb, nextC_append hw1]; exact nextC_cons (by decide)
  | some (.imm v), _ =>
    obtain ⟨c, hc, hcc⟩ := renderInt_next L.num v (k := L.w1 ++ 40 :: X) hb
    exact ⟨c, hc, Or.inr (hcc.imp id Or.inl)⟩
  | some (.ident n), h =>
    obtain ⟨_, c, hc, hcc⟩ := offsetG_ident SOpen_punct (k := L.w1 ++ 40 :: X) h hb
      (Tail.append hw1 (Tail.cons _ (by decide) (by decide)))
    exact ⟨c, hc, Or.inr (Or.inr (Or.inr hcc))⟩

theorem first_char_facts (c : Nat) (h : c = 40 ∨ c = 45 ∨ isDigitC c = true ∨ isIdStart c = true) :
    c ≠ 37 ∧ c ≠ 36 := by
  rcases h with h | h | h | h
  · subst h; decide
  · subst h; decide
  · simp [isDigitC] at h; omega
  · exact ⟨(idStart_facts c h).1, (idStart_facts c h).2.1⟩

/-- **operands** — registers, immediates, `$label`, a bare label, memory operands in all seven
    combinations: on the rendering of an operand of the domain, after any blanks and followed by
    blanks and a separator (or the end), both operand rules of the grammar return exactly this
    operand and stop at the separator. -/
theorem operand_ok (L : OpLayout) (hbl : L.blanks.all blank = true) (o : Operand)
    (hv : validOperand o = true) {b k : Txt} (hb : AllWs b) (hk : Tail SepC k) :
    ∃ r, skipWs r = skipWs k ∧
      operandFirst (b ++ (renderOperand L o ++ k)) = some (rawOp L o, r) ∧
      (L.bare = false → operandRest (b ++ (renderOperand L o ++ k)) = some (rawOp L o, r)) := by
  have hkP := hk.mono SepC_punct
  cases o with
  | reg n =>
    simp only [validOperand] at hv
    simp only [renderOperand, rawOp, List.cons_append]
    have hnx : nextC (b ++ 37 :: (n ++ k)) = some 37 := by
      rw [nextC_append hb]; exact nextC_cons (by decide)
    have h1 := register_ok SepC_punct (by decide) hv hb hk
    have h2 : immediate (b ++ 37 :: (n ++ k)) = none := immediate_none (by rw [hnx]; decide)
    have h3 := memory_none_reg hv hb hk
    have h4 : identifier isIdRest true (b ++ 37 :: (n ++ k)) = none :=
      identifier_none (by intro c hc; rw [hnx] at hc; cases hc; decide)
    have h5 : numericIdentifier (b ++ 37 :: (n ++ k)) = none :=
      numericIdentifier_none (by intro c hc; rw [hnx] at hc; cases hc; decide)
    exact ⟨skipWs k, skipWs_skipWs k, by simp [operandFirst, h1, h2, h3, h4, h5, longest],
      fun _ => by simp [operandRest, h1, h2, h3, longest]⟩
  | imm v =>
    simp only [renderOperand, rawOp, List.cons_append]
    have hnx : nextC (b ++ 36 :: (renderInt L.num v ++ k)) = some 36 := by
      rw [nextC_append hb]; exact nextC_cons (by decide)
    have h1 : register (b ++ 36 :: (renderInt L.num v ++ k)) = none := register_none (by rw [hnx]; decide)
    have h2 : immediate (b ++ 36 :: (renderInt L.num v ++ k)) = some (.num (renderInt L.num v), k) := by
      have := offsetG_num SepC_punct L.num v (b := []) AllWs.nil hk
      simp only [List.nil_append] at this
      simp [immediate, lit1_append hb (show isWs 36 = false by decide), this]
    have h3 : memory (b ++ 36 :: (renderInt L.num v ++ k)) = none :=
      memory_none_of_next (by intro c hc; rw [hnx] at hc; cases hc; decide)
    have h4 : identifier isIdRest true (b ++ 36 :: (renderInt L.num v ++ k)) = none :=
      identifier_none (by intro c hc; rw [hnx] at hc; cases hc; decide)
    have h5 : numericIdentifier (b ++ 36 :: (renderInt L.num v ++ k)) = none :=
      numericIdentifier_none (by intro c hc; rw [hnx] at hc; cases hc; decide)
    exact ⟨k, rfl, by simp [operandFirst, h1, h2, h3, h4, h5, longest],
      fun _ => by simp [operandRest, h1, h2, h3, longest]⟩
  | ident n =>
    simp only [validOperand] at hv
    cases hbare : L.bare
    · -- `$name`
      simp only [renderOperand, rawOp, hbare, Bool.false_eq_true, if_false, List.cons_append]
      have hnx : nextC (b ++ 36 :: (n ++ k)) = some 36 := by
        rw [nextC_append hb]; exact nextC_cons (by decide)
      have h1 : register (b ++ 36 :: (n ++ k)) = none := register_none (by rw [hnx]; decide)
      have h2 : immediate (b ++ 36 :: (n ++ k)) = some (.ident n, skipWs k) := by
        have := (offsetG_ident SepC_punct (b := []) hv AllWs.nil hk).1
        simp only [List.nil_append] at this
        simp [immediate, lit1_append hb (show isWs 36 = false by decide), this]
      have h3 : memory (b ++ 36 :: (n ++ k)) = none :=
        memory_none_of_next (by intro c hc; rw [hnx] at hc; cases hc; decide)
      have h4 : identifier isIdRest true (b ++ 36 :: (n ++ k)) = none :=
        identifier_none (by intro c hc; rw [hnx] at hc; cases hc; decide)
      have h5 : numericIdentifier (b ++ 36 :: (n ++ k)) = none :=
        numericIdentifier_none (by intro c hc; rw [hnx] at hc; cases hc; decide)
      exact ⟨skipWs k, skipWs_skipWs k, by simp [operandFirst, h1, h2, h3, h4, h5, longest],
        fun _ => by simp [operandRest, h1, h2, h3, longest]⟩
    · -- bare name
      simp only [renderOperand, rawOp, hbare, if_true]
      obtain ⟨_, c, hnx, hc⟩ := offsetG_ident SepC_punct hv hb hk
      obtain ⟨h37, h36, _, _, _, _, hnd⟩ := idStart_facts c hc
      have h1 : register (b ++ (n ++ k)) = none :=
        register_none (by rw [hnx]; intro e; cases e; exact h37 rfl)
      have h2 : immediate (b ++ (n ++ k)) = none :=
        immediate_none (by rw [hnx]; intro e; cases e; exact h36 rfl)
      have h3 := memory_none_ident hv hb hk
      have h4 := identifier_ok SepC_punct hv hb hk
      have h5 : numericIdentifier (b ++ (n ++ k)) = none :=
        numericIdentifier_none (by intro d hd; rw [hnx] at hd; cases hd; exact hnd)
      exact ⟨skipWs k, skipWs_skipWs k, by simp [operandFirst, h1, h2, h3, h4, h5, longest],
        fun h => by cases h⟩
  | mem off base index scale seg =>
    simp only [validOperand, Bool.and_eq_true, Bool.not_eq_true'] at hv
    obtain ⟨⟨⟨⟨⟨⟨hseg, hoff⟩, hbv⟩, hiv⟩, hsc⟩, his⟩, hcomb⟩ := hv
    have hw1 : AllWs L.w1 := by
      simp only [OpLayout.blanks, List.all_cons, Bool.and_eq_true] at hbl
      exact blank_allWs hbl.2.2.1
    have h123 : nextC k ≠ some 123 := hk.next_ne (by decide)
    simp only [renderOperand, rawOp, rawMem]
    by_cases hnn : (base.isNone && index.isNone) = true
    · -- displacement alone
      have hb0 : base = none := by cases base <;> simp_all
      have hi0 : index = none := by cases index <;> simp_all
      subst hb0; subst hi0
      obtain ⟨v, rfl⟩ : ∃ v, off = some (.imm v) := by
        cases off with
        | none => simp at hcomb
        | some o => cases o <;> simp at hcomb ⊢
      simp only [renderMem, Option.isNone_none, Bool.and_self, if_true, renderOff, rawOff]
      obtain ⟨c, hnx, hcc⟩ := renderInt_next L.num v (k := k) hb
      obtain ⟨h37, h36⟩ := first_char_facts c (Or.inr (hcc.imp id Or.inl))
      have h1 : register (b ++ (renderInt L.num v ++ k)) = none :=
        register_none (by rw [hnx]; intro e; cases e; exact h37 rfl)
      have h2 : immediate (b ++ (renderInt L.num v ++ k)) = none :=
        immediate_none (by rw [hnx]; intro e; cases e; exact h36 rfl)
      have h3 := memory_bare L.num v hb hk
      obtain ⟨hI, hN⟩ := others_on_num SepC_punct L.num v hb hk
      refine ⟨skipWs k, skipWs_skipWs k, ?_, fun _ => by simp [operandRest, h1, h2, h3, longest]⟩
      simp only [operandFirst, h1, h2, h3, Option.map_none, Option.map_some]
      apply longest_third
      · intro x r' h
        cases hid : identifier isIdRest true (b ++ (renderInt L.num v ++ k)) with
        | none => simp [hid] at h
        | some p => obtain ⟨x', r''⟩ := p; simp [hid] at h; rw [← h.2]; exact hI x' r'' hid
      · intro x r' h
        cases hid : numericIdentifier (b ++ (renderInt L.num v ++ k)) with
        | none => simp [hid] at h
        | some p => obtain ⟨x', r''⟩ := p; simp [hid] at h; rw [← h.2]; exact hN x' r'' hid
    · -- with parentheses
      have hnn' : (base.isNone && index.isNone) = false := by
        cases h : (base.isNone && index.isNone) with
        | false => rfl
        | true => exact absurd h hnn
      have hbi : (base.isSome || index.isSome) = true := by
        cases base <;> cases index <;> simp at hnn' ⊢
      have h3 := memory_paren L hbl off base index scale hoff hbv hiv (validScale_of hsc) hbi hb h123
      simp only [hnn', Bool.false_eq_true, if_false]
      -- the text, with the closing parenthesis made explicit
      have htxt : renderMem L off base index scale ++ k =
          renderOff L.num off ++ (L.w1 ++ 40 :: (L.w2 ++ (renderBase L base ++
            (renderIndex L scale index ++ 41 :: k)))) := by
        simp [renderMem, hnn', List.append_assoc]
      obtain ⟨c, hnx, hcc⟩ := renderMem_next L hw1 off hoff
        (L.w2 ++ (renderBase L base ++ (renderIndex L scale index ++ 41 :: k))) hb
      obtain ⟨h37, h36⟩ := first_char_facts c hcc
      rw [← htxt] at hnx
      have h1 : register (b ++ (renderMem L off base index scale ++ k)) = none :=
        register_none (by rw [hnx]; intro e; cases e; exact h37 rfl)
      have h2 : immediate (b ++ (renderMem L off base index scale ++ k)) = none :=
        immediate_none (by rw [hnx]; intro e; cases e; exact h36 rfl)
      refine ⟨skipWs k, skipWs_skipWs k, ?_, fun _ => by simp [operandRest, h1, h2, h3, longest]⟩
      simp only [operandFirst, h1, h2, h3, Option.map_none, Option.map_some]
      -- the other two alternatives stop before the opening parenthesis
      have hT : Tail SOpen (L.w1 ++ 40 :: (L.w2 ++ (renderBase L base ++
          (renderIndex L scale index ++ 41 :: k)))) :=
        Tail.append hw1 (Tail.cons _ (by decide) (by decide))
      have hTlen : (skipWs k).length ≤ (skipWs (L.w1 ++ 40 :: (L.w2 ++ (renderBase L base ++
          (renderIndex L scale index ++ 41 :: k))))).length := by
        rw [skipWs_append hw1, skipWs_cons_not (show isWs 40 = false by decide)]
        have := skipWs_length_le k
        simp only [List.length_cons, List.length_append]; omega
      have hbound : (∀ x r, identifier isIdRest true (b ++ (renderMem L off base index scale ++ k)) = some (x, r) →
            (skipWs k).length ≤ r.length) ∧
          (∀ x r, numericIdentifier (b ++ (renderMem L off base index scale ++ k)) = some (x, r) →
            (skipWs k).length ≤ r.length) := by
        rw [htxt]
        match off, hoff with
        | none, _ =>
          simp only [renderOff, List.nil_append]
          have hn40 : nextC (b ++ (L.w1 ++ 40 :: (L.w2 ++ (renderBase L base ++
              (renderIndex L scale index ++ 41 :: k))))) = some 40 := by
            rw [nextC_append hb, nextC_append hw1]; exact nextC_cons (by decide)
          constructor
          · intro x r h
            rw [identifier_none (by intro d hd; rw [hn40] at hd; cases hd; decide)] at h; cases h
          · intro x r h
            rw [numericIdentifier_none (by intro d hd; rw [hn40] at hd; cases hd; decide)] at h; cases h
        | some (.imm v), _ =>
          simp only [renderOff]
          obtain ⟨hI, hN⟩ := others_on_num SOpen_punct L.num v hb hT
          exact ⟨fun x r h => Nat.le_trans hTlen (hI x r h), fun x r h => Nat.le_trans hTlen (hN x r h)⟩
        | some (.ident n), h =>
          simp only [renderOff]
          simp only [validOff] at h
          obtain ⟨_, d, hnd, hd⟩ := offsetG_ident SOpen_punct h hb hT
          constructor
          · intro x r hh
            rw [identifier_ok SOpen_punct h hb hT] at hh
            simp at hh; rw [← hh.2]; exact hTlen
          · intro x r hh
            rw [numericIdentifier_none (by
              intro e he; rw [hnd] at he; cases he; exact (idStart_facts _ hd).2.2.2.2.2.2)] at hh
            cases hh
      apply longest_third
      · intro x r' h
        cases hid : identifier isIdRest true (b ++ (renderMem L off base index scale ++ k)) with
        | none => simp [hid] at h
        | some p => obtain ⟨x', r''⟩ := p; simp [hid] at h; rw [← h.2]; exact hbound.1 x' r'' hid
      · intro x r' h
        cases hid : numericIdentifier (b ++ (renderMem L off base index scale ++ k)) with
        | none => simp [hid] at h
        | some p => obtain ⟨x', r''⟩ := p; simp [hid] at h; rw [← h.2]; exact hbound.2 x' r'' hid

end OsacaVerif.ParseX86
