import OsacaVerif.Lemmas.PipelineLcd
import OsacaVerif.Lemmas.CpRepaired
/-
  Helper development for the pipeline theorems, part 5: instruction forms without operands
  (`noiseB`: what a comment / label / directive line is for the graph stages) can be dropped from
  a kernel without changing the dependency graph or the loop-carried dependencies; the search
  depth `2·|kernel| + 1` (which counts them) does not matter.
-/
namespace OsacaVerif.Pipeline
open OsacaVerif OsacaVerif.DG OsacaVerif.LCD

/-- an instruction form that carries nothing: no semantic operands, no load node, no register
    changes, latency 0 -/
def noiseB (i : Ins) : Bool :=
  i.src.isEmpty && i.dst.isEmpty && i.srcDst.isEmpty && !i.hasLd && i.changes.isEmpty && i.changesPost.isEmpty &&
    decide (i.lat = 0)

def keepB (i : Ins) : Bool := !noiseB i

structure IsNoise (i : Ins) : Prop where
  src : i.src = []
  dst : i.dst = []
  srcDst : i.srcDst = []
  hasLd : i.hasLd = false
  changes : i.changes = []
  changesPost : i.changesPost = []
  lat : i.lat = 0

theorem noiseB_iff (i : Ins) : noiseB i = true ↔ IsNoise i := by
  unfold noiseB
  simp only [Bool.and_eq_true, List.isEmpty_iff, Bool.not_eq_true', decide_eq_true_eq]
  constructor
  · rintro ⟨⟨⟨⟨⟨⟨h1, h2⟩, h3⟩, h4⟩, h5⟩, h6⟩, h7⟩; exact ⟨h1, h2, h3, h4, h5, h6, h7⟩
  · rintro ⟨h1, h2, h3, h4, h5, h6, h7⟩; exact ⟨⟨⟨⟨⟨⟨h1, h2⟩, h3⟩, h4⟩, h5⟩, h6⟩, h7⟩

theorem isNoise_of_not_keep {i : Ins} (h : ¬ keepB i = true) : IsNoise i := by
  apply (noiseB_iff i).mp
  unfold keepB at h
  simpa using h

theorem noiseB_renIns (f : Nat → Nat) (i : Ins) : noiseB (renIns f i) = noiseB i := rfl
theorem keepB_renIns (f : Nat → Nat) (i : Ins) : keepB (renIns f i) = keepB i := rfl

theorem isRead_noise (isa : Isa) (t : Target) (i : Ins) (h : IsNoise i) : isRead isa t i = false := by
  simp [isRead, h.src, h.dst, h.srcDst]

theorem isWritten_noise (isa : Isa) (t : Target) (i : Ins) (h : IsNoise i) : isWritten isa t i = false := by
  simp [isWritten, h.src, h.dst, h.srcDst]

theorem scanTarget_drop (isa : Isa) (t : Target) (tag : Tag) (k : List Ins) :
    scanTarget isa t tag k = scanTarget isa t tag (k.filter keepB) := by
  induction k with
  | nil => rfl
  | cons i rest ih =>
    by_cases hk : keepB i = true
    · rw [List.filter_cons_of_pos hk]
      simp only [scanTarget, ih]
    · rw [List.filter_cons_of_neg hk]
      have hn := isNoise_of_not_keep hk
      simp only [scanTarget, isRead_noise isa t i hn, isWritten_noise isa t i hn]
      simpa using ih

theorem scanMem_drop (isa : Isa) (m : Mem) (s : RegState) (k : List Ins) :
    scanMem isa m s k = scanMem isa m s (k.filter keepB) := by
  induction k generalizing s with
  | nil => rfl
  | cons i rest ih =>
    by_cases hk : keepB i = true
    · rw [List.filter_cons_of_pos hk]
      simp only [scanMem, ih]
    · rw [List.filter_cons_of_neg hk]
      have hn := isNoise_of_not_keep hk
      have h1 : memStop isa m i = false := by
        unfold memStop
        cases m.base with
        | none => simp
        | some b => simp [isWritten_noise isa _ i hn]
      have h2 : ∀ st, isMemload m i st = false := by
        intro st; simp [isMemload, hn.src, hn.srcDst]
      have h3 : isMemstore m i = false := by simp [isMemstore, hn.dst, hn.srcDst]
      simp only [scanMem, h1, h2, h3, hn.changes, hn.changesPost, updateState, List.foldl_nil]
      simpa using ih s

theorem findDepending_drop (isa : Isa) (fd : Bool) (p : Ins) (rest : List Ins) :
    findDepending isa fd p rest = findDepending isa fd p (rest.filter keepB) := by
  unfold findDepending
  apply flatMap_congr_mem
  intro d _
  cases d with
  | reg r => exact scanTarget_drop isa _ _ rest
  | flag n =>
    by_cases hfd : fd = true
    · simp only [hfd, if_true]; exact scanTarget_drop isa _ _ rest
    · simp [hfd]
  | mem m => exact scanMem_drop isa m _ rest
  | other => rfl

theorem findDepending_noise (isa : Isa) (fd : Bool) (p : Ins) (rest : List Ins) (h : IsNoise p) :
    findDepending isa fd p rest = [] := by
  simp [findDepending, h.dst, h.srcDst]

theorem emissions_drop (isa : Isa) (fd : Bool) (par : Params) (k : List Ins) :
    emissions isa fd par k = emissions isa fd par (k.filter keepB) := by
  induction k with
  | nil => rfl
  | cons p rest ih =>
    by_cases hk : keepB p = true
    · rw [List.filter_cons_of_pos hk]
      simp only [emissions]
      rw [findDepending_drop, ih]
    · rw [List.filter_cons_of_neg hk]
      have hn := isNoise_of_not_keep hk
      simp only [emissions, findDepending_noise isa fd p rest hn, hn.hasLd]
      simpa using ih

/-- **operand-free lines are invisible to the dependency graph** -/
theorem create_drop (isa : Isa) (fd : Bool) (par : Params) (k : List Ins) :
    create isa fd par k = create isa fd par (k.filter keepB) := by
  unfold create
  rw [emissions_drop]

theorem double_filter (off : Nat) (k : List Ins) : (double off k).filter keepB = double off (k.filter keepB) := by
  unfold double
  rw [List.filter_append, List.filter_map]
  congr 1

/-! ### the doubled kernel for any offset above the lines -/

theorem double_wf' (off : Nat) (k : List Ins) (hwf : WFKernel k) (hoff : ∀ i ∈ k, i.line < off) :
    WFKernel (double off k) := by
  unfold WFKernel double at *
  rw [List.map_append, List.pairwise_append]
  refine ⟨hwf, ?_, ?_⟩
  · rw [List.map_map, List.pairwise_map]
    rw [List.pairwise_map] at hwf
    exact hwf.imp (fun h => by simp only [Function.comp_apply]; omega)
  · intro a ha b hb
    obtain ⟨x, hx, rfl⟩ := List.mem_map.mp ha
    obtain ⟨y', hy', rfl⟩ := List.mem_map.mp hb
    obtain ⟨y, _, rfl⟩ := List.mem_map.mp hy'
    have := hoff x hx
    simp only; omega

theorem wf_filter {k : List Ins} (hwf : WFKernel k) (p : Ins → Bool) : WFKernel (k.filter p) := by
  unfold WFKernel at *
  rw [List.pairwise_map] at *
  exact hwf.sublist List.filter_sublist

/-- sources of edges of the doubled graph are lines of the doubled kernel -/
theorem create_src_lines (isa : Isa) (fd : Bool) (par : Params) (k : List Ins) (hwf : WFKernel k) (e : Edge)
    (he : e ∈ create isa fd par k) : ∃ p ∈ k, p.line = e.src.line :=
  (Props.C05.create_nodes isa fd par k hwf e he).2.1

/-- every simple path of the doubled graph has at most `2·|k|` edges (any valid offset) -/
theorem simple_path_bound (isa : Isa) (fd : Bool) (par : Params) (off : Nat) (k : List Ins)
    (hwf : WFKernel (double off k)) (src tgt : Nat) (p : List (Nat × Rat))
    (hp : IsSimplePath (create isa fd par (double off k)) src tgt p) : p.length ≤ 2 * k.length := by
  obtain ⟨_, hw, hn, _⟩ := hp
  have hsub : verts p ⊆ (double off k).map (·.line) := by
    intro v hv
    obtain ⟨x, hx, rfl⟩ := List.mem_map.mp hv
    have hmem : ∀ (q : List (Nat × Rat)), IsWalk (create isa fd par (double off k)) tgt q → ∀ y ∈ q,
        ∃ m w, (m, w) ∈ succs (create isa fd par (double off k)) y.1 := by
      intro q
      induction q with
      | nil => intro _ y hy; cases hy
      | cons z zs ih =>
        intro hq y hy
        rcases List.mem_cons.mp hy with rfl | hy
        · exact ⟨_, _, hq.1⟩
        · exact ih hq.2 y hy
    obtain ⟨m, w, hmw⟩ := hmem p hw x hx
    simp only [succs, List.mem_filterMap] at hmw
    obtain ⟨e, he, hc⟩ := hmw
    by_cases hcond : (!e.src.load && e.src.line == x.1 && !e.dst.load) = true
    · simp only [Bool.and_eq_true, Bool.not_eq_true', beq_iff_eq] at hcond
      obtain ⟨q, hq, hql⟩ := create_src_lines isa fd par _ hwf e he
      exact List.mem_map.mpr ⟨q, hq, by rw [hql, hcond.1.2]⟩
    · rw [if_neg hcond] at hc; cases hc
  have := hn.length_le_of_subset hsub
  simpa [verts, double, Nat.two_mul] using this

/-! ### the fuel -/

theorem pathsFrom_filter (es : List Edge) (tgt : Nat) (n cur : Nat) (vis : List Nat) :
    (pathsFrom es tgt (n + 1) cur vis).filter (fun p => decide (p.length ≤ n)) = pathsFrom es tgt n cur vis := by
  induction n generalizing cur vis with
  | zero =>
    simp only [pathsFrom, List.filter_eq_nil_iff, List.mem_flatMap]
    rintro p ⟨⟨nxt, w⟩, _, hp⟩
    dsimp only at hp
    split at hp
    · simp only [List.mem_singleton] at hp; subst hp; simp
    · split at hp <;> simp at hp
  | succ n ih =>
    rw [pathsFrom, List.filter_flatMap]
    conv => rhs; rw [pathsFrom]
    apply flatMap_congr_mem
    intro x _
    obtain ⟨nxt, w⟩ := x
    dsimp only
    split
    · simp
    · split
      · rfl
      · rw [List.filter_map, ← ih nxt (nxt :: vis)]
        congr 1
        apply List.filter_congr
        intro p _
        simp

theorem pathsFrom_fuel_succ (es : List Edge) (tgt : Nat) (n cur : Nat) (vis : List Nat)
    (h : ∀ p ∈ pathsFrom es tgt (n + 1) cur vis, p.length ≤ n) :
    pathsFrom es tgt (n + 1) cur vis = pathsFrom es tgt n cur vis := by
  conv => rhs; rw [← pathsFrom_filter]
  symm
  apply List.filter_eq_self.mpr
  intro p hp
  simpa using h p hp

/-- any two search depths above the longest path give the same result -/
theorem pathsFrom_fuel (es : List Edge) (tgt : Nat) (cur : Nat) (vis : List Nat) (b : Nat)
    (h : ∀ fuel, ∀ p ∈ pathsFrom es tgt fuel cur vis, p.length ≤ b) (n m : Nat) (hn : b ≤ n) (hm : b ≤ m) :
    pathsFrom es tgt n cur vis = pathsFrom es tgt m cur vis := by
  have key : ∀ d, pathsFrom es tgt (b + d) cur vis = pathsFrom es tgt b cur vis := by
    intro d
    induction d with
    | zero => rfl
    | succ d ih =>
      rw [← ih]
      exact pathsFrom_fuel_succ es tgt (b + d) cur vis (fun p hp => by have := h _ p hp; omega)
  have e1 := key (n - b)
  have e2 := key (m - b)
  rw [show b + (n - b) = n by omega] at e1
  rw [show b + (m - b) = m by omega] at e2
  rw [e1, e2]

theorem lcdWith_fuel (isa : Isa) (fd : Bool) (par : Params) (off : Nat) (k : List Ins)
    (hwf : WFKernel (double off k)) (n m : Nat) (hn : 2 * k.length ≤ n) (hm : 2 * k.length ≤ m) :
    lcdWith isa fd par off n k = lcdWith isa fd par off m k := by
  unfold lcdWith
  congr 1
  apply flatMap_congr_mem
  intro i _
  apply pathsFrom_fuel _ _ _ _ (2 * k.length) _ n m hn hm
  intro fuel p hp
  have := Props.C05.pathsFrom_sound _ _ fuel i.line [i.line] (by simp) p hp
  exact simple_path_bound isa fd par off k hwf _ _ p this.1

/-! ### operand-free roots find nothing -/

theorem pathsFrom_no_succs (es : List Edge) (tgt fuel cur : Nat) (vis : List Nat) (h : succs es cur = []) :
    pathsFrom es tgt fuel cur vis = [] := by
  cases fuel with
  | zero => rfl
  | succ n => simp [pathsFrom, h]

theorem flatMap_filter_nil {α β : Type} (l : List α) (p : α → Bool) (g : α → List β)
    (h : ∀ x ∈ l, ¬ p x = true → g x = []) : l.flatMap g = (l.filter p).flatMap g := by
  induction l with
  | nil => rfl
  | cons x xs ih =>
    by_cases hp : p x = true
    · rw [List.filter_cons_of_pos hp, List.flatMap_cons, List.flatMap_cons,
        ih (fun y hy => h y (List.mem_cons_of_mem _ hy))]
    · rw [List.filter_cons_of_neg hp, List.flatMap_cons, h x (by simp) hp, List.nil_append,
        ih (fun y hy => h y (List.mem_cons_of_mem _ hy))]

/-- **operand-free lines are invisible to the loop-carried-dependency search** (same offset,
    same depth) -/
theorem lcdWith_drop (isa : Isa) (fd : Bool) (par : Params) (off fuel : Nat) (k : List Ins)
    (hwf : WFKernel k) (hoff : ∀ i ∈ k, i.line < off) :
    lcdWith isa fd par off fuel k = lcdWith isa fd par off fuel (k.filter keepB) := by
  unfold lcdWith
  have hg : create isa fd par (double off k) = create isa fd par (double off (k.filter keepB)) := by
    rw [create_drop, double_filter]
  rw [hg]
  congr 1
  apply flatMap_filter_nil
  intro i hi hk
  apply pathsFrom_no_succs
  rw [List.eq_nil_iff_forall_not_mem]
  rintro ⟨m, w⟩ hmw
  simp only [succs, List.mem_filterMap] at hmw
  obtain ⟨e, he, hc⟩ := hmw
  by_cases hcond : (!e.src.load && e.src.line == i.line && !e.dst.load) = true
  · simp only [Bool.and_eq_true, Bool.not_eq_true', beq_iff_eq] at hcond
    have hwf' : WFKernel (double off (k.filter keepB)) :=
      double_wf' off _ (wf_filter hwf _) (fun j hj => hoff j (List.mem_filter.mp hj).1)
    obtain ⟨q, hq, hql⟩ := create_src_lines isa fd par _ hwf' e he
    rw [hcond.1.2] at hql
    unfold double at hq
    rcases List.mem_append.mp hq with hq | hq
    · have hqk := (List.mem_filter.mp hq)
      have : q = i := wf_line_inj hwf hqk.1 hi hql
      rw [this] at hqk
      exact hk hqk.2
    · obtain ⟨j, hj, rfl⟩ := List.mem_map.mp hq
      have := hoff i hi
      simp only at hql
      omega
  · rw [if_neg hcond] at hc; cases hc

/-- **`LCD.lcd` on a kernel with operand-free lines = `LCD.lcd` on the kernel without them**,
    although offset (`max line + 1`) and search depth (`2·|k| + 1`) are computed with them -/
theorem lcd_drop (isa : Isa) (fd : Bool) (par : Params) (floor : Nat) (k : List Ins) (hwf : WFKernel k) :
    lcd isa fd par floor k = lcd isa fd par floor (k.filter keepB) := by
  rw [lcd_eq_lcdWith, lcd_eq_lcdWith]
  have hoff := offsetOf_ok floor k
  have hoff' : ∀ i ∈ k.filter keepB, i.line < offsetOf floor k := fun j hj => hoff j (List.mem_filter.mp hj).1
  have hlen : (k.filter keepB).length ≤ k.length := List.length_filter_le _ _
  rw [lcdWith_drop isa fd par _ _ k hwf hoff,
    lcdWith_fuel isa fd par _ (k.filter keepB) (double_wf' _ _ (wf_filter hwf _) hoff') (2 * k.length + 1)
      (2 * (k.filter keepB).length + 1) (by omega) (by omega)]
  exact (lcdWith_offset isa fd par _ _ _ _ (offsetOf_ok floor _) hoff')

end OsacaVerif.Pipeline
