import OsacaVerif.Lemmas.Feasible
/-
  Helper lemmas linking the executable oracle `Spec.checkFeasible` / `Spec.lowerBound` (enumeration
  of the subsets of the used ports) to the declarative `Spec.Feasible` (Hall inequality for every
  duplicate-free port set).
-/
namespace OsacaVerif.Spec
open OsacaVerif OsacaVerif.Ports

/-! ### `eraseDups`, `usedPorts` -/

theorem eraseDups_spec (l : List Nat) : (∀ a, a ∈ l.eraseDups ↔ a ∈ l) ∧ l.eraseDups.Nodup := by
  induction h : l.length using Nat.strong_induction_on generalizing l with
  | _ n ih =>
    cases l with
    | nil => simp
    | cons x xs =>
      rw [List.eraseDups_cons]
      have hlen : (xs.filter fun b => !b == x).length < n := by
        subst h
        exact Nat.lt_succ_of_le (List.length_filter_le _ _)
      obtain ⟨h1, h2⟩ := ih _ hlen _ rfl
      constructor
      · intro a
        simp only [List.mem_cons, h1, List.mem_filter]
        by_cases hax : a = x
        · simp [hax]
        · simp [hax]
      · rw [List.nodup_cons]
        refine ⟨?_, h2⟩
        rw [h1]
        simp

theorem mem_usedPorts (us : List Uop) (p : Nat) : p ∈ usedPorts us ↔ ∃ u ∈ us, p ∈ u.ports := by
  unfold usedPorts
  rw [(eraseDups_spec _).1]
  simp [List.mem_flatMap]

theorem nodup_usedPorts (us : List Uop) : (usedPorts us).Nodup := (eraseDups_spec _).2

/-! ### `sublists` enumerates exactly the sublists -/

theorem mem_sublists (l S : List Nat) : S ∈ sublists l ↔ S.Sublist l := by
  induction l generalizing S with
  | nil => simp [sublists]
  | cons x xs ih =>
    simp only [sublists, List.mem_append, List.mem_map, ih, List.sublist_cons_iff]
    constructor
    · rintro (h | ⟨r, hr, rfl⟩)
      · exact Or.inl h
      · exact Or.inr ⟨r, rfl, hr⟩
    · rintro (h | ⟨r, rfl, hr⟩)
      · exact Or.inl h
      · exact Or.inr ⟨r, hr, rfl⟩

/-! ### `sumOn` and `confined` depend only on the set of ports -/

theorem sumOn_perm (v : List Rat) {S T : List Nat} (h : S.Perm T) : sumOn v S = sumOn v T := by
  unfold sumOn
  exact (h.map _).sum_eq

theorem sumOn_filter_of_zero (v : List Rat) (S : List Nat) (P : Nat → Bool)
    (h : ∀ p ∈ S, P p = false → v.getD p 0 = 0) : sumOn v S = sumOn v (S.filter P) := by
  induction S with
  | nil => rfl
  | cons a S ih =>
    have ih' := ih (fun p hp => h p (List.mem_cons_of_mem _ hp))
    unfold sumOn at *
    by_cases ha : P a = true
    · rw [List.filter_cons_of_pos ha]
      simp only [List.map_cons, List.sum_cons, ih']
    · have ha' : P a = false := by simpa using ha
      rw [List.filter_cons_of_neg ha]
      simp only [List.map_cons, List.sum_cons, ih', h a List.mem_cons_self ha', zero_add]

theorem confined_congr (us : List Uop) (S T : List Nat)
    (h : ∀ u ∈ us, ∀ p ∈ u.ports, (p ∈ S ↔ p ∈ T)) : confined us S = confined us T := by
  unfold confined
  congr 2
  apply List.filter_congr
  intro u hu
  rw [Bool.eq_iff_iff]
  simp only [List.all_eq_true, decide_eq_true_eq]
  constructor
  · intro hs p hp; exact (h u hu p hp).mp (hs p hp)
  · intro hs p hp; exact (h u hu p hp).mpr (hs p hp)

/-- restriction of a port set to the used ports, in the order of `usedPorts` -/
def restrict (us : List Uop) (S : List Nat) : List Nat := (usedPorts us).filter (· ∈ S)

theorem restrict_mem_sublists (us : List Uop) (S : List Nat) :
    restrict us S ∈ sublists (usedPorts us) :=
  (mem_sublists _ _).mpr List.filter_sublist

theorem mem_restrict (us : List Uop) (S : List Nat) (p : Nat) :
    p ∈ restrict us S ↔ p ∈ usedPorts us ∧ p ∈ S := by
  simp [restrict]

theorem restrict_perm (us : List Uop) (S : List Nat) (hS : S.Nodup) :
    (restrict us S).Perm (S.filter (· ∈ usedPorts us)) := by
  unfold restrict
  rw [List.perm_ext_iff_of_nodup ((nodup_usedPorts us).filter _) (hS.filter _)]
  intro a
  simp [and_comm]

theorem confined_restrict (us : List Uop) (S : List Nat) :
    confined us (restrict us S) = confined us S := by
  apply confined_congr
  intro u hu p hp
  rw [mem_restrict, mem_usedPorts]
  exact ⟨fun h => h.2, fun h => ⟨⟨u, hu, hp⟩, h⟩⟩

theorem length_restrict_le (us : List Uop) (S : List Nat) (hS : S.Nodup) :
    (restrict us S).length ≤ S.length := by
  rw [(restrict_perm us S hS).length_eq]
  exact List.length_filter_le _ _

theorem sumOn_restrict (n : Nat) (us : List Uop) (v : List Rat) (S : List Nat) (hS : S.Nodup)
    (hSn : ∀ p ∈ S, p < n)
    (hsupp : ∀ p < n, (∀ u ∈ us, p ∉ u.ports) → v.getD p 0 = 0) :
    sumOn v (restrict us S) = sumOn v S := by
  rw [sumOn_perm v (restrict_perm us S hS)]
  symm
  apply sumOn_filter_of_zero
  intro p hp hno
  apply hsupp p (hSn p hp)
  intro u hu hpu
  have : p ∈ usedPorts us := (mem_usedPorts us p).mpr ⟨u, hu, hpu⟩
  simp [this] at hno

/-- **Hall on the subsets of the used ports suffices**: with the support clause and `ε ≥ 0`, the
    Hall inequality for the enumerated subsets implies it for every duplicate-free port set. -/
theorem hall_of_used (ε : Rat) (hε : 0 ≤ ε) (n : Nat) (us : List Uop) (v : List Rat)
    (hsupp : ∀ p < n, (∀ u ∈ us, p ∉ u.ports) → v.getD p 0 = 0)
    (hU : ∀ S ∈ sublists (usedPorts us), confined us S - ε * S.length ≤ sumOn v S)
    (S : List Nat) (hS : S.Nodup) (hSn : ∀ p ∈ S, p < n) :
    confined us S - ε * S.length ≤ sumOn v S := by
  have h := hU _ (restrict_mem_sublists us S)
  rw [confined_restrict, sumOn_restrict n us v S hS hSn hsupp] at h
  have hl : ((restrict us S).length : Rat) ≤ (S.length : Rat) := by
    exact_mod_cast length_restrict_le us S hS
  have := mul_le_mul_of_nonneg_left hl hε
  linarith

/-! ### fold-max -/

theorem foldl_max_spec {α : Type} (f : α → Rat) (L : List α) (m0 : Rat) :
    m0 ≤ L.foldl (fun m S => let q := f S; if m < q then q else m) m0 ∧
    (∀ x ∈ L, f x ≤ L.foldl (fun m S => let q := f S; if m < q then q else m) m0) ∧
    (L.foldl (fun m S => let q := f S; if m < q then q else m) m0 = m0 ∨
      ∃ x ∈ L, L.foldl (fun m S => let q := f S; if m < q then q else m) m0 = f x) := by
  induction L generalizing m0 with
  | nil => simp
  | cons a L ih =>
    simp only [List.foldl_cons]
    obtain ⟨i1, i2, i3⟩ := ih (if m0 < f a then f a else m0)
    have hm : m0 ≤ (if m0 < f a then f a else m0) ∧ f a ≤ (if m0 < f a then f a else m0) := by
      split
      · constructor <;> linarith
      · constructor <;> linarith
    refine ⟨le_trans hm.1 i1, ?_, ?_⟩
    · intro x hx
      rcases List.mem_cons.mp hx with rfl | hx
      · exact le_trans hm.2 i1
      · exact i2 x hx
    · rcases i3 with h | ⟨x, hx, h⟩
      · by_cases hc : m0 < f a
        · right; exact ⟨a, List.mem_cons_self, by rw [h, if_pos hc]⟩
        · left; rw [h, if_neg hc]
      · right; exact ⟨x, List.mem_cons_of_mem _ hx, h⟩

end OsacaVerif.Spec
