import OsacaVerif.Model.ParseA64
import OsacaVerif.Spec.FileLinesA64
/-
  `parse_file`: the model's line splitting and numbering loop against the declarative specification
  `Spec.A64.FileSpec` (∀ file contents, ∀ start offsets).
-/
namespace OsacaVerif.ParseA64
open OsacaVerif.Text OsacaVerif.Spec.A64 OsacaVerif.Gen

theorem splitLines_ne_nil (s : Txt) : splitLines s ≠ [] := by
  induction s with
  | nil => simp [splitLines]
  | cons c s ih =>
    simp only [splitLines]
    split
    · simp
    · split <;> simp

theorem splitLines_no_lf (l : Txt) (h : 10 ∉ l) : splitLines l = [l] := by
  induction l with
  | nil => rfl
  | cons c l ih =>
    have hc : c ≠ 10 := by intro hc; subst hc; simp at h
    have hl : 10 ∉ l := by intro hl; exact h (by simp [hl])
    simp [splitLines, hc, ih hl]

theorem splitLines_append_lf (l s : Txt) (h : 10 ∉ l) : splitLines (l ++ 10 :: s) = l :: splitLines s := by
  induction l with
  | nil => simp [splitLines]
  | cons c l ih =>
    have hc : c ≠ 10 := by intro hc; subst hc; simp at h
    have hl : 10 ∉ l := by intro hl; exact h (by simp [hl])
    simp [splitLines, hc, ih hl]

theorem splitLines_joinLines (ls : List Txt) (hne : ls ≠ []) (h : ∀ l ∈ ls, 10 ∉ l) :
    splitLines (joinLines ls) = ls := by
  induction ls with
  | nil => exact absurd rfl hne
  | cons l ls ih =>
    cases ls with
    | nil => simpa [joinLines] using splitLines_no_lf l (h l (by simp))
    | cons l' r =>
      simp only [joinLines]
      rw [splitLines_append_lf l _ (h l (by simp)), ih (by simp) (fun x hx => h x (by simp [hx]))]

/-- the lines of a text are unique, and `splitLines` computes them -/
theorem isLinesOf_unique (content : Txt) (ls : List Txt) (h : IsLinesOf content ls) : ls = splitLines content := by
  obtain ⟨hne, hj, hno⟩ := h
  rw [← hj, splitLines_joinLines ls hne hno]

theorem isLinesOf_splitLines (content : Txt) : IsLinesOf content (splitLines content) := by
  refine ⟨splitLines_ne_nil content, ?_, ?_⟩
  · induction content with
    | nil => rfl
    | cons c s ih =>
      simp only [splitLines]
      split
      · rename_i hc; simp at hc; subst hc
        cases hs : splitLines s with
        | nil => exact absurd hs (splitLines_ne_nil s)
        | cons l ls => rw [hs] at ih; simp [joinLines, ih]
      · cases hs : splitLines s with
        | nil => exact absurd hs (splitLines_ne_nil s)
        | cons l ls =>
          rw [hs] at ih
          cases ls with
          | nil => simp [joinLines] at ih ⊢; exact ih
          | cons l' r => simp [joinLines] at ih ⊢; exact ih
  · induction content with
    | nil => simp [splitLines]
    | cons c s ih =>
      simp only [splitLines]
      split
      · intro l hl; simp at hl; rcases hl with rfl | hl
        · simp
        · exact ih l hl
      · rename_i hc
        cases hs : splitLines s with
        | nil => exact absurd hs (splitLines_ne_nil s)
        | cons l ls =>
          rw [hs] at ih
          intro x hx; simp at hx
          rcases hx with rfl | hx
          · have := ih l (by simp)
            simp at hc
            simp [this]; exact fun h => hc h.symm
          · exact ih x (by simp [hx])

theorem isPyWs_iff (c : Nat) : isPyWs c = true ↔ c ∈ spaceChars := by
  simp only [isPyWs, spaceChars]
  simp
  omega

theorem isBlank_iff (l : Txt) : isBlank l = true ↔ blankLine l := by
  simp only [isBlank, blankLine, List.all_eq_true]
  exact ⟨fun h c hc => (isPyWs_iff c).mp (h c hc), fun h c hc => (isPyWs_iff c).mpr (h c hc)⟩

def entry (f : FileLine) : Nat × Txt := (f.lineNo, f.text)

theorem lineBase_eq : A64.lineBase = 1 := by decide

/-- the loop of `parse_file` from line index `i` on -/
theorem parseLinesFrom_spec (start : Nat) (ls : List Txt) :
    ∀ i, let out := (parseLinesFrom start i ls).map entry
      out.Pairwise (fun a b => a.1 < b.1) ∧
      (∀ e ∈ out, ∃ j, ls[j]? = some e.2 ∧ e.1 = i + j + 1 + start ∧ ¬ blankLine e.2) ∧
      (∀ j l, ls[j]? = some l → ¬ blankLine l → (i + j + 1 + start, l) ∈ out) := by
  induction ls with
  | nil => intro i; simp [parseLinesFrom]
  | cons l ls ih =>
    intro i
    obtain ⟨hs, hsound, hcompl⟩ := ih (i + 1)
    by_cases hb : isBlank l = true
    · simp only [parseLinesFrom, hb, if_true]
      refine ⟨hs, ?_, ?_⟩
      · intro e he
        obtain ⟨j, hj, hn, hnb⟩ := hsound e he
        exact ⟨j + 1, by simpa using hj, by omega, hnb⟩
      · intro j x hj hnb
        cases j with
        | zero => simp at hj; subst hj; exact absurd ((isBlank_iff l).mp hb) hnb
        | succ j =>
          have := hcompl j x (by simpa using hj) hnb
          have he : i + 1 + j + 1 + start = i + (j + 1) + 1 + start := by omega
          rw [he] at this; exact this
    · simp only [parseLinesFrom, hb]
      simp only [Bool.false_eq_true, if_false, List.map_cons]
      refine ⟨?_, ?_, ?_⟩
      · rw [List.pairwise_cons]
        refine ⟨?_, hs⟩
        intro e he
        obtain ⟨j, _, hn, _⟩ := hsound e he
        simp [entry, lineBase_eq]; omega
      · intro e he
        simp at he
        rcases he with rfl | he
        · exact ⟨0, by simp [entry], by simp [entry, lineBase_eq], fun h => hb ((isBlank_iff l).mpr h)⟩
        · obtain ⟨j, hj, hn, hnb⟩ := hsound e (by simpa using he)
          exact ⟨j + 1, by simpa using hj, by omega, hnb⟩
      · intro j x hj hnb
        cases j with
        | zero => simp at hj; subst hj; simp [entry, lineBase_eq]
        | succ j =>
          have := hcompl j x (by simpa using hj) hnb
          have he : i + 1 + j + 1 + start = i + (j + 1) + 1 + start := by omega
          rw [he] at this
          simp; right; simpa using this

theorem parseLinesFrom_out (start : Nat) (ls : List Txt) :
    ∀ i, ∀ f ∈ parseLinesFrom start i ls, f.out = parseLine f.text := by
  induction ls with
  | nil => intro i f hf; simp [parseLinesFrom] at hf
  | cons l ls ih =>
    intro i f hf
    simp only [parseLinesFrom] at hf
    split at hf
    · exact ih (i + 1) f hf
    · simp at hf; rcases hf with rfl | hf
      · rfl
      · exact ih (i + 1) f hf

end OsacaVerif.ParseA64
