import OsacaVerif.Lemmas.EndToEndFile
/-
  End to end, part 2: what an `ok` outcome consists of, and that the kernel is a sublist of the file.
-/
namespace OsacaVerif.EndToEnd
open OsacaVerif OsacaVerif.Text OsacaVerif.ParseX86 OsacaVerif.Pipeline

theorem run_nil (c : Pipeline.Cfg) (mode : Mode) (file : List PLine) (h : select mode file = .ok []) :
    Pipeline.run c mode file = .emptyKernel := by
  unfold Pipeline.run
  rw [h]

theorem run_cons (c : Pipeline.Cfg) (mode : Mode) (file : List PLine) (x : PLine) (xs : List PLine)
    (h : select mode file = .ok (x :: xs)) : Pipeline.run c mode file = .ok (analyze c (x :: xs)) := by
  unfold Pipeline.run
  rw [h]

/-- **what an `ok` outcome is made of** -/
theorem assemble_ok_inv (isa : Operand.Isa) (m : Model) (o : Opts) (lines : List Line) (r : Result)
    (h : assemble isa m o lines = .ok r) :
    ∃ k, select o.mode (lines.map (·.pl)) = .ok k ∧ k ≠ [] ∧ firstErr lines k = none ∧
      r = resultOf m o (lines.map (·.pl)) k (analyze (cfgOf isa m o) k) := by
  unfold assemble at h
  cases hs : select o.mode (lines.map (·.pl)) with
  | ok k =>
    simp only [hs] at h
    cases he : firstErr lines k with
    | some ne => obtain ⟨n, e⟩ := ne; simp [he] at h
    | none =>
      simp only [he] at h
      cases k with
      | nil => rw [run_nil _ _ _ hs] at h; simp at h
      | cons x xs =>
        rw [run_cons _ _ _ _ _ hs] at h
        simp only at h
        cases h
        exact ⟨x :: xs, rfl, by simp, he, rfl⟩
  | badIsa => simp [hs] at h
  | raised => simp [hs] at h
  | badLines => simp [hs] at h
  | emptyKernel => simp [hs] at h

theorem analyse_ok_inv (isa : Operand.Isa) (m : Model) (o : Opts) (file : Txt) (r : Result)
    (h : analyse isa m o file = .ok r) :
    ∃ fs k, collect (parseFileOf isa file) = .ok fs ∧
      select o.mode ((linesOf isa m fs).map (·.pl)) = .ok k ∧ k ≠ [] ∧ firstErr (linesOf isa m fs) k = none ∧
      r = resultOf m o ((linesOf isa m fs).map (·.pl)) k (analyze (cfgOf isa m o) k) := by
  unfold analyse at h
  cases hc : collect (parseFileOf isa file) with
  | error ne => obtain ⟨n, e⟩ := ne; simp [hc] at h
  | ok fs =>
    simp only [hc] at h
    obtain ⟨k, h1, h2, h3, h4⟩ := assemble_ok_inv isa m o _ r h
    exact ⟨fs, k, rfl, h1, h2, h3, h4⟩

/-- the same, with the file given by its lines -/
theorem analyse_lines_ok_inv (isa : Operand.Isa) (m : Model) (o : Opts) (ls : List Txt) (hne : ls ≠ [])
    (hnl : ∀ l ∈ ls, 10 ∉ l) (r : Result) (h : analyse isa m o (Spec.X86R.joinLines ls) = .ok r) :
    ∃ k, select o.mode ((textLines isa m ls).map (·.pl)) = .ok k ∧ k ≠ [] ∧ firstErr (textLines isa m ls) k = none ∧
      r = resultOf m o ((textLines isa m ls).map (·.pl)) k (analyze (cfgOf isa m o) k) := by
  obtain ⟨fs, k, hc, h1, h2, h3, h4⟩ := analyse_ok_inv isa m o _ r h
  have e := linesOf_file isa m _ fs hc
  rw [splitLines_joinLines ls hne hnl] at e
  rw [e] at h1 h3 h4
  exact ⟨k, h1, h2, h3, h4⟩

/-! ### the kernel is a sublist of the file -/

theorem sliceOf_sublist {α : Type} (xs : List α) (se : Option Nat × Option Nat) : (sliceOf xs se).Sublist xs :=
  (List.drop_sublist _ _).trans (List.take_sublist _ _)

theorem select_sublist (mode : Mode) (file k : List PLine) (h : select mode file = .ok k) : k.Sublist file := by
  cases mode with
  | lines spec =>
    simp only [select] at h
    cases hr : Marker.getLineRange spec with
    | none => simp [hr] at h
    | some r =>
      simp only [hr] at h
      cases h
      exact List.filter_sublist
  | markers isa =>
    simp only [select, selectMarkers] at h
    cases hc : Pipeline.cfgOf isa with
    | none => simp [hc] at h
    | some c =>
      simp only [hc] at h
      cases hw : selectWith c file with
      | none => simp [hw] at h
      | some k' =>
        simp only [hw] at h
        cases h
        unfold selectWith at hw
        cases hf : Marker.findMarkedSection c (file.map (·.sel)) with
        | none => simp [hf] at hw
        | some se =>
          simp only [hf, Option.map_some, Option.some.injEq] at hw
          subst hw
          exact sliceOf_sublist file se

/-- with `--lines` the selection looks at the line numbers only -/
theorem select_lines_eq (spec : Txt) (file k : List PLine) (h : select (.lines spec) file = .ok k) :
    ∃ r, Marker.getLineRange spec = some r ∧ k = file.filter fun l => r.contains (l.num : Int) := by
  simp only [select] at h
  cases hr : Marker.getLineRange spec with
  | none => simp [hr] at h
  | some r =>
    simp only [hr] at h
    cases h
    exact ⟨r, rfl, rfl⟩

/-- in a list with strictly increasing numbers a number names one line -/
theorem increasing_unique (k : List PLine) (h : Increasing k) (a b : PLine) (ha : a ∈ k) (hb : b ∈ k)
    (e : a.num = b.num) : a = b := by
  unfold Increasing at h
  induction k with
  | nil => cases ha
  | cons x xs ih =>
    simp only [List.map_cons, List.pairwise_cons] at h
    rcases List.mem_cons.mp ha with ha' | ha' <;> rcases List.mem_cons.mp hb with hb' | hb'
    · rw [ha', hb']
    · subst ha'
      have := h.1 b.num (List.mem_map.mpr ⟨b, hb', rfl⟩)
      omega
    · subst hb'
      have := h.1 a.num (List.mem_map.mpr ⟨a, ha', rfl⟩)
      omega
    · exact ih h.2 ha' hb'

end OsacaVerif.EndToEnd
