import OsacaVerif.Model.Pipeline
import OsacaVerif.Lemmas.LCDPost
import OsacaVerif.Lemmas.DGEdges
/-
  Helper development for the pipeline theorems (Props/C11Pipeline), part 1: every stage of the
  graph analysis commutes with an order-preserving renaming of line numbers.
-/
namespace OsacaVerif.Pipeline
open OsacaVerif OsacaVerif.DG OsacaVerif.LCD

/-- an order-preserving renaming of line numbers -/
def Incr (f : Nat → Nat) : Prop := ∀ a b, a < b → f a < f b

theorem Incr.inj {f : Nat → Nat} (h : Incr f) {a b : Nat} (e : f a = f b) : a = b := by
  rcases Nat.lt_trichotomy a b with h1 | h1 | h1
  · have := h a b h1; omega
  · exact h1
  · have := h b a h1; omega

theorem Incr.lt_iff {f : Nat → Nat} (h : Incr f) {a b : Nat} : f a < f b ↔ a < b := by
  constructor
  · intro hl
    rcases Nat.lt_trichotomy a b with h1 | h1 | h1
    · exact h1
    · subst h1; omega
    · have := h b a h1; omega
  · exact h a b

theorem Incr.le_iff {f : Nat → Nat} (h : Incr f) {a b : Nat} : f a ≤ f b ↔ a ≤ b := by
  have := h.lt_iff (a := b) (b := a)
  omega

theorem Incr.beq {f : Nat → Nat} (h : Incr f) (a b : Nat) : (f a == f b) = (a == b) := by
  rw [Bool.eq_iff_iff, beq_iff_eq, beq_iff_eq]
  exact ⟨h.inj, fun e => by rw [e]⟩

theorem Incr.id : Incr (fun x => x) := fun _ _ h => h

theorem flatMap_congr_mem {α β : Type} {l : List α} {g h : α → List β} (e : ∀ x ∈ l, g x = h x) :
    l.flatMap g = l.flatMap h := by
  induction l with
  | nil => rfl
  | cons x xs ih =>
    simp only [List.flatMap_cons]
    rw [e x (by simp), ih (fun y hy => e y (by simp [hy]))]

theorem filterMap_congr_mem {α β : Type} {l : List α} {g h : α → Option β} (e : ∀ x ∈ l, g x = h x) :
    l.filterMap g = l.filterMap h := by
  induction l with
  | nil => rfl
  | cons x xs ih =>
    simp only [List.filterMap_cons]
    rw [e x (by simp), ih (fun y hy => e y (by simp [hy]))]

/-- an instruction form with its line number renamed -/
def renIns (f : Nat → Nat) (i : Ins) : Ins := { i with line := f i.line }

theorem toIns_renLine (f : Nat → Nat) (np : Nat) (l : PLine) :
    toIns np (renLine f l) = renIns f (toIns np l) := rfl

theorem toPorts_renLine (f : Nat → Nat) (np : Nat) (l : PLine) :
    toPorts np (renLine f l) = toPorts np l := rfl

theorem rowOf_renLine (f : Nat → Nat) (np : Nat) (l : PLine) :
    rowOf np (renLine f l) = renRow f (rowOf np l) := rfl

/-! ### the forward scans emit the renamed lines (any `f`) -/

theorem scanTarget_ren (f : Nat → Nat) (isa : Isa) (t : Target) (tag : Tag) (l : List Ins) :
    scanTarget isa t tag (l.map (renIns f)) = (scanTarget isa t tag l).map (fun p => (f p.1, p.2)) := by
  induction l with
  | nil => rfl
  | cons i rest ih =>
    have h1 : isRead isa t (renIns f i) = isRead isa t i := rfl
    have h2 : isWritten isa t (renIns f i) = isWritten isa t i := rfl
    simp only [List.map_cons, scanTarget, h1, h2, ih]
    by_cases hr : isRead isa t i = true <;> by_cases hw : isWritten isa t i = true <;> simp [hr, hw, renIns]

theorem scanMem_ren (f : Nat → Nat) (isa : Isa) (m : Mem) (s : RegState) (l : List Ins) :
    scanMem isa m s (l.map (renIns f)) = (scanMem isa m s l).map (fun p => (f p.1, p.2)) := by
  induction l generalizing s with
  | nil => rfl
  | cons i rest ih =>
    have h1 : memStop isa m (renIns f i) = memStop isa m i := rfl
    have h2 : ∀ st, isMemload m (renIns f i) st = isMemload m i st := fun _ => rfl
    have h3 : isMemstore m (renIns f i) = isMemstore m i := rfl
    have h4 : (renIns f i).changes = i.changes := rfl
    have h5 : (renIns f i).changesPost = i.changesPost := rfl
    simp only [List.map_cons, scanMem, h1, h2, h3, h4, h5, ih]
    by_cases hs : memStop isa m i = true
    · simp [hs]
    · by_cases hl : isMemload m i (updateState s i.changes) = true <;>
        by_cases hst : isMemstore m i = true <;> simp [hs, hl, hst, renIns]

theorem findDepending_ren (f : Nat → Nat) (isa : Isa) (fd : Bool) (p : Ins) (rest : List Ins) :
    findDepending isa fd (renIns f p) (rest.map (renIns f)) =
      (findDepending isa fd p rest).map (fun q => (f q.1, q.2)) := by
  unfold findDepending
  have h1 : (renIns f p).dst = p.dst := rfl
  have h2 : (renIns f p).srcDst = p.srcDst := rfl
  have h3 : startState (renIns f p) = startState p := rfl
  rw [h1, h2, h3, List.map_flatMap]
  apply flatMap_congr_mem
  intro d _
  cases d with
  | reg r => exact scanTarget_ren f isa _ _ rest
  | flag n =>
    by_cases hfd : fd = true
    · simp only [hfd, if_true]; exact scanTarget_ren f isa _ _ rest
    · simp [hfd]
  | mem m => exact scanMem_ren f isa m _ rest
  | other => rfl

theorem emissions_ren (f : Nat → Nat) (isa : Isa) (fd : Bool) (par : Params) (k : List Ins) :
    emissions isa fd par (k.map (renIns f)) = (emissions isa fd par k).map (renEdge f) := by
  induction k with
  | nil => rfl
  | cons p rest ih =>
    simp only [List.map_cons, emissions, ih, findDepending_ren, List.map_append, List.map_map]
    congr 1
    congr 1
    · by_cases h : (p.hasLd && !p.isLd) = true
      · have h' : ((renIns f p).hasLd && !(renIns f p).isLd) = true := h
        rw [if_pos h, if_pos h']; rfl
      · have h' : ¬ ((renIns f p).hasLd && !(renIns f p).isLd) = true := h
        rw [if_neg h, if_neg h']; rfl

/-! ### `add_edge` semantics: needs an injective renaming -/

theorem renNode_beq {f : Nat → Nat} (hf : Incr f) (a b : Node) : (renNode f a == renNode f b) = (a == b) := by
  rw [Bool.eq_iff_iff, beq_iff_eq, beq_iff_eq]
  constructor
  · intro e
    have h1 : f a.line = f b.line := congrArg Node.line e
    have h2 : a.load = b.load := (congrArg Node.load e : (renNode f a).load = (renNode f b).load)
    cases a; cases b; simp only [Node.mk.injEq] at *
    exact ⟨hf.inj h1, h2⟩
  · intro e; rw [e]

theorem addEdge_ren {f : Nat → Nat} (hf : Incr f) (acc : List Edge) (e : Edge) :
    addEdge (acc.map (renEdge f)) (renEdge f e) = (addEdge acc e).map (renEdge f) := by
  unfold addEdge
  have hc : ∀ g : Edge, ((renEdge f g).src == (renEdge f e).src && (renEdge f g).dst == (renEdge f e).dst) =
      (g.src == e.src && g.dst == e.dst) := by
    intro g
    show (renNode f g.src == renNode f e.src && renNode f g.dst == renNode f e.dst) = _
    rw [renNode_beq hf, renNode_beq hf]
  have hany : (acc.map (renEdge f)).any (fun g => g.src == (renEdge f e).src && g.dst == (renEdge f e).dst) =
      acc.any (fun g => g.src == e.src && g.dst == e.dst) := by
    rw [List.any_map]
    congr 1
    funext g
    exact hc g
  rw [hany]
  split
  · rw [List.map_map, List.map_map]
    apply List.map_congr_left
    intro g _
    simp only [Function.comp_apply]
    rw [hc g]
    split <;> rfl
  · rw [List.map_append]; rfl

theorem dedupLast_ren {f : Nat → Nat} (hf : Incr f) (es : List Edge) :
    dedupLast (es.map (renEdge f)) = (dedupLast es).map (renEdge f) := by
  unfold dedupLast
  suffices h : ∀ acc : List Edge, (es.map (renEdge f)).foldl addEdge (acc.map (renEdge f)) =
      (es.foldl addEdge acc).map (renEdge f) by simpa using h []
  induction es with
  | nil => intro acc; rfl
  | cons e es ih =>
    intro acc
    simp only [List.map_cons, List.foldl_cons]
    rw [addEdge_ren hf, ih]

/-- **the dependency graph commutes with an order-preserving renaming** -/
theorem create_ren {f : Nat → Nat} (hf : Incr f) (isa : Isa) (fd : Bool) (par : Params) (k : List Ins) :
    create isa fd par (k.map (renIns f)) = (create isa fd par k).map (renEdge f) := by
  unfold create
  rw [emissions_ren, dedupLast_ren hf]

/-! ### path search -/

theorem succs_ren {f : Nat → Nat} (hf : Incr f) (es : List Edge) (n : Nat) :
    succs (es.map (renEdge f)) (f n) = (succs es n).map (renPair f) := by
  unfold succs
  rw [List.filterMap_map, List.map_filterMap]
  apply filterMap_congr_mem
  intro e _
  simp only [Function.comp_apply]
  have hc : (!(renEdge f e).src.load && (renEdge f e).src.line == f n && !(renEdge f e).dst.load) =
      (!e.src.load && e.src.line == n && !e.dst.load) := by
    show (!e.src.load && f e.src.line == f n && !e.dst.load) = _
    rw [hf.beq]
  rw [hc]
  split <;> rfl

theorem contains_map_incr {f : Nat → Nat} (hf : Incr f) (l : List Nat) (x : Nat) :
    (l.map f).contains (f x) = l.contains x := by
  induction l with
  | nil => rfl
  | cons y ys ih =>
    simp only [List.map_cons, List.contains_cons, ih]
    rw [hf.beq]

theorem pathsFrom_ren {f : Nat → Nat} (hf : Incr f) (es : List Edge) (tgt : Nat) (fuel cur : Nat) (vis : List Nat) :
    pathsFrom (es.map (renEdge f)) (f tgt) fuel (f cur) (vis.map f) =
      (pathsFrom es tgt fuel cur vis).map (fun p => p.map (renPair f)) := by
  induction fuel generalizing cur vis with
  | zero => rfl
  | succ n ih =>
    simp only [pathsFrom]
    rw [succs_ren hf, List.flatMap_map, List.map_flatMap]
    apply flatMap_congr_mem
    intro x _
    obtain ⟨nxt, w⟩ := x
    simp only [renPair, hf.beq, contains_map_incr hf]
    by_cases h1 : (nxt == tgt) = true
    · simp [h1, renPair]
    · by_cases h2 : vis.contains nxt = true
      · simp only [h1, h2, Bool.false_eq_true, if_false, if_true, List.map_nil]
      · have := ih nxt (nxt :: vis)
        simp only [List.map_cons] at this
        simp only [h1, h2, Bool.false_eq_true, if_false, this, List.map_map]
        apply List.map_congr_left
        intro p _
        simp [renPair]

/-! ### post-processing: map back, sort, de-duplicate -/

theorem insertPair_ren {f : Nat → Nat} (hf : Incr f) (x : Nat × Rat) (l : List (Nat × Rat)) :
    insertPair (renPair f x) (l.map (renPair f)) = (insertPair x l).map (renPair f) := by
  induction l with
  | nil => rfl
  | cons y ys ih =>
    simp only [List.map_cons, insertPair]
    have hc : (decide ((renPair f x).1 < (renPair f y).1) ||
        ((renPair f x).1 == (renPair f y).1 && decide ((renPair f x).2 ≤ (renPair f y).2))) =
        (decide (x.1 < y.1) || (x.1 == y.1 && decide (x.2 ≤ y.2))) := by
      show (decide (f x.1 < f y.1) || (f x.1 == f y.1 && decide (x.2 ≤ y.2))) = _
      rw [hf.beq]
      congr 1
      exact decide_eq_decide.mpr hf.lt_iff
    rw [hc]
    split
    · rfl
    · rw [List.map_cons, ih]

theorem sortPairs_ren {f : Nat → Nat} (hf : Incr f) (l : List (Nat × Rat)) :
    sortPairs (l.map (renPair f)) = (sortPairs l).map (renPair f) := by
  induction l with
  | nil => rfl
  | cons x xs ih =>
    simp only [List.map_cons, sortPairs, List.foldr_cons] at *
    rw [ih, insertPair_ren hf]

theorem renPair_inj {f : Nat → Nat} (hf : Incr f) {a b : Nat × Rat} (e : renPair f a = renPair f b) : a = b := by
  obtain ⟨a1, a2⟩ := a; obtain ⟨b1, b2⟩ := b
  simp only [renPair, Prod.mk.injEq] at e
  rw [hf.inj e.1, e.2]

theorem pairsEq_ren {f : Nat → Nat} (hf : Incr f) (a b : List (Nat × Rat)) :
    pairsEq (a.map (renPair f)) (b.map (renPair f)) = pairsEq a b := by
  unfold pairsEq
  rw [List.length_map, List.length_map]
  congr 1
  induction a generalizing b with
  | nil => cases b <;> rfl
  | cons x xs ih =>
    cases b with
    | nil => rfl
    | cons y ys =>
      simp only [List.map_cons, List.zip_cons_cons, List.all_cons, ih]
      congr 1
      show (f x.1 == f y.1 && x.2 == y.2) = _
      rw [hf.beq]

theorem postDedup_ren {f : Nat → Nat} (hf : Incr f) (seen l : List (List (Nat × Rat))) :
    post.dedup (seen.map (fun p => p.map (renPair f))) (l.map (fun p => p.map (renPair f))) =
      (post.dedup seen l).map (fun p => p.map (renPair f)) := by
  induction l generalizing seen with
  | nil => rfl
  | cons p ps ih =>
    simp only [List.map_cons, post.dedup]
    have hany : (seen.map (fun p => p.map (renPair f))).any (pairsEq (p.map (renPair f))) = seen.any (pairsEq p) := by
      rw [List.any_map]
      congr 1
      funext q
      exact pairsEq_ren hf p q
    rw [hany]
    split
    · exact ih seen
    · have := ih (p :: seen)
      simp only [List.map_cons] at this
      rw [List.map_cons, this]

theorem mkEntry_ren (f : Nat → Nat) (p : List (Nat × Rat)) :
    mkEntry (p.map (renPair f)) = renEntry f (mkEntry p) := by
  simp [mkEntry, renEntry, renPair, List.map_map, Function.comp_def]

/-- the post-processing commutes with the renaming, given that mapping back does:
    `F` renames the nodes of the doubled graph, `f` the lines of the kernel -/
theorem post_ren {f F : Nat → Nat} (hf : Incr f) (off off' : Nat)
    (hback : ∀ s, backLine off' (F s) = f (backLine off s)) (paths : List (List (Nat × Rat))) :
    post off' (paths.map (fun p => p.map (renPair F))) = (post off paths).map (renEntry f) := by
  rw [post_eq, post_eq]
  have hnorm : ∀ p : List (Nat × Rat), normPath off' (p.map (renPair F)) = (normPath off p).map (renPair f) := by
    intro p
    unfold normPath
    rw [← sortPairs_ren hf, List.map_map, List.map_map]
    congr 1
    apply List.map_congr_left
    intro x _
    simp [back, renPair, hback]
  rw [List.map_map]
  have : (paths.map ((normPath off') ∘ fun p => p.map (renPair F))) =
      (paths.map (normPath off)).map (fun p => p.map (renPair f)) := by
    rw [List.map_map]
    apply List.map_congr_left
    intro p _
    exact hnorm p
  rw [this]
  have := postDedup_ren hf [] (paths.map (normPath off))
  simp only [List.map_nil] at this
  rw [this, List.map_map, List.map_map]
  apply List.map_congr_left
  intro p _
  exact mkEntry_ren f p

end OsacaVerif.Pipeline
