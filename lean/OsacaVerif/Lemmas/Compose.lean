import OsacaVerif.Model.Compose
import OsacaVerif.Spec.Composed
import OsacaVerif.Props.C01
/-
  Helper lemmas of C08: what a successful `averageY` returns, bounds of resolved micro-ops, sums of
  uniform splits.
-/
namespace OsacaVerif.Lemmas.Compose
open OsacaVerif OsacaVerif.Text OsacaVerif.Ports OsacaVerif.Spec

theorem bind_ok {ε α β : Type} (x : Except ε α) (f : α → Except ε β) (r : β) :
    (x >>= f) = .ok r ↔ ∃ a, x = .ok a ∧ f a = .ok r := by
  cases x with
  | error e => simp [bind, Except.bind]
  | ok a => simp [bind, Except.bind]

theorem mapE_mem {α β : Type} (f : α → Except Err β) (l : List α) (ys : List β) (h : mapE f l = .ok ys) :
    ∀ y ∈ ys, ∃ x ∈ l, f x = .ok y := by
  induction l generalizing ys with
  | nil => simp [mapE] at h; subst h; simp
  | cons x xs ih =>
    simp only [mapE] at h
    cases hx : f x with
    | error e => simp [hx] at h
    | ok y0 =>
      cases hxs : mapE f xs with
      | error e => simp [hx, hxs] at h
      | ok ys0 =>
        simp only [hx, hxs, Except.ok.injEq] at h
        subst h
        intro y hy
        simp only [List.mem_cons] at hy
        rcases hy with hy | hy
        · exact ⟨x, by simp, by rw [hy]; exact hx⟩
        · obtain ⟨x', hx', hf⟩ := ih ys0 hxs y hy
          exact ⟨x', by simp [hx'], hf⟩

theorem indexOf_lt (ports : List Txt) (t : Txt) (i : Nat) (h : indexOf ports t = some i) : i < ports.length := by
  unfold indexOf at h
  by_cases hlt : ports.findIdx (· == t) < ports.length
  · simp only [hlt, if_true, Option.some.injEq] at h
    omega
  · simp [hlt] at h

theorem resolvePort_lt (ports : List Txt) (y : Y) (i : Nat) (h : resolvePort ports y = .ok i) : i < ports.length := by
  cases y with
  | str t =>
    simp only [resolvePort] at h
    cases hi : indexOf ports t with
    | none => simp [hi] at h
    | some j =>
      simp only [hi, Except.ok.injEq] at h
      subst h
      exact indexOf_lt ports t j hi
  | _ => simp [resolvePort] at h

/-- a resolved micro-op only names ports of the port list and carries multiplier 1 -/
theorem resolveUop_bound (ports : List Txt) (y : Y) (u : Uop) (h : resolveUop ports y = .ok u) :
    (∀ p ∈ u.ports, p < ports.length) ∧ u.mult = 1 := by
  unfold resolveUop at h
  split at h
  · rename_i c p
    cases hp : portItems p with
    | error e => simp [hp] at h
    | ok items =>
      cases hm : mapE (resolvePort ports) items with
      | error e => simp [hp, hm] at h
      | ok idx =>
        simp only [hp, hm] at h
        have hb : ∀ q ∈ idx, q < ports.length := by
          intro q hq
          obtain ⟨x, _, hx⟩ := mapE_mem _ items idx hm q hq
          exact resolvePort_lt ports x q hx
        split at h
        · simp only [Except.ok.injEq] at h
          subst h
          exact ⟨hb, rfl⟩
        · split at h
          · simp only [Except.ok.injEq] at h
            subst h
            exact ⟨by simp, rfl⟩
          · simp at h
  · simp at h
  · split at h <;> simp at h
  · simp at h

theorem resolveList_bound (ports : List Txt) (y : Y) (us : List Uop) (h : resolveList ports y = .ok us) :
    ∀ u ∈ us, (∀ p ∈ u.ports, p < ports.length) ∧ u.mult = 1 := by
  intro u hu
  unfold resolveList at h
  split at h
  · obtain ⟨x, _, hx⟩ := mapE_mem _ _ us h u hu
    exact resolveUop_bound ports x u hx
  · split at h
    · obtain ⟨x, _, hx⟩ := mapE_mem _ _ us h u hu
      exact resolveUop_bound ports x u hx
    · simp at h
    · simp at h
  · simp at h

/-- a successful `average_port_pressure` is the uniform split of the resolved micro-ops -/
theorem averageY_ok (ports : List Txt) (y : Y) (v : List Rat) (h : averageY ports y = .ok v) :
    ∃ us, resolveList ports y = .ok us ∧ v = uniform ports.length us ∧
      ∀ u ∈ us, (∀ p ∈ u.ports, p < ports.length) ∧ u.mult = 1 := by
  unfold averageY at h
  cases hr : resolveList ports y with
  | error e => simp [hr] at h
  | ok us =>
    simp only [hr, Except.ok.injEq] at h
    have hb := resolveList_bound ports y us hr
    refine ⟨us, rfl, ?_, hb⟩
    rw [← h]
    exact average_eq_uniform _ us (fun u hu => (hb u hu).1)

/-- the sum of two uniform splits is the uniform split of the concatenation -/
theorem addVec_uniform (n : Nat) (a b : List Uop) :
    addVec (uniform n a) (uniform n b) = uniform n (a ++ b) := by
  apply List.ext_getElem
  · rw [Props.C01.length_addVec _ _ (by simp [length_uniform])]
    simp [length_uniform]
  · intro j h1 h2
    have hj : j < n := by simpa [length_uniform] using h2
    have g1 : (addVec (uniform n a) (uniform n b))[j] = (addVec (uniform n a) (uniform n b)).getD j 0 := by
      simp [List.getD_eq_getElem?_getD, List.getElem?_eq_getElem h1]
    have g2 : (uniform n (a ++ b))[j] = (uniform n (a ++ b)).getD j 0 := by
      simp [List.getD_eq_getElem?_getD, List.getElem?_eq_getElem h2]
    rw [g1, g2, Props.C01.getD_addVec _ _ (by simp [length_uniform]), getD_uniform n a j hj, getD_uniform n b j hj,
      getD_uniform n (a ++ b) j hj]
    simp

theorem uniform_nil (n : Nat) : uniform n [] = zeros n := by
  simp [uniform, zeros, List.map_const']

theorem scale_uniform (n : Nat) (m : Rat) (us : List Uop) :
    scale m (uniform n us) = uniform n (us.map (withMult m)) := by
  rw [← Props.C01.uniform_mult n m us]
  rfl

theorem maxList_ok (l : List Rat) (r : Rat) (h : OsacaVerif.Compose.maxList l = .ok r) : r = maxOf l := by
  cases l with
  | nil => simp [OsacaVerif.Compose.maxList] at h
  | cons x xs =>
    simp only [OsacaVerif.Compose.maxList, Except.ok.injEq] at h
    rw [← h]; rfl

end OsacaVerif.Lemmas.Compose
