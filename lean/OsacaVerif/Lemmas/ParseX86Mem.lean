import OsacaVerif.Lemmas.ParseX86Tok
/-
  C09 — memory operands: `disp ( base , index , scale )` in every combination the renderer
  writes, with arbitrary blanks inside, is read back part by part.
-/
namespace OsacaVerif.ParseX86
open OsacaVerif.Text OsacaVerif.X86 OsacaVerif.Spec.X86R

theorem blank_allWs {w : Txt} (h : blank w = true) : AllWs w := by
  intro c hc
  have := List.all_eq_true.mp h c hc
  simp [isBlankC] at this
  rcases this with h | h <;> subst h <;> decide

/-- punctuation sets for the different positions -/
def SepC (c : Nat) : Bool := c == 44 || c == 35 || c == 47          -- after an operand
def SOpen (c : Nat) : Bool := c == 40                                -- after a displacement
def SInner (c : Nat) : Bool := c == 44 || c == 41                    -- after base / index

theorem SepC_punct (c : Nat) (h : SepC c = true) : Punct c = true := by
  simp [SepC, Punct] at *; omega
theorem SOpen_punct (c : Nat) (h : SOpen c = true) : Punct c = true := by
  simp [SOpen, Punct] at *; omega
theorem SInner_punct (c : Nat) (h : SInner c = true) : Punct c = true := by
  simp [SInner, Punct] at *; omega

def validScale (s : Nat) : Bool := s == 1 || s == 2 || s == 4 || s == 8

/-- what the grammar sees of the scale: the character, if written -/
def scaleSeen (L : OpLayout) (scale : Nat) (index : Option Txt) : Option Nat :=
  if index.isSome && (scale != 1 || L.showScale) then some (48 + scale) else none

theorem scale_step (L : OpLayout) (h6 : AllWs L.w6) (h7 : AllWs L.w7) (scale : Nat)
    (hs : validScale scale = true) (k : Txt) :
    lit [41] (opt scaleP (optR (lit [44]) (renderScale L scale ++ 41 :: k))).2 = some k ∧
    (opt scaleP (optR (lit [44]) (renderScale L scale ++ 41 :: k))).1 =
      (if scale != 1 || L.showScale then some (48 + scale) else none) := by
  unfold renderScale
  by_cases hsh : (scale != 1 || L.showScale) = true
  · simp only [hsh, if_true, List.cons_append, List.append_assoc]
    have hc : isScaleC (48 + scale) = true := by
      simp [validScale] at hs; rcases hs with ((h | h) | h) | h <;> subst h <;> decide
    have hcw : isWs (48 + scale) = false := by
      simp [validScale] at hs; rcases hs with ((h | h) | h) | h <;> subst h <;> decide
    have h1 : lit [44] (44 :: (L.w6 ++ (48 + scale) :: (L.w7 ++ 41 :: k))) =
        some (L.w6 ++ (48 + scale) :: (L.w7 ++ 41 :: k)) := by
      simpa using lit1_append (b := []) (x := 44) AllWs.nil (by decide)
    have h2 : scaleP (L.w6 ++ (48 + scale) :: (L.w7 ++ 41 :: k)) = some (48 + scale, L.w7 ++ 41 :: k) :=
      word1_append h6 hcw hc
    simp [optR, opt, h1, h2, lit1_append h7 (show isWs 41 = false by decide)]
  · simp only [hsh, if_false, List.nil_append, Bool.false_eq_true]
    have hn : nextC (41 :: k) = some 41 := nextC_cons (by decide)
    have h1 : lit [44] (41 :: k) = none := lit1_none (by rw [hn]; decide)
    have hsk : skipWs (41 :: k) = 41 :: k := skipWs_cons_not (by decide)
    have h2 : scaleP (41 :: k) = none := word1_none (by intro c hc; rw [hn] at hc; cases hc; decide)
    have h3 : lit [41] (41 :: k) = some k := by
      simpa using lit1_append (b := []) (x := 41) AllWs.nil (by decide)
    simp [optR, opt, h1, h2, hsk, h3]

/-- from the index (or the closing parenthesis) on -/
theorem index_step (L : OpLayout) (h4 : AllWs L.w4) (h5 : AllWs L.w5) (h6 : AllWs L.w6)
    (h7 : AllWs L.w7) (index : Option Txt) (scale : Nat) (hi : index.all validReg = true)
    (hs : validScale scale = true) (k : Txt) :
    let i := opt register (optR (lit [44]) (renderIndex L scale index ++ 41 :: k))
    let s := opt scaleP (optR (lit [44]) i.2)
    i.1 = index ∧ s.1 = scaleSeen L scale index ∧ lit [41] s.2 = some k := by
  cases index with
  | none =>
    simp only [renderIndex, List.nil_append, scaleSeen, Option.isSome_none, Bool.false_and,
      Bool.false_eq_true, if_false]
    have hn : nextC (41 :: k) = some 41 := nextC_cons (by decide)
    have h1 : lit [44] (41 :: k) = none := lit1_none (by rw [hn]; decide)
    have hsk : skipWs (41 :: k) = 41 :: k := skipWs_cons_not (by decide)
    have h2 : register (41 :: k) = none := register_none (by rw [hn]; decide)
    have h3 : scaleP (41 :: k) = none := word1_none (by intro c hc; rw [hn] at hc; cases hc; decide)
    have h4 : lit [41] (41 :: k) = some k := by
      simpa using lit1_append (b := []) (x := 41) AllWs.nil (by decide)
    simp [optR, opt, h1, h2, h3, hsk, h4]
  | some iname =>
    simp only [Option.all_some] at hi
    simp only [renderIndex, List.cons_append, List.append_assoc, scaleSeen, Option.isSome_some,
      Bool.true_and]
    have h1 : lit [44] (44 :: (L.w4 ++ 37 :: (iname ++ (L.w5 ++ (renderScale L scale ++ 41 :: k))))) =
        some (L.w4 ++ 37 :: (iname ++ (L.w5 ++ (renderScale L scale ++ 41 :: k)))) := by
      simpa using lit1_append (b := []) (x := 44) AllWs.nil (by decide)
    -- what follows the index register: blanks, then `,` (scale) or `)`
    have htail : Tail SInner (L.w5 ++ (renderScale L scale ++ 41 :: k)) := by
      apply Tail.append h5
      unfold renderScale
      split
      · exact Tail.cons _ (by decide) (by decide)
      · exact Tail.cons _ (by decide) (by decide)
    have hskip : skipWs (L.w5 ++ (renderScale L scale ++ 41 :: k)) = renderScale L scale ++ 41 :: k := by
      rw [skipWs_append h5]
      unfold renderScale
      split
      · exact skipWs_cons_not (by decide)
      · exact skipWs_cons_not (by decide)
    have h2 := register_ok SInner_punct (by decide) hi h4 htail
    rw [hskip] at h2
    obtain ⟨hs1, hs2⟩ := scale_step L h6 h7 scale hs k
    simp only [optR, h1, Option.getD_some, opt, h2]
    exact ⟨trivial, hs2, hs1⟩

/-- **the parenthesised part** `( base , index , scale )` of a memory operand: every combination with
    a base or an index, scale written or omitted, any blanks -/
theorem parenPart_ok (L : OpLayout) (hbl : L.blanks.all blank = true) (base index : Option Txt)
    (scale : Nat) (hb : base.all validReg = true) (hi : index.all validReg = true)
    (hs : validScale scale = true) (hbi : (base.isSome || index.isSome) = true)
    {b0 : Txt} (hb0 : AllWs b0) (k : Txt) :
    parenPart (b0 ++ 40 :: (L.w2 ++ (renderBase L base ++ (renderIndex L scale index ++ 41 :: k)))) =
      some ((base, index, scaleSeen L scale index), k) := by
  simp only [OpLayout.blanks, List.all_cons, List.all_nil, Bool.and_true, Bool.and_eq_true] at hbl
  obtain ⟨_, _, _, h2, h3, h4, h5, h6, h7⟩ := hbl
  have h2 := blank_allWs h2; have h3 := blank_allWs h3; have h4 := blank_allWs h4
  have h5 := blank_allWs h5; have h6 := blank_allWs h6; have h7 := blank_allWs h7
  have hopen : lit [40] (b0 ++ 40 :: (L.w2 ++ (renderBase L base ++ (renderIndex L scale index ++ 41 :: k)))) =
      some (L.w2 ++ (renderBase L base ++ (renderIndex L scale index ++ 41 :: k))) :=
    lit1_append hb0 (by decide)
  -- the text from the index on starts with `,` or `)`
  have hY : ∃ c r, renderIndex L scale index ++ 41 :: k = c :: r ∧ SInner c = true := by
    cases index with
    | none => exact ⟨41, k, rfl, by decide⟩
    | some i => exact ⟨44, _, by simp only [renderIndex, List.cons_append]; rfl, by decide⟩
  obtain ⟨cY, rY, hYeq, hYc⟩ := hY
  have hYws : isWs cY = false := punct_not_ws cY (SInner_punct cY hYc)
  have hYskip : skipWs (renderIndex L scale index ++ 41 :: k) = renderIndex L scale index ++ 41 :: k := by
    rw [hYeq]; exact skipWs_cons_not hYws
  have hbase : opt register (L.w2 ++ (renderBase L base ++ (renderIndex L scale index ++ 41 :: k))) =
      (base, renderIndex L scale index ++ 41 :: k) := by
    cases base with
    | some bn =>
      simp only [Option.all_some] at hb
      simp only [renderBase, List.cons_append, List.append_assoc]
      have ht : Tail SInner (L.w3 ++ (renderIndex L scale index ++ 41 :: k)) := by
        apply Tail.append h3; rw [hYeq]; exact Tail.cons _ hYc hYws
      have := register_ok SInner_punct (by decide) hb h2 ht
      rw [skipWs_append h3, hYskip] at this
      simp [opt, this]
    | none =>
      simp only [renderBase, List.nil_append]
      have hn : nextC (L.w2 ++ (renderIndex L scale index ++ 41 :: k)) = some cY := by
        rw [nextC_append h2, hYeq]; exact nextC_cons hYws
      have h37 : cY ≠ 37 := by intro e; subst e; simp [SInner] at hYc
      have := register_none (t := L.w2 ++ (renderIndex L scale index ++ 41 :: k))
        (by rw [hn]; intro e; cases e; exact h37 rfl)
      simp [opt, this, skipWs_append h2, hYskip]
  obtain ⟨hi1, hi2, hi3⟩ := index_step L h4 h5 h6 h7 index scale hi hs k
  simp only [parenPart, hopen, Option.bind_some, hbase]
  simp only [hi3, Option.map_some, hi1, hi2]

/-! ### every token parser skips leading blanks itself -/

@[simp] theorem lit_skipWs (s t : Txt) : lit s (skipWs t) = lit s t := by simp [lit]
@[simp] theorem word_skipWs (p : Nat → Bool) (t : Txt) : word p (skipWs t) = word p t := by simp [word]
@[simp] theorem word1_skipWs (p : Nat → Bool) (t : Txt) : word1 p (skipWs t) = word1 p t := by simp [word1]
@[simp] theorem hexNumber_skipWs (t : Txt) : hexNumber (skipWs t) = hexNumber t := by simp [hexNumber]
@[simp] theorem decimalNumber_skipWs (t : Txt) : decimalNumber (skipWs t) = decimalNumber t := by
  simp [decimalNumber]
@[simp] theorem idOffset_skipWs (t : Txt) : idOffset (skipWs t) = idOffset t := by simp [idOffset]
@[simp] theorem identifier_skipWs (p : Nat → Bool) (tr : Bool) (t : Txt) :
    identifier p tr (skipWs t) = identifier p tr t := by simp [identifier, optR]
@[simp] theorem offsetG_skipWs (t : Txt) : offsetG (skipWs t) = offsetG t := by simp [offsetG]
@[simp] theorem register_skipWs (t : Txt) : register (skipWs t) = register t := by simp [register]
@[simp] theorem parenPart_skipWs (t : Txt) : parenPart (skipWs t) = parenPart t := by simp [parenPart]
@[simp] theorem opt_skipWs {α : Type} (P : Txt → Option (α × Txt)) (hP : ∀ t, P (skipWs t) = P t)
    (t : Txt) : opt P (skipWs t) = opt P t := by simp [opt, hP]

/-- `offsetG` fails where neither a number nor a name can start -/
theorem offsetG_none {t : Txt}
    (h : ∀ c, nextC t = some c → c ≠ 45 ∧ isDigitC c = false ∧ isIdFirst c = false) : offsetG t = none := by
  have h1 : hexNumber t = none := hexNumber_none (fun c hc => by
    obtain ⟨a, b, _⟩ := h c hc
    exact ⟨a, by intro e; subst e; simp [isDigitC] at b⟩)
  have h2 : decimalNumber t = none := decimalNumber_none (fun c hc => ⟨(h c hc).1, (h c hc).2.1⟩)
  have h3 : identifier isIdRest true t = none := identifier_none (fun c hc => ⟨(h c hc).2.2, (h c hc).2.1⟩)
  simp [offsetG, h1, h2, h3]

theorem maskCore_none {t : Txt} (h : nextC t ≠ some 123) : maskCore t = none := by
  simp [maskCore, lit1_none h]

/-- how the grammar sees a displacement of the domain -/
def rawOff (f : NumFmt) : Option Off → Option RawOff
  | some (.imm v) => some (.num (renderInt f v))
  | some (.ident n) => some (.ident n)
  | _ => none

/-- the displacement (or its absence) before the opening parenthesis -/
theorem disp_step (f : NumFmt) (off : Option Off) (hoff : validOff off = true) {b w1 : Txt}
    (hb : AllWs b) (hw1 : AllWs w1) (X : Txt) :
    nextC (b ++ (renderOff f off ++ (w1 ++ 40 :: X))) ≠ some 42 ∧
    ∃ r, opt offsetG (b ++ (renderOff f off ++ (w1 ++ 40 :: X))) = (rawOff f off, r) ∧
      skipWs r = 40 :: X := by
  have hT : Tail SOpen (w1 ++ 40 :: X) := Tail.append hw1 (Tail.cons _ (by decide) (by decide))
  have hTs : skipWs (w1 ++ 40 :: X) = 40 :: X := by
    rw [skipWs_append hw1]; exact skipWs_cons_not (by decide)
  match off, hoff with
  | none, _ =>
    simp only [renderOff, List.nil_append, rawOff]
    have hn : nextC (b ++ (w1 ++ 40 :: X)) = some 40 := by
      rw [nextC_append hb, nextC_append hw1]; exact nextC_cons (by decide)
    refine ⟨by rw [hn]; decide, skipWs (b ++ (w1 ++ 40 :: X)), ?_, ?_⟩
    · have := offsetG_none (t := b ++ (w1 ++ 40 :: X)) (by
        intro c hc; rw [hn] at hc; cases hc; decide)
      simp [opt, this]
    · rw [skipWs_skipWs, skipWs_append hb, hTs]
  | some (.imm v), _ =>
    simp only [renderOff, rawOff]
    obtain ⟨c, cs, hc, hcc⟩ := renderInt_head f v
    have hcw : isWs c = false := by
      rcases hcc with h | h
      · subst h; decide
      · exact digit_not_ws c h
    have hn : nextC (b ++ (renderInt f v ++ (w1 ++ 40 :: X))) = some c := by
      rw [nextC_append hb, hc]; exact nextC_cons hcw
    refine ⟨?_, w1 ++ 40 :: X, ?_, hTs⟩
    · rw [hn]; intro e; cases e
      rcases hcc with h | h
      · cases h
      · simp [isDigitC] at h
    · simp [opt, offsetG_num SOpen_punct f v hb hT]
  | some (.ident n), h =>
    simp only [renderOff, rawOff]
    simp only [validOff] at h
    cases n with
    | nil => simp [validIdent] at h
    | cons c r =>
      have hc : isIdStart c = true := by
        simp only [validIdent, Bool.and_eq_true] at h; exact h.1
      obtain ⟨hf, hnd, hnw⟩ := spec_idStart c hc
      have hn : nextC (b ++ (c :: r ++ (w1 ++ 40 :: X))) = some c := by
        rw [nextC_append hb]; exact nextC_cons hnw
      have hne : c ≠ 45 ∧ c ≠ 48 ∧ c ≠ 42 := by
        simp [isIdStart, Spec.X86R.isAlpha] at hc; omega
      have h1 : hexNumber (b ++ (c :: r ++ (w1 ++ 40 :: X))) = none :=
        hexNumber_none (by intro d hd; rw [hn] at hd; cases hd; exact ⟨hne.1, hne.2.1⟩)
      have h2 : decimalNumber (b ++ (c :: r ++ (w1 ++ 40 :: X))) = none :=
        decimalNumber_none (by intro d hd; rw [hn] at hd; cases hd; exact ⟨hne.1, hnd⟩)
      have h3 := identifier_ok SOpen_punct h hb hT
      refine ⟨by rw [hn]; intro e; cases e; exact hne.2.2 rfl, skipWs (w1 ++ 40 :: X), ?_,
        by rw [skipWs_skipWs]; exact hTs⟩
      simp only [opt, offsetG, h1, h2, h3, Option.map_some]

/-- **memory operand with parentheses**: all six combinations of base/index with and without a
    displacement (number or label), scale written or omitted, blanks anywhere -/
theorem memory_paren (L : OpLayout) (hbl : L.blanks.all blank = true) (off : Option Off)
    (base index : Option Txt) (scale : Nat) (hoff : validOff off = true)
    (hb : base.all validReg = true) (hi : index.all validReg = true) (hs : validScale scale = true)
    (hbi : (base.isSome || index.isSome) = true) {b k : Txt} (hb0 : AllWs b)
    (hk : nextC k ≠ some 123) :
    memory (b ++ (renderMem L off base index scale ++ k)) =
      some ({ off := rawOff L.num off, base := base, index := index,
              scale := scaleSeen L scale index, empty := false }, skipWs k) := by
  have hw1 : AllWs L.w1 := by
    simp only [OpLayout.blanks, List.all_cons, Bool.and_eq_true] at hbl
    exact blank_allWs hbl.2.2.1
  have hnn : (base.isNone && index.isNone) = false := by
    cases base <;> cases index <;> simp at hbi ⊢
  simp only [renderMem, hnn, Bool.false_eq_true, if_false, List.append_assoc, List.cons_append,
    List.nil_append]
  obtain ⟨hstar, r, hoffs, hr⟩ := disp_step L.num off hoff hb0 hw1
    (L.w2 ++ (renderBase L base ++ (renderIndex L scale index ++ 41 :: k)))
  have hpp := parenPart_ok L hbl base index scale hb hi hs hbi (b0 := []) AllWs.nil k
  simp only [List.nil_append] at hpp
  have hmain : memMain (b ++ (renderOff L.num off ++ (L.w1 ++ 40 :: (L.w2 ++ (renderBase L base ++
      (renderIndex L scale index ++ 41 :: k)))))) =
      some ({ off := rawOff L.num off, base := base, index := index,
              scale := scaleSeen L scale index, empty := false }, skipWs k) := by
    unfold memMain
    simp only [optR, lit1_none hstar, Option.getD_none]
    rw [opt_skipWs offsetG offsetG_skipWs, hoffs]
    simp only []
    rw [← parenPart_skipWs, hr, hpp]
    have he : (base.isNone && index.isNone) = false := hnn
    cases base <;> cases index <;> simp [maskCore_none hk] at hbi ⊢
  simp [memory, hmain]

end OsacaVerif.ParseX86
