import OsacaVerif.Lemmas.ParseX86Op
/-
  C09 — line level: post-processing, trailing comment, mnemonic, the four operand slots.
-/
namespace OsacaVerif.ParseX86
open OsacaVerif.Text OsacaVerif.X86 OsacaVerif.Spec.X86R

/-! ### post-processing gives back the operand -/

theorem postOp_rawOp (L : OpLayout) (o : Operand) (hv : validOperand o = true) :
    postOp (rawOp L o) = .ok o := by
  cases o with
  | reg n => rfl
  | imm v => simp [rawOp, postOp, pyInt0_renderInt]
  | ident n => cases h : L.bare <;> simp [rawOp, postOp, h]
  | mem off base index scale seg =>
    simp only [validOperand, Bool.and_eq_true, Bool.not_eq_true'] at hv
    obtain ⟨⟨⟨⟨⟨⟨hseg, hoff⟩, _⟩, _⟩, hsc⟩, his⟩, hcomb⟩ := hv
    subst hseg
    simp only [rawOp, rawMem, postOp]
    by_cases hnn : (base.isNone && index.isNone) = true
    · have hb0 : base = none := by cases base <;> simp_all
      have hi0 : index = none := by cases index <;> simp_all
      subst hb0; subst hi0
      obtain ⟨v, rfl⟩ : ∃ v, off = some (.imm v) := by
        cases off with
        | none => simp at hcomb
        | some o => cases o <;> simp at hcomb ⊢
      have hs1 : scale = 1 := by simpa using his
      subst hs1
      simp [postMem, rawOff, pyInt0_renderInt, Except.map]
    · have hnn' : (base.isNone && index.isNone) = false := by
        cases h : (base.isNone && index.isNone) with
        | false => rfl
        | true => exact absurd h hnn
      simp only [hnn', Bool.false_eq_true, if_false]
      have hscale : (match scaleSeen L scale index with | none => 1 | some c => scaleVal c) = scale := by
        by_cases hcond : (index.isSome && (scale != 1 || L.showScale)) = true
        · simp [scaleSeen, hcond, scaleVal]
        · have hcond' : (index.isSome && (scale != 1 || L.showScale)) = false := by
            cases h : (index.isSome && (scale != 1 || L.showScale)) with
            | false => rfl
            | true => exact absurd h hcond
          simp only [scaleSeen, hcond', Bool.false_eq_true, if_false]
          cases index with
          | none => have : scale = 1 := by simpa using his
                    exact this.symm
          | some i => simp at hcond'; exact hcond'.1.symm ▸ rfl
      match off, hoff with
      | none, _ => simp [postMem, rawOff, Except.map]; exact hscale
      | some (.imm v), _ => simp [postMem, rawOff, pyInt0_renderInt, Except.map]; exact hscale
      | some (.ident n), _ => simp [postMem, rawOff, Except.map]; exact hscale

theorem postOps_map (ops : List (OpLayout × Operand)) (hv : ∀ p ∈ ops, validOperand p.2 = true) :
    postOps (ops.map fun p => rawOp p.1 p.2) = .ok (ops.map (·.2)) := by
  induction ops with
  | nil => rfl
  | cons p ps ih =>
    simp only [List.map_cons, postOps, postOp_rawOp p.1 p.2 (hv p (by simp)),
      ih (fun q hq => hv q (by simp [hq]))]

/-! ### trailing comment -/

theorem joinSp_eq (ws : List Txt) : joinSp ws = joinWords ws := by
  induction ws with
  | nil => rfl
  | cons w r ih =>
    cases r with
    | nil => rfl
    | cons w' r' => simp only [joinSp, joinWords, ih]

theorem commentWords_word (acc w rest : Txt) (hw : ∀ c ∈ w, isPrintC c = true) :
    commentWords acc (w ++ rest) = commentWords (w.reverse ++ acc) rest := by
  induction w generalizing acc with
  | nil => rfl
  | cons c cs ih =>
    simp only [List.cons_append, commentWords, hw c (by simp), if_true]
    rw [ih _ (fun d hd => hw d (by simp [hd]))]
    simp

theorem commentWords_ws (acc g : Txt) (hg : AllWs g) : commentWords acc g = (flush acc, []) := by
  induction g generalizing acc with
  | nil => rfl
  | cons c cs ih =>
    have hc := hg c (by simp)
    have hp : isPrintC c = false := ws_not_print c hc
    simp [commentWords, hp, hc, ih [] (fun d hd => hg d (by simp [hd])), flush]

theorem commentWords_gap (acc g rest : Txt) (hg : AllWs g) (hne : g ≠ []) :
    commentWords acc (g ++ rest) = (flush acc ++ (commentWords [] rest).1, (commentWords [] rest).2) := by
  induction g generalizing acc with
  | nil => exact absurd rfl hne
  | cons c cs ih =>
    have hc := hg c (by simp)
    have hp : isPrintC c = false := ws_not_print c hc
    simp only [List.cons_append, commentWords, hp, hc, if_true, Bool.false_eq_true, if_false]
    cases cs with
    | nil => rfl
    | cons d ds =>
      rw [ih [] (fun e he => hg e (by simp [he])) (by simp)]
      simp [flush]

theorem validWord_spec {w : Txt} (h : validWord w = true) : w ≠ [] ∧ ∀ c ∈ w, isPrintC c = true := by
  simp only [validWord, Bool.and_eq_true, Bool.not_eq_true', List.all_eq_true] at h
  refine ⟨by intro e; subst e; simp at h, fun c hc => ?_⟩
  have := h.2 c hc
  simpa [isVisible, isPrintC] using this

theorem flush_reverse {w : Txt} (h : w ≠ []) : flush w.reverse = [w] := by
  simp [flush, h]

/-- the words of a comment all of whose gaps are non-empty, continuing a possibly open word -/
theorem commentWords_rest (ws : List (Txt × Txt)) (last : Txt) (hl : AllWs last)
    (h : ∀ p ∈ ws, p.1 ≠ [] ∧ AllWs p.1 ∧ validWord p.2 = true) (acc : Txt) :
    commentWords acc (renderWords ws ++ last) = (flush acc ++ ws.map (·.2), []) := by
  induction ws generalizing acc with
  | nil => simp [renderWords, commentWords_ws acc last hl]
  | cons p ps ih =>
    obtain ⟨g, w⟩ := p
    obtain ⟨hg, hgw, hw⟩ := h (g, w) (by simp)
    obtain ⟨hwne, hwp⟩ := validWord_spec hw
    simp only [renderWords, List.append_assoc]
    rw [commentWords_gap acc g _ hgw hg, commentWords_word [] w _ hwp,
      ih (fun q hq => h q (by simp [hq]))]
    simp [flush_reverse hwne]

theorem commentWords_render (c : CommentLayout) (hc : validComment c = true) :
    commentWords [] (renderWords c.words ++ c.last) = (c.words.map (·.2), []) := by
  simp only [validComment, Bool.and_eq_true] at hc
  have hl := blank_allWs hc.2
  cases hws : c.words with
  | nil => simp [renderWords, commentWords_ws [] c.last hl, flush]
  | cons p ps =>
    obtain ⟨g, w⟩ := p
    have hv := hc.1
    rw [hws] at hv
    simp only [validGaps, Bool.and_eq_true, List.all_eq_true, Bool.not_eq_true'] at hv
    obtain ⟨⟨⟨hg, hw⟩, hne⟩, hrest⟩ := hv
    obtain ⟨hwne, hwp⟩ := validWord_spec hw
    -- the later words: gaps non-empty, blank, words valid
    have hps : ∀ q ∈ ps, q.1 ≠ [] ∧ AllWs q.1 ∧ validWord q.2 = true := by
      have : ∀ (l : List (Txt × Txt)), validGaps l = true → ∀ q ∈ l, AllWs q.1 ∧ validWord q.2 = true := by
        intro l
        induction l with
        | nil => intro _ q hq; cases hq
        | cons a as ih =>
          intro hv q hq
          obtain ⟨ga, wa⟩ := a
          simp only [validGaps, Bool.and_eq_true] at hv
          rcases List.mem_cons.mp hq with h | h
          · subst h; exact ⟨blank_allWs hv.1.1.1, hv.1.1.2⟩
          · exact ih hv.2 q h
      intro q hq
      refine ⟨?_, this ps hrest q hq⟩
      have := hne q hq
      intro e; simp [e] at this
    simp only [renderWords, List.append_assoc, List.map_cons]
    have hgw := blank_allWs hg
    have step : commentWords [] (g ++ (w ++ (renderWords ps ++ c.last))) =
        commentWords [] (w ++ (renderWords ps ++ c.last)) := by
      cases g with
      | nil => rfl
      | cons a as => rw [commentWords_gap [] _ _ hgw (by simp)]; simp [flush]
    rw [step, commentWords_word [] w _ hwp, commentWords_rest ps c.last hl hps]
    simp [flush_reverse hwne]

/-- the text after the last operand: blanks, then a comment or nothing -/
def renderEnd (l : Line) : Txt :=
  l.trail ++ (match l.comment with | some c => renderComment c | none => [])

def expectedComment (l : Line) : Option Txt :=
  l.comment.map fun c => joinWords (c.words.map (·.2))

theorem renderEnd_facts (l : Line) (ht : blank l.trail = true)
    (hc : (match l.comment with | some c => validComment c | none => true) = true) :
    Tail SepC (renderEnd l) ∧ nextC (renderEnd l) ≠ some 44 ∧
    tail (renderEnd l) = some (expectedComment l) := by
  have htw := blank_allWs ht
  unfold renderEnd expectedComment
  cases hcm : l.comment with
  | none =>
    simp only [List.append_nil, Option.map_none]
    have hsk : skipWs l.trail = [] := by simpa using skipWs_append (t := []) htw
    refine ⟨by simpa using Tail.append htw (Tail.nil SepC), by simp [nextC, hsk], ?_⟩
    simp [tail, commentStart, hsk, atEnd]
  | some c =>
    rw [hcm] at hc
    simp only [Option.map_some]
    have hbody := commentWords_render c hc
    cases hs : c.slashes
    · simp only [renderComment, hs, Bool.false_eq_true, if_false, List.cons_append, List.nil_append]
      have hsk : skipWs (l.trail ++ 35 :: (renderWords c.words ++ c.last)) =
          35 :: (renderWords c.words ++ c.last) := by
        rw [skipWs_append htw]; exact skipWs_cons_not (by decide)
      refine ⟨Tail.append htw (Tail.cons _ (by decide) (by decide)), by simp [nextC, hsk], ?_⟩
      simp [tail, commentStart, hsk, commentBody, hbody, atEnd, joinSp_eq]
    · simp only [renderComment, hs, if_true, List.cons_append, List.nil_append]
      have hsk : skipWs (l.trail ++ 47 :: 47 :: (renderWords c.words ++ c.last)) =
          47 :: 47 :: (renderWords c.words ++ c.last) := by
        rw [skipWs_append htw]; exact skipWs_cons_not (by decide)
      refine ⟨Tail.append htw (Tail.cons _ (by decide) (by decide)), by simp [nextC, hsk], ?_⟩
      simp [tail, commentStart, hsk, commentBody, hbody, atEnd, joinSp_eq]

/-- `tail` only looks at the text after the blanks -/
theorem tail_congr {r r' : Txt} (h : skipWs r = skipWs r') : tail r = tail r' := by
  simp [tail, commentStart, atEnd, h]

/-! ### the operand slots -/

/-- what follows an operand: its trailing blanks, then the next operand after a comma, or the end -/
def cont (E : Txt) : List (OpLayout × Operand) → Txt
  | [] => E
  | p :: ps => 44 :: (renderOps (p :: ps) ++ E)

theorem renderOps_cons (E : Txt) (L : OpLayout) (o : Operand) (rest : List (OpLayout × Operand)) :
    renderOps ((L, o) :: rest) ++ E = L.pre ++ (renderOperand L o ++ (L.post ++ cont E rest)) := by
  cases rest with
  | nil => simp [renderOps, cont]
  | cons p ps => simp [renderOps, cont]

/-- well-formedness of the operands after the first -/
def RestOk (ops : List (OpLayout × Operand)) : Prop :=
  ∀ p ∈ ops, validOperand p.2 = true ∧ p.1.blanks.all blank = true ∧ p.1.bare = false

theorem tail_cont {E : Txt} (hE : Tail SepC E) (L : OpLayout) (hp : AllWs L.post)
    (rest : List (OpLayout × Operand)) : Tail SepC (L.post ++ cont E rest) := by
  apply Tail.append hp
  cases rest with
  | nil => exact hE
  | cons p ps => exact Tail.cons _ (by decide) (by decide)

theorem post_allWs (L : OpLayout) (h : L.blanks.all blank = true) : AllWs L.pre ∧ AllWs L.post := by
  simp only [OpLayout.blanks, List.all_cons, Bool.and_eq_true] at h
  exact ⟨blank_allWs h.1, blank_allWs h.2.1⟩

theorem slots_ok {E : Txt} (hE : Tail SepC E) (hE44 : nextC E ≠ some 44) :
    ∀ n (rest : List (OpLayout × Operand)), rest.length ≤ n → RestOk rest →
      ∀ r, skipWs r = skipWs (cont E rest) →
        (restSlots n r).1 = rest.map (fun p => rawOp p.1 p.2) ∧ skipWs (restSlots n r).2 = skipWs E := by
  intro n
  induction n with
  | zero =>
    intro rest hl _ r hr
    have : rest = [] := by cases rest <;> simp at hl ⊢
    subst this
    exact ⟨rfl, hr⟩
  | succ n ih =>
    intro rest hl hok r hr
    cases rest with
    | nil =>
      simp only [cont] at hr
      have hnx : nextC r = nextC E := by simp [nextC, hr]
      have h44 : lit [44] r = none := lit1_none (by rw [hnx]; exact hE44)
      have hnone : operandRest (skipWs r) = none := operandRest_none (by
        intro c hc; rw [nextC_skipWs, hnx] at hc; exact hE.2 c hc)
      have hstep : opt operandRest (optR (lit [44]) r) = (none, skipWs r) := by
        simp [optR, h44, opt, hnone]
      have := ih [] (by simp) (by intro p hp; cases hp) (skipWs r) (by simp [cont, hr])
      simp only [restSlots, hstep, Option.toList_none, List.nil_append, List.map_nil]
      exact this
    | cons p ps =>
      obtain ⟨L, o⟩ := p
      obtain ⟨hv, hbl, hbare⟩ := hok (L, o) (by simp)
      obtain ⟨hpre, hpost⟩ := post_allWs L hbl
      have hsk : skipWs r = 44 :: (L.pre ++ (renderOperand L o ++ (L.post ++ cont E ps))) := by
        rw [hr]; simp only [cont]; rw [renderOps_cons]; exact skipWs_cons_not (by decide)
      have h44 : lit [44] r = some (L.pre ++ (renderOperand L o ++ (L.post ++ cont E ps))) := by
        simp [lit, hsk, dropPrefix]
      obtain ⟨r1, hr1, _, hrest⟩ := operand_ok L hbl o hv hpre (tail_cont hE L hpost ps)
      have hstep : opt operandRest (optR (lit [44]) r) = (some (rawOp L o), r1) := by
        simp [optR, h44, opt, hrest hbare]
      have := ih ps (by simp at hl; omega) (fun q hq => hok q (by simp [hq])) r1
        (by rw [hr1, skipWs_append hpost])
      simp only [restSlots, hstep, Option.toList_some, List.map_cons, List.cons_append,
        List.nil_append]
      exact ⟨by rw [this.1], this.2⟩

/-! ### first visible character of the text after the mnemonic -/

/-- characters an operand or a comment can start with -/
def OpStart (c : Nat) : Prop :=
  c = 37 ∨ c = 36 ∨ c = 40 ∨ c = 45 ∨ isDigitC c = true ∨ isIdStart c = true ∨ c = 35 ∨ c = 47

theorem renderOperand_next (L : OpLayout) (hbl : L.blanks.all blank = true) (o : Operand)
    (hv : validOperand o = true) (k : Txt) {b : Txt} (hb : AllWs b) :
    ∃ c, nextC (b ++ (renderOperand L o ++ k)) = some c ∧ OpStart c := by
  cases o with
  | reg n =>
    exact ⟨37, by simp only [renderOperand, List.cons_append]; rw [nextC_append hb]; exact nextC_cons (by decide),
      Or.inl rfl⟩
  | imm v =>
    exact ⟨36, by simp only [renderOperand, List.cons_append]; rw [nextC_append hb]; exact nextC_cons (by decide),
      Or.inr (Or.inl rfl)⟩
  | ident n =>
    simp only [validOperand] at hv
    cases hbare : L.bare
    · exact ⟨36, by simp only [renderOperand, hbare, Bool.false_eq_true, if_false, List.cons_append]
                    rw [nextC_append hb]; exact nextC_cons (by decide), Or.inr (Or.inl rfl)⟩
    · cases n with
      | nil => simp [validIdent] at hv
      | cons c r =>
        have hc : isIdStart c = true := by
          simp only [validIdent, Bool.and_eq_true] at hv; exact hv.1
        refine ⟨c, ?_, Or.inr (Or.inr (Or.inr (Or.inr (Or.inr (Or.inl hc)))))⟩
        simp only [renderOperand, hbare, if_true, List.cons_append]
        rw [nextC_append hb]; exact nextC_cons (spec_idStart c hc).2.2
  | mem off base index scale seg =>
    simp only [validOperand, Bool.and_eq_true, Bool.not_eq_true'] at hv
    obtain ⟨⟨⟨⟨⟨⟨_, hoff⟩, _⟩, _⟩, _⟩, _⟩, hcomb⟩ := hv
    have hw1 : AllWs L.w1 := by
      simp only [OpLayout.blanks, List.all_cons, Bool.and_eq_true] at hbl
      exact blank_allWs hbl.2.2.1
    simp only [renderOperand]
    by_cases hnn : (base.isNone && index.isNone) = true
    · have hb0 : base = none := by cases base <;> simp_all
      have hi0 : index = none := by cases index <;> simp_all
      subst hb0; subst hi0
      obtain ⟨v, rfl⟩ : ∃ v, off = some (.imm v) := by
        cases off with
        | none => simp at hcomb
        | some o => cases o <;> simp at hcomb ⊢
      simp only [renderMem, Option.isNone_none, Bool.and_self, if_true, renderOff]
      obtain ⟨c, hc, hcc⟩ := renderInt_next L.num v (k := k) hb
      exact ⟨c, hc, hcc.elim (fun h => Or.inr (Or.inr (Or.inr (Or.inl h))))
        (fun h => Or.inr (Or.inr (Or.inr (Or.inr (Or.inl h)))))⟩
    · have hnn' : (base.isNone && index.isNone) = false := by
        cases h : (base.isNone && index.isNone) with
        | false => rfl
        | true => exact absurd h hnn
      have htxt : renderMem L off base index scale ++ k =
          renderOff L.num off ++ (L.w1 ++ 40 :: (L.w2 ++ (renderBase L base ++
            (renderIndex L scale index ++ 41 :: k)))) := by
        simp [renderMem, hnn', List.append_assoc]
      obtain ⟨c, hc, hcc⟩ := renderMem_next L hw1 off hoff
        (L.w2 ++ (renderBase L base ++ (renderIndex L scale index ++ 41 :: k))) hb
      rw [← htxt] at hc
      refine ⟨c, hc, ?_⟩
      rcases hcc with h | h | h | h
      · exact Or.inr (Or.inr (Or.inl h))
      · exact Or.inr (Or.inr (Or.inr (Or.inl h)))
      · exact Or.inr (Or.inr (Or.inr (Or.inr (Or.inl h))))
      · exact Or.inr (Or.inr (Or.inr (Or.inr (Or.inr (Or.inl h)))))

theorem OpStart_facts {c : Nat} (h : OpStart c) :
    c ≠ 64 ∧ c ≠ 58 ∧ c ≠ 44 ∧ isWs c = false := by
  rcases h with h | h | h | h | h | h | h | h
  · subst h; decide
  · subst h; decide
  · subst h; decide
  · subst h; decide
  · simp [isDigitC, isWs] at *; omega
  · simp [isIdStart, Spec.X86R.isAlpha, isWs] at *; omega
  · subst h; decide
  · subst h; decide

/-! ### mnemonic -/

theorem prefix_lemma : ∀ (P mn A r : Txt), (∀ c ∈ P, isAlnumC c = true) → Stops isAlnumC A →
    mn ++ A = P ++ r → isPrefixOf P mn = true := by
  intro P
  induction P with
  | nil => intro mn A r _ _ _; cases mn <;> rfl
  | cons p P' ih =>
    intro mn A r hP hA h
    cases mn with
    | nil =>
      simp only [List.nil_append] at h
      have := hA p (by simp [h])
      rw [hP p (by simp)] at this; cases this
    | cons m mn' =>
      simp only [List.cons_append, List.cons.injEq] at h
      simp only [isPrefixOf, Bool.and_eq_true, beq_iff_eq]
      exact ⟨h.1.symm, ih mn' A r (fun c hc => hP c (by simp [hc])) hA h.2⟩

theorem validMnemonic_spec {mn : Txt} (h : validMnemonic mn = true) :
    ∃ m mn', mn = m :: mn' ∧ isAlphaC m = true ∧ (∀ c ∈ mn, isAlnumC c = true) ∧
      isPrefixOf [100, 97, 116, 97, 49, 54] mn = false ∧ isPrefixOf [100, 97, 116, 97, 51, 50] mn = false := by
  cases mn with
  | nil => simp [validMnemonic] at h
  | cons m mn' =>
    simp only [validMnemonic, Bool.and_eq_true, Bool.not_eq_true', List.all_eq_true] at h
    obtain ⟨⟨⟨hm, hr⟩, h16⟩, h32⟩ := h
    refine ⟨m, mn', rfl, by rw [← spec_isAlpha]; exact hm, ?_, h16, h32⟩
    intro c hc
    rcases List.mem_cons.mp hc with h | h
    · subst h; simp [isAlnumC, ← spec_isAlpha, hm]
    · rw [← spec_isAlnum]; exact hr c h

theorem untilComma_id {w : Txt} (h : ∀ c ∈ w, c ≠ 44) : untilComma w = w := by
  induction w with
  | nil => rfl
  | cons c cs ih =>
    have hc := h c (by simp)
    simp [untilComma, hc, ih (fun d hd => h d (by simp [hd]))]

theorem mnemonic_ok {mn b A : Txt} (hmn : validMnemonic mn = true) (hb : AllWs b)
    (hA : ∀ c, A.head? = some c → isWs c = true ∨ c = 35 ∨ c = 47) :
    word isMnC (mnPrefixes (b ++ (mn ++ A)).length (b ++ (mn ++ A))) = some (mn, A) ∧
    untilComma mn = mn := by
  obtain ⟨m, mn', rfl, hm, hal, h16, h32⟩ := validMnemonic_spec hmn
  have hmw : isWs m = false := alnum_not_ws m (hal m (by simp))
  have hsk : skipWs (b ++ (m :: mn' ++ A)) = m :: mn' ++ A := by
    rw [skipWs_append hb]; exact skipWs_cons_not hmw
  have hAal : Stops isAlnumC A := by
    intro c hc; rcases hA c hc with h | h | h
    · exact ws_not_alnum c h
    · subst h; decide
    · subst h; decide
  have hAmn : Stops isMnC A := by
    intro c hc; rcases hA c hc with h | h | h
    · exact ws_not_mn c h
    · subst h; decide
    · subst h; decide
  have hpre : mnPrefixes (b ++ (m :: mn' ++ A)).length (b ++ (m :: mn' ++ A)) = m :: mn' ++ A := by
    obtain ⟨n, hn⟩ : ∃ n, (b ++ (m :: mn' ++ A)).length = n + 1 :=
      ⟨b.length + mn'.length + A.length, by simp; omega⟩
    rw [hn]
    unfold mnPrefixes
    split
    · rename_i r heq
      rw [hsk] at heq
      have := prefix_lemma [100, 97, 116, 97, 49, 54] (m :: mn') A r (by decide) hAal heq
      rw [h16] at this; cases this
    · rename_i r heq
      rw [hsk] at heq
      have := prefix_lemma [100, 97, 116, 97, 51, 50] (m :: mn') A r (by decide) hAal heq
      rw [h32] at this; cases this
    · exact hsk
  constructor
  · rw [hpre]
    have := word_append (p := isMnC) (b := []) (w := m :: mn') (t := A) AllWs.nil (by simp)
      (fun c hc => by simp [isMnC, hal c hc]) (fun c hc => alnum_not_ws c (hal c hc)) hAmn
    simpa using this
  · exact untilComma_id (fun c hc => by
      intro e; subst e; have := hal 44 hc; simp [isAlnumC, isAlphaC, isDigitC] at this)

/-! ### the first three stages fail on an instruction line -/

theorem alnum_labelRest (c : Nat) (h : isAlnumC c = true) : isLabelRest c = true := by
  simp [isLabelRest, isIdRest, h]

theorem stages_fail {mn b A : Txt} (hmn : validMnemonic mn = true) (hb : AllWs b)
    (hA : ∀ c, A.head? = some c → isWs c = true ∨ c = 35 ∨ c = 47)
    (hA2 : ∀ c, nextC A = some c → OpStart c) :
    commentLine (b ++ (mn ++ A)) = none ∧ labelLine (b ++ (mn ++ A)) = none ∧
    directiveLine (b ++ (mn ++ A)) = none := by
  obtain ⟨m, mn', rfl, hm, hal, _, _⟩ := validMnemonic_spec hmn
  have hmw : isWs m = false := alnum_not_ws m (hal m (by simp))
  have hmf : m ≠ 35 ∧ m ≠ 47 ∧ m ≠ 46 ∧ isDigitC m = false ∧ isIdFirst m = true := by
    simp [isAlphaC, isDigitC, isIdFirst] at *; omega
  simp only [List.cons_append]
  have hsk : skipWs (b ++ m :: (mn' ++ A)) = m :: (mn' ++ A) := by
    rw [skipWs_append hb]; exact skipWs_cons_not hmw
  have hnx : nextC (b ++ m :: (mn' ++ A)) = some m := by simp [nextC, hsk]
  refine ⟨?_, ?_, ?_⟩
  · unfold commentLine commentStart
    rw [hsk]
    split
    · rename_i heq; simp at heq; exact absurd heq.1 hmf.1
    · rename_i heq; simp at heq; exact absurd heq.1 hmf.2.1
    · rfl
  · have hido : idOffset (b ++ m :: (mn' ++ A)) = none :=
      idOffset_none (by intro d hd; rw [hnx] at hd; cases hd; exact hmf.2.2.2.1)
    have hAstop : ∀ c, A.head? = some c → isLabelRest c = false ∧ c ≠ 58 := by
      intro c hc; rcases hA c hc with h | h | h
      · refine ⟨?_, by intro e; subst e; simp [isWs] at h⟩
        simp [isLabelRest, ws_not_idRest c h]; simp [isWs] at h; omega
      · subst h; decide
      · subst h; decide
    have hnt := nameTail_ok (restP := isLabelRest) (r := mn') (k := A)
      (fun c hc => alnum_labelRest c (hal c (by simp [hc]))) hAstop
    have hrel : relocation A = none := relocation_none (by
      intro e; exact (OpStart_facts (hA2 64 e)).1 rfl)
    have h58 : lit [58] (skipWs A) = none := lit1_none (by
      rw [nextC_skipWs]; intro e; exact (OpStart_facts (hA2 58 e)).2.1 rfl)
    have hid : identifier isLabelRest false (b ++ m :: (mn' ++ A)) = some (m :: mn', skipWs A) := by
      simp [identifier, optR, hido, hsk, skipWs_cons_not hmw, nameRaw, hmf.2.2.2.2, hnt, hrel]
    simp [labelLine, hid, h58]
  · simp [directiveLine, lit1_none (t := b ++ m :: (mn' ++ A)) (x := 46)
      (by rw [hnx]; intro e; cases e; exact hmf.2.2.1 rfl)]

/-! ### the round trip on the tab-expanded line -/

theorem renderEnd_head (l : Line) (ht : blank l.trail = true) :
    (∀ c, (renderEnd l).head? = some c → isWs c = true ∨ c = 35 ∨ c = 47) ∧
    (∀ c, nextC (renderEnd l) = some c → c = 35 ∨ c = 47) := by
  have htw := blank_allWs ht
  unfold renderEnd
  have key : ∀ X : Txt, (X = [] ∨ ∃ r, X = 35 :: r ∨ X = 47 :: r) →
      (∀ c, (l.trail ++ X).head? = some c → isWs c = true ∨ c = 35 ∨ c = 47) ∧
      (∀ c, nextC (l.trail ++ X) = some c → c = 35 ∨ c = 47) := by
    intro X hX
    constructor
    · intro c hc
      cases htr : l.trail with
      | cons d ds => rw [htr] at hc htw; simp at hc; subst hc; exact Or.inl (htw _ (by simp))
      | nil =>
        rw [htr] at hc; simp only [List.nil_append] at hc
        rcases hX with h | ⟨r, h | h⟩ <;> subst h <;> simp at hc <;> subst hc <;> simp
    · intro c hc
      rw [nextC_append htw] at hc
      rcases hX with h | ⟨r, h | h⟩ <;> subst h
      · simp [nextC] at hc
      · rw [nextC_cons (by decide)] at hc; cases hc; exact Or.inl rfl
      · rw [nextC_cons (by decide)] at hc; cases hc; exact Or.inr rfl
  apply key
  cases l.comment with
  | none => exact Or.inl rfl
  | some c =>
    refine Or.inr ?_
    cases hs : c.slashes
    · exact ⟨renderWords c.words ++ c.last, Or.inl (by simp [renderComment, hs])⟩
    · exact ⟨47 :: (renderWords c.words ++ c.last), Or.inr (by simp [renderComment, hs])⟩

theorem validOps_rest : ∀ (i : Nat) (ops : List (OpLayout × Operand)), validOps (i + 1) ops = true →
    RestOk ops := by
  intro i ops
  induction ops generalizing i with
  | nil => intro _ p hp; cases hp
  | cons q qs ih =>
    intro h p hp
    obtain ⟨L, o⟩ := q
    simp only [validOps, Bool.and_eq_true, Bool.or_eq_true, Bool.not_eq_true', beq_iff_eq] at h
    obtain ⟨⟨⟨⟨hv, hbl⟩, hbare⟩, _⟩, hrest⟩ := h
    rcases List.mem_cons.mp hp with h | h
    · subst h
      refine ⟨hv, hbl, ?_⟩
      rcases hbare with h | h
      · exact h
      · omega
    · exact ih (i + 1) hrest p h

/-- **core of the round trip**: on the rendering of any instruction line of the domain, with any
    layout (blanks *and* tabs around every token), the four-stage parser — run on the text as it
    stands — returns exactly the AST that was rendered -/
theorem roundtrip_expanded (l : Line) (hv : l.valid = true) :
    parseExpanded (renderLine l) = .ok l.expected := by
  simp only [Line.valid, Bool.and_eq_true, decide_eq_true_eq] at hv
  obtain ⟨⟨⟨⟨⟨hmn, hind⟩, htr⟩, hlen⟩, hops⟩, hcm⟩ := hv
  have hb := blank_allWs hind
  obtain ⟨hE, hE44, htail⟩ := renderEnd_facts l htr hcm
  obtain ⟨hEh, hEn⟩ := renderEnd_head l htr
  have htxt : renderLine l = l.indent ++ (l.mn ++ (renderOps l.ops ++ renderEnd l)) := rfl
  -- facts about the text after the mnemonic, and the result of `instruction`
  have main : (∀ c, (renderOps l.ops ++ renderEnd l).head? = some c → isWs c = true ∨ c = 35 ∨ c = 47) ∧
      (∀ c, nextC (renderOps l.ops ++ renderEnd l) = some c → OpStart c) ∧
      ((tail (restSlots 3 (opt operandFirst (renderOps l.ops ++ renderEnd l)).2).2).map fun c =>
        (l.mn, (opt operandFirst (renderOps l.ops ++ renderEnd l)).1.toList ++
          (restSlots 3 (opt operandFirst (renderOps l.ops ++ renderEnd l)).2).1, c)) =
        some (l.mn, l.ops.map (fun p => rawOp p.1 p.2), expectedComment l) := by
    cases hops' : l.ops with
    | nil =>
      simp only [renderOps, List.nil_append, List.map_nil]
      refine ⟨hEh, fun c hc => (hEn c hc).elim (fun h => Or.inr (Or.inr (Or.inr (Or.inr (Or.inr (Or.inr (Or.inl h)))))))
        (fun h => Or.inr (Or.inr (Or.inr (Or.inr (Or.inr (Or.inr (Or.inr h))))))), ?_⟩
      have hnone : operandFirst (renderEnd l) = none := operandFirst_none (fun c hc => hE.2 c hc)
      have hs := slots_ok hE hE44 3 [] (by simp) (by intro p hp; cases hp) (skipWs (renderEnd l))
        (by simp [cont])
      simp only [opt, hnone, Option.toList_none, List.nil_append]
      rw [hs.1, tail_congr hs.2, htail]; rfl
    | cons p rest =>
      obtain ⟨L, o⟩ := p
      rw [hops'] at hops hlen
      simp only [validOps, Bool.and_eq_true, Bool.or_eq_true, Bool.not_eq_true', bne_iff_ne, ne_eq,
        beq_iff_eq] at hops
      obtain ⟨⟨⟨⟨hvo, hbl⟩, _⟩, hpre⟩, hrest⟩ := hops
      have hprene : L.pre ≠ [] := by
        rcases hpre with h | h
        · exact absurd trivial h
        · intro e; simp [e] at h
      obtain ⟨hprew, hpostw⟩ := post_allWs L hbl
      have hrok := validOps_rest 0 rest hrest
      rw [renderOps_cons]
      refine ⟨?_, ?_, ?_⟩
      · intro c hc
        cases hp : L.pre with
        | nil => exact absurd hp hprene
        | cons d ds => rw [hp] at hc hprew; simp at hc; subst hc; exact Or.inl (hprew _ (by simp))
      · intro c hc
        obtain ⟨d, hd, hdo⟩ := renderOperand_next L hbl o hvo (L.post ++ cont (renderEnd l) rest) hprew
        rw [hd] at hc; cases hc; exact hdo
      · obtain ⟨r1, hr1, hfirst, _⟩ := operand_ok L hbl o hvo hprew (tail_cont hE L hpostw rest)
        have hs := slots_ok hE hE44 3 rest (by simp at hlen; omega) hrok r1
          (by rw [hr1, skipWs_append hpostw])
        simp only [opt, hfirst, Option.toList_some, List.map_cons, List.cons_append, List.nil_append]
        rw [hs.1, tail_congr hs.2, htail]; rfl
  obtain ⟨hA, hA2, hins⟩ := main
  obtain ⟨hc1, hc2, hc3⟩ := stages_fail hmn hb hA hA2
  obtain ⟨hword, hunt⟩ := mnemonic_ok hmn hb hA
  have hinstr : instruction (renderLine l) =
      some (l.mn, l.ops.map (fun p => rawOp p.1 p.2), expectedComment l) := by
    rw [htxt]
    unfold instruction
    rw [hword]
    simp only [Option.bind_some, hunt]
    exact hins
  have hpost : postOps (l.ops.map fun p => rawOp p.1 p.2) = .ok (l.ops.map (·.2)) := by
    apply postOps_map
    intro p hp
    cases hops' : l.ops with
    | nil => rw [hops'] at hp; cases hp
    | cons q qs =>
      rw [hops'] at hp hops
      obtain ⟨L, o⟩ := q
      simp only [validOps, Bool.and_eq_true] at hops
      rcases List.mem_cons.mp hp with h | h
      · subst h; exact hops.1.1.1.1
      · exact (validOps_rest 0 qs hops.2 p h).1
  rw [htxt] at hinstr ⊢
  simp only [parseExpanded, hc1, hc2, hc3, instructionLine, hinstr, hpost]
  rfl

end OsacaVerif.ParseX86
