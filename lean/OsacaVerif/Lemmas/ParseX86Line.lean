import OsacaVerif.Lemmas.ParseX86Op
/-
  C09 — line level: post-processing, trailing comment, mnemonic, the four operand slots.
-/
namespace OsacaVerif.ParseX86
open OsacaVerif.Text OsacaVerif.X86 OsacaVerif.Spec.X86R

/-! ### post-processing gives back the operand -/

theorem postOp_rawOp (L : OpLayout) (o : Operand) (hv : validOperand o = true) :
    postOp (rawOp L o) = .ok o := by
  cases o with
  | reg n => rfl
  | imm v => simp [rawOp, postOp, pyInt0_renderInt]
  | ident n => cases h : L.bare <;> simp [rawOp, postOp, h]
  | mem off base index scale seg =>
    simp only [validOperand, Bool.and_eq_true, Bool.not_eq_true'] at hv
    obtain ⟨⟨⟨⟨⟨⟨hseg, hoff⟩, _⟩, _⟩, hsc⟩, his⟩, hcomb⟩ := hv
    subst hseg
    simp only [rawOp, rawMem, postOp]
    by_cases hnn : (base.isNone && index.isNone) = true
    · have hb0 : base = none := by cases base <;> simp_all
      have hi0 : index = none := by cases index <;> simp_all
      subst hb0; subst hi0
      obtain ⟨v, rfl⟩ : ∃ v, off = some (.imm v) := by
        cases off with
        | none => simp at hcomb
        | some o => cases o <;> simp at hcomb ⊢
      have hs1 : scale = 1 := by simpa using his
      subst hs1
      simp [postMem, rawOff, pyInt0_renderInt, Except.map]
    · have hnn' : (base.isNone && index.isNone) = false := by
        cases h : (base.isNone && index.isNone) with
        | false => rfl
        | true => exact absurd h hnn
      simp only [hnn', Bool.false_eq_true, if_false]
      have hscale : (match scaleSeen L scale index with | none => 1 | some c => scaleVal c) = scale := by
        by_cases hcond : (index.isSome && (scale != 1 || L.showScale)) = true
        · simp [scaleSeen, hcond, scaleVal]
        · have hcond' : (index.isSome && (scale != 1 || L.showScale)) = false := by
            cases h : (index.isSome && (scale != 1 || L.showScale)) with
            | false => rfl
            | true => exact absurd h hcond
          simp only [scaleSeen, hcond', Bool.false_eq_true, if_false]
          cases index with
          | none => have : scale = 1 := by simpa using his
                    exact this.symm
          | some i => simp at hcond'; exact hcond'.1.symm ▸ rfl
      match off, hoff with
      | none, _ => simp [postMem, rawOff, Except.map]; exact hscale
      | some (.imm v), _ => simp [postMem, rawOff, pyInt0_renderInt, Except.map]; exact hscale
      | some (.ident n), _ => simp [postMem, rawOff, Except.map]; exact hscale

theorem postOps_map (ops : List (OpLayout × Operand)) (hv : ∀ p ∈ ops, validOperand p.2 = true) :
    postOps (ops.map fun p => rawOp p.1 p.2) = .ok (ops.map (·.2)) := by
  induction ops with
  | nil => rfl
  | cons p ps ih =>
    simp only [List.map_cons, postOps, postOp_rawOp p.1 p.2 (hv p (by simp)),
      ih (fun q hq => hv q (by simp [hq]))]

/-! ### trailing comment -/

theorem joinSp_eq (ws : List Txt) : joinSp ws = joinWords ws := by
  induction ws with
  | nil => rfl
  | cons w r ih =>
    cases r with
    | nil => rfl
    | cons w' r' => simp only [joinSp, joinWords, ih]

theorem commentWords_word (acc w rest : Txt) (hw : ∀ c ∈ w, isPrintC c = true) :
    commentWords acc (w ++ rest) = commentWords (w.reverse ++ acc) rest := by
  induction w generalizing acc with
  | nil => rfl
  | cons c cs ih =>
    simp only [List.cons_append, commentWords, hw c (by simp), if_true]
    rw [ih _ (fun d hd => hw d (by simp [hd]))]
    simp

theorem commentWords_ws (acc g : Txt) (hg : AllWs g) : commentWords acc g = (flush acc, []) := by
  induction g generalizing acc with
  | nil => rfl
  | cons c cs ih =>
    have hc := hg c (by simp)
    have hp : isPrintC c = false := ws_not_print c hc
    simp [commentWords, hp, hc, ih [] (fun d hd => hg d (by simp [hd])), flush]

theorem commentWords_gap (acc g rest : Txt) (hg : AllWs g) (hne : g ≠ []) :
    commentWords acc (g ++ rest) = (flush acc ++ (commentWords [] rest).1, (commentWords [] rest).2) := by
  induction g generalizing acc with
  | nil => exact absurd rfl hne
  | cons c cs ih =>
    have hc := hg c (by simp)
    have hp : isPrintC c = false := ws_not_print c hc
    simp only [List.cons_append, commentWords, hp, hc, if_true, Bool.false_eq_true, if_false]
    cases cs with
    | nil => rfl
    | cons d ds =>
      rw [ih [] (fun e he => hg e (by simp [he])) (by simp)]
      simp [flush]

theorem validWord_spec {w : Txt} (h : validWord w = true) : w ≠ [] ∧ ∀ c ∈ w, isPrintC c = true := by
  simp only [validWord, Bool.and_eq_true, Bool.not_eq_true', List.all_eq_true] at h
  refine ⟨by intro e; subst e; simp at h, fun c hc => ?_⟩
  have := h.2 c hc
  simpa [isVisible, isPrintC] using this

theorem flush_reverse {w : Txt} (h : w ≠ []) : flush w.reverse = [w] := by
  simp [flush, h]

/-- the words of a comment all of whose gaps are non-empty, continuing a possibly open word -/
theorem commentWords_rest (ws : List (Txt × Txt)) (last : Txt) (hl : AllWs last)
    (h : ∀ p ∈ ws, p.1 ≠ [] ∧ AllWs p.1 ∧ validWord p.2 = true) (acc : Txt) :
    commentWords acc (renderWords ws ++ last) = (flush acc ++ ws.map (·.2), []) := by
  induction ws generalizing acc with
  | nil => simp [renderWords, commentWords_ws acc last hl]
  | cons p ps ih =>
    obtain ⟨g, w⟩ := p
    obtain ⟨hg, hgw, hw⟩ := h (g, w) (by simp)
    obtain ⟨hwne, hwp⟩ := validWord_spec hw
    simp only [renderWords, List.append_assoc]
    rw [commentWords_gap acc g _ hgw hg, commentWords_word [] w _ hwp,
      ih (fun q hq => h q (by simp [hq]))]
    simp [flush_reverse hwne]

theorem commentWords_render (c : CommentLayout) (hc : validComment c = true) :
    commentWords [] (renderWords c.words ++ c.last) = (c.words.map (·.2), []) := by
  simp only [validComment, Bool.and_eq_true] at hc
  have hl := blank_allWs hc.2
  cases hws : c.words with
  | nil => simp [renderWords, commentWords_ws [] c.last hl, flush]
  | cons p ps =>
    obtain ⟨g, w⟩ := p
    have hv := hc.1
    rw [hws] at hv
    simp only [validGaps, Bool.and_eq_true, List.all_eq_true, Bool.not_eq_true'] at hv
    obtain ⟨⟨⟨hg, hw⟩, hne⟩, hrest⟩ := hv
    obtain ⟨hwne, hwp⟩ := validWord_spec hw
    -- the later words: gaps non-empty, blank, words valid
    have hps : ∀ q ∈ ps, q.1 ≠ [] ∧ AllWs q.1 ∧ validWord q.2 = true := by
      have : ∀ (l : List (Txt × Txt)), validGaps l = true → ∀ q ∈ l, AllWs q.1 ∧ validWord q.2 = true := by
        intro l
        induction l with
        | nil => intro _ q hq; cases hq
        | cons a as ih =>
          intro hv q hq
          obtain ⟨ga, wa⟩ := a
          simp only [validGaps, Bool.and_eq_true] at hv
          rcases List.mem_cons.mp hq with h | h
          · subst h; exact ⟨blank_allWs hv.1.1.1, hv.1.1.2⟩
          · exact ih hv.2 q h
      intro q hq
      refine ⟨?_, this ps hrest q hq⟩
      have := hne q hq
      intro e; simp [e] at this
    simp only [renderWords, List.append_assoc, List.map_cons]
    have hgw := blank_allWs hg
    have step : commentWords [] (g ++ (w ++ (renderWords ps ++ c.last))) =
        commentWords [] (w ++ (renderWords ps ++ c.last)) := by
      cases g with
      | nil => rfl
      | cons a as => rw [commentWords_gap [] _ _ hgw (by simp)]; simp [flush]
    rw [step, commentWords_word [] w _ hwp, commentWords_rest ps c.last hl hps]
    simp [flush_reverse hwne]

/-- the text after the last operand: blanks, then a comment or nothing -/
def renderEnd (l : Line) : Txt :=
  l.trail ++ (match l.comment with | some c => renderComment c | none => [])

def expectedComment (l : Line) : Option Txt :=
  l.comment.map fun c => joinWords (c.words.map (·.2))

theorem renderEnd_facts (l : Line) (ht : blank l.trail = true)
    (hc : (match l.comment with | some c => validComment c | none => true) = true) :
    Tail SepC (renderEnd l) ∧ nextC (renderEnd l) ≠ some 44 ∧
    tail (renderEnd l) = some (expectedComment l) := by
  have htw := blank_allWs ht
  unfold renderEnd expectedComment
  cases hcm : l.comment with
  | none =>
    simp only [List.append_nil, Option.map_none]
    have hsk : skipWs l.trail = [] := by simpa using skipWs_append (t := []) htw
    refine ⟨by simpa using Tail.append htw (Tail.nil SepC), by simp [nextC, hsk], ?_⟩
    simp [tail, commentStart, hsk, atEnd]
  | some c =>
    rw [hcm] at hc
    simp only [Option.map_some]
    have hbody := commentWords_render c hc
    cases hs : c.slashes
    · simp only [renderComment, hs, Bool.false_eq_true, if_false, List.cons_append, List.nil_append]
      have hsk : skipWs (l.trail ++ 35 :: (renderWords c.words ++ c.last)) =
          35 :: (renderWords c.words ++ c.last) := by
        rw [skipWs_append htw]; exact skipWs_cons_not (by decide)
      refine ⟨Tail.append htw (Tail.cons _ (by decide) (by decide)), by simp [nextC, hsk], ?_⟩
      simp [tail, commentStart, hsk, commentBody, hbody, atEnd, joinSp_eq]
    · simp only [renderComment, hs, if_true, List.cons_append, List.nil_append]
      have hsk : skipWs (l.trail ++ 47 :: 47 :: (renderWords c.words ++ c.last)) =
          47 :: 47 :: (renderWords c.words ++ c.last) := by
        rw [skipWs_append htw]; exact skipWs_cons_not (by decide)
      refine ⟨Tail.append htw (Tail.cons _ (by decide) (by decide)), by simp [nextC, hsk], ?_⟩
      simp [tail, commentStart, hsk, commentBody, hbody, atEnd, joinSp_eq]

/-- `tail` only looks at the text after the blanks -/
theorem tail_congr {r r' : Txt} (h : skipWs r = skipWs r') : tail r = tail r' := by
  simp [tail, commentStart, atEnd, h]

/-! ### the operand slots -/

/-- what follows an operand: its trailing blanks, then the next operand after a comma, or the end -/
def cont (E : Txt) : List (OpLayout × Operand) → Txt
  | [] => E
  | p :: ps => 44 :: (renderOps (p :: ps) ++ E)

theorem renderOps_cons (E : Txt) (L : OpLayout) (o : Operand) (rest : List (OpLayout × Operand)) :
    renderOps ((L, o) :: rest) ++ E = L.pre ++ (renderOperand L o ++ (L.post ++ cont E rest)) := by
  cases rest with
  | nil => simp [renderOps, cont]
  | cons p ps => simp [renderOps, cont]

/-- well-formedness of the operands after the first -/
def RestOk (ops : List (OpLayout × Operand)) : Prop :=
  ∀ p ∈ ops, validOperand p.2 = true ∧ p.1.blanks.all blank = true ∧ p.1.bare = false

theorem tail_cont {E : Txt} (hE : Tail SepC E) (L : OpLayout) (hp : AllWs L.post)
    (rest : List (OpLayout × Operand)) : Tail SepC (L.post ++ cont E rest) := by
  apply Tail.append hp
  cases rest with
  | nil => exact hE
  | cons p ps => exact Tail.cons _ (by decide) (by decide)

theorem post_allWs (L : OpLayout) (h : L.blanks.all blank = true) : AllWs L.pre ∧ AllWs L.post := by
  simp only [OpLayout.blanks, List.all_cons, Bool.and_eq_true] at h
  exact ⟨blank_allWs h.1, blank_allWs h.2.1⟩

theorem slots_ok {E : Txt} (hE : Tail SepC E) (hE44 : nextC E ≠ some 44) :
    ∀ n (rest : List (OpLayout × Operand)), rest.length ≤ n → RestOk rest →
      ∀ r, skipWs r = skipWs (cont E rest) →
        (restSlots n r).1 = rest.map (fun p => rawOp p.1 p.2) ∧ skipWs (restSlots n r).2 = skipWs E := by
  intro n
  induction n with
  | zero =>
    intro rest hl _ r hr
    have : rest = [] := by cases rest <;> simp at hl ⊢
    subst this
    exact ⟨rfl, hr⟩
  | succ n ih =>
    intro rest hl hok r hr
    cases rest with
    | nil =>
      simp only [cont] at hr
      have hnx : nextC r = nextC E := by simp [nextC, hr]
      have h44 : lit [44] r = none := lit1_none (by rw [hnx]; exact hE44)
      have hnone : operandRest (skipWs r) = none := operandRest_none (by
        intro c hc; rw [nextC_skipWs, hnx] at hc; exact hE.2 c hc)
      have hstep : opt operandRest (optR (lit [44]) r) = (none, skipWs r) := by
        simp [optR, h44, opt, hnone]
      have := ih [] (by simp) (by intro p hp; cases hp) (skipWs r) (by simp [cont, hr])
      simp only [restSlots, hstep, Option.toList_none, List.nil_append, List.map_nil]
      exact this
    | cons p ps =>
      obtain ⟨L, o⟩ := p
      obtain ⟨hv, hbl, hbare⟩ := hok (L, o) (by simp)
      obtain ⟨hpre, hpost⟩ := post_allWs L hbl
      have hsk : skipWs r = 44 :: (L.pre ++ (renderOperand L o ++ (L.post ++ cont E ps))) := by
        rw [hr]; simp only [cont]; rw [renderOps_cons]; exact skipWs_cons_not (by decide)
      have h44 : lit [44] r = some (L.pre ++ (renderOperand L o ++ (L.post ++ cont E ps))) := by
        simp [lit, hsk, dropPrefix]
      obtain ⟨r1, hr1, _, hrest⟩ := operand_ok L hbl o hv hpre (tail_cont hE L hpost ps)
      have hstep : opt operandRest (optR (lit [44]) r) = (some (rawOp L o), r1) := by
        simp [optR, h44, opt, hrest hbare]
      have := ih ps (by simp at hl; omega) (fun q hq => hok q (by simp [hq])) r1
        (by rw [hr1, skipWs_append hpost])
      simp only [restSlots, hstep, Option.toList_some, List.map_cons, List.cons_append,
        List.nil_append]
      exact ⟨by rw [this.1], this.2⟩

/-! ### first visible character of the text after the mnemonic -/

/-- characters an operand or a comment can start with -/
def OpStart (c : Nat) : Prop :=
  c = 37 ∨ c = 36 ∨ c = 40 ∨ c = 45 ∨ isDigitC c = true ∨ isIdStart c = true ∨ c = 35 ∨ c = 47

theorem renderOperand_next (L : OpLayout) (hbl : L.blanks.all blank = true) (o : Operand)
    (hv : validOperand o = true) (k : Txt) {b : Txt} (hb : AllWs b) :
    ∃ c, nextC (b ++ (renderOperand L o ++ k)) = some c ∧ OpStart c := by
  cases o with
  | reg n =>
    exact ⟨37, by simp only [renderOperand, List.cons_append]; rw [nextC_append hb]; exact nextC_cons (by decide),
      Or.inl rfl⟩
  | imm v =>
    exact ⟨36, by simp only [renderOperand, List.cons_append]; rw [nextC_append hb]; exact nextC_cons (by decide),
      Or.inr (Or.inl rfl)⟩
  | ident n =>
    simp only [validOperand] at hv
    cases hbare : L.bare
    · exact ⟨36, by simp only [renderOperand, hbare, Bool.false_eq_true, if_false, List.cons_append]
                    rw [nextC_append hb]; exact nextC_cons (by decide), Or.inr (Or.inl rfl)⟩
    · cases n with
      | nil => simp [validIdent] at hv
      | cons c r =>
        have hc : isIdStart c = true := by
          simp only [validIdent, Bool.and_eq_true] at hv; exact hv.1
        refine ⟨c, ?_, Or.inr (Or.inr (Or.inr (Or.inr (Or.inr (Or.inl hc)))))⟩
        simp only [renderOperand, hbare, if_true, List.cons_append]
        rw [nextC_append hb]; exact nextC_cons (spec_idStart c hc).2.2
  | mem off base index scale seg =>
    simp only [validOperand, Bool.and_eq_true, Bool.not_eq_true'] at hv
    obtain ⟨⟨⟨⟨⟨⟨_, hoff⟩, _⟩, _⟩, _⟩, _⟩, hcomb⟩ := hv
    have hw1 : AllWs L.w1 := by
      simp only [OpLayout.blanks, List.all_cons, Bool.and_eq_true] at hbl
      exact blank_allWs hbl.2.2.1
    simp only [renderOperand]
    by_cases hnn : (base.isNone && index.isNone) = true
    · have hb0 : base = none := by cases base <;> simp_all
      have hi0 : index = none := by cases index <;> simp_all
      subst hb0; subst hi0
      obtain ⟨v, rfl⟩ : ∃ v, off = some (.imm v) := by
        cases off with
        | none => simp at hcomb
        | some o => cases o <;> simp at hcomb ⊢
      simp only [renderMem, Option.isNone_none, Bool.and_self, if_true, renderOff]
      obtain ⟨c, hc, hcc⟩ := renderInt_next L.num v (k := k) hb
      exact ⟨c, hc, hcc.elim (fun h => Or.inr (Or.inr (Or.inr (Or.inl h))))
        (fun h => Or.inr (Or.inr (Or.inr (Or.inr (Or.inl h)))))⟩
    · have hnn' : (base.isNone && index.isNone) = false := by
        cases h : (base.isNone && index.isNone) with
        | false => rfl
        | true => exact absurd h hnn
      have htxt : renderMem L off base index scale ++ k =
          renderOff L.num off ++ (L.w1 ++ 40 :: (L.w2 ++ (renderBase L base ++
            (renderIndex L scale index ++ 41 :: k)))) := by
        simp [renderMem, hnn', List.append_assoc]
      obtain ⟨c, hc, hcc⟩ := renderMem_next L hw1 off hoff
        (L.w2 ++ (renderBase L base ++ (renderIndex L scale index ++ 41 :: k))) hb
      rw [← htxt] at hc
      refine ⟨c, hc, ?_⟩
      rcases hcc with h | h | h | h
      · exact Or.inr (Or.inr (Or.inl h))
      · exact Or.inr (Or.inr (Or.inr (Or.inl h)))
      · exact Or.inr (Or.inr (Or.inr (Or.inr (Or.inl h))))
      · exact Or.inr (Or.inr (Or.inr (Or.inr (Or.inr (Or.inl h)))))

theorem OpStart_facts {c : Nat} (h : OpStart c) :
    c ≠ 64 ∧ c ≠ 58 ∧ c ≠ 44 ∧ isWs c = false := by
  rcases h with h | h | h | h | h | h | h | h
  · subst h; decide
  · subst h; decide
  · subst h; decide
  · subst h; decide
  · simp [isDigitC, isWs] at *; omega
  · simp [isIdStart, Spec.X86R.isAlpha, isWs] at *; omega
  · subst h; decide
  · subst h; decide

end OsacaVerif.ParseX86
