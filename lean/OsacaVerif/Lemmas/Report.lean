import OsacaVerif.Lemmas.Fmt
import OsacaVerif.Model.Report
import OsacaVerif.Model.ReportView
import OsacaVerif.Spec.ReportView
/-
  Lemmas for C13: the reader of `Spec/ReportView.lean` inverts the renderer of `Model/Report.lean`,
  piece by piece (cell, cell list, table line, port line, totals line, LCD line).
-/
namespace OsacaVerif.Report
open OsacaVerif.Text OsacaVerif.Fmt OsacaVerif.Spec.Report
open OsacaVerif.Gen.Report

/-! ### one cell -/

/-- a cell is blank or printed with at least one decimal (no fall-back format) -/
def CellOk (x : Rat) (u : Bool) (l : Nat) : Prop :=
  (x.num = 0 ∧ u = false) ∨ 0 < l - leftLen x - cellReserve

theorem renderShown_head (s : Shown) : ∃ c r, renderShown s = c :: r ∧ c ≠ 32 := by
  obtain ⟨neg, mant, decs⟩ := s
  obtain ⟨c0, r0, hq, hc0⟩ := natDigits_head (mant / 10 ^ decs)
  unfold renderShown
  cases neg with
  | true => exact ⟨45, _, by simp; rfl, by decide⟩
  | false =>
    refine ⟨c0, r0 ++ (if decs = 0 then [] else 46 :: fracDigits decs (mant % 10 ^ decs)), by simp [hq], ?_⟩
    intro h; subst h; simp [isDigitC] at hc0

theorem spaces_snoc (k : Nat) : spaces k ++ [32] = spaces (k + 1) := by
  simp [spaces, List.replicate_succ']

theorem parseCell_cellBody (x : Rat) (u : Bool) (l sep : Nat) (name rest : Txt) (h : CellOk x u l) :
    parseCell ⟨name, l, sep⟩ (cellBody x u l sep ++ rest) = some (cellView x u l, rest) := by
  unfold cellBody cellView parseCell
  by_cases hz : (decide (x.num = 0) && !u) = true
  · simp only [hz, if_true]
    have e : spaces l ++ [32, sep] ++ rest = spaces (l + 1) ++ sep :: rest := by
      rw [← spaces_snoc]; simp
    rw [e]
    have hh : (spaces (l + 1) ++ sep :: rest).head? = some 32 := by rw [spaces_succ]; rfl
    simp only [hh, if_true]
    rw [expectSpaces_spaces]; simp
  · have hp : 0 < l - leftLen x - cellReserve := by
      rcases h with ⟨h1, h2⟩ | h
      · exfalso; apply hz; simp [h1, h2]
      · exact h
    simp only [hz, Bool.false_eq_true, if_false, cellPrec]
    have hp0 : ¬ (l - leftLen x - cellReserve = 0) := by omega
    simp only [hp0, if_false]
    rw [padLeft_of_le _ _ (leftLen_le x _)]
    obtain ⟨c, r, hc, hc32⟩ := renderShown_head (shown x (l - leftLen x - cellReserve))
    have hh : (fmtFixed x (l - leftLen x - cellReserve) ++ [32, sep] ++ rest).head? ≠ some 32 := by
      unfold fmtFixed; rw [hc]; simp [hc32]
    simp only [hh, if_false]
    have : fmtFixed x (l - leftLen x - cellReserve) ++ [32, sep] ++ rest =
        renderShown (shown x (l - leftLen x - cellReserve)) ++ (32 :: sep :: rest) := by
      simp [fmtFixed]
    rw [this, parseNum_renderShown _ _ (numEnd_cons (by decide) (by decide))]
    simp

/-! ### the cells of one line -/

def CellsOk : List Rat → List Bool → List Nat → Prop
  | x :: xs, u :: us, l :: ls => CellOk x u l ∧ CellsOk xs us ls
  | _, _, _ => True

theorem parseCells_render (xs : List Rat) (us : List Bool) (ls ss : List Nat) (names : List Txt) (rest : Txt)
    (hu : us.length = xs.length) (hl : ls.length = xs.length) (hs : ss.length = xs.length)
    (hn : names.length = xs.length) (hok : CellsOk xs us ls) :
    parseCells (colsOf names ls ss) ((cellBodies xs us ls ss).flatMap (fun b => 32 :: b) ++ rest) =
      some (cellViews xs us ls, rest) := by
  induction xs generalizing us ls ss names with
  | nil =>
    cases names <;> simp_all [colsOf, cellBodies, cellViews, parseCells]
  | cons x xs ih =>
    cases us with
    | nil => simp at hu
    | cons u us =>
    cases ls with
    | nil => simp at hl
    | cons l ls =>
    cases ss with
    | nil => simp at hs
    | cons s ss =>
    cases names with
    | nil => simp at hn
    | cons n names =>
    simp only [colsOf, cellBodies, cellViews, List.flatMap_cons, List.cons_append, List.append_assoc, parseCells,
      expect_cons]
    rw [parseCell_cellBody x u l s n _ hok.1]
    simp only []
    rw [ih us ls ss names (by simpa using hu) (by simpa using hl) (by simpa using hs) (by simpa using hn) hok.2]

/-- `_get_port_pressure` in normal form: the last separator, then every cell preceded by a blank
    (this is what `"<sep> " + Σ(cell + " ")` followed by `[:-1]` amounts to) -/
theorem portPressure_eq (xs : List Rat) (us : List Bool) (ls ss : List Nat) :
    portPressure xs us ls ss = ss.getLastD 124 :: (cellBodies xs us ls ss).flatMap (fun b => 32 :: b) := by
  unfold portPressure
  generalize cellBodies xs us ls ss = bs
  have key : ∀ (pre : Txt) (bs : List Txt),
      (pre ++ [32] ++ bs.flatMap (fun b => b ++ [32])).dropLast = pre ++ bs.flatMap (fun b => 32 :: b) := by
    intro pre bs
    induction bs generalizing pre with
    | nil => simp
    | cons b bs ih =>
      have := ih (pre ++ 32 :: b)
      simp only [List.flatMap_cons, List.append_assoc, List.cons_append, List.nil_append] at this ⊢
      exact this
  have := key [ss.getLastD 124] bs
  simpa using this

/-! ### tokens between bars, flags, text -/

theorem span_append_stop {α : Type} (p : α → Bool) (a rest : List α) (ha : ∀ c ∈ a, p c = true)
    (hr : ∀ c r, rest = c :: r → p c = false) : spanP p (a ++ rest) = (a, rest) := by
  induction a with
  | nil =>
    cases rest with
    | nil => rfl
    | cons c r => simp [spanP, hr c r rfl]
  | cons c cs ih =>
    have hc := ha c (by simp)
    have := ih (fun c' h' => ha c' (by simp [h']))
    simp only [List.cons_append, spanP, hc, if_true, this]

/-- a text that can stand between two bars: no blank, no bar -/
def TokOk (t : Txt) : Prop := ∀ c ∈ t, isTokC c = true

theorem parseBarCell_render (w : Nat) (tok rest : Txt) (htok : TokOk tok) :
    parseBarCell (32 :: padLeft w tok ++ 32 :: 124 :: rest) = some (tok, rest) := by
  unfold parseBarCell padLeft
  cases tok with
  | nil =>
    have e : 32 :: (spaces (w - ([] : Txt).length) ++ []) ++ 32 :: 124 :: rest =
        spaces (w + 2) ++ 124 :: rest := by
      simp only [List.length_nil, Nat.sub_zero, List.append_nil]
      rw [show w + 2 = (w + 1) + 1 from rfl, ← spaces_snoc (w + 1), spaces_succ]; simp
    rw [e, skipSpaces_spaces _ _ (by intro c r h; cases h; decide)]
    simp [spanP, isTokC, skipSpaces]
  | cons c cs =>
    have hc : isTokC c = true := htok c (by simp)
    have hc32 : c ≠ 32 := by intro h; subst h; simp [isTokC] at hc
    have e : 32 :: (spaces (w - (c :: cs).length) ++ c :: cs) ++ 32 :: 124 :: rest =
        spaces (w - (c :: cs).length + 1) ++ ((c :: cs) ++ 32 :: 124 :: rest) := by
      rw [spaces_succ]; simp
    rw [e, skipSpaces_spaces _ _ (by intro c' r' h; simp at h; rw [← h.1]; exact hc32)]
    rw [span_append_stop isTokC (c :: cs) (32 :: 124 :: rest) htok (by intro c' r' h; cases h; decide)]
    simp [skipSpaces]

/-- the flag symbols never contain a blank -/
theorem flagSymbols_no_blank : ∀ p ∈ flagSymbols, p.1 ≠ 32 := by decide

theorem parseFlagsText_render (v text : Txt) (hv : ∀ c ∈ v, c ≠ 32) :
    parseFlagsText (32 :: (if v.isEmpty then [32] else v) ++ 32 :: text) = some (v, text) := by
  unfold parseFlagsText
  simp only [List.cons_append, expect_cons]
  cases v with
  | nil =>
    simp [spanP]
  | cons c cs =>
    simp only [List.isEmpty_cons, Bool.false_eq_true, if_false]
    rw [span_append_stop (· != 32) (c :: cs) (32 :: text)
      (by intro c' h'; simp [hv c' h']) (by intro c' r' h; cases h; simp)]
    simp

/-! ### one table line -/

/-- conditions on a kernel line under which the table line is read back -/
structure RowOk (a : Analysis) (plens : List Nat) (r : Row) : Prop where
  lenP : r.press.length = a.ports.length
  lenU : r.used.length = a.ports.length
  cells : CellsOk r.press r.used plens
  cpTok : TokOk ((lookupFirst r.line a.cp).getD [])
  lcdTok : TokOk ((lookupLast r.line (lcdMembers a)).getD [])

theorem colSep_eq : colSep = 124 := by decide
theorem groupSep_eq : groupSep = 32 := by decide
theorem headerGroupSep_eq : headerGroupSep = 45 := by decide

theorem sepList_length (s s2 : Nat) (names : List Txt) (h : names ≠ []) :
    (sepList s s2 names).length = names.length := by
  induction names with
  | nil => exact absurd rfl h
  | cons a r ih =>
    cases r with
    | nil => simp [sepList]
    | cons b r => simp [sepList, ih (by simp)]

theorem sepList_ne_nil (s s2 : Nat) (names : List Txt) : sepList s s2 names ≠ [] := by
  cases names with
  | nil => simp [sepList]
  | cons a r => cases r <;> simp [sepList]

theorem sepList_getLast (s s2 : Nat) (names : List Txt) : (sepList s s2 names).getLastD 124 = s := by
  induction names with
  | nil => simp [sepList]
  | cons a r ih =>
    cases r with
    | nil => simp [sepList]
    | cons b r =>
      simp only [sepList]
      cases h : sepList s s2 (b :: r) with
      | nil => exact absurd h (sepList_ne_nil s s2 (b :: r))
      | cons x y =>
        rw [h] at ih
        simpa [List.getLastD_cons] using ih

theorem flagView_no_blank (flags : List Txt) :
    ∀ c ∈ flagSymbols.filterMap (fun (sym, name) => if flags.contains name then some sym else none), c ≠ 32 := by
  intro c hc
  simp only [List.mem_filterMap] at hc
  obtain ⟨p, hp, hpc⟩ := hc
  have := flagSymbols_no_blank p hp
  split at hpc
  · cases hpc; exact this
  · cases hpc

theorem renderRow_eq (a : Analysis) (plens : List Nat) (r : Row) :
    renderRow a plens (sepList colSep groupSep a.ports) r =
      spaces (rowNumWidth - (natDigits r.line).length) ++ (natDigits r.line ++ (32 :: 124 ::
        ((cellBodies r.press r.used plens (sepList colSep groupSep a.ports)).flatMap (fun b => 32 :: b) ++
          (124 :: (32 :: padLeft cellWidth ((lookupFirst r.line a.cp).getD []) ++ 32 :: 124 ::
            (32 :: padLeft cellWidth ((lookupLast r.line (lcdMembers a)).getD []) ++ 32 :: 124 ::
              (32 :: (if r.hasMnemonic = true then flagSymbolsOf r.flags else [32]) ++
                32 :: cleanLine r.text))))))) := by
  unfold renderRow lcdCp
  rw [portPressure_eq, sepList_getLast, colSep_eq]
  conv => lhs; rw [show padLeft rowNumWidth (natDigits r.line) =
    spaces (rowNumWidth - (natDigits r.line).length) ++ natDigits r.line from rfl]
  simp only [List.append_assoc, List.cons_append, List.nil_append]

theorem parseRow_render (a : Analysis) (plens : List Nat) (r : Row) (hports : a.ports ≠ [])
    (hpl : plens.length = a.ports.length) (hok : RowOk a plens r) :
    parseRow (colsOf a.ports plens (sepList colSep groupSep a.ports))
      (renderRow a plens (sepList colSep groupSep a.ports) r) = some (rowView a plens r) := by
  have hsl := sepList_length colSep groupSep a.ports hports
  rw [renderRow_eq]
  unfold parseRow
  -- line number
  obtain ⟨c0, r0, hq, hc0⟩ := natDigits_head r.line
  rw [skipSpaces_spaces _ _ (by
    intro c' r' h; rw [hq] at h; simp at h; rw [← h.1]; intro e; subst e; simp [isDigitC] at hc0)]
  rw [parseNatPre_natDigits _ _ (noDigitHead_cons (by decide))]
  simp only [expect_cons]
  -- cells
  rw [parseCells_render r.press r.used plens (sepList colSep groupSep a.ports) a.ports _
    (by rw [hok.lenU, hok.lenP]) (by rw [hpl, hok.lenP]) (by rw [hsl, hok.lenP]) (by rw [hok.lenP]) hok.cells]
  simp only [expect_cons]
  -- CP and LCD columns
  rw [parseBarCell_render _ _ _ hok.cpTok]
  simp only []
  rw [parseBarCell_render _ _ _ hok.lcdTok]
  simp only []
  -- flags and text
  have hfl : (if r.hasMnemonic = true then flagSymbolsOf r.flags else [32]) =
      (if (rowView a plens r).flags.isEmpty then [32] else (rowView a plens r).flags) := by
    unfold rowView flagSymbolsOf
    cases r.hasMnemonic <;> simp
  rw [hfl]
  have := parseFlagsText_render (rowView a plens r).flags (cleanLine r.text) (by
    unfold rowView
    cases r.hasMnemonic
    · simp
    · simpa using flagView_no_blank r.flags)
  rw [this]
  simp [rowView]

end OsacaVerif.Report
