import OsacaVerif.Lemmas.Fmt
import OsacaVerif.Model.Report
import OsacaVerif.Model.ReportView
import OsacaVerif.Spec.ReportView
/-
  Lemmas for C13: the reader of `Spec/ReportView.lean` inverts the renderer of `Model/Report.lean`,
  piece by piece (cell, cell list, table line, port line, totals line, LCD line).
-/
namespace OsacaVerif.Report
open OsacaVerif.Text OsacaVerif.Fmt OsacaVerif.Spec.Report
open OsacaVerif.Gen.Report

/-! ### one cell -/

/-- a cell is blank or printed with at least one decimal (no fall-back format) -/
def CellOk (x : Rat) (u : Bool) (l : Nat) : Prop :=
  (x.num = 0 ∧ u = false) ∨ 0 < l - leftLen x - cellReserve

theorem renderShown_head (s : Shown) : ∃ c r, renderShown s = c :: r ∧ c ≠ 32 := by
  obtain ⟨neg, mant, decs⟩ := s
  obtain ⟨c0, r0, hq, hc0⟩ := natDigits_head (mant / 10 ^ decs)
  unfold renderShown
  cases neg with
  | true => exact ⟨45, _, by simp; rfl, by decide⟩
  | false =>
    refine ⟨c0, r0 ++ (if decs = 0 then [] else 46 :: fracDigits decs (mant % 10 ^ decs)), by simp [hq], ?_⟩
    intro h; subst h; simp [isDigitC] at hc0

theorem spaces_snoc (k : Nat) : spaces k ++ [32] = spaces (k + 1) := by
  simp [spaces, List.replicate_succ']

theorem parseCell_cellBody (x : Rat) (u : Bool) (l sep : Nat) (name rest : Txt) (h : CellOk x u l) :
    parseCell ⟨name, l, sep⟩ (cellBody x u l sep ++ rest) = some (cellView x u l, rest) := by
  unfold cellBody cellView parseCell
  by_cases hz : (decide (x.num = 0) && !u) = true
  · simp only [hz, if_true]
    have e : spaces l ++ [32, sep] ++ rest = spaces (l + 1) ++ sep :: rest := by
      rw [← spaces_snoc]; simp
    rw [e]
    have hh : (spaces (l + 1) ++ sep :: rest).head? = some 32 := by rw [spaces_succ]; rfl
    simp only [hh, if_true]
    rw [expectSpaces_spaces]; simp
  · have hp : 0 < l - leftLen x - cellReserve := by
      rcases h with ⟨h1, h2⟩ | h
      · exfalso; apply hz; simp [h1, h2]
      · exact h
    simp only [hz, Bool.false_eq_true, if_false, cellPrec]
    have hp0 : ¬ (l - leftLen x - cellReserve = 0) := by omega
    simp only [hp0, if_false]
    rw [padLeft_of_le _ _ (leftLen_le x _)]
    obtain ⟨c, r, hc, hc32⟩ := renderShown_head (shown x (l - leftLen x - cellReserve))
    have hh : (fmtFixed x (l - leftLen x - cellReserve) ++ [32, sep] ++ rest).head? ≠ some 32 := by
      unfold fmtFixed; rw [hc]; simp [hc32]
    simp only [hh, if_false]
    have : fmtFixed x (l - leftLen x - cellReserve) ++ [32, sep] ++ rest =
        renderShown (shown x (l - leftLen x - cellReserve)) ++ (32 :: sep :: rest) := by
      simp [fmtFixed]
    rw [this, parseNum_renderShown _ _ (numEnd_cons (by decide) (by decide))]
    simp

/-! ### the cells of one line -/

def CellsOk : List Rat → List Bool → List Nat → Prop
  | x :: xs, u :: us, l :: ls => CellOk x u l ∧ CellsOk xs us ls
  | _, _, _ => True

theorem parseCells_render (xs : List Rat) (us : List Bool) (ls ss : List Nat) (names : List Txt) (rest : Txt)
    (hu : us.length = xs.length) (hl : ls.length = xs.length) (hs : ss.length = xs.length)
    (hn : names.length = xs.length) (hok : CellsOk xs us ls) :
    parseCells (colsOf names ls ss) ((cellBodies xs us ls ss).flatMap (fun b => 32 :: b) ++ rest) =
      some (cellViews xs us ls, rest) := by
  induction xs generalizing us ls ss names with
  | nil =>
    cases names <;> simp_all [colsOf, cellBodies, cellViews, parseCells]
  | cons x xs ih =>
    cases us with
    | nil => simp at hu
    | cons u us =>
    cases ls with
    | nil => simp at hl
    | cons l ls =>
    cases ss with
    | nil => simp at hs
    | cons s ss =>
    cases names with
    | nil => simp at hn
    | cons n names =>
    simp only [colsOf, cellBodies, cellViews, List.flatMap_cons, List.cons_append, List.append_assoc, parseCells,
      expect_cons]
    rw [parseCell_cellBody x u l s n _ hok.1]
    simp only []
    rw [ih us ls ss names (by simpa using hu) (by simpa using hl) (by simpa using hs) (by simpa using hn) hok.2]

/-- `_get_port_pressure` in normal form: the last separator, then every cell preceded by a blank
    (this is what `"<sep> " + Σ(cell + " ")` followed by `[:-1]` amounts to) -/
theorem portPressure_eq (xs : List Rat) (us : List Bool) (ls ss : List Nat) :
    portPressure xs us ls ss = ss.getLastD 124 :: (cellBodies xs us ls ss).flatMap (fun b => 32 :: b) := by
  unfold portPressure
  generalize cellBodies xs us ls ss = bs
  have key : ∀ (pre : Txt) (bs : List Txt),
      (pre ++ [32] ++ bs.flatMap (fun b => b ++ [32])).dropLast = pre ++ bs.flatMap (fun b => 32 :: b) := by
    intro pre bs
    induction bs generalizing pre with
    | nil => simp
    | cons b bs ih =>
      have := ih (pre ++ 32 :: b)
      simp only [List.flatMap_cons, List.append_assoc, List.cons_append, List.nil_append] at this ⊢
      exact this
  have := key [ss.getLastD 124] bs
  simpa using this

/-! ### tokens between bars, flags, text -/

theorem span_append_stop {α : Type} (p : α → Bool) (a rest : List α) (ha : ∀ c ∈ a, p c = true)
    (hr : ∀ c r, rest = c :: r → p c = false) : spanP p (a ++ rest) = (a, rest) := by
  induction a with
  | nil =>
    cases rest with
    | nil => rfl
    | cons c r => simp [spanP, hr c r rfl]
  | cons c cs ih =>
    have hc := ha c (by simp)
    have := ih (fun c' h' => ha c' (by simp [h']))
    simp only [List.cons_append, spanP, hc, if_true, this]

/-- a text that can stand between two bars: no blank, no bar -/
def TokOk (t : Txt) : Prop := ∀ c ∈ t, isTokC c = true

theorem parseBarCell_render (w : Nat) (tok rest : Txt) (htok : TokOk tok) :
    parseBarCell (32 :: padLeft w tok ++ 32 :: 124 :: rest) = some (tok, rest) := by
  unfold parseBarCell padLeft
  cases tok with
  | nil =>
    have e : 32 :: (spaces (w - ([] : Txt).length) ++ []) ++ 32 :: 124 :: rest =
        spaces (w + 2) ++ 124 :: rest := by
      simp only [List.length_nil, Nat.sub_zero, List.append_nil]
      rw [show w + 2 = (w + 1) + 1 from rfl, ← spaces_snoc (w + 1), spaces_succ]; simp
    rw [e, skipSpaces_spaces _ _ (by intro c r h; cases h; decide)]
    simp [spanP, isTokC, skipSpaces]
  | cons c cs =>
    have hc : isTokC c = true := htok c (by simp)
    have hc32 : c ≠ 32 := by intro h; subst h; simp [isTokC] at hc
    have e : 32 :: (spaces (w - (c :: cs).length) ++ c :: cs) ++ 32 :: 124 :: rest =
        spaces (w - (c :: cs).length + 1) ++ ((c :: cs) ++ 32 :: 124 :: rest) := by
      rw [spaces_succ]; simp
    rw [e, skipSpaces_spaces _ _ (by intro c' r' h; simp at h; rw [← h.1]; exact hc32)]
    rw [span_append_stop isTokC (c :: cs) (32 :: 124 :: rest) htok (by intro c' r' h; cases h; decide)]
    simp [skipSpaces]

/-- the flag symbols never contain a blank -/
theorem flagSymbols_no_blank : ∀ p ∈ flagSymbols, p.1 ≠ 32 := by decide

theorem parseFlagsText_render (v text : Txt) (hv : ∀ c ∈ v, c ≠ 32) :
    parseFlagsText (32 :: (if v.isEmpty then [32] else v) ++ 32 :: text) = some (v, text) := by
  unfold parseFlagsText
  simp only [List.cons_append, expect_cons]
  cases v with
  | nil =>
    simp [spanP]
  | cons c cs =>
    simp only [List.isEmpty_cons, Bool.false_eq_true, if_false]
    rw [span_append_stop (· != 32) (c :: cs) (32 :: text)
      (by intro c' h'; simp [hv c' h']) (by intro c' r' h; cases h; simp)]
    simp

/-! ### one table line -/

/-- conditions on a kernel line under which the table line is read back -/
structure RowOk (a : Analysis) (plens : List Nat) (r : Row) : Prop where
  lenP : r.press.length = a.ports.length
  lenU : r.used.length = a.ports.length
  cells : CellsOk r.press r.used plens
  cpTok : TokOk ((lookupFirst r.line a.cp).getD [])
  lcdTok : TokOk ((lookupLast r.line (lcdMembers a)).getD [])

theorem colSep_eq : colSep = 124 := by decide
theorem groupSep_eq : groupSep = 32 := by decide
theorem headerGroupSep_eq : headerGroupSep = 45 := by decide

theorem sepList_length (s s2 : Nat) (names : List Txt) (h : names ≠ []) :
    (sepList s s2 names).length = names.length := by
  induction names with
  | nil => exact absurd rfl h
  | cons a r ih =>
    cases r with
    | nil => simp [sepList]
    | cons b r => simp [sepList, ih (by simp)]

theorem sepList_ne_nil (s s2 : Nat) (names : List Txt) : sepList s s2 names ≠ [] := by
  cases names with
  | nil => simp [sepList]
  | cons a r => cases r <;> simp [sepList]

theorem sepList_getLast (s s2 : Nat) (names : List Txt) : (sepList s s2 names).getLastD 124 = s := by
  induction names with
  | nil => simp [sepList]
  | cons a r ih =>
    cases r with
    | nil => simp [sepList]
    | cons b r =>
      simp only [sepList]
      cases h : sepList s s2 (b :: r) with
      | nil => exact absurd h (sepList_ne_nil s s2 (b :: r))
      | cons x y =>
        rw [h] at ih
        simpa [List.getLastD_cons] using ih

theorem flagView_no_blank (flags : List Txt) :
    ∀ c ∈ flagSymbols.filterMap (fun (sym, name) => if flags.contains name then some sym else none), c ≠ 32 := by
  intro c hc
  simp only [List.mem_filterMap] at hc
  obtain ⟨p, hp, hpc⟩ := hc
  have := flagSymbols_no_blank p hp
  split at hpc
  · cases hpc; exact this
  · cases hpc

theorem renderRow_eq (a : Analysis) (plens : List Nat) (r : Row) :
    renderRow a plens (sepList colSep groupSep a.ports) r =
      spaces (rowNumWidth - (natDigits r.line).length) ++ (natDigits r.line ++ (32 :: 124 ::
        ((cellBodies r.press r.used plens (sepList colSep groupSep a.ports)).flatMap (fun b => 32 :: b) ++
          (124 :: (32 :: padLeft cellWidth ((lookupFirst r.line a.cp).getD []) ++ 32 :: 124 ::
            (32 :: padLeft cellWidth ((lookupLast r.line (lcdMembers a)).getD []) ++ 32 :: 124 ::
              (32 :: (if r.hasMnemonic = true then flagSymbolsOf r.flags else [32]) ++
                32 :: cleanLine r.text))))))) := by
  unfold renderRow lcdCp
  rw [portPressure_eq, sepList_getLast, colSep_eq]
  conv => lhs; rw [show padLeft rowNumWidth (natDigits r.line) =
    spaces (rowNumWidth - (natDigits r.line).length) ++ natDigits r.line from rfl]
  simp only [List.append_assoc, List.cons_append, List.nil_append]

theorem parseRow_render (a : Analysis) (plens : List Nat) (r : Row) (hports : a.ports ≠ [])
    (hpl : plens.length = a.ports.length) (hok : RowOk a plens r) :
    parseRow (colsOf a.ports plens (sepList colSep groupSep a.ports))
      (renderRow a plens (sepList colSep groupSep a.ports) r) = some (rowView a plens r) := by
  have hsl := sepList_length colSep groupSep a.ports hports
  rw [renderRow_eq]
  unfold parseRow
  -- line number
  obtain ⟨c0, r0, hq, hc0⟩ := natDigits_head r.line
  rw [skipSpaces_spaces _ _ (by
    intro c' r' h; rw [hq] at h; simp at h; rw [← h.1]; intro e; subst e; simp [isDigitC] at hc0)]
  rw [parseNatPre_natDigits _ _ (noDigitHead_cons (by decide))]
  simp only [expect_cons]
  -- cells
  rw [parseCells_render r.press r.used plens (sepList colSep groupSep a.ports) a.ports _
    (by rw [hok.lenU, hok.lenP]) (by rw [hpl, hok.lenP]) (by rw [hsl, hok.lenP]) (by rw [hok.lenP]) hok.cells]
  simp only [expect_cons]
  -- CP and LCD columns
  rw [parseBarCell_render _ _ _ hok.cpTok]
  simp only []
  rw [parseBarCell_render _ _ _ hok.lcdTok]
  simp only []
  -- flags and text
  have hfl : (if r.hasMnemonic = true then flagSymbolsOf r.flags else [32]) =
      (if (rowView a plens r).flags.isEmpty then [32] else (rowView a plens r).flags) := by
    unfold rowView flagSymbolsOf
    cases r.hasMnemonic <;> simp
  rw [hfl]
  have := parseFlagsText_render (rowView a plens r).flags (cleanLine r.text) (by
    unfold rowView
    cases r.hasMnemonic
    · simp
    · simpa using flagView_no_blank r.flags)
  rw [this]
  simp [rowView]

/-! ### column widths: `_get_max_port_len` leaves room for every cell -/

theorem foldl_max_ge (f : Rat → Nat) (vals : List Rat) (init : Nat) :
    init ≤ vals.foldl (fun m v => max m (f v)) init ∧
      ∀ v ∈ vals, f v ≤ vals.foldl (fun m v => max m (f v)) init := by
  induction vals generalizing init with
  | nil => simp
  | cons x xs ih =>
    simp only [List.foldl_cons, List.mem_cons]
    have := ih (max init (f x))
    refine ⟨by omega, ?_⟩
    intro v hv
    rcases hv with rfl | hv
    · omega
    · exact this.2 v hv

theorem portLenOf_ge_min (vals : List Rat) : minPortLen ≤ portLenOf vals :=
  (foldl_max_ge _ vals minPortLen).1

theorem portLenOf_ge (vals : List Rat) (v : Rat) (hv : v ∈ vals) :
    (fmtFixed v portLenDecimals).length ≤ portLenOf vals :=
  (foldl_max_ge (fun v => (fmtFixed v portLenDecimals).length) vals minPortLen).2 v hv

theorem cellOk_of_room (x : Rat) (u : Bool) (l : Nat) (h : (fmtFixed x portLenDecimals).length ≤ l) :
    CellOk x u l := by
  right
  have h1 := leftLen_add_le x portLenDecimals
  have h2 : portLenDecimals = 2 := by decide
  have h3 : cellReserve = 1 := by decide
  rw [h2] at h1 h
  simp at h1
  omega

theorem cellsOk_of_forall (xs : List Rat) (us : List Bool) (ls : List Nat)
    (h : ∀ i (h1 : i < xs.length) (_h2 : i < us.length) (h3 : i < ls.length), CellOk xs[i] us[i] ls[i]) :
    CellsOk xs us ls := by
  induction xs generalizing us ls with
  | nil => simp [CellsOk]
  | cons x xs ih =>
    cases us with
    | nil => simp [CellsOk]
    | cons u us =>
    cases ls with
    | nil => simp [CellsOk]
    | cons l ls =>
      refine ⟨h 0 (by simp) (by simp) (by simp), ih us ls ?_⟩
      intro i h1 h2 h3
      exact h (i + 1) (by simpa using h1) (by simpa using h2) (by simpa using h3)

theorem maxPortLen_length (ports : List Txt) (rows : List Row) :
    (maxPortLen ports rows).length = ports.length := by simp [maxPortLen]

theorem maxPortLen_ge_min (ports : List Txt) (rows : List Row) : ∀ l ∈ maxPortLen ports rows, minPortLen ≤ l := by
  intro l hl
  simp only [maxPortLen, List.mem_map] at hl
  obtain ⟨i, _, rfl⟩ := hl
  exact portLenOf_ge_min _

/-- every cell of every kernel line fits its column with at least one decimal -/
theorem cellsOk_maxPortLen (ports : List Txt) (rows : List Row) (r : Row) (hr : r ∈ rows)
    (hlen : r.press.length = ports.length) : CellsOk r.press r.used (maxPortLen ports rows) := by
  apply cellsOk_of_forall
  intro i h1 h2 h3
  apply cellOk_of_room
  have hi : i < ports.length := by omega
  simp only [maxPortLen, List.getElem_map, List.getElem_range]
  apply portLenOf_ge
  simp only [column, List.mem_map]
  exact ⟨r, hr, by simp [List.getD, List.getElem?_eq_getElem h1]⟩

/-! ### the port line -/

/-- a port name that can be read back from the port line: no blank, bar or dash, and it fits the
    narrowest column -/
def NameOk (n : Txt) : Prop := (∀ c ∈ n, c ≠ 32 ∧ isSepC c = false) ∧ n.length ≤ minPortLen + headerPad

theorem center_eq (w : Nat) (n : Txt) :
    center w n = spaces ((w - n.length) / 2) ++ n ++ spaces ((w - n.length) - (w - n.length) / 2) := rfl

theorem center_length (w : Nat) (n : Txt) (h : n.length ≤ w) : (center w n).length = w := by
  rw [center_eq]; simp; omega

theorem center_filter (w : Nat) (n : Txt) (hn : ∀ c ∈ n, c ≠ 32) : (center w n).filter (· != 32) = n := by
  rw [center_eq]
  simp only [List.filter_append]
  have hs : ∀ k, (spaces k).filter (· != 32) = [] := by
    intro k; simp [spaces, List.filter_eq_nil_iff]
  rw [hs, hs]
  simp only [List.nil_append, List.append_nil, List.filter_eq_self]
  intro c hc; simp [hn c hc]

theorem center_noSep (w : Nat) (n : Txt) (hn : ∀ c ∈ n, isSepC c = false) :
    ∀ c ∈ center w n, (!isSepC c) = true := by
  intro c hc
  rw [center_eq] at hc
  simp only [List.mem_append, spaces, List.mem_replicate] at hc
  rcases hc with (⟨_, rfl⟩ | hc) | ⟨_, rfl⟩
  · decide
  · simp [hn c hc]
  · decide

theorem center_head (w : Nat) (n : Txt) (hw : 0 < w) (hn : ∀ c ∈ n, isSepC c = false) :
    (center w n ++ rest).head? ≠ some 124 := by
  have hne : center w n ≠ [] := by
    intro h
    have h1 : (center w n).length = n.length + (w - n.length) := by
      rw [center_eq]; simp only [List.length_append, spaces_length]; omega
    rw [h] at h1
    simp at h1
    omega
  cases hc : center w n with
  | nil => exact absurd hc hne
  | cons c r =>
    have := center_noSep w n hn c (by rw [hc]; simp)
    simp only [List.cons_append, List.head?_cons, ne_eq, Option.some.injEq]
    intro h; subst h; simp [isSepC] at this

theorem parseCols_render (names : List Txt) (plens : List Nat) (fuel : Nat) (tail : Txt)
    (hlen : plens.length = names.length) (hn : ∀ n ∈ names, NameOk n) (hl : ∀ l ∈ plens, minPortLen ≤ l)
    (hf : names.length < fuel) :
    parseCols fuel (portSegs names plens (sepList 124 45 names) ++ 124 :: tail) =
      some (colsOf names plens (sepList 124 32 names), tail) := by
  induction names generalizing plens fuel with
  | nil =>
    cases fuel with
    | zero => omega
    | succ f => simp [portSegs, parseCols, colsOf]
  | cons n ns ih =>
    cases plens with
    | nil => simp at hlen
    | cons l ls =>
    cases fuel with
    | zero => omega
    | succ f =>
    have hnok := hn n (by simp)
    have hl4 : minPortLen ≤ l := hl l (by simp)
    have hpad : headerPad = 2 := by decide
    have hfit : n.length ≤ l + headerPad := by have := hnok.2; omega
    have hsep : ∀ c ∈ n, isSepC c = false := fun c hc => (hnok.1 c hc).2
    -- shape of the two separator lists
    obtain ⟨g, hs45, hs32⟩ : ∃ g : Bool, sepList 124 45 (n :: ns) = (if g then 45 else 124) :: (if ns = [] then [] else sepList 124 45 ns) ∧
        sepList 124 32 (n :: ns) = (if g then 32 else 124) :: (if ns = [] then [] else sepList 124 32 ns) := by
      cases ns with
      | nil => exact ⟨false, by simp [sepList], by simp [sepList]⟩
      | cons b r => exact ⟨sameGroup n b, by simp [sepList], by simp [sepList]⟩
    rw [hs45, hs32]
    simp only [portSegs, colsOf, List.append_assoc, List.cons_append]
    unfold parseCols
    have hh := center_head (rest := (if g then 45 else 124) ::
      (portSegs ns ls (if ns = [] then [] else sepList 124 45 ns) ++ 124 :: tail)) (l + headerPad) n (by omega) hsep
    simp only [hh, if_false]
    rw [span_append_stop _ _ _ (center_noSep _ n hsep) (by intro c r h; cases h; cases g <;> simp [isSepC])]
    simp only [center_length _ n hfit, center_filter _ n (fun c hc => (hnok.1 c hc).1)]
    have h2 : ¬ (l + headerPad < 2) := by omega
    simp only [h2, if_false]
    -- the remaining columns
    have hrest : parseCols f (portSegs ns ls (if ns = [] then [] else sepList 124 45 ns) ++ 124 :: tail) =
        some (colsOf ns ls (if ns = [] then [] else sepList 124 32 ns), tail) := by
      by_cases hns : ns = []
      · subst hns
        cases f with
        | zero => simp at hf
        | succ f' => simp [portSegs, parseCols, colsOf]
      · simp only [hns, if_false]
        exact ih ls f (by simpa using hlen) (fun n' h' => hn n' (by simp [h']))
          (fun l' h' => hl l' (by simp [h'])) (by simpa using hf)
    rw [hrest]
    have : l + headerPad - 2 = l := by omega
    cases g <;> simp [this]

/-! ### blank-separated tokens and the totals line -/

theorem splitOn_cons (c d : Nat) (t : Txt) :
    splitOn c (d :: t) = (match splitOn c t with
      | [] => [[d]]
      | h :: tl => if d = c then [] :: h :: tl else (d :: h) :: tl) := by
  conv => lhs; rw [splitOn]
  cases splitOn c t <;> rfl

theorem splitOn_append_sep' (c : Nat) (a b : Txt) :
    splitOn c (a ++ c :: b) = splitOn c a ++ splitOn c b := by
  induction a with
  | nil =>
    simp only [List.nil_append]
    rw [splitOn_cons]
    cases h : splitOn c b with
    | nil => exact absurd h (splitOn_ne_nil c b)
    | cons x y => simp [splitOn]
  | cons d a ih =>
    rw [List.cons_append, splitOn_cons, splitOn_cons, ih]
    cases h : splitOn c a with
    | nil => exact absurd h (splitOn_ne_nil c a)
    | cons x y => by_cases hd : d = c <;> simp [hd]

theorem tokens_append_space (a b : Txt) : tokens (a ++ 32 :: b) = tokens a ++ tokens b := by
  simp [tokens, splitOn_append_sep']

theorem tokens_nil : tokens [] = [] := by simp [tokens, splitOn]

theorem tokens_cons_space (t : Txt) : tokens (32 :: t) = tokens t := by
  have := tokens_append_space [] t
  simpa [tokens_nil] using this

theorem tokens_spaces (k : Nat) : tokens (spaces k) = [] := by
  induction k with
  | zero => exact tokens_nil
  | succ k ih => rw [spaces_succ, tokens_cons_space, ih]

theorem tokens_spaces_append (k : Nat) (t : Txt) : tokens (spaces k ++ t) = tokens t := by
  induction k with
  | zero => simp [spaces]
  | succ k ih => rw [spaces_succ, List.cons_append, tokens_cons_space, ih]

theorem tokens_word (w : Txt) (hne : w ≠ []) (hs : 32 ∉ w) : tokens w = [w] := by
  simp [tokens, splitOn_no_sep 32 w hs, hne]

theorem tokens_word_spaces (w : Txt) (k : Nat) (hne : w ≠ []) (hs : 32 ∉ w) : tokens (w ++ spaces k) = [w] := by
  cases k with
  | zero => simpa [spaces] using tokens_word w hne hs
  | succ k => rw [spaces_succ, tokens_append_space, tokens_word w hne hs, tokens_spaces]; simp

theorem tokens_all_spaces_append (pre t : Txt) (h : ∀ c ∈ pre, c = 32) : tokens (pre ++ t) = tokens t := by
  induction pre with
  | nil => rfl
  | cons c cs ih =>
    have := h c (by simp); subst this
    rw [List.cons_append, tokens_cons_space, ih (fun c hc => h c (by simp [hc]))]

theorem tokens_bodies (bodies : List Txt) (R : Txt) :
    tokens (bodies.flatMap (fun b => 32 :: b) ++ 32 :: R) = bodies.flatMap tokens ++ tokens R := by
  induction bodies with
  | nil => simp [tokens_cons_space]
  | cons b bs ih =>
    simp only [List.flatMap_cons, List.cons_append, List.append_assoc]
    rw [tokens_cons_space]
    -- what follows `b` starts with a blank
    obtain ⟨Y, hY⟩ : ∃ Y, bs.flatMap (fun b => 32 :: b) ++ 32 :: R = 32 :: Y := by
      cases bs with
      | nil => exact ⟨R, rfl⟩
      | cons b' bs' => exact ⟨b' ++ (bs'.flatMap (fun b => 32 :: b) ++ 32 :: R), by simp⟩
    rw [hY, tokens_append_space, ← tokens_cons_space Y, ← hY, ih]

theorem renderShown_noSpace (s : Shown) : 32 ∉ renderShown s := by
  obtain ⟨neg, mant, decs⟩ := s
  unfold renderShown
  intro h
  simp only [List.mem_append, List.mem_cons] at h
  rcases h with (h | h) | h
  · cases neg <;> simp at h
  · have := natDigits_digits _ 32 h; simp [isDigitC] at this
  · by_cases hd : decs = 0
    · simp [hd] at h
    · simp only [hd, if_false, List.mem_cons] at h
      rcases h with h | h
      · omega
      · have := fracDigits_digits _ _ 32 h; simp [isDigitC] at this

theorem renderShown_ne_nil (s : Shown) : renderShown s ≠ [] := by
  obtain ⟨c, r, h, _⟩ := renderShown_head s
  rw [h]; simp

theorem parseNumFull_renderShown (s : Shown) : parseNumFull (renderShown s) = some s := by
  unfold parseNumFull
  have := parseNum_renderShown s [] numEnd_nil
  rw [List.append_nil] at this
  rw [this]

/-- tokens of one cell of the totals line -/
theorem tokens_sumBody (x : Rat) (l : Nat) :
    tokens (cellBody x false l 32) = ((sumView x l).map renderShown).toList := by
  unfold cellBody sumView
  simp only [fmtFixed]
  by_cases hz : x.num = 0
  · simp only [hz, decide_true, Bool.not_false, Bool.and_self, if_true]
    rw [show spaces l ++ [32, 32] = spaces l ++ spaces 2 from rfl, tokens_spaces_append, tokens_spaces]; rfl
  · simp only [hz, decide_false, Bool.false_and, Bool.false_eq_true, if_false, cellPrec]
    by_cases hp : l - leftLen x - cellReserve = 0
    · simp only [hp, if_true]
      rw [show renderShown (shown x fallbackDecimals) ++ [32] = renderShown (shown x fallbackDecimals) ++ spaces 1 from rfl,
        tokens_word_spaces _ _ (renderShown_ne_nil _) (renderShown_noSpace _)]
      rfl
    · simp only [hp, if_false]
      rw [padLeft_of_le (leftLen x) (renderShown (shown x (l - leftLen x - cellReserve))) (leftLen_le x _),
        show renderShown (shown x (l - leftLen x - cellReserve)) ++ [32, 32] =
          renderShown (shown x (l - leftLen x - cellReserve)) ++ spaces 2 from rfl,
        tokens_word_spaces _ _ (renderShown_ne_nil _) (renderShown_noSpace _)]
      rfl

theorem tokens_sumBodies (xs : List Rat) (ls : List Nat) :
    (cellBodies xs (xs.map fun _ => false) ls (xs.map fun _ => 32)).flatMap tokens =
      ((sumViews xs ls).filterMap id).map renderShown := by
  induction xs generalizing ls with
  | nil => simp [cellBodies, sumViews]
  | cons x xs ih =>
    cases ls with
    | nil => simp [cellBodies, sumViews]
    | cons l ls =>
      simp only [List.map_cons, cellBodies, sumViews, List.flatMap_cons, tokens_sumBody, ih]
      cases sumView x l <;> simp

theorem allSome_map_parseNumFull (ss : List Shown) :
    allSome ((ss.map renderShown).map parseNumFull) = some ss := by
  induction ss with
  | nil => rfl
  | cons s ss ih =>
    simp only [List.map_cons, parseNumFull_renderShown]
    unfold allSome
    rw [ih]; rfl

theorem getLastD_map_const {α : Type} (l : List α) (h : l ≠ []) :
    (l.map fun _ => (32 : Nat)).getLastD 124 = 32 := by
  induction l with
  | nil => exact absurd rfl h
  | cons x xs ih =>
    cases xs with
    | nil => rfl
    | cons y ys =>
      have := ih (by simp)
      simp only [List.map_cons, List.getLastD_cons] at this ⊢
      simpa [List.getLast?_cons_cons] using this

/-- a text printed in a blank-delimited field: non-empty, no blank -/
def WordOk (t : Txt) : Prop := t ≠ [] ∧ 32 ∉ t

theorem linenoFiller_spaces : ∀ c ∈ linenoFiller, c = 32 := by decide

theorem parseSummary_render (a : Analysis) (plens : List Nat) (hs : sumsOf a ≠ [])
    (hcp : WordOk a.cpSum) (hlcd : WordOk (lcdSumRepr a)) :
    parseSummary (summaryRow a plens) =
      some (.summary ((sumViews (sumsOf a) plens).filterMap id) a.cpSum (lcdSumRepr a)) := by
  have htok : tokens (summaryRow a plens) =
      ((sumViews (sumsOf a) plens).filterMap id).map renderShown ++ [a.cpSum, lcdSumRepr a] := by
    have hlast : ((sumsOf a).map fun _ => (32 : Nat)).getLastD 124 = 32 :=
      getLastD_map_const _ hs
    unfold summaryRow
    simp only [List.append_assoc, List.cons_append]
    rw [tokens_all_spaces_append _ _ linenoFiller_spaces, portPressure_eq, hlast]
    simp only [List.cons_append, List.append_assoc]
    rw [tokens_cons_space, tokens_bodies, tokens_sumBodies]
    congr 1
    unfold padLeft
    simp only [List.append_assoc]
    rw [tokens_spaces_append, tokens_append_space, tokens_word _ hcp.1 hcp.2, tokens_cons_space,
      tokens_spaces_append, show lcdSumRepr a ++ [32, 32] = lcdSumRepr a ++ spaces 2 from rfl,
      tokens_word_spaces _ _ hlcd.1 hlcd.2]
    rfl
  unfold parseSummary
  simp only [htok]
  have hlen : (((sumViews (sumsOf a) plens).filterMap id).map renderShown ++ [a.cpSum, lcdSumRepr a]).length - 2 =
      (((sumViews (sumsOf a) plens).filterMap id).map renderShown).length := by simp
  have h2 : ¬ ((((sumViews (sumsOf a) plens).filterMap id).map renderShown ++ [a.cpSum, lcdSumRepr a]).length < 2) := by
    simp
  simp only [h2, if_false]
  rw [hlen, List.take_left' rfl, List.drop_left' rfl, allSome_map_parseNumFull]

end OsacaVerif.Report
