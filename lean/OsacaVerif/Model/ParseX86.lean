import OsacaVerif.Model.Text
import OsacaVerif.Spec.X86Ast
/-
  C09 — executable model of `ParserX86ATT.parse_line` / `BaseParser.parse_file`
  (osaca/parser/parser_x86att.py, base_parser.py).

  A hand-written recursive-descent re-implementation, over `List Nat` code points, of the language
  the pyparsing grammar of `construct_parser` accepts, combinator by combinator:

  * every pyparsing token skips the default white characters (blank, tab, CR, LF) first
    (`lit`, `word`), except inside a `Combine` (`decimalRaw`, `hexRaw`, `nameRaw`, `relocation`);
  * `And` is sequencing *without* back-tracking into an `Optional` that already matched;
  * a failing `Optional` (or `ZeroOrMore`) yields nothing, but pyparsing has already skipped the
    blanks in front of it: the position it leaves is *after* those blanks (`opt`, `optR`).  This is
    invisible to the next token (which skips blanks anyway) but it decides ties of `Or`;
  * `|` (MatchFirst) is ordered choice (`<|>`), `^` (Or) is longest match, first alternative on ties
    (`longest`);
  * `parseAll=True` is `atEnd` (trailing white skipped).

  Every literal used below is tied to the source by `Props/C09.lean` (`gen_*` theorems over
  `Gen/X86Parser.lean`, which the translator regenerates on every run).
-/
namespace OsacaVerif.ParseX86
open OsacaVerif.Text OsacaVerif.X86

/-! ### characters -/

/-- pyparsing `DEFAULT_WHITE_CHARS` = `" \n\t\r"` -/
def isWs (c : Nat) : Bool := c == 32 || c == 9 || c == 10 || c == 13
def isAlnumC (c : Nat) : Bool := isAlphaC c || isDigitC c
def isHexC (c : Nat) : Bool := isDigitC c || decide ((65 ≤ c ∧ c ≤ 70) ∨ (97 ≤ c ∧ c ≤ 102))
/-- `pp.printables` -/
def isPrintC (c : Nat) : Bool := decide (33 ≤ c ∧ c ≤ 126)
/-- `first = Word(alphas + "-_.", exact=1)` -/
def isIdFirst (c : Nat) : Bool := isAlphaC c || c == 45 || c == 95 || c == 46
/-- `rest = Word(alphanums + "$_.+-")` -/
def isIdRest (c : Nat) : Bool := isAlnumC c || c == 36 || c == 95 || c == 46 || c == 43 || c == 45
/-- `label_rest = Word(alphanums + "$_.+-()")` -/
def isLabelRest (c : Nat) : Bool := isIdRest c || c == 40 || c == 41
/-- `Word(alphanums + ",")` of the mnemonic -/
def isMnC (c : Nat) : Bool := isAlnumC c || c == 44
/-- `Word(alphanums + "_")` of the directive name -/
def isDirNameC (c : Nat) : Bool := isAlnumC c || c == 95
/-- `Word(printables, excludeChars=",#")` -/
def isDirParamC (c : Nat) : Bool := isPrintC c && c != 44 && c != 35
/-- `Word("1248", exact=1)` -/
def isScaleC (c : Nat) : Bool := c == 49 || c == 50 || c == 52 || c == 56
/-- `oneOf("b f", caseless=True)` -/
def isSuffixC (c : Nat) : Bool := c == 98 || c == 102 || c == 66 || c == 70
/-- Python `str.isspace` (what `strip()` removes) -/
def isSpacePy (c : Nat) : Bool :=
  c == 32 || decide (9 ≤ c ∧ c ≤ 13) || decide (28 ≤ c ∧ c ≤ 31) || c == 133 || c == 160 ||
  c == 5760 || decide (8192 ≤ c ∧ c ≤ 8202) || c == 8232 || c == 8233 || c == 8239 || c == 8287 ||
  c == 12288

/-! ### pyparsing primitives -/

def skipWs : Txt → Txt
  | [] => []
  | c :: cs => if isWs c then skipWs cs else c :: cs

/-- longest prefix whose characters satisfy `p`, and the rest -/
def spanP (p : Nat → Bool) : Txt → Txt × Txt
  | [] => ([], [])
  | c :: cs => if p c then ((c :: (spanP p cs).1), (spanP p cs).2) else ([], c :: cs)

/-- strip a literal prefix (no white skipping) -/
def dropPrefix : Txt → Txt → Option Txt
  | [], t => some t
  | _ :: _, [] => none
  | p :: ps, c :: cs => if p == c then dropPrefix ps cs else none

/-- `pp.Literal(s)` -/
def lit (s : Txt) (t : Txt) : Option Txt := dropPrefix s (skipWs t)

/-- `pp.Word(chars)` without the leading white skip (inside `Combine`) -/
def wordRaw (p : Nat → Bool) (t : Txt) : Option (Txt × Txt) :=
  match spanP p t with
  | ([], _) => none
  | (w, r) => some (w, r)

/-- `pp.Word(chars)` -/
def word (p : Nat → Bool) (t : Txt) : Option (Txt × Txt) := wordRaw p (skipWs t)

/-- `pp.Word(chars, exact=1)` -/
def word1 (p : Nat → Bool) (t : Txt) : Option (Nat × Txt) :=
  match skipWs t with
  | c :: r => if p c then some (c, r) else none
  | [] => none

/-- `Optional(e)` for an element without a result.  pyparsing skips the blanks before it tries `e`
    and does not give them back when `e` fails. -/
def optR (p : Txt → Option Txt) (t : Txt) : Txt := (p t).getD (skipWs t)

/-- `Optional(e)` -/
def opt {α : Type} (p : Txt → Option (α × Txt)) (t : Txt) : Option α × Txt :=
  match p t with
  | some (a, r) => (some a, r)
  | none => (none, skipWs t)

/-- `e1 ^ e2 ^ …`: the alternative that consumes most; the first one among equals -/
def longest {α : Type} : List (Option (α × Txt)) → Option (α × Txt)
  | [] => none
  | none :: xs => longest xs
  | some (a, r) :: xs =>
    match longest xs with
    | some (b, r') => if r'.length < r.length then some (b, r') else some (a, r)
    | none => some (a, r)

/-- `StringEnd` after the trailing white (`parseAll=True`) -/
def atEnd (t : Txt) : Bool := (skipWs t).isEmpty

/-! ### numbers -/

/-- `Combine(Optional("-") + Word(nums))` after the leading white skip -/
def decimalRaw (t : Txt) : Option (Txt × Txt) :=
  match t with
  | 45 :: r => (wordRaw isDigitC r).map fun (w, r') => (45 :: w, r')
  | _ => wordRaw isDigitC t

/-- `Combine(Optional("-") + "0x" + Word(hexnums))` after the leading white skip -/
def hexRaw (t : Txt) : Option (Txt × Txt) :=
  match t with
  | 45 :: 48 :: 120 :: r => (wordRaw isHexC r).map fun (w, r') => (45 :: 48 :: 120 :: w, r')
  | 48 :: 120 :: r => (wordRaw isHexC r).map fun (w, r') => (48 :: 120 :: w, r')
  | _ => none

def decimalNumber (t : Txt) : Option (Txt × Txt) := decimalRaw (skipWs t)
def hexNumber (t : Txt) : Option (Txt × Txt) := hexRaw (skipWs t)

def hexDigitVal (c : Nat) : Nat :=
  if 48 ≤ c ∧ c ≤ 57 then c - 48 else if 97 ≤ c ∧ c ≤ 102 then c - 87 else if 65 ≤ c ∧ c ≤ 70 then c - 55 else 0

def digitsVal (base : Nat) (t : Txt) : Nat := t.foldl (fun acc c => acc * base + hexDigitVal c) 0

/-- magnitude part of Python's `int(text, 0)` on the texts the grammar can produce:
    `0x…` hexadecimal; decimal, where a leading `0` is only allowed if every digit is `0`. -/
def pyNat0 (u : Txt) : Option Nat :=
  match u with
  | 48 :: 120 :: h => if h.isEmpty || !h.all isHexC then none else some (digitsVal 16 h)
  | 48 :: d :: ds => if (d :: ds).all (· == 48) then some 0 else none
  | _ => if u.isEmpty || !u.all isDigitC then none else some (digitsVal 10 u)

/-- Python `int(text, 0)` -/
def pyInt0 (t : Txt) : Option Int :=
  match t with
  | 45 :: u => (pyNat0 u).map fun (n : Nat) => - Int.ofNat n
  | u => (pyNat0 u).map fun (n : Nat) => Int.ofNat n

/-! ### comment -/

/-- `Literal("#") | Literal("//")` -/
def commentStart (t : Txt) : Option Txt :=
  match skipWs t with
  | 35 :: r => some r
  | 47 :: 47 :: r => some r
  | _ => none

def flush (acc : Txt) : List Txt := if acc.isEmpty then [] else [acc.reverse]

/-- `ZeroOrMore(Word(printables))`: the words, and where the repetition stops (`acc`: current word,
    reversed) -/
def commentWords : Txt → Txt → List Txt × Txt
  | acc, [] => (flush acc, [])
  | acc, c :: cs =>
    if isPrintC c then commentWords (c :: acc) cs
    else if isWs c then (flush acc ++ (commentWords [] cs).1, (commentWords [] cs).2)
    else (flush acc, c :: cs)

/-- `" ".join(words)` -/
def joinSp : List Txt → Txt
  | [] => []
  | [w] => w
  | w :: ws => w ++ 32 :: joinSp ws

/-- the comment after its symbol, up to the end of the line (`none`: a character that is neither
    printable nor white stops the words before the end of the string) -/
def commentBody (r : Txt) : Option Txt :=
  match commentWords [] r with
  | (ws, r') => if atEnd r' then some (joinSp ws) else none

/-- `Optional(self.comment)` followed by the end of the string -/
def tail (t : Txt) : Option (Option Txt) :=
  match commentStart t with
  | some r => (commentBody r).map some
  | none => if atEnd t then some none else none

/-! ### identifiers -/

/-- after the first character of a name: `Optional(rest)` and `("::" first Optional(rest))*` -/
def nameTail (restP : Nat → Bool) : Txt → Txt × Txt
  | [] => ([], [])
  | c :: cs =>
    if restP c then (c :: (nameTail restP cs).1, (nameTail restP cs).2)
    else if c == 58 then
      match cs with
      | 58 :: d :: ds =>
        if isIdFirst d then (58 :: 58 :: d :: (nameTail restP ds).1, (nameTail restP ds).2)
        else ([], c :: cs)
      | _ => ([], c :: cs)
    else ([], c :: cs)

/-- `Combine(delimitedList(Combine(first + Optional(rest)), delim="::"), joinString="::")`
    after the leading white skip -/
def nameRaw (restP : Nat → Bool) : Txt → Option (Txt × Txt)
  | c :: cs => if isIdFirst c then some (c :: (nameTail restP cs).1, (nameTail restP cs).2) else none
  | [] => none

/-- `id_offset = Word(nums) + Suppress("+")` -/
def idOffset (t : Txt) : Option Txt := (word isDigitC t).bind fun (_, r) => lit [43] r

/-- `relocation = Combine("@" + Word(alphas))` -/
def relocation (t : Txt) : Option Txt :=
  match skipWs t with
  | 64 :: r => (wordRaw isAlphaC r).map (·.2)
  | _ => none

/-- `Suppress(Optional("+")) + decimal_number` -/
def trailOffset (t : Txt) : Option Txt := (decimalNumber (optR (lit [43]) t)).map (·.2)

/-- `identifier` (`trail = true`) and `label_identifier` (`trail = false`, `restP = isLabelRest`):
    only the name survives post-processing -/
def identifier (restP : Nat → Bool) (trail : Bool) (t : Txt) : Option (Txt × Txt) :=
  match nameRaw restP (skipWs (optR idOffset t)) with
  | none => none
  | some (name, t2) =>
    let t3 := optR relocation t2
    some (name, if trail then optR trailOffset t3 else t3)

/-- `numeric_identifier = Word(nums) + Optional(oneOf("b f", caseless=True))` -/
def numericIdentifier (t : Txt) : Option (Txt × Txt) :=
  (word isDigitC t).map fun (n, r) => (n, optR (fun r => (word1 isSuffixC r).map (·.2)) r)

/-! ### register -/

/-- `Optional("(" + Word(nums) + ")")` -/
def regIndex (t : Txt) : Option Txt :=
  (lit [40] t).bind fun r => (word isDigitC r).bind fun (_, r) => lit [41] r

/-- `Suppress("{") + "z" + Suppress("}")` -/
def zeroing (t : Txt) : Option Txt :=
  (lit [123] t).bind fun r => (lit [122] r).bind fun r => lit [125] r

/-- `"{" + Optional("%") + Word(alphanums)("mask") + "}"` -/
def maskCore (t : Txt) : Option Txt :=
  (lit [123] t).bind fun r => (word isAlnumC (optR (lit [37]) r)).bind fun (_, r) => lit [125] r

/-- the register's mask with its optional `{z}` -/
def regMask (t : Txt) : Option Txt := (maskCore t).map fun r => optR zeroing r

/-- `self.register`; index, mask and zeroing are consumed and dropped by `process_register` -/
def register (t : Txt) : Option (Txt × Txt) :=
  (lit [37] t).bind fun r => (word isAlnumC r).map fun (name, r) => (name, optR regMask (optR regIndex r))

/-! ### memory -/

inductive RawOff where
  | num (t : Txt)
  | ident (name : Txt)
  | junk
  deriving DecidableEq, Repr

structure RawMem where
  off : Option RawOff := none
  /-- the `offset` result is a plain string (bare-number alternative) rather than a group -/
  offIsStr : Bool := false
  base : Option Txt := none
  index : Option Txt := none
  scale : Option Nat := none
  seg : Bool := false
  /-- the memory group carries no named result at all (`()`): `asDict` yields a list -/
  empty : Bool := false
  deriving DecidableEq, Repr

/-- `Group(hex_number | decimal_number | identifier)` (also the body of an immediate) -/
def offsetG (t : Txt) : Option (RawOff × Txt) :=
  match hexNumber t with
  | some (v, r) => some (.num v, r)
  | none => match decimalNumber t with
    | some (v, r) => some (.num v, r)
    | none => (identifier isIdRest true t).map fun (n, r) => (.ident n, r)

def scaleP (t : Txt) : Option (Nat × Txt) := word1 isScaleC t

/-- `"(" base? ","? index? ","? scale? ")"` -/
def parenPart (t : Txt) : Option ((Option Txt × Option Txt × Option Nat) × Txt) :=
  (lit [40] t).bind fun t1 =>
  let b := opt register t1
  let i := opt register (optR (lit [44]) b.2)
  let s := opt scaleP (optR (lit [44]) i.2)
  (lit [41] s.2).map fun t7 => ((b.1, i.1, s.1), t7)

/-- first alternative of `memory`: `"*"? offset? ( … ) mask?` -/
def memMain (t : Txt) : Option (RawMem × Txt) :=
  let o := opt offsetG (optR (lit [42]) t)
  (parenPart o.2).map fun ((b, i, s), t2) =>
    let m := maskCore t2
    ({ off := o.1, base := b, index := i, scale := s,
       empty := o.1.isNone && b.isNone && i.isNone && s.isNone && m.isNone }, m.getD (skipWs t2))

/-- `memory_abs = "*" + (offset | register)` -/
def memAbs (t : Txt) : Option (RawMem × Txt) :=
  (lit [42] t).bind fun r =>
    match offsetG r with
    | some (_, r') => some ({ off := some .junk }, r')
    | none => (register r).map fun (_, r') => ({ off := some .junk }, r')

/-- third alternative of `segment_extension`: `Group(offset? ("(" … ")")?)` — never fails -/
def segGroup (t : Txt) : Txt :=
  optR (fun t => (parenPart t).map (·.2)) (opt offsetG t).2

/-- `segment_extension = hex_number ^ Word(nums) ^ Group(…)` -/
def segExt (t : Txt) : Option (Unit × Txt) :=
  longest [ (hexNumber t).map (fun (_, r) => ((), r)),
            (word isDigitC t).map (fun (_, r) => ((), r)),
            some ((), segGroup t) ]

/-- `memory_segmentation = "*"? register ":" segment_extension` -/
def memSeg (t : Txt) : Option (RawMem × Txt) :=
  (register (optR (lit [42]) t)).bind fun (b, r) =>
    (lit [58] r).bind fun r => (segExt r).map fun (_, r') => ({ base := some b, seg := true }, r')

/-- last alternative: `(hex_number | decimal_number)("offset") + Empty()` (`Empty` skips the
    trailing blanks, so that this alternative ends where the identifier alternatives end) -/
def memBare (t : Txt) : Option (RawMem × Txt) :=
  match hexNumber t with
  | some (v, r) => some ({ off := some (.num v), offIsStr := true }, skipWs r)
  | none => (decimalNumber t).map fun (v, r) => ({ off := some (.num v), offIsStr := true }, skipWs r)

/-- `memory` (MatchFirst) -/
def memory (t : Txt) : Option (RawMem × Txt) :=
  (memMain t).orElse fun _ => (memAbs t).orElse fun _ => (memSeg t).orElse fun _ => memBare t

/-! ### operands and instruction -/

inductive RawOp where
  | reg (name : Txt)
  | imm (v : RawOff)
  | mem (m : RawMem)
  | ident (name : Txt)
  deriving DecidableEq, Repr

/-- `"$" + (hex_number | decimal_number | identifier)` -/
def immediate (t : Txt) : Option (RawOff × Txt) := (lit [36] t).bind offsetG

/-- `operand_first = register ^ immediate ^ memory ^ identifier ^ numeric_identifier` -/
def operandFirst (t : Txt) : Option (RawOp × Txt) :=
  longest [ (register t).map (fun (n, r) => (.reg n, r)),
            (immediate t).map (fun (v, r) => (.imm v, r)),
            (memory t).map (fun (m, r) => (.mem m, r)),
            (identifier isIdRest true t).map (fun (n, r) => (.ident n, r)),
            (numericIdentifier t).map (fun (n, r) => (.ident n, r)) ]

/-- `operand_rest = register ^ immediate ^ memory` -/
def operandRest (t : Txt) : Option (RawOp × Txt) :=
  longest [ (register t).map (fun (n, r) => (.reg n, r)),
            (immediate t).map (fun (v, r) => (.imm v, r)),
            (memory t).map (fun (m, r) => (.mem m, r)) ]

/-- `ZeroOrMore(Literal("data16") | Literal("data32"))` (fuel: each round consumes six characters) -/
def mnPrefixes : Nat → Txt → Txt
  | 0, t => t
  | f + 1, t =>
    match skipWs t with
    | 100 :: 97 :: 116 :: 97 :: 49 :: 54 :: r => mnPrefixes f r
    | 100 :: 97 :: 116 :: 97 :: 51 :: 50 :: r => mnPrefixes f r
    | _ => skipWs t

/-- `str.split(",")[0]` -/
def untilComma : Txt → Txt
  | [] => []
  | c :: cs => if c == 44 then [] else c :: untilComma cs

/-- `n` further operand slots `Optional(Suppress(",")) + Optional(operand_rest)`: the operands found,
    and the position after the last slot -/
def restSlots : Nat → Txt → List RawOp × Txt
  | 0, t => ([], t)
  | n + 1, t =>
    ((opt operandRest (optR (lit [44]) t)).1.toList ++ (restSlots n (opt operandRest (optR (lit [44]) t)).2).1,
     (restSlots n (opt operandRest (optR (lit [44]) t)).2).2)

/-- `instruction_parser` with `parseAll=True` (mnemonic, `operand1`, three slots for `operand2`–
    `operand4`, comment), and the operand list of `parse_instruction` (the operands present, in
    order) -/
def instruction (t : Txt) : Option (Txt × List RawOp × Option Txt) :=
  (word isMnC (mnPrefixes t.length t)).bind fun (m, t1) =>
    (tail (restSlots 3 (opt operandFirst t1).2).2).map fun c =>
      (untilComma m, (opt operandFirst t1).1.toList ++ (restSlots 3 (opt operandFirst t1).2).1, c)

/-! ### post-processing (`process_operand`) -/

def scaleVal (c : Nat) : Nat := c - 48

/-- `process_memory_address` -/
def postMem (m : RawMem) : Except Err Operand :=
  if m.empty then .error .attr else
  let scale := match m.scale with | none => 1 | some c => scaleVal c
  let off : Except Err (Option Off) :=
    match m.off with
    | none => .ok none
    | some (.num v) =>
      if m.offIsStr && m.base.isNone && m.index.isNone then
        match pyInt0 v with
        | some i => .ok (some (.imm i))
        | none => .ok (some (.str v))
      else
        match pyInt0 v with
        | some i => .ok (some (.imm i))
        | none => .error .value
    | some (.ident n) => .ok (some (.ident n))
    | some .junk => .ok (some .junk)
  off.map fun o => .mem o m.base m.index scale m.seg

/-- `process_operand` on one parsed operand -/
def postOp : RawOp → Except Err Operand
  | .reg n => .ok (.reg n)
  | .imm (.num v) => match pyInt0 v with | some i => .ok (.imm i) | none => .error .value
  | .imm (.ident n) => .ok (.ident n)
  | .imm .junk => .error .value
  | .ident n => .ok (.ident n)
  | .mem m => postMem m

def postOps : List RawOp → Except Err (List Operand)
  | [] => .ok []
  | o :: os => match postOp o with
    | .error e => .error e
    | .ok o' => match postOps os with
      | .error e => .error e
      | .ok os' => .ok (o' :: os')

/-! ### the four line classes (`parse_line`) -/

/-- stage 1: `self.comment.parseString(line, parseAll=True)` -/
def commentLine (t : Txt) : Option Txt := (commentStart t).bind commentBody

/-- stage 2: `self.label`: `(label_identifier | numeric_identifier) ":" comment?` -/
def labelLine (t : Txt) : Option (Txt × Option Txt) :=
  ((identifier isLabelRest false t).orElse fun _ => numericIdentifier t).bind fun (name, r) =>
    (lit [58] r).bind fun r => (tail r).map fun c => (name, c)

/-- pyparsing's quoted-string regular expression after the opening quote `q`:
    `(?:[^q\n\r\\]|(?:qq)|(?:\\(?:[^x]|x[0-9a-fA-F]+)))*` (greedy, nothing to back-track into)
    followed by the literal closing `q`.  Returns body+closing quote and the rest.
    (The hex digits after `\x` beyond the first are ordinary body characters.) -/
def quotedBody (q : Nat) : Txt → Option (Txt × Txt)
  | [] => none
  | c :: cs =>
    if c == q then
      match cs with
      | d :: ds =>
        if d == q then (quotedBody q ds).map fun (b, r) => (q :: q :: b, r)
        else some ([q], cs)
      | [] => some ([q], cs)
    else if c == 92 then
      match cs with
      | 120 :: h :: ds =>
        if isHexC h then (quotedBody q ds).map fun (b, r) => (92 :: 120 :: h :: b, r) else none
      | 120 :: [] => none
      | d :: ds => (quotedBody q ds).map fun (b, r) => (92 :: d :: b, r)
      | [] => none
    else if c == 10 || c == 13 then none
    else (quotedBody q cs).map fun (b, r) => (c :: b, r)

/-- `pp.quotedString` -/
def quoted (t : Txt) : Option (Txt × Txt) :=
  match skipWs t with
  | 34 :: r => (quotedBody 34 r).map fun (b, r') => (34 :: b, r')
  | 39 :: r => (quotedBody 39 r).map fun (b, r') => (39 :: b, r')
  | _ => none

/-- `directive_parameter = quotedString ^ (Word(printables, excludeChars=",#") + ","?) ^ ","` -/
def dirParam (t : Txt) : Option (Option Txt × Txt) :=
  longest [ (quoted t).map (fun (tok, r) => (some tok, r)),
            (word isDirParamC t).map (fun (w, r) => (some w, optR (lit [44]) r)),
            (lit [44] t).map (fun r => (none, r)) ]

/-- `ZeroOrMore(directive_parameter)` (fuel: every round consumes a character) -/
def dirParams : Nat → Txt → List Txt × Txt
  | 0, t => ([], t)
  | f + 1, t =>
    match dirParam t with
    | none => ([], skipWs t)
    | some (tok, r) => (tok.toList ++ (dirParams f r).1, (dirParams f r).2)

/-- stage 3: `self.directive` -/
def directiveLine (t : Txt) : Option (Txt × List Txt × Option Txt) :=
  (lit [46] t).bind fun t1 => (word isDirNameC t1).bind fun (name, t2) =>
    let ps := dirParams t2.length t2
    (tail ps.2).map fun c => (name, ps.1, c)

/-- stage 4 -/
def instructionLine (t : Txt) : Res :=
  match instruction t with
  | none => .err .value
  | some (m, ops, c) =>
    match postOps ops with
    | .error e => .err e
    | .ok ops' => .ok { mnemonic := some m, operands := ops', comment := c }

/-- `str.expandtabs()` (tab size 8; `col` is the current column modulo 8): pyparsing's
    `parseString` expands tabs before it parses (`parseWithTabs` is off) -/
def expandTabs : Nat → Txt → Txt
  | _, [] => []
  | col, c :: cs =>
    if c == 9 then List.replicate (8 - col % 8) 32 ++ expandTabs 0 cs
    else if c == 10 || c == 13 then c :: expandTabs 0 cs
    else c :: expandTabs (col + 1) cs

/-- the four stages on the tab-expanded line -/
def parseExpanded (t : Txt) : Res :=
  match commentLine t with
  | some c => .ok { comment := some c }
  | none =>
    match labelLine t with
    | some (n, c) => .ok { label := some n, comment := c }
    | none =>
      match directiveLine t with
      | some (n, ps, c) => .ok { directive := some (n, ps), comment := c }
      | none => instructionLine t

/-- `ParserX86ATT.parse_line` -/
def parseLine (t : Txt) : Res := parseExpanded (expandTabs 0 t)

/-! ### `BaseParser.parse_file` -/

/-- `str.split("\n")` -/
def splitLines : Txt → List Txt
  | [] => [[]]
  | c :: cs =>
    if c == 10 then [] :: splitLines cs
    else match splitLines cs with
      | l :: ls => (c :: l) :: ls
      | [] => [[c]]

/-- `line.strip() == ""` -/
def isBlank (l : Txt) : Bool := l.all isSpacePy

/-- the `for i, line in enumerate(lines)` loop (`i` is the running index) -/
def fileLoop (parse : Txt → Res) (start : Nat) : Nat → List Txt → List PLine
  | _, [] => []
  | i, l :: ls =>
    if isBlank l then fileLoop parse start (i + 1) ls
    else ⟨i + 1 + start, l, parse l⟩ :: fileLoop parse start (i + 1) ls

/-- `parse_file(file_content, start_line)`; the Python raises at the first element that is not `ok` -/
def parseFile (start : Nat) (content : Txt) : List PLine :=
  fileLoop parseLine start 0 (splitLines content)

end OsacaVerif.ParseX86
