/-
  C18 — model of what one OSACA analysis can do to the data it shares with later analyses.

  The machine model and the ISA database are explicit state `Db`; an analysis is a function
  `analyse : Cfg → Db → Kernel → Db × Report`.  Python's object aliasing is made explicit:

  * a `Val` held by the running analysis is either `ref l` — *the* list object stored at location `l`
    of the `Db` (what `get_instruction(...).port_pressure`, `get_load_throughput(...)[0][1]`,
    `isa_data.hidden_operands` hand out) — or `own u`, a list the analysis created itself
    (`a + b`, `list(chain(..))`, `.copy()`);
  * Python's `x += y` on a list is `extendInPlace`: on a `ref` it *updates the Db*;
    `x = x + y` is `extendFresh`: a new owned list, the Db is untouched.

  Which of the two the code uses at each site is not hand-written here: it is the record
  `Cfg`, regenerated from the source by `tools/gen/historycfg.py` (`Gen.HistoryCfg.cfg`).

  The second half models the process: `MachineModel._runtime_cache` (path ↦ data object), the
  loader of `MachineModel.__init__` (runtime-cache hit, overwritten — or not — by the pickle lookup)
  and `osaca.inspect` as `inspect : Cfg → Disk → Proc → Request → Proc × Report`.

  Core Lean only (compiled into the native driver).
-/
namespace OsacaVerif.History

/-- a micro-op `[cycles, ports]`, interned to a number by the harness -/
abbrev Uop := Nat
abbrev Uops := List Uop

/-- how the source handles references at each site (regenerated from the source) -/
structure Cfg where
  /-- `assign_tp_lt`: store micro-ops are added to the load's list with `+=` / `.extend` (in place) -/
  rmwInPlace : Bool
  /-- order of the concatenation when a new list is built: load micro-ops first -/
  rmwLoadFirst : Bool
  /-- `data_port_uops = load_perf_data[0][1]`: the table's own list, not a copy -/
  loadByRef : Bool
  /-- `get_load_throughput` returns `load_throughput_default.copy()` when nothing matches -/
  loadDefaultCopied : Bool
  /-- `_handle_instruction_found`: `port_uops = instruction_data.port_pressure` (no copy) -/
  foundByRef : Bool
  /-- `_apply_found_ISA_data`: hidden operands of the ISA entry are appended as they are -/
  hiddenByRef : Bool
  /-- `MachineModel.__init__`: a runtime-cache hit is overwritten by the hash-keyed pickle lookup -/
  cacheShadowed : Bool
  deriving DecidableEq, Repr

/-- the part of a machine model / ISA database an analysis reaches by reference -/
structure Db where
  /-- `port_pressure` lists of the instruction forms -/
  forms : List Uops
  /-- `load_throughput[i][1]` -/
  loads : List Uops
  /-- `store_throughput[j][1]` -/
  stores : List Uops
  loadDefault : Uops
  storeDefault : Uops
  /-- `hidden_operands` lists of the ISA entries (operands interned to numbers) -/
  hidden : List (List Nat)
  deriving DecidableEq, Repr

instance : Inhabited Db := ⟨⟨[], [], [], [], [], []⟩⟩

inductive Loc
  | form (k : Nat) | load (i : Nat) | store (j : Nat) | loadDefault | storeDefault | hidden (h : Nat)
  deriving DecidableEq, Repr

def Db.read (db : Db) : Loc → List Nat
  | .form k => db.forms.getD k []
  | .load i => db.loads.getD i []
  | .store j => db.stores.getD j []
  | .loadDefault => db.loadDefault
  | .storeDefault => db.storeDefault
  | .hidden h => db.hidden.getD h []

/-- replace the list stored at a location (no effect if the index does not exist) -/
def Db.write (db : Db) (l : Loc) (u : List Nat) : Db :=
  match l with
  | .form k => { db with forms := db.forms.set k u }
  | .load i => { db with loads := db.loads.set i u }
  | .store j => { db with stores := db.stores.set j u }
  | .loadDefault => { db with loadDefault := u }
  | .storeDefault => { db with storeDefault := u }
  | .hidden h => { db with hidden := db.hidden.set h u }

/-- a list value held by the running analysis -/
inductive Val
  | ref (l : Loc)          -- the Db's own list object
  | own (u : List Nat)     -- a list created by the analysis
  deriving DecidableEq, Repr

def Val.get (db : Db) : Val → List Nat
  | .ref l => db.read l
  | .own u => u

def Val.isRef : Val → Bool
  | .ref _ => true
  | .own _ => false

/-- Python `x += y` (also `x.extend(y)`) on a list -/
def extendInPlace (db : Db) (x : Val) (y : List Nat) : Db × Val :=
  match x with
  | .ref l => (db.write l (db.read l ++ y), .ref l)
  | .own u => (db, .own (u ++ y))

/-- Python `x = x + y` -/
def extendFresh (db : Db) (x : Val) (y : List Nat) : Db × Val := (db, .own (x.get db ++ y))

/-- which entry `get_load_throughput` / `get_store_throughput` selected -/
inductive Mem
  | entry (i : Nat)   -- a matching table entry
  | dflt              -- nothing matched: the default list
  deriving DecidableEq, Repr

/-- the kinds of kernel lines `assign_tp_lt` distinguishes -/
inductive Ins
  | found (k : Nat)                 -- the form itself is in the model
  | load (k : Nat) (m : Mem)        -- register form k composed with load data
  | store (k : Nat) (m : Mem)       -- … with store data
  | rmw (k : Nat) (ml ms : Mem)     -- … with both (e.g. `addq %rax, 8(%rbx)`)
  | unknown                         -- not in the model
  | other                           -- label / comment / directive
  deriving DecidableEq, Repr

structure Line where
  ins : Ins
  /-- ISA entry whose hidden operands `assign_src_dst` attaches, if any -/
  hid : Option Nat
  deriving DecidableEq, Repr

abbrev Kernel := List Line

/-- what the analysis keeps per line while it runs -/
structure Row where
  known : Bool
  uops : Val
  hid : Val
  deriving DecidableEq, Repr

/-- what the report shows per line -/
structure RRow where
  known : Bool
  uops : Uops
  hid : List Nat
  deriving DecidableEq, Repr

abbrev Report := List RRow

def loadVal (cfg : Cfg) (db : Db) : Mem → Val
  | .entry i => if cfg.loadByRef then .ref (.load i) else .own (db.read (.load i))
  | .dflt =>
    if cfg.loadByRef && !cfg.loadDefaultCopied then .ref .loadDefault else .own (db.read .loadDefault)

def storeUops (db : Db) : Mem → Uops
  | .entry j => db.read (.store j)
  | .dflt => db.read .storeDefault

/-- the `if HAS_LD … if HAS_ST …` part of `assign_tp_lt` for a load+store instruction -/
def composeRmw (cfg : Cfg) (db : Db) (d : Val) (s : Uops) : Db × Val :=
  if cfg.rmwInPlace then extendInPlace db d s
  else if cfg.rmwLoadFirst then extendFresh db d s
  else (db, .own (s ++ d.get db))

/-- `assign_tp_lt` for one line: new Db, known?, the line's `port_uops` -/
def stepIns (cfg : Cfg) (db : Db) : Ins → Db × Bool × Val
  | .found k => (db, true, if cfg.foundByRef then .ref (.form k) else .own (db.read (.form k)))
  | .load k m => (db, true, .own (db.read (.form k) ++ (loadVal cfg db m).get db))
  | .store k m => (db, true, .own (db.read (.form k) ++ storeUops db m))
  | .rmw k ml ms =>
    let r := composeRmw cfg db (loadVal cfg db ml) (storeUops db ms)
    (r.1, true, .own (r.1.read (.form k) ++ r.2.get r.1))
  | .unknown => (db, false, .own [])
  | .other => (db, true, .own [])

def hidVal (cfg : Cfg) (db : Db) : Option Nat → Val
  | none => .own []
  | some h => if cfg.hiddenByRef then .ref (.hidden h) else .own (db.read (.hidden h))

/-- `assign_src_dst` + `assign_tp_lt` for one line -/
def step (cfg : Cfg) (st : Db × List Row) (l : Line) : Db × List Row :=
  let r := stepIns cfg st.1 l.ins
  (r.1, st.2 ++ [⟨r.2.1, r.2.2, hidVal cfg st.1 l.hid⟩])

def Row.show (db : Db) (r : Row) : RRow := ⟨r.known, r.uops.get db, r.hid.get db⟩

def semantics (cfg : Cfg) (db : Db) (k : Kernel) : Db × List Row := k.foldl (step cfg) (db, [])

/-- one analysis: the report is rendered at the end, reading through the references -/
def analyse (cfg : Cfg) (db : Db) (k : Kernel) : Db × Report :=
  let r := semantics cfg db k
  (r.1, r.2.map (Row.show r.1))

/-- a library user keeping one model object for many analyses -/
def runHistory (cfg : Cfg) (db : Db) : List Kernel → Db × List Report
  | [] => (db, [])
  | k :: ks =>
    let r := analyse cfg db k
    let rest := runHistory cfg r.1 ks
    (rest.1, r.2 :: rest.2)

/-- no in-place operation ever reaches a list of the Db -/
def Cfg.safe (cfg : Cfg) : Bool := !(cfg.rmwInPlace && cfg.loadByRef)

/-! ### the process: runtime cache, loader, `osaca.inspect` -/

structure Request where
  path : Nat
  kernel : Kernel
  deriving DecidableEq, Repr

/-- `MachineModel._runtime_cache`: path ↦ data object, newest first, one entry per path -/
structure Proc where
  cache : List (Nat × Db)
  deriving DecidableEq, Repr

def Proc.fresh : Proc := ⟨[]⟩

def Proc.lookup (p : Proc) (path : Nat) : Option Db := (p.cache.find? (fun e => e.1 == path)).map (·.2)

/-- `MachineModel.__init__`: the data object the new model instance works on.  Unpickling (or
    parsing the YAML again) yields a new object equal to what is on disk. -/
def loadModel (cfg : Cfg) (disk : Nat → Db) (p : Proc) (path : Nat) : Db :=
  if cfg.cacheShadowed then disk path else (p.lookup path).getD (disk path)

/-- `osaca.inspect`: load, analyse, and the (possibly mutated) data object stays in the cache -/
def inspect (cfg : Cfg) (disk : Nat → Db) (p : Proc) (r : Request) : Proc × Report :=
  let a := analyse cfg (loadModel cfg disk p r.path) r.kernel
  (⟨(r.path, a.1) :: p.cache.filter (fun e => e.1 != r.path)⟩, a.2)

def runProc (cfg : Cfg) (disk : Nat → Db) (p : Proc) : List Request → Proc × List Report
  | [] => (p, [])
  | r :: rs =>
    let a := inspect cfg disk p r
    let rest := runProc cfg disk a.1 rs
    (rest.1, a.2 :: rest.2)

/-- every cached data object still equals what a fresh load gives -/
def Proc.Clean (disk : Nat → Db) (p : Proc) : Prop := ∀ e ∈ p.cache, e.2 = disk e.1

end OsacaVerif.History
