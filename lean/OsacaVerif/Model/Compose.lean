import OsacaVerif.Model.Match
import OsacaVerif.Model.Ports
/-
  Model of `ArchSemantics.assign_tp_lt` (osaca/semantics/arch_semantics.py) with
  `_handle_instruction_found`, the load/store composition path, `MachineModel.get_load_throughput`,
  `get_store_throughput`, `get_load_latency`, `get_store_latency` and `ParserX86ATT/ParserAArch64.
  get_reg_type`.  Input is the instruction after `assign_src_dst` (operands and the three semantic
  operand lists); output is what `assign_tp_lt` stores on the instruction form, or the class of the
  exception it raises.
-/
namespace OsacaVerif.Compose
open OsacaVerif OsacaVerif.Text OsacaVerif.Operand OsacaVerif.Match OsacaVerif.Ports

/-- one row of `load_throughput` / `store_throughput` after the loader turned it into
    `(MemoryOperand(base, offset, scale, index, dst|src), port_pressure)` -/
structure Row where
  base : Y
  offset : Y
  index : Y
  scale : Y
  reg : Option Txt      -- `dst` (load rows) / `src` (store rows)
  pp : Y
  deriving Repr, Inhabited

structure MModel where
  isa : Isa
  ports : List Txt
  db : List Entry
  loadRows : List Row
  loadDefault : Y
  storeRows : List Row
  storeDefault : Y
  loadLatency : List (Y × Y)                  -- `load_latency` mapping
  loadMult : Option (List (Y × Y))            -- `load_throughput_multiplier`, if the key exists
  storeMult : Option (List (Y × Y))
  deriving Repr, Inhabited

/-- an instruction form after `assign_src_dst` -/
structure Ins where
  mnemonic : Option Txt
  operands : List POperand
  source : List POperand
  destination : List POperand
  srcDst : List POperand
  deriving Repr, Inhabited

structure Result where
  tp : Rat
  lat : Rat
  latWoLoad : Rat
  pressure : List Rat
  uops : Option (List Y)        -- `port_uops`; `none` = left as it was (unknown instruction)
  flags : List Txt              -- flags added by `assign_tp_lt`
  removedSt : Bool := false     -- `performs_store` removed (AArch64 write-back rule)
  deriving Repr, Inhabited

def isMem : POperand → Bool
  | .mem _ => true
  | _ => false

def firstMem : List POperand → Option PMem
  | [] => none
  | .mem m :: _ => some m
  | _ :: rest => firstMem rest

/-- `_has_load` / `_has_store` -/
def hasLd (i : Ins) : Bool := (i.source ++ i.srcDst).any isMem
def hasSt (i : Ins) : Bool := (i.destination ++ i.srcDst).any isMem

/-- `substitute_mem_address` -/
def substituteMem (ops : List POperand) : List POperand :=
  ops.map fun o => if isMem o then .wild else o

/-- `_match_mem_entries(memory, row)`; a row has `pre_indexed = post_indexed = False` -/
def rowMatches (isa : Isa) (m : PMem) (r : Row) : Bool :=
  match isa with
  | .x86 => x86MemType r.base r.offset r.index r.scale m
  | .a64 => a64MemType r.base r.offset r.index r.scale (.bool false) (.bool false) m

/-- `_check_operands(dummy_reg, RegisterOperand(name=row.dst))` with `dummy_reg =
    RegisterOperand(name=reg_type)` -/
def regTypeMatches (isa : Isa) (regType : Option Txt) (rowReg : Txt) : Bool :=
  checkOperand isa (.reg regType none none) (.reg { name := rowReg })

/-- `get_reg_type(entry operand)` : x86 → "gpr" / vector class name; AArch64 → the prefix -/
def getRegType (isa : Isa) (e : EOperand) : Except Err (Option Txt) :=
  match e with
  | .reg n p _ =>
    (match isa with
     | .a64 => .ok p
     | .x86 =>
       match n with
       | none => .error .typeError
       | some name =>
         if RegDep.isBasicGpr name || (RegDep.otherGprNum (upper name)).isSome then .ok (some Gen.x86RegTypeGpr)
         else if RegDep.isVectorRegister name then .ok (some (x86Stem name))
         else .error .valueError)
  | _ => .error .typeError

/-- `d[key]` on a YAML mapping, keys compared as the register type (a string, or None) -/
def lookupKey (kv : List (Y × Y)) (key : Option Txt) : Option Y :=
  match kv with
  | [] => none
  | (k, v) :: rest =>
    if (match k, key with
        | .str s, some t => s == t
        | .null, none => true
        | _, _ => false) then some v else lookupKey rest key

def numOf : Y → Except Err Rat
  | .num q => .ok q
  | .bool b => .ok (if b then 1 else 0)
  | _ => .error .typeError

/-- `mm["…_multiplier"][reg_type]` if the model has the table -/
def multiplier (tbl : Option (List (Y × Y))) (regType : Option Txt) : Except Err Rat :=
  match tbl with
  | none => .ok 1
  | some kv =>
    match lookupKey kv regType with
    | none => .error .keyError
    | some v => numOf v

/-- `get_load_latency(reg_type)` -/
def loadLatency (m : MModel) (regType : Option Txt) : Except Err Rat :=
  match lookupKey m.loadLatency regType with
  | none => .error .keyError
  | some v => if truthy v then numOf v else .ok 0

/-- does the row name a register type (`dst` / `src`) that matches the instruction's -/
def rowTyped (isa : Isa) (regType : Option Txt) (r : Row) : Bool :=
  match r.reg with
  | some d => regTypeMatches isa regType d
  | none => false

/-- which load row is used (`get_load_throughput` + the choice in `assign_tp_lt`): among the rows whose
    addressing shape matches, the first whose `dst` matches the register type, else the first; the
    default if no row matches (it stands for a row without register type) -/
def chooseLoad (m : MModel) (regType : Option Txt) (mem : PMem) : Y :=
  let rows := m.loadRows.filter (rowMatches m.isa mem)
  match rows.find? (rowTyped m.isa regType) with
  | some r => r.pp
  | none =>
    match rows with
    | r :: _ => r.pp
    | [] => m.loadDefault

/-- `get_store_throughput(memory, dummy_reg)[0][1]` -/
def chooseStore (m : MModel) (regType : Option Txt) (mem : PMem) : Y :=
  match (m.storeRows.filter (rowMatches m.isa mem)).filter (rowTyped m.isa regType) with
  | [] => m.storeDefault
  | r :: _ => r.pp

/-- the AArch64 rule "write-back only is no store": no memory operand among the destinations and
    every memory operand among `src_dst` is pre- or post-indexed -/
def writeBackOnly (isa : Isa) (i : Ins) : Bool :=
  isa == .a64 && !i.destination.any isMem &&
  i.srcDst.all (fun o => match o with
                         | .mem mm => mm.post || mm.pre
                         | _ => true)

def ppItems : Y → Except Err (List Y)
  | .list l => .ok l
  | .map kv => .ok (kv.map (·.1))       -- `chain(dict, …)` iterates the keys
  | _ => .error .typeError

def listItems : Y → Except Err (List Y)
  | .list l => .ok l
  | _ => .error .typeError

def maxList : List Rat → Except Err Rat
  | [] => .error .valueError
  | x :: xs => .ok (xs.foldl (fun a b => if a < b then b else a) x)

def zerosN (m : MModel) : List Rat := zeros m.ports.length

/-- not an instruction (label, comment, directive) -/
def nonInstruction (m : MModel) : Result :=
  { tp := 0, lat := 0, latWoLoad := 0, pressure := zerosN m, uops := some [], flags := [] }

/-- neither own entry nor register form -/
def unknown (m : MModel) : Result :=
  { tp := 0, lat := 0, latWoLoad := 0, pressure := zerosN m, uops := none,
    flags := [Gen.flagTpUnknown, Gen.flagLtUnknown] }

/-- `_handle_instruction_found` -/
def handleFound (m : MModel) (e : Entry) (i : Ins) : Except Err Result := do
  let pressure ← averageY m.ports e.pp
  let notBound := if pressure.sum == 0 && !(e.tp matches .null) then [Gen.flagNotBound] else []
  let (tp, f1) ← (match e.tp with
    | .null => pure ((0 : Rat), [Gen.flagTpUnknown])
    | y => do let q ← numOf y; pure (q, []))
  let (lat, f2) ← (match e.lat with
    | .null => pure ((0 : Rat), [Gen.flagLtUnknown])
    | y => do let q ← numOf y; pure (q, []))
  let f3 := if hasLd i then [Gen.flagLD] else []
  let uops ← (match e.pp with
    | .list l => pure l
    | .map kv => pure (kv.map (·.1))
    | _ => throw Err.typeError)
  pure { tp := tp, lat := lat, latWoLoad := lat, pressure := pressure, uops := some uops,
         flags := notBound ++ f1 ++ f2 ++ f3 }

/-- load part of the composition: micro-ops (raw), multiplier, pressure -/
def loadPart (m : MModel) (regType : Option Txt) (i : Ins) : Except Err (List Y × Rat × List Rat) :=
  if hasLd i then
    match firstMem (i.source ++ i.srcDst) with
    | none => .error .valueError
    | some mem => do
      let pp := chooseLoad m regType mem
      let v ← averageY m.ports pp
      let mult ← multiplier m.loadMult regType
      let items ← listItems pp
      pure (items, mult, scale mult v)
  else .ok ([], 1, zerosN m)

def storePart (m : MModel) (regType : Option Txt) (i : Ins) : Except Err (List Y × Rat × List Rat × Bool) :=
  if hasSt i then
    match firstMem (i.destination ++ i.srcDst) with
    | none => .error .valueError
    | some mem => do
      let pp0 := chooseStore m regType mem
      let wb := writeBackOnly m.isa i
      let pp := if wb then Y.list [] else pp0
      let v ← averageY m.ports pp
      let mult ← multiplier m.storeMult regType
      let items ← listItems pp
      pure (items, mult, scale mult v, wb)
  else .ok ([], 1, zerosN m, false)

/-- the composition path once the register form `e` has been found for the substituted operand
    list `ops'` -/
def compose (m : MModel) (e : Entry) (i : Ins) (ops' : List POperand) : Except Err Result := do
  let pos := ops'.idxOf POperand.wild
  let eop ← (match e.operands[pos]? with
    | some x => pure x
    | none => throw Err.valueError)
  let regType ← getRegType m.isa eop
  let (ldItems, _, ldV) ← loadPart m regType i
  let (stItems, _, stV, wb) ← storePart m regType i
  let dataV := if hasSt i then addVec ldV stV else ldV
  let dmax ← maxList dataV
  let tpReg ← numOf e.tp
  let ll ← (if hasLd i then loadLatency m regType else pure 0)
  let latReg ← numOf e.lat
  let sl : Rat := if hasSt i && !wb then Gen.storeLatency else 0
  let regV ← averageY m.ports e.pp
  let regItems ← ppItems e.pp
  pure { tp := if dmax < tpReg then tpReg else dmax, lat := latReg + ll + sl, latWoLoad := latReg,
         pressure := addVec dataV regV, uops := some (regItems ++ ldItems ++ stItems), flags := [],
         removedSt := wb }

/-- `assign_tp_lt` -/
def assignTpLt (m : MModel) (i : Ins) : Except Err Result :=
  match i.mnemonic with
  | none => .ok (nonInstruction m)
  | some name =>
    match lookupWithFallbacks m.isa m.db name i.operands with
    | some e => handleFound m e i
    | none =>
      if hasLd i || hasSt i then
        let ops' := substituteMem i.operands
        match lookupWithFallbacks m.isa m.db name ops' with
        | some e => compose m e i ops'
        | none => .ok (unknown m)
      else .ok (unknown m)

/-- a kernel is analysed line by line; nothing is shared between lines -/
def assignKernel (m : MModel) (k : List Ins) : List (Except Err Result) := k.map (assignTpLt m)

end OsacaVerif.Compose
