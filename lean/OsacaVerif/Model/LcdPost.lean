/-
  Post-processing of the list of dependency paths in `KernelDG.check_for_loopcarried_dep`
  (kernel_dg.py, from `paths_set = set()` to `return loopcarried_deps_dict`), as the code does it:

    for path in all_paths:                        -- in ARRIVAL order of the shared list
        lat_sum = 0.0; lat_path = []
        for s, d in pairwise(path):
            edge_lat = dg.edges[s, d]["latency"]
            if s >= offset: s -= offset
            lat_path.append((s, edge_lat)); lat_sum += edge_lat      -- summed in PATH order
        lat_path.sort()
        if tuple(lat_path) in paths_set: continue                    -- keeps the FIRST arrival
        paths_set.add(tuple(lat_path)); loopcarried_deps.append((lat_sum, lat_path))
    loopcarried_deps.sort(reverse=True)
    for lat_sum, involved_lines in loopcarried_deps:
        loopcarried_deps_dict["-".join(str(il[0]) ...)] = {root, dependencies, latency}

  Nodes on such paths are integer line numbers (load nodes `n + 0.1` have no incoming edge, so
  they are never on a path between two instruction nodes).  Latencies are exact rationals.  The
  summation is a PARAMETER `sumF` of the model (the code adds floats in path order, which is not a
  function of the sorted `lat_path`): the order-insensitivity theorem needs, and states, the
  hypothesis that paths with equal `lat_path` have equal sums (`SumByKey`), which the harness
  evaluates on the implementation's floats on every run.
-/
namespace OsacaVerif.LcdPost

abbrev Path := List Nat
/-- `lat_path`: list of (source line, edge latency) -/
abbrev Key := List (Nat × Rat)
/-- `(lat_sum, lat_path)` -/
abbrev Entry := Rat × Key

/-- `networkx.utils.pairwise` -/
def pairwise : List α → List (α × α)
  | a :: b :: r => (a, b) :: pairwise (b :: r)
  | _ => []

/-- `if s >= offset: s -= offset` -/
def normSrc (offset s : Nat) : Nat := if s ≥ offset then s - offset else s

/-- `lat_path` before sorting -/
def latPath (lat : Nat → Nat → Rat) (offset : Nat) (p : Path) : Key :=
  (pairwise p).map fun sd => (normSrc offset sd.1, lat sd.1 sd.2)

/-- Python's `<=` on `(int, float)` tuples -/
def lePair (a b : Nat × Rat) : Bool :=
  decide (a.1 < b.1) || (a.1 == b.1 && decide (a.2 ≤ b.2))

/-- Python's `<=` on lists of such tuples (first differing position decides; a proper prefix is
    smaller) -/
def leKey : Key → Key → Bool
  | [], _ => true
  | _ :: _, [] => false
  | a :: as, b :: bs => if a = b then leKey as bs else lePair a b

/-- Python's `<=` on `(lat_sum, lat_path)` -/
def leEntry (x y : Entry) : Bool :=
  decide (x.1 < y.1) || (x.1 == y.1 && leKey x.2 y.2)

/-- insertion into a sorted list (structural, so that the kernel can evaluate the examples;
    `List.mergeSort` is defined by well-founded recursion).  For the antisymmetric total orders
    used here every correct sorting algorithm returns the same list (`sortDesc_eq_of_perm`). -/
def insertBy (le : α → α → Bool) (x : α) : List α → List α
  | [] => [x]
  | y :: ys => if le x y then x :: y :: ys else y :: insertBy le x ys

def isort (le : α → α → Bool) (l : List α) : List α := l.foldr (insertBy le) []

/-- `lat_path.sort()` -/
def sortKey (k : Key) : Key := isort lePair k

/-- what one path contributes: `(lat_sum, sorted lat_path)` -/
def norm (sumF : List Rat → Rat) (lat : Nat → Nat → Rat) (offset : Nat) (p : Path) : Entry :=
  let lp := latPath lat offset p
  (sumF (lp.map (·.2)), sortKey lp)

/-- the `paths_set` loop on already normalised contributions: skip when the key was seen -/
def dedup : List Key → List Entry → List Entry
  | _, [] => []
  | seen, e :: es => if e.2 ∈ seen then dedup seen es else e :: dedup (e.2 :: seen) es

/-- `loopcarried_deps.sort(reverse=True)` -/
def sortDesc (es : List Entry) : List Entry := isort (fun a b => leEntry b a) es

/-- the line numbers that are joined with "-" to give the dictionary key -/
def dictKey (k : Key) : List Nat := k.map (·.1)

/-- `d[k] = v` of a Python dict (insertion ordered): overwrite in place, else append -/
def dictSet (d : List (List Nat × Entry)) (k : List Nat) (v : Entry) : List (List Nat × Entry) :=
  match d with
  | [] => [(k, v)]
  | kv :: r => if kv.1 = k then (k, v) :: r else kv :: dictSet r k v

def mkDict (es : List Entry) : List (List Nat × Entry) :=
  es.foldl (fun d e => dictSet d (dictKey e.2) e) []

/-- everything after the search, on normalised contributions -/
def postE (es : List Entry) : List (List Nat × Entry) := mkDict (sortDesc (dedup [] es))

/-- **the model of the post-processing**: `all_paths` (arrival order) ↦ `loopcarried_deps_dict`
    (insertion ordered; value = `(latency, dependencies)`, root = first dependency) -/
def post (sumF : List Rat → Rat) (lat : Nat → Nat → Rat) (offset : Nat) (paths : List Path) :
    List (List Nat × Entry) :=
  postE (paths.map (norm sumF lat offset))

/-- exact summation in path order (`lat_sum = 0.0; lat_sum += edge_lat`) -/
def sumExact (l : List Rat) : Rat := l.foldl (· + ·) 0

/-! ### the two hypotheses, as decidable predicates on normalised contributions -/

/-- contributions with the same `lat_path` carry the same `lat_sum` -/
def SumByKey (es : List Entry) : Prop := ∀ x ∈ es, ∀ y ∈ es, x.2 = y.2 → x.1 = y.1
/-- different `lat_path`s are joined to different dictionary keys -/
def LinesUnique (es : List Entry) : Prop := ∀ x ∈ es, ∀ y ∈ es, dictKey x.2 = dictKey y.2 → x.2 = y.2

def sumByKeyB (es : List Entry) : Bool := es.all fun x => es.all fun y => x.2 != y.2 || x.1 == y.1
def linesUniqueB (es : List Entry) : Bool :=
  es.all fun x => es.all fun y => dictKey x.2 != dictKey y.2 || x.2 == y.2

end OsacaVerif.LcdPost
