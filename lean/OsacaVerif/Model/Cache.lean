/-
  Model of OSACA's machine-model caches (C17).

  Code modelled: `osaca/semantics/hw_model.py` — `MachineModel.__init__` (runtime-cache probe,
  `_get_cached`, YAML parse, `_write_in_cache`, runtime-cache store; lazy branch), `_get_cached`
  (companion pickle, then home pickle, each with the `internal_version` test), `_write_in_cache`
  (companion if the directory is writable, else home cache), `_read_cachefile` / `_write_cachefile`
  (the D6 repair); `osaca/utils.py` — `DATA_DIRS`, `find_datafile`.

  The model is a state machine over an abstract file system.  Model-file contents, hashes and parsed
  data are natural numbers; `World.parse` / `World.hash` are parameters (the YAML loader and
  SHA-256).  Two switches of `Cfg` describe how cache files are read and written; the translator
  derives them from the source (`Gen.CacheConsts`), so the same model covers the repaired code
  (`tolerantRead = atomicWrite = true`) and the code before the repair (both `false`).

  Core Lean only (the driver is compiled natively).
-/
namespace OsacaVerif.Cache

abbrev Dir := Nat       -- a data directory (`DATA_DIRS` entries; ISA sub-directories are further ids)
abbrev Stem := Nat      -- `Path.stem` of a model file (`zen1`, `x86`, …)
abbrev Content := Nat   -- the bytes of a model file
abbrev Hash := Nat      -- `sha256(bytes).hexdigest()`
abbrev Data := Nat      -- the loaded `_data` dictionary

/-- what the translator reads off the source -/
structure Cfg where
  /-- `MachineModel.INTERNAL_VERSION` -/
  version : Nat
  /-- an unreadable cache file is a miss (`_read_cachefile` catches the unpickling error) -/
  tolerantRead : Bool
  /-- cache files are written under a temporary name and `os.replace`d into place -/
  atomicWrite : Bool
  deriving DecidableEq, Repr

/-- the environment the cache code runs in -/
structure World where
  /-- full load of a model file's content (`yaml.load` + normalisation in `__init__`) -/
  parse : Content → Data
  /-- lazy load (header only, `instruction_forms = []`) -/
  parseLazy : Content → Data
  /-- `hashlib.sha256(p.read_bytes()).hexdigest()` -/
  hash : Content → Hash
  /-- `DATA_DIRS` (for an ISA file: the `isa` sub-directories), in search order -/
  dirs : Stem → List Dir

/-- a file under a *final* cache name -/
inductive CFile where
  | absent
  /-- exists but does not unpickle: cut at any offset (0 bytes, header only, mid-stream, last byte
      missing) or otherwise damaged -/
  | torn
  /-- a complete pickle of a dictionary whose `internal_version` is `ver` -/
  | complete (ver : Nat) (d : Data)
  deriving DecidableEq, Repr

inductive Loc where
  /-- `.<stem>_<hash>.pickle` next to the model file in directory `dir` -/
  | companion (dir : Dir)
  /-- `~/.osaca/cache/<stem>_<hash>.pickle` -/
  | home
  deriving DecidableEq, Repr

structure Key where
  loc : Loc
  stem : Stem
  hash : Hash
  deriving DecidableEq, Repr

structure St where
  /-- model files: directory → stem → content -/
  files : Dir → Stem → Option Content
  /-- `os.access(dir, os.W_OK)` -/
  writable : Dir → Bool
  /-- `~/.osaca/cache` can be created and is writable -/
  homeWritable : Bool
  /-- files under final cache names -/
  cache : Key → CFile
  /-- leftover temporary files of killed writers (`*.tmp`; no reader ever opens them) -/
  temps : Nat
  /-- `MachineModel._runtime_cache` of the current process, keyed by path -/
  rt : Dir → Stem → Option Data

inductive Outcome where
  | error
  | ok (d : Data)
  deriving DecidableEq, Repr

/-- where a successful full load got its data from (bookkeeping for the harness statistics only) -/
inductive Src where
  | cold | companion | home
  deriving DecidableEq, Repr

def setCache (s : St) (k : Key) (f : CFile) : St :=
  { s with cache := fun k' => if k' = k then f else s.cache k' }

def setRt (s : St) (d : Dir) (st : Stem) (x : Data) : St :=
  { s with rt := fun d' st' => if d' = d ∧ st' = st then some x else s.rt d' st' }

/-- `utils.find_datafile`: the first data directory that has the file -/
def find (w : World) (s : St) (stem : Stem) : Option Dir :=
  (w.dirs stem).find? (fun d => (s.files d stem).isSome)

inductive Probe where
  | error            -- `pickle.load` raised and nothing caught it
  | miss
  | hit (d : Data)
  deriving DecidableEq, Repr

/-- one `if cachefile.exists(): …` block of `_get_cached` -/
def readCache (cfg : Cfg) : CFile → Probe
  | .absent => .miss
  | .torn => if cfg.tolerantRead then .miss else .error
  | .complete v d => if v = cfg.version then .hit d else .miss

def compKey (d : Dir) (stem : Stem) (h : Hash) : Key := ⟨.companion d, stem, h⟩
def homeKey (stem : Stem) (h : Hash) : Key := ⟨.home, stem, h⟩

/-- `_get_cached`: companion first, then the home cache -/
def getCached (cfg : Cfg) (s : St) (d : Dir) (stem : Stem) (h : Hash) : Probe × Src :=
  match readCache cfg (s.cache (compKey d stem h)) with
  | .error => (.error, .companion)
  | .hit x => (.hit x, .companion)
  | .miss =>
    match readCache cfg (s.cache (homeKey stem h)) with
    | .error => (.error, .home)
    | .hit x => (.hit x, .home)
    | .miss => (.miss, .cold)

/-- the file `_write_in_cache` decides to write: companion if its directory is writable, else home -/
def writeTarget (s : St) (d : Dir) (stem : Stem) (h : Hash) : Option Key :=
  if s.writable d then some (compKey d stem h)
  else if s.homeWritable then some (homeKey stem h) else none

/-- `_write_in_cache`, not interrupted -/
def writeCache (cfg : Cfg) (s : St) (d : Dir) (stem : Stem) (h : Hash) (x : Data) : St :=
  match writeTarget s d stem h with
  | none => s
  | some k => setCache s k (.complete cfg.version x)

/-- `MachineModel(arch=stem)` (full load).  The runtime-cache probe of `__init__` is not visible
    here on purpose: its result is always overwritten by the hash-keyed lookup or by a fresh parse
    (a fact of the code), so it never determines the outcome. -/
def loadFull (cfg : Cfg) (w : World) (s : St) (stem : Stem) : St × Outcome × Src :=
  match find w s stem with
  | none => (s, .error, .cold)                     -- FileNotFoundError
  | some d =>
    match s.files d stem with
    | none => (s, .error, .cold)
    | some c =>
      match getCached cfg s d stem (w.hash c) with
      | (.error, src) => (s, .error, src)          -- exception leaves every store unchanged
      | (.hit x, src) => (setRt s d stem x, .ok x, src)
      | (.miss, _) =>
        let x := w.parse c
        (setRt (writeCache cfg s d stem (w.hash c) x) d stem x, .ok x, .cold)

/-- `MachineModel(arch=stem, lazy=True)`: reads no cache, writes none, leaves the runtime cache alone -/
def loadLazy (w : World) (s : St) (stem : Stem) : Outcome :=
  match find w s stem with
  | none => .error
  | some d =>
    match s.files d stem with
    | none => .error
    | some c => .ok (w.parseLazy c)

/-- A fresh process cold-loads `stem` and is killed inside the cache write (at any byte offset).
    With atomic writes the cut file has a temporary name; with in-place writes it has the final name. -/
def crashWrite (cfg : Cfg) (w : World) (s : St) (stem : Stem) : St :=
  match find w s stem with
  | none => s
  | some d =>
    match s.files d stem with
    | none => s
    | some c =>
      match getCached cfg s d stem (w.hash c) with
      | (.miss, _) =>
        match writeTarget s d stem (w.hash c) with
        | none => s
        | some k => if cfg.atomicWrite then { s with temps := s.temps + 1 } else setCache s k .torn
      | _ => s

/-! ### Concurrent loaders, at open / write / rename granularity -/

inductive PC where
  | probeComp | probeHome | parsed | opened | half | written | done
  deriving DecidableEq, Repr

/-- a loader process of the race: program counter, private temporary file, result -/
structure Proc where
  pc : PC
  /-- the file this process writes (decided at `open`) -/
  target : Option Key
  /-- its private temporary file (atomic variant) -/
  tmp : CFile
  result : Option Outcome
  deriving DecidableEq, Repr

def Proc.fresh : Proc := ⟨.probeComp, none, .absent, none⟩

/-- One atomic step of a loader of the file `(d, stem)` whose content `c` does not change during
    the race.  `sh` is the shared file system. -/
def pstep (cfg : Cfg) (w : World) (d : Dir) (stem : Stem) (c : Content) (sh : St) (p : Proc) : St × Proc :=
  let h := w.hash c
  match p.pc with
  | .probeComp =>
    match readCache cfg (sh.cache (compKey d stem h)) with
    | .error => (sh, { p with pc := .done, result := some .error })
    | .hit x => (sh, { p with pc := .done, result := some (.ok x) })
    | .miss => (sh, { p with pc := .probeHome })
  | .probeHome =>
    match readCache cfg (sh.cache (homeKey stem h)) with
    | .error => (sh, { p with pc := .done, result := some .error })
    | .hit x => (sh, { p with pc := .done, result := some (.ok x) })
    | .miss => (sh, { p with pc := .parsed })
  | .parsed =>
    -- `open(…, "wb")`: creates/truncates the temporary file, or the final file itself
    match writeTarget sh d stem h with
    | none => (sh, { p with pc := .done, result := some (.ok (w.parse c)) })
    | some k =>
      if cfg.atomicWrite then (sh, { p with pc := .opened, target := some k, tmp := .torn })
      else (setCache sh k .torn, { p with pc := .opened, target := some k })
  | .opened =>
    -- first part of the pickle reaches the file: still not loadable
    (sh, { p with pc := .half })
  | .half =>
    -- last byte written, file closed
    match p.target with
    | none => (sh, { p with pc := .written })
    | some k =>
      if cfg.atomicWrite then (sh, { p with pc := .written, tmp := .complete cfg.version (w.parse c) })
      else (setCache sh k (.complete cfg.version (w.parse c)), { p with pc := .written })
  | .written =>
    -- `os.replace(tmp, final)` (nothing left to do for the in-place variant)
    match p.target with
    | none => (sh, { p with pc := .done, result := some (.ok (w.parse c)) })
    | some k =>
      if cfg.atomicWrite then
        (setCache sh k p.tmp, { p with pc := .done, tmp := .absent, result := some (.ok (w.parse c)) })
      else (sh, { p with pc := .done, result := some (.ok (w.parse c)) })
  | .done => (sh, p)

/-- the loader processes of a race, by process number -/
abbrev Procs := Nat → Proc

/-- process number `i` takes one step -/
def stepAt (cfg : Cfg) (w : World) (d : Dir) (stem : Stem) (c : Content)
    (sh : St) (ps : Procs) (i : Nat) : St × Procs :=
  let r := pstep cfg w d stem c sh (ps i)
  (r.1, fun j => if j = i then r.2 else ps j)

/-- run a schedule: each entry names the process that takes the next step -/
def runSched (cfg : Cfg) (w : World) (d : Dir) (stem : Stem) (c : Content) :
    St → Procs → List Nat → St × Procs
  | sh, ps, [] => (sh, ps)
  | sh, ps, i :: sched => let r := stepAt cfg w d stem c sh ps i; runSched cfg w d stem c r.1 r.2 sched

/-- processes `0 … n-1` each take `k` more steps, one process after the other
    (a loader is finished after at most 6 steps) -/
def finishSched (k : Nat) : Nat → List Nat
  | 0 => []
  | n + 1 => finishSched k n ++ List.replicate k n

/-- `n` fresh processes load `stem` simultaneously; `sched` is the interleaving (any list of process
    numbers), after which every process runs to completion -/
def race (cfg : Cfg) (w : World) (s : St) (stem : Stem) (n : Nat) (sched : List Nat) : St × List Outcome :=
  match find w s stem with
  | none => (s, List.replicate n .error)
  | some d =>
    match s.files d stem with
    | none => (s, List.replicate n .error)
    | some c =>
      let r := runSched cfg w d stem c s (fun _ => Proc.fresh) (sched ++ finishSched 6 n)
      (r.1, (List.range n).map (fun i => (r.2 i).result.getD .error))

/-! ### Histories -/

inductive Op where
  /-- `MachineModel(arch=stem, lazy=…)` in the current process -/
  | load (stem : Stem) (lazy : Bool)
  /-- a model file is created, replaced (`some c`) or removed (`none`) -/
  | edit (d : Dir) (stem : Stem) (c : Option Content)
  /-- a separate process cold-loads `stem` and is killed during the cache write; `point` is the
      offset class of the cut (0 bytes, header only, mid-stream, last byte missing) -/
  | crashWrite (stem : Stem) (point : Nat)
  /-- the file under a final cache name is cut or damaged by something else (a writer of an OSACA
      version that wrote in place, a full disk, a copy that was interrupted) -/
  | corrupt (k : Key)
  /-- a cache file is removed -/
  | drop (k : Key)
  /-- a well-formed cache file written by an OSACA with another `INTERNAL_VERSION` -/
  | foreign (k : Key) (ver : Nat) (x : Data)
  /-- a cache file built earlier for content `c` of `(d, stem)` by this OSACA version, e.g. at
      install time by `_build_cache.py` (the model file may have changed since) -/
  | shipped (d : Dir) (stem : Stem) (c : Content)
  | setWritable (d : Dir) (b : Bool)
  | setHomeWritable (b : Bool)
  /-- the current process ends, a new one starts (empty runtime cache) -/
  | newProcess
  /-- `n` fresh processes load `stem` at the same time, interleaved as `sched` says -/
  | concurrent (stem : Stem) (n : Nat) (sched : List Nat)

def step (cfg : Cfg) (w : World) (s : St) : Op → St × List Outcome
  | .load stem false => let r := loadFull cfg w s stem; (r.1, [r.2.1])
  | .load stem true => (s, [loadLazy w s stem])
  | .edit d stem c =>
    ({ s with files := fun d' st' => if d' = d ∧ st' = stem then c else s.files d' st' }, [])
  | .crashWrite stem _ => (crashWrite cfg w s stem, [])
  | .corrupt k => (setCache s k .torn, [])
  | .drop k => (setCache s k .absent, [])
  | .foreign k ver x => (if ver = cfg.version then s else setCache s k (.complete ver x), [])
  | .shipped d stem c => (setCache s (compKey d stem (w.hash c)) (.complete cfg.version (w.parse c)), [])
  | .setWritable d b => ({ s with writable := fun d' => if d' = d then b else s.writable d' }, [])
  | .setHomeWritable b => ({ s with homeWritable := b }, [])
  | .newProcess => ({ s with rt := fun _ _ => none }, [])
  | .concurrent stem n sched => race cfg w s stem n sched

/-- run a history; the observations (outcomes of the loads) in order -/
def run (cfg : Cfg) (w : World) : St → List Op → St × List Outcome
  | s, [] => (s, [])
  | s, op :: ops =>
    let r := step cfg w s op
    let r' := run cfg w r.1 ops
    (r'.1, r.2 ++ r'.2)

/-- a fresh installation: given model files, no cache file anywhere, empty runtime cache -/
def init (files : Dir → Stem → Option Content) (writable : Dir → Bool) (homeWritable : Bool) : St :=
  ⟨files, writable, homeWritable, fun _ => .absent, 0, fun _ _ => none⟩

end OsacaVerif.Cache
