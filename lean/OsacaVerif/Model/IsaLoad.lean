import OsacaVerif.Model.Isa
/-
  Loading an ISA database from its raw YAML forms: what `MachineModel.__init__` keeps of an entry of
  osaca/data/isa/*.yml for `ISASemantics` — on top of `Operand.loadEntries` (alias expansion, upper-casing,
  operand patterns): per-operand `source` / `destination`, `hidden_operands` (through `operand_to_class`),
  `breaks_dependency_on_equal_operands`, `operation` (resolved against the translated programs).
  `none` = outside the model (the loader would raise, or an attribute the role logic reads is undefined).
-/
namespace OsacaVerif.Isa
open OsacaVerif OsacaVerif.Text OsacaVerif.Operand OsacaVerif.IsaOp

def k_source : Txt := [115, 111, 117, 114, 99, 101]   -- "source"
def k_destination : Txt := [100, 101, 115, 116, 105, 110, 97, 116, 105, 111, 110]   -- "destination"
def k_hidden_operands : Txt := [104, 105, 100, 100, 101, 110, 95, 111, 112, 101, 114, 97, 110, 100, 115]   -- "hidden_operands"
def k_breaks : Txt := [98, 114, 101, 97, 107, 115, 95, 100, 101, 112, 101, 110, 100, 101, 110, 99, 121, 95, 111, 110, 95, 101, 113,
  117, 97, 108, 95, 111, 112, 101, 114, 97, 110, 100, 115]   -- "breaks_dependency_on_equal_operands"
def k_operation : Txt := [111, 112, 101, 114, 97, 116, 105, 111, 110]   -- "operation"

/-- `o["source"] if "source" in o else False`, as a truth value -/
def flagOf (kv : List (Y × Y)) (k : Txt) : Bool :=
  match getKey kv k with
  | some v => Match.truthy v
  | none => false

def roleOf (kv : List (Y × Y)) : Role := ⟨flagOf kv k_source, flagOf kv k_destination⟩

def roleOfY : Y → Role
  | .map kv => roleOf kv
  | _ => ⟨false, false⟩

def intOfY : Y → Option Int
  | .num q => if q.den == 1 then some q.num else none
  | _ => none

/-- a hidden operand through `operand_to_class` -/
def hiddenOf : Y → Option (HOp × Role)
  | .map kv =>
    if flagOf kv k_pre_indexed || flagOf kv k_post_indexed then none else
    match getKey kv k_class with
    | none => none
    | some c =>
      if isStr c k_register then
        match getKey kv k_name, lowerOrNone (getKey kv k_prefix) with
        | some (.str n), some p => some (.reg p n, roleOf kv)
        | _, _ => none
      else if isStr c k_flag then
        match getKey kv k_name with
        | some (.str n) => some (.flag n, roleOf kv)
        | _ => none
      else if isStr c k_memory then
        match getKey kv k_base, getKey kv k_offset, getKey kv k_index, (getKey kv k_scale).bind intOfY with
        | some b, some off, some i, some sc =>
          let base : Option (Option Txt) := match b with
            | .null => some none
            | .map bkv => (match getKey bkv k_name with | some (.str n) => some (some n) | _ => none)
            | _ => none
          let index : Option (Option (Option Txt × Txt)) := match i with
            | .null => some none
            | .map ikv =>
              (match getKey ikv k_name, lowerOrNone (getKey ikv k_prefix) with
               | some (.str n), some p => some (some (p, n))
               | _, _ => none)
            | _ => none
          match base, index with
          | some b', some i' => some (.mem b' i' sc (!(off matches .null)), roleOf kv)
          | _, _ => none
        | _, _, _, _ => none
      else none
  | _ => none

/-- role attributes are defined for these pattern classes only -/
def hasRoles : EOperand → Bool
  | .prfop => false
  | .other => false
  | _ => true

def entryOfForm (optab : List (Txt × Prog)) (e : Entry) : Y → Option IsaEntry
  | .map kv =>
    match getKey kv k_operands with
    | some (.list ops) =>
      let hiddenY := match getKey kv k_hidden_operands with
        | some (.list l) => some l
        | none => some []
        | _ => none
      let operation : Option (Option Prog) := match getKey kv k_operation with
        | none => some none
        | some .null => some none
        | some (.str t) => (optab.find? (fun x => x.1 == t)).map (fun x => some x.2)
        | _ => none
      match hiddenY.bind (mapOpt hiddenOf), operation with
      | some hidden, some op =>
        if e.operands.all hasRoles then
          some { e := e, roles := ops.map roleOfY, hidden := hidden, brk := flagOf kv k_breaks, operation := op }
        else none
      | _, _ => none
    | _ => none
  | _ => none

/-- the database in `MachineModel`'s post-expansion order -/
def loadDb (optab : List (Txt × Prog)) (forms : List Y) : Option (List IsaEntry) :=
  match loadEntries forms with
  | some es => mapOpt (fun e => (forms[e.raw]?).bind (entryOfForm optab e)) es
  | none => none

end OsacaVerif.Isa
