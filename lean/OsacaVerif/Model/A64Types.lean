import OsacaVerif.Model.Text
/-
  Result types of the AArch64 parser model (the compared view of `InstructionForm` and its operands)
  and decimal/hexadecimal numerals.  No dependency on `Gen`: the specification side
  (`Spec/RenderA64.lean`) uses these types for the expected result of a rendered line.
-/
namespace OsacaVerif.ParseA64
open OsacaVerif.Text

structure Ident where
  reloc : Option Txt
  name : Txt
  offset : Option Txt
  deriving DecidableEq, Repr

structure Reg where
  pre : Txt
  name : Txt
  shape : Option Txt := none
  lanes : Option Txt := none
  index : Option Txt := none
  pred : Option Txt := none
  deriving DecidableEq, Repr

inductive Imm where
  | int (v : Int)
  | flt (dbl : Bool) (mant : Txt) (exp : Option (Txt × Txt))
  deriving DecidableEq, Repr

inductive MemOff where
  | imm (v : Int)
  | ident (i : Ident)
  | other
  deriving DecidableEq, Repr

structure MemIdx where
  pre : Txt
  name : Txt
  shiftOp : Option Txt
  /-- text of the shift amount; `?` if it is not a plain number -/
  shift : Option Txt
  deriving DecidableEq, Repr

inductive PostIdx where
  | imm (v : Int)
  | other
  deriving DecidableEq, Repr

structure Mem where
  offset : Option MemOff
  basePre : Txt
  baseName : Txt
  index : Option MemIdx
  scale : Nat
  pre : Bool
  post : Option PostIdx
  deriving DecidableEq, Repr

inductive Operand where
  | reg (r : Reg)
  | imm (i : Imm)
  | ident (i : Ident)
  | cond (cc : Txt)
  | prf (t g p : Txt)
  | mem (m : Mem)
  deriving DecidableEq, Repr

def digitVal (c : Nat) : Nat :=
  if isDigitC c then c - 48 else if 97 ≤ c then c - 87 else c - 55
def natOfDigits (base : Nat) (t : Txt) : Nat := t.foldl (fun a c => a * base + digitVal c) 0

/-- digits of `n` in base `b`, most significant first (`f` is fuel; `n + 1` suffices) -/
def showBaseF (b : Nat) (dig : Nat → Nat) : Nat → Nat → Txt
  | 0, _ => []
  | f + 1, n => if n < b then [dig n] else showBaseF b dig f (n / b) ++ [dig (n % b)]
def showBase (b : Nat) (dig : Nat → Nat) (n : Nat) : Txt := showBaseF b dig (n + 1) n

def decDigit (d : Nat) : Nat := 48 + d
/-- decimal text of a natural number (`str(n)`) -/
def showNat (n : Nat) : Txt := showBase 10 decDigit n
def showInt (i : Int) : Txt :=
  match i with
  | Int.ofNat n => showNat n
  | Int.negSucc n => 45 :: showNat (n + 1)

inductive Line where
  | comment (c : Txt)
  | label (name : Txt) (c : Option Txt)
  | directive (name : Txt) (params : List Txt) (c : Option Txt)
  | instr (mn : Txt) (ops : List Operand) (c : Option Txt)
  deriving DecidableEq, Repr

inductive Out where
  | err
  | exc
  | ok (l : Line)
  deriving DecidableEq, Repr

structure FileLine where
  lineNo : Nat
  text : Txt
  out : Out
  deriving DecidableEq, Repr

end OsacaVerif.ParseA64
