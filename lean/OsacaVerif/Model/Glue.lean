import OsacaVerif.Model.ParseX86
import OsacaVerif.Model.ParseA64
import OsacaVerif.Model.Marker
import OsacaVerif.Model.Isa
import OsacaVerif.Model.Compose
import OsacaVerif.Model.Pipeline
/-
  Glue between the stage models: the conversions from what the parser models produce
  (x86: `X86.Form`, `X86.Operand`, Model/ParseX86.lean; AArch64: `ParseA64.Line`, `ParseA64.Operand`,
  Model/ParseA64.lean + Model/A64Types.lean) to what the later stage models consume.
  Written ONCE here; `Model/EndToEnd.lean` only composes.  Both parsers end in the same record
  `Glue.Form` (`formX86`, `formA64`): mnemonic, comment, directive, the operands as kernel selection
  sees them (`Marker.Opd`) and as the role / lookup / composition stages see them (`Isa.Opnd`).
  The AArch64 half is at the end of the file.

      X86.Operand ──poperandOf──► Operand.POperand      matcher's view              (Model/Match, C07)
      X86.Operand ──opndOf─────► Isa.Opnd               roles / register changes    (Model/Isa, C03Roles)
      X86.Operand ──opdOf──────► Marker.Opd             kernel selection            (Model/Marker, C11)
      X86.Form    ──selOf──────► Marker.Line
      Isa.SemOp   ──semOpP─────► Operand.POperand       `semantic_operands` as `assign_tp_lt` reads them
      Isa.Result  ──composeIns─► Compose.Ins            (Model/Compose, C08)
      Isa.SemOp   ──Isa.toDG───► DG.Op                  (already in Model/Isa)
      Compose.Result.uops ──usedMask──► Report.Row.used (the `used_ports` of `Frontend.combined_view`)

  Every function is total.  Parser outputs OUTSIDE the domain in which the conversion is faithful to the
  Python objects (the correspondence harness does not generate them; see notes/EndToEnd.md):
    * a register with an index `%st(1)`: `RegisterOperand._index` takes part in `__eq__`, the parser
      model drops it (keys of `%st(1)` and `%st(2)` coincide here);
    * a memory operand with a segment extension: `seg` is a flag in the parser model, the Python
      object keeps the parsed extension and compares it in `__eq__`;
    * a memory operand whose displacement is an identifier (`sym(%rip)`): `IdentifierOperand` has no
      `__eq__`, so in Python two such operands are equal only if identical; the key here is
      structural (as `harness/dgenc.eqkey`).  Only `is_memstore` compares memory operands of
      different instructions;
    * `*`-absolute memory forms (`Off.junk`) and bare numbers `int(·, 0)` rejects (`Off.str`).
-/
namespace OsacaVerif.Glue
open OsacaVerif OsacaVerif.Text OsacaVerif.Operand

/-! ### identity of an operand under `==` (a prefix code over `Nat`; only ever compared) -/

def encTxt (t : Txt) : Txt := t.length :: t

def encInt : Int → Txt
  | .ofNat n => [0, n]
  | .negSucc n => [1, n]

def encOptTxt : Option Txt → Txt
  | none => [0]
  | some t => 1 :: encTxt t

def encOff : Option X86.Off → Txt
  | none => [0]
  | some (.imm v) => 1 :: encInt v
  | some (.str t) => 2 :: encTxt t
  | some (.ident n) => 3 :: encTxt n
  | some .junk => [4]

/-- key of the operand at position `pos`: registers, immediates and memory operands compare by value
    (`RegisterOperand.__eq__`, `ImmediateOperand.__eq__`, `MemoryOperand.__eq__`); an
    `IdentifierOperand` has no `__eq__` — two of them (at different positions) are never equal -/
def keyOf (pos : Nat) : X86.Operand → Txt
  | .reg n => 0 :: encTxt n
  | .imm v => 1 :: encInt v
  | .ident _ => [2, pos]
  | .mem off b i s seg => 3 :: (encOff off ++ encOptTxt b ++ encOptTxt i ++ [s, if seg then 1 else 0])

/-! ### the matcher's view -/

/-- `RegisterOperand(name=…)` as `process_register` / `process_memory_address` build it on x86 -/
def pregOf (name : Txt) : PReg := { name := name }

def poffOf : Option X86.Off → POff
  | none => .none
  | some (.imm _) => .imm false      -- `value` is an `int`, never the string "0"
  | some (.str t) => .imm (t == [48])
  | some (.ident _) => .ident
  | some .junk => .other

def poperandOf : X86.Operand → POperand
  | .reg n => .reg (pregOf n)
  | .imm _ => .imm none true false   -- `ImmediateOperand(value=int)`: no `imd_type`, no identifier
  | .ident _ => .ident
  | .mem off b i s _ =>
    .mem { base := b.map pregOf, offset := poffOf off, index := i.map pregOf, scale := (s : Int),
           pre := false, post := false }

/-! ### the view of `assign_src_dst` / `get_reg_changes` -/

def moffOf : Option X86.Off → Isa.MOff
  | none => .absent
  | some (.imm v) => .imm (.int v)
  | some (.str _) => .imm .other
  | some (.ident _) => .obj
  | some .junk => .obj

def opndOf (pos : Nat) (o : X86.Operand) : Isa.Opnd :=
  { p := poperandOf o
    key := keyOf pos o
    val := match o with | .imm v => .int v | _ => .none
    off := match o with | .mem off _ _ _ _ => moffOf off | _ => .absent
    -- a symbolic displacement (`foo(%rip)`): what `kernel_dg.is_memload` compares of the IdentifierOperand (its name)
    offSym := match o with | .mem (some (.ident n)) _ _ _ _ => 3 :: encTxt n | _ => []
    postVal := .none }

def opndsFrom : Nat → List X86.Operand → List Isa.Opnd
  | _, [] => []
  | i, o :: os => opndOf i o :: opndsFrom (i + 1) os

/-- `instruction_form.operands` -/
def opndsOf (ops : List X86.Operand) : List Isa.Opnd := opndsFrom 0 ops

/-! ### the view of kernel selection -/

/-- `ImmediateOperand` ↦ `normalize_imd`, `RegisterOperand` ↦ `get_full_reg_name` (= the name on x86) -/
def opdOf : X86.Operand → Marker.Opd
  | .reg n => .reg n
  | .imm v => .imm (some v)
  | _ => .other

def selOf (num : Nat) (f : X86.Form) : Marker.Line :=
  { num := num, mnem := f.mnemonic, comment := f.comment,
    dir := f.directive.map fun d => { name := d.1, params := d.2.map some },
    ops := f.operands.map opdOf }

/-! ### the parsed line, whichever parser produced it -/

/-- what the stages behind the parser read of an `InstructionForm` -/
structure Form where
  mnemonic : Option Txt := none
  comment : Option Txt := none
  dir : Option Marker.Dir := none
  /-- the operands as `find_marked_section` sees them -/
  selOps : List Marker.Opd := []
  /-- `instruction_form.operands` as `assign_src_dst` / `assign_tp_lt` / `get_reg_changes` see them -/
  operands : List Isa.Opnd := []
  deriving DecidableEq, Repr

/-- the view of kernel selection -/
def Form.sel (num : Nat) (f : Form) : Marker.Line :=
  { num := num, mnem := f.mnemonic, comment := f.comment, dir := f.dir, ops := f.selOps }

def formX86 (f : X86.Form) : Form :=
  { mnemonic := f.mnemonic, comment := f.comment,
    dir := f.directive.map fun d => { name := d.1, params := d.2.map some },
    selOps := f.operands.map opdOf, operands := opndsOf f.operands }

/-! ### `semantic_operands` as `assign_tp_lt` reads them -/

def semOpP : Isa.SemOp → POperand
  | .op _ o => o.p
  | .hid (.reg p n) => .reg { name := n, pfx := p }
  | .hid (.flag _) => .other
  | .hid (.mem b i sc off) =>
    .mem { base := b.map pregOf, offset := if off then .other else .none,
           index := i.map fun x => { name := x.2, pfx := x.1 }, scale := sc, pre := false, post := false }
  | .hid .other => .other
  | .wb _ b _ _ _ => .reg b

/-- the instruction form after `assign_src_dst`, as the composition model takes it -/
def composeIns (mnemonic : Option Txt) (ops : List Isa.Opnd) (s : Isa.Sem) : Compose.Ins :=
  { mnemonic := mnemonic, operands := ops.map (·.p), source := s.src.map semOpP,
    destination := s.dst.map semOpP, srcDst := s.srcDst.map semOpP }

/-! ### what the front end reads of `port_uops` -/

/-- the port names one micro-op `[cycles, ports]` mentions (`list(uop[1])`) -/
def uopPorts : Y → List Txt
  | .list [_, .str t] => t.map fun c => [c]
  | .list [_, .list l] => l.filterMap fun y => match y with | .str t => some t | _ => none
  | _ => []

/-- per port of the model: is it named in `port_uops` (`none`: `port_uops` left at its initial `[]`) -/
def usedMask (ports : List Txt) (uops : Option (List Y)) : List Bool :=
  let names := (uops.getD []).flatMap uopPorts
  ports.map fun p => names.contains p

/-- `instruction_form.flags` after `assign_src_dst` and `assign_tp_lt` (as a set) -/
def flagsOf (r : Isa.Result) (t : Compose.Result) : List Txt :=
  (if r.hasLd then [Gen.flagHasLd] else []) ++ (if r.hasSt && !t.removedSt then [Gen.flagHasSt] else []) ++ t.flags

/-! ## AArch64

      ParseA64.Operand ──poperandA64──► Operand.POperand   `RegisterOperand(prefix, name, shape, lanes)`,
                                                          `ImmediateOperand(imd_type, value)`, `IdentifierOperand`,
                                                          `ConditionOperand(ccode)`, `PrefetchOperand`,
                                                          `MemoryOperand(offset, base, index, scale, pre_indexed, post_indexed)`
      ParseA64.Operand ──opndA64──────► Isa.Opnd           + identity key, immediate value, offset value, post-index value
      ParseA64.Operand ──opdA64───────► Marker.Opd         `normalize_imd`, `get_full_reg_name`
      ParseA64.Line    ──formA64──────► Glue.Form

  A register list / range has already been expanded into its members by the parser model (`processOperand`
  returns a list), exactly as `process_operand` → `resolve_range_list` does.

  Parser outputs OUTSIDE the domain in which the conversion is faithful to the Python objects (see
  notes/EndToEnd.md, "AArch64"):
    * a shifted immediate `#1, lsl #12`: the parser model keeps the value `1 << 12`, the Python object also has
      `_shift` (in `__eq__`): its key coincides with the key of the plain immediate `#4096`;
    * the members of a register list with an element index `{v0.s, v1.s}[1]` carry the index as an `int`
      in Python, a plain `v0.s[1]` as a `str`: equal keys here, unequal objects there;
    * floating-point immediates: `normalize_imd` turns them into Python floats (an integral float `#111.0`
      would compare equal to the marker value `111`); here `Marker.Opd.imm none`.  `get_reg_changes` on an
      entry with an operation and a float immediate is answered `unsupported` (`Isa.Val.other`);
    * a memory operand whose offset is an identifier (`[x1, :lo12:sym]`, `[x1, lab1]`) or was left as the
      grammar's dictionary (float offset, shifted-immediate offset): `IdentifierOperand` has no `__eq__` (two
      such operands of different instructions are never equal in Python), the key here is structural.  Only
      `is_memstore` compares memory operands of different instructions;
    * a post-index that is not a plain number (`ld1 {v0.4s}, [x0], x1`: a register; a symbol): the roles, the
      write-back and the register changes are faithful (`postValA64`: `Isa.Val.absent`, the base changes by an
      unknown amount), but the parser model does not keep WHICH register it is (`ParseA64.PostIdx.other`), so
      `[x0], x1` and `[x0], x2` have the same key here and are unequal in Python.  This shows only where two
      such operands are compared (`is_memstore` with both as memory DESTINATIONS, the zero-idiom test); the
      instructions that allow a register post-index (`ld1`…`ld4`, `st1`…`st4`, `ld1r`…) have no entry in
      isa/aarch64.yml, their memory operand is a source by the default roles;
    * a directive parameter that is not a string (an identifier parsed as a nested group; `?` in the parser
      model): `none` here, as in `Marker.Dir`.
-/

def optPfx (t : Txt) : Option Txt := if t.isEmpty then none else some t

/-- `RegisterOperand(prefix=…lower(), name, shape=…lower(), lanes, index, predication)` as the matcher reads it -/
def pregA64 (r : ParseA64.Reg) : PReg :=
  { name := r.name, pfx := optPfx r.pre, shape := r.shape, lanes := r.lanes }

/-- `RegisterOperand(name=…, prefix=…)` of a memory base / index -/
def pregAddr (pre name : Txt) : PReg := { name := name, pfx := optPfx pre }

def poffA64 : Option ParseA64.MemOff → POff
  | none => .none
  | some (.imm _) => .imm false       -- `ImmediateOperand(value=int(…, 0))`: an `int`, never the string "0"
  | some (.ident _) => .ident
  | some .other => .other             -- the grammar's dictionary left in place

def immTypeInt : Txt := [105, 110, 116]                       -- "int"
def immTypeFloat : Txt := [102, 108, 111, 97, 116]            -- "float"
def immTypeDouble : Txt := [100, 111, 117, 98, 108, 101]      -- "double"

def pmemA64 (m : ParseA64.Mem) : PMem :=
  { base := some (pregAddr m.basePre m.baseName), offset := poffA64 m.offset,
    index := m.index.map fun i => pregAddr i.pre i.name, scale := (m.scale : Int),
    pre := m.pre, post := m.post.isSome }

def poperandA64 : ParseA64.Operand → POperand
  | .reg r => .reg (pregA64 r)
  | .imm (.int _) => .imm (some immTypeInt) true false
  | .imm (.flt dbl _ _) => .imm (some (if dbl then immTypeDouble else immTypeFloat)) true false
  | .ident _ => .ident
  | .cond cc => .cond cc
  | .prf _ _ _ => .prfop
  | .mem m => .mem (pmemA64 m)

/-! identity under `==` -/

def encIdent (i : ParseA64.Ident) : Txt := encOptTxt i.reloc ++ encTxt i.name ++ encOptTxt i.offset

def encOffA64 : Option ParseA64.MemOff → Txt
  | none => [0]
  | some (.imm v) => 1 :: encInt v
  | some (.ident i) => 2 :: encIdent i
  | some .other => [3]

def encIdxA64 : Option ParseA64.MemIdx → Txt
  | none => [0]
  | some i => 1 :: (encTxt i.pre ++ encTxt i.name)      -- `RegisterOperand.__eq__` does not read `shift` / `shift_op`

def encPostA64 : Option ParseA64.PostIdx → Txt
  | none => [0]
  | some (.imm v) => 1 :: encInt v
  | some .other => [2]

def encExp : Option (Txt × Txt) → Txt
  | none => [0]
  | some (s, e) => 1 :: (encTxt s ++ encTxt e)

/-- key of the operand at position `pos`: `RegisterOperand.__eq__` (name, prefix, lanes, shape, index — not the
    predication), `ImmediateOperand.__eq__` (type, value), `MemoryOperand.__eq__` (offset, base, index, scale,
    pre_indexed, post_indexed); `IdentifierOperand`, `ConditionOperand`, `PrefetchOperand` have no `__eq__` -/
def keyA64 (pos : Nat) : ParseA64.Operand → Txt
  | .reg r => 0 :: (encTxt r.pre ++ encTxt r.name ++ encOptTxt r.shape ++ encOptTxt r.lanes ++ encOptTxt r.index)
  | .imm (.int v) => 1 :: 0 :: encInt v
  | .imm (.flt dbl m e) => 1 :: 1 :: (if dbl then 1 else 0) :: (encTxt m ++ encExp e)
  | .ident _ => [2, pos]
  | .mem m =>
    3 :: (encOffA64 m.offset ++ encTxt m.basePre ++ encTxt m.baseName ++ encIdxA64 m.index ++
          [m.scale, if m.pre then 1 else 0] ++ encPostA64 m.post)
  | .cond _ => [4, pos]
  | .prf _ _ _ => [5, pos]

def moffA64 : Option ParseA64.MemOff → Isa.MOff
  | none => .absent
  | some (.imm v) => .imm (.int v)
  | some (.ident _) => .obj
  | some .other => .obj

def postValA64 : Option ParseA64.PostIdx → Isa.Val
  | none => .none
  | some (.imm v) => .int v
  | some .other => .absent           -- `post_indexed` is the grammar's dictionary (a register, `[x0], x1`, or a symbol):
                                     --   no `"value"` key; `get_reg_changes` answers `{base: None}`

def opndA64 (pos : Nat) (o : ParseA64.Operand) : Isa.Opnd :=
  { p := poperandA64 o
    key := keyA64 pos o
    val := match o with | .imm (.int v) => .int v | .imm (.flt _ _ _) => .other | _ => .none
    off := match o with | .mem m => moffA64 m.offset | _ => .absent
    -- a symbolic displacement (`[x2, #:lo12:foo]`): relocation, name and constant offset of the IdentifierOperand
    offSym := match o with
      | .mem m => (match m.offset with | some (.ident i) => 2 :: encIdent i | _ => [])
      | _ => []
    postVal := match o with | .mem m => postValA64 m.post | _ => .none }

def opndsFromA64 : Nat → List ParseA64.Operand → List Isa.Opnd
  | _, [] => []
  | i, o :: os => opndA64 i o :: opndsFromA64 (i + 1) os

/-- `instruction_form.operands` (register lists already expanded) -/
def opndsA64 (ops : List ParseA64.Operand) : List Isa.Opnd := opndsFromA64 0 ops

/-- `ParserAArch64.get_full_reg_name` -/
def fullRegNameA64 (r : ParseA64.Reg) : Txt :=
  r.pre ++ r.name ++
  (match r.shape with | some s => 46 :: (r.lanes.getD [] ++ s) | none => []) ++
  (match r.index with | some i => 91 :: (i ++ [93]) | none => [])

/-- `ImmediateOperand` ↦ `normalize_imd` (an `int`; floats: see the head of this section),
    `RegisterOperand` ↦ `get_full_reg_name` -/
def opdA64 : ParseA64.Operand → Marker.Opd
  | .reg r => .reg (fullRegNameA64 r)
  | .imm (.int v) => .imm (some v)
  | .imm (.flt _ _ _) => .imm none
  | _ => .other

/-- a directive parameter the grammar left as a nested group is `?` in the parser model -/
def dirParamA64 (p : Txt) : Option Txt := if p == [63] then none else some p

def formA64 : ParseA64.Line → Form
  | .comment c => { comment := some c }
  | .label _ c => { comment := c }
  | .directive n ps c => { comment := c, dir := some { name := n, params := ps.map dirParamA64 } }
  | .instr mn ops c => { mnemonic := some mn, comment := c, selOps := ops.map opdA64, operands := opndsA64 ops }

end OsacaVerif.Glue
