import OsacaVerif.Model.ParseX86
import OsacaVerif.Model.Marker
import OsacaVerif.Model.Isa
import OsacaVerif.Model.Compose
import OsacaVerif.Model.Pipeline
/-
  Glue between the stage models (x86): the conversions from what the parser model produces
  (`X86.Form`, `X86.Operand`; Model/ParseX86.lean) to what the later stage models consume.
  Written ONCE here; `Model/EndToEnd.lean` only composes.

      X86.Operand ──poperandOf──► Operand.POperand      matcher's view              (Model/Match, C07)
      X86.Operand ──opndOf─────► Isa.Opnd               roles / register changes    (Model/Isa, C03Roles)
      X86.Operand ──opdOf──────► Marker.Opd             kernel selection            (Model/Marker, C11)
      X86.Form    ──selOf──────► Marker.Line
      Isa.SemOp   ──semOpP─────► Operand.POperand       `semantic_operands` as `assign_tp_lt` reads them
      Isa.Result  ──composeIns─► Compose.Ins            (Model/Compose, C08)
      Isa.SemOp   ──Isa.toDG───► DG.Op                  (already in Model/Isa)
      Compose.Result.uops ──usedMask──► Report.Row.used (the `used_ports` of `Frontend.combined_view`)

  Every function is total.  Parser outputs OUTSIDE the domain in which the conversion is faithful to the
  Python objects (the correspondence harness does not generate them; see notes/EndToEnd.md):
    * a register with an index `%st(1)`: `RegisterOperand._index` takes part in `__eq__`, the parser
      model drops it (keys of `%st(1)` and `%st(2)` coincide here);
    * a memory operand with a segment extension: `seg` is a flag in the parser model, the Python
      object keeps the parsed extension and compares it in `__eq__`;
    * a memory operand whose displacement is an identifier (`sym(%rip)`): `IdentifierOperand` has no
      `__eq__`, so in Python two such operands are equal only if identical; the key here is
      structural (as `harness/dgenc.eqkey`).  Only `is_memstore` compares memory operands of
      different instructions;
    * `*`-absolute memory forms (`Off.junk`) and bare numbers `int(·, 0)` rejects (`Off.str`).
-/
namespace OsacaVerif.Glue
open OsacaVerif OsacaVerif.Text OsacaVerif.Operand

/-! ### identity of an operand under `==` (a prefix code over `Nat`; only ever compared) -/

def encTxt (t : Txt) : Txt := t.length :: t

def encInt : Int → Txt
  | .ofNat n => [0, n]
  | .negSucc n => [1, n]

def encOptTxt : Option Txt → Txt
  | none => [0]
  | some t => 1 :: encTxt t

def encOff : Option X86.Off → Txt
  | none => [0]
  | some (.imm v) => 1 :: encInt v
  | some (.str t) => 2 :: encTxt t
  | some (.ident n) => 3 :: encTxt n
  | some .junk => [4]

/-- key of the operand at position `pos`: registers, immediates and memory operands compare by value
    (`RegisterOperand.__eq__`, `ImmediateOperand.__eq__`, `MemoryOperand.__eq__`); an
    `IdentifierOperand` has no `__eq__` — two of them (at different positions) are never equal -/
def keyOf (pos : Nat) : X86.Operand → Txt
  | .reg n => 0 :: encTxt n
  | .imm v => 1 :: encInt v
  | .ident _ => [2, pos]
  | .mem off b i s seg => 3 :: (encOff off ++ encOptTxt b ++ encOptTxt i ++ [s, if seg then 1 else 0])

/-! ### the matcher's view -/

/-- `RegisterOperand(name=…)` as `process_register` / `process_memory_address` build it on x86 -/
def pregOf (name : Txt) : PReg := { name := name }

def poffOf : Option X86.Off → POff
  | none => .none
  | some (.imm _) => .imm false      -- `value` is an `int`, never the string "0"
  | some (.str t) => .imm (t == [48])
  | some (.ident _) => .ident
  | some .junk => .other

def poperandOf : X86.Operand → POperand
  | .reg n => .reg (pregOf n)
  | .imm _ => .imm none true false   -- `ImmediateOperand(value=int)`: no `imd_type`, no identifier
  | .ident _ => .ident
  | .mem off b i s _ =>
    .mem { base := b.map pregOf, offset := poffOf off, index := i.map pregOf, scale := (s : Int),
           pre := false, post := false }

/-! ### the view of `assign_src_dst` / `get_reg_changes` -/

def moffOf : Option X86.Off → Isa.MOff
  | none => .absent
  | some (.imm v) => .imm (.int v)
  | some (.str _) => .imm .other
  | some (.ident _) => .obj
  | some .junk => .obj

def opndOf (pos : Nat) (o : X86.Operand) : Isa.Opnd :=
  { p := poperandOf o
    key := keyOf pos o
    val := match o with | .imm v => .int v | _ => .none
    off := match o with | .mem off _ _ _ _ => moffOf off | _ => .absent
    postVal := .none }

def opndsFrom : Nat → List X86.Operand → List Isa.Opnd
  | _, [] => []
  | i, o :: os => opndOf i o :: opndsFrom (i + 1) os

/-- `instruction_form.operands` -/
def opndsOf (ops : List X86.Operand) : List Isa.Opnd := opndsFrom 0 ops

/-! ### the view of kernel selection -/

/-- `ImmediateOperand` ↦ `normalize_imd`, `RegisterOperand` ↦ `get_full_reg_name` (= the name on x86) -/
def opdOf : X86.Operand → Marker.Opd
  | .reg n => .reg n
  | .imm v => .imm (some v)
  | _ => .other

def selOf (num : Nat) (f : X86.Form) : Marker.Line :=
  { num := num, mnem := f.mnemonic, comment := f.comment,
    dir := f.directive.map fun d => { name := d.1, params := d.2.map some },
    ops := f.operands.map opdOf }

/-! ### `semantic_operands` as `assign_tp_lt` reads them -/

def semOpP : Isa.SemOp → POperand
  | .op _ o => o.p
  | .hid (.reg p n) => .reg { name := n, pfx := p }
  | .hid (.flag _) => .other
  | .hid (.mem b i sc off) =>
    .mem { base := b.map pregOf, offset := if off then .other else .none,
           index := i.map fun x => { name := x.2, pfx := x.1 }, scale := sc, pre := false, post := false }
  | .hid .other => .other
  | .wb _ b _ _ _ => .reg b

/-- the instruction form after `assign_src_dst`, as the composition model takes it -/
def composeIns (mnemonic : Option Txt) (ops : List Isa.Opnd) (s : Isa.Sem) : Compose.Ins :=
  { mnemonic := mnemonic, operands := ops.map (·.p), source := s.src.map semOpP,
    destination := s.dst.map semOpP, srcDst := s.srcDst.map semOpP }

/-! ### what the front end reads of `port_uops` -/

/-- the port names one micro-op `[cycles, ports]` mentions (`list(uop[1])`) -/
def uopPorts : Y → List Txt
  | .list [_, .str t] => t.map fun c => [c]
  | .list [_, .list l] => l.filterMap fun y => match y with | .str t => some t | _ => none
  | _ => []

/-- per port of the model: is it named in `port_uops` (`none`: `port_uops` left at its initial `[]`) -/
def usedMask (ports : List Txt) (uops : Option (List Y)) : List Bool :=
  let names := (uops.getD []).flatMap uopPorts
  ports.map fun p => names.contains p

/-- `instruction_form.flags` after `assign_src_dst` and `assign_tp_lt` (as a set) -/
def flagsOf (r : Isa.Result) (t : Compose.Result) : List Txt :=
  (if r.hasLd then [Gen.flagHasLd] else []) ++ (if r.hasSt && !t.removedSt then [Gen.flagHasSt] else []) ++ t.flags

end OsacaVerif.Glue
