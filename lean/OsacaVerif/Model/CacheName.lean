import OsacaVerif.Model.Text
import OsacaVerif.Gen.CacheConsts
/-
  Names of the cache files (C17): the expressions
    `p.with_name("." + p.stem + "_" + hexhash).with_suffix(".pickle")`      (companion)
    `(Path(CACHE_DIR) / (p.stem + "_" + hexhash)).with_suffix(".pickle")`   (home)
  with the parts and the suffix taken from `Gen.CacheConsts`, and `pathlib`'s `with_suffix`
  (Python 3.12: the old suffix starts at the last dot unless that dot is the first or the last character
  of the name, and is *replaced*).
-/
namespace OsacaVerif.CacheName
open OsacaVerif.Text

/-- `name.rfind('.')` -/
def rfindDot : Txt → Option Nat
  | [] => none
  | c :: cs =>
    match rfindDot cs with
    | some i => some (i + 1)
    | none => if c = 46 then some 0 else none

/-- start of `PurePath(name).suffix`: `i = name.rfind('.')` if `0 < i < len(name) - 1` -/
def suffixStart (name : Txt) : Option Nat :=
  match rfindDot name with
  | some i => if 0 < i ∧ i + 1 < name.length then some i else none
  | none => none

/-- `PurePath(name).with_suffix(suffix).name` -/
def withSuffix (name suffix : Txt) : Txt :=
  match suffixStart name with
  | some i => name.take i ++ suffix
  | none => name ++ suffix

/-- concatenate the parts of a name expression: (0, text) literal, (1, _) stem, (2, _) hash -/
def build (parts : List (Nat × Txt)) (stem hex : Txt) : Txt :=
  parts.flatMap fun p => if p.1 = 1 then stem else if p.1 = 2 then hex else p.2

def companionName (stem hex : Txt) : Txt :=
  withSuffix (build Gen.cacheCompanionParts stem hex) Gen.cacheCompanionSuffix

def homeName (stem hex : Txt) : Txt :=
  withSuffix (build Gen.cacheHomeParts stem hex) Gen.cacheHomeSuffix

end OsacaVerif.CacheName
