import OsacaVerif.Model.RegDep
/-
  Dependency graph: model of `KernelDG.create_DG`, `find_depending`, `is_read`, `is_written`,
  `is_memload`, `is_memstore`, `_update_reg_changes` (osaca/semantics/kernel_dg.py).

  An instruction is given by what the rest of OSACA computed for it: its semantic operands
  (source / destination / src_dst), latencies, load flags and the register changes reported by
  `ISASemantics.get_reg_changes` (C06).  The register-dependence test is the C12 model.
-/
namespace OsacaVerif.DG
open OsacaVerif OsacaVerif.Text

inductive Isa where
  | x86 | a64
  deriving DecidableEq, Repr, Inhabited

structure Reg where
  pre : Txt := []          -- AArch64 prefix ("" on x86)
  name : Txt
  preIdx : Bool := false   -- RegisterOperand.pre_indexed  (write-back base appended to src_dst)
  postIdx : Bool := false  -- RegisterOperand.post_indexed (truthy)
  deriving Repr, Inhabited, DecidableEq

structure Mem where
  base : Option Reg
  index : Option Reg
  scale : Int
  offset : Option Int      -- value of an immediate offset; none: absent (or not an immediate)
  /-- a SYMBOLIC displacement (`foo(%rip)`, `[x2, #:lo12:foo]`: an `IdentifierOperand`): the canonical text of the
      fields the repaired `is_memload` compares (name, constant offset, relocation); `offset` is then `none` -/
  sym : Option Txt := none
  pre : Bool
  post : Bool
  eqKey : Txt              -- canonical text of all fields `MemoryOperand.__eq__` compares
  deriving Repr, Inhabited

inductive Op where
  | reg (r : Reg)
  | flag (n : Txt)
  | mem (m : Mem)
  | other
  deriving Repr, Inhabited

structure Change where
  name : Txt
  value : Int
  deriving Repr, Inhabited, DecidableEq

structure Ins where
  line : Nat
  src : List Op
  dst : List Op
  srcDst : List Op
  lat : Rat
  latWoLoad : Option Rat
  hasLd : Bool             -- HAS_LD ∈ flags
  isLd : Bool              -- LD ∈ flags
  changes : List (Txt × Option Change)       -- get_reg_changes(iform)
  changesPost : List (Txt × Option Change)   -- get_reg_changes(iform, only_postindexed=True)
  deriving Repr, Inhabited

/-- the C12 relation on operand objects -/
def regDep (isa : Isa) (a b : Reg) : Bool :=
  match isa with
  | .x86 => RegDep.x86 a.name b.name
  | .a64 => RegDep.a64 a.pre a.name b.pre b.name

/-- what `find_depending` follows: a destination register or flag -/
inductive Target where
  | reg (r : Reg)
  | flag (n : Txt)
  deriving Repr, Inhabited

def depOp (isa : Isa) (t : Target) (o : Op) : Bool :=
  match t, o with
  | .reg r, .reg s => regDep isa r s
  | .flag a, .flag b => a == b
  | _, _ => false          -- flag and register names never coincide (asserted by the harness)

def depReg (isa : Isa) (t : Target) (r : Option Reg) : Bool :=
  match t, r with
  | .reg a, some b => regDep isa a b
  | _, _ => false

/-- `is_read(register, instruction_form)` -/
def isRead (isa : Isa) (t : Target) (i : Ins) : Bool :=
  (i.src ++ i.srcDst).any (fun o => match o with
    | .mem m => depReg isa t m.base || depReg isa t m.index
    | o => depOp isa t o) ||
  (i.dst ++ i.srcDst).any (fun o => match o with
    | .mem m => depReg isa t m.base || depReg isa t m.index
    | _ => false)

/-- `is_written(register, instruction_form)` -/
def isWritten (isa : Isa) (t : Target) (i : Ins) : Bool :=
  (i.dst ++ i.srcDst).any (fun o => match o with
    | .mem m => (m.pre || m.post) && depReg isa t m.base
    | o => depOp isa t o) ||
  (i.src ++ i.srcDst).any (fun o => match o with
    | .mem m => (m.pre || m.post) && depReg isa t m.base
    | _ => false)

/-! ### register-change tracking (`_update_reg_changes`) -/

/-- tracked state: `none` entry = "changed beyond reconstruction"; absent = untouched -/
abbrev RegState := List (Txt × Option Change)

def lookup (s : RegState) (r : Txt) : Option (Option Change) := (s.find? (·.1 == r)).map (·.2)

def setReg (s : RegState) (r : Txt) (v : Option Change) : RegState :=
  if s.any (·.1 == r) then s.map (fun e => if e.1 == r then (r, v) else e) else s ++ [(r, v)]

def updateOne (s : RegState) (reg : Txt) (change : Option Change) : RegState :=
  match change with
  | none => setReg s reg none
  | some ch =>
    if ch.name != reg then
      -- renaming (the register is overwritten with `source + value`, whatever it held, known or not): take over
      -- the up-to-now change of the source register
      match lookup s ch.name with
      | some none => setReg s reg none
      | some (some src) => setReg s reg (some { name := src.name, value := src.value + ch.value })
      | none => setReg s reg (some { name := ch.name, value := 0 + ch.value })
    else
      -- an increment of the register itself: an unknown stays unknown
      match lookup s reg with
      | some none => setReg s reg none
      | some (some st) => setReg s reg (some { name := st.name, value := st.value + ch.value })
      | none => setReg s reg (some { name := reg, value := 0 + ch.value })

def updateState (s : RegState) (changes : List (Txt × Option Change)) : RegState :=
  changes.foldl (fun s e => updateOne s e.1 e.2) s

def fullName (r : Reg) : Txt := r.pre ++ r.name

/-- the displacement part of `is_memload` (repaired): load displacement minus store displacement when both are
    numbers (an absent one counts 0); a symbol is an unknown constant, comparable only with the very same symbol
    (difference 0); a symbol against a number / nothing, or two different symbols: not provably equal (`none`) -/
def dispDelta (st ld : Mem) : Option Int :=
  match st.sym, ld.sym with
  | none, none => some ((ld.offset.getD 0) - (st.offset.getD 0))
  | some a, some b => if a == b then some 0 else none
  | _, _ => none

/-- `is_memload(mem, instruction_form, register_changes)` -/
def isMemload (st : Mem) (i : Ins) (s : RegState) : Bool :=
  (i.src ++ i.srcDst).any fun o =>
    match o with
    | .mem ld =>
      let a0 : Option Int := dispDelta st ld
      -- base
      let rb : Option Int :=
        match st.base, ld.base with
        | some sb, some lb =>
          (match lookup s (fullName lb) with
          | some none => none
          | some (some c) => if fullName sb == c.name then some c.value else none
          | none => if fullName sb == fullName lb then some 0 else none)
        | none, none => some 0
        | _, _ => none
      let ri : Option Int :=
        match st.index, ld.index with
        | some si, some li =>
          (match lookup s (fullName li) with
          | some none => none
          | some (some c) =>
            if st.scale != ld.scale then none
            else if fullName si == c.name then some (c.value * ld.scale) else none
          | none =>
            if st.scale != ld.scale then none
            else if fullName si == fullName li then some 0 else none)
        | none, none => some 0
        | _, _ => none
      match a0, rb, ri with
      | some a0, some b, some x => a0 + b + x == 0
      | _, _, _ => false
    | _ => false

/-- `is_memstore(mem, instruction_form)`: a destination memory operand equal to `mem` -/
def isMemstore (st : Mem) (i : Ins) : Bool :=
  (i.dst ++ i.srcDst).any fun o => match o with
    | .mem m => m.eqKey == st.eqKey
    | _ => false

/-! ### the forward scan (`find_depending`) -/

inductive Tag where
  | plain | pIndexed | storeLoad
  deriving DecidableEq, Repr, Inhabited

/-- scan for one register / flag destination: emit on read, stop on write -/
def scanTarget (isa : Isa) (t : Target) (tag : Tag) : List Ins → List (Nat × Tag)
  | [] => []
  | i :: rest =>
    let here := if isRead isa t i then [(i.line, tag)] else []
    if isWritten isa t i then here else here ++ scanTarget isa t tag rest

/-- the write-back base of a pre/post-indexed memory destination is overwritten: the scan stops -/
def memStop (isa : Isa) (m : Mem) (i : Ins) : Bool :=
  (m.pre || m.post) && (match m.base with | some b => isWritten isa (.reg b) i | none => false)

/-- scan for one memory destination, carrying the register-change state -/
def scanMem (isa : Isa) (m : Mem) (s : RegState) : List Ins → List (Nat × Tag)
  | [] => []
  | i :: rest =>
    if memStop isa m i then []
    else
      let here := if isMemload m i (updateState s i.changes) then [(i.line, Tag.storeLoad)] else []
      if isMemstore m i then here
      else here ++ scanMem isa m (updateState (updateState s i.changes) i.changesPost) rest

/-- the tracked state the scan for a memory destination of `p` starts with (repaired `find_depending`): the changes
    `p` itself reports, and then ALSO its own post-index write-back (`str x1, [x2], #8` leaves `x2 + 8` in `x2`) -/
def startState (p : Ins) : RegState := updateState (updateState [] p.changes) p.changesPost

/-- all emissions of one producer, in the order the code yields them -/
def findDepending (isa : Isa) (flagDeps : Bool) (p : Ins) (rest : List Ins) : List (Nat × Tag) :=
  (p.dst ++ p.srcDst).flatMap fun d =>
    match d with
    | .reg r => scanTarget isa (.reg r) (if r.preIdx || r.postIdx then .pIndexed else .plain) rest
    | .flag n => if flagDeps then scanTarget isa (.flag n) .plain rest else []
    | .mem m => scanMem isa m (startState p) rest
    | .other => []

/-! ### graph -/

/-- node: instruction line, or its separate load node (`line + 0.1`) -/
structure Node where
  line : Nat
  load : Bool := false
  deriving DecidableEq, Repr, Inhabited

structure Edge where
  src : Node
  dst : Node
  w : Rat
  deriving Repr, Inhabited

structure Params where
  stlf : Rat := 0          -- store_to_load_forward_latency
  pIdx : Rat := 1          -- p_index_latency

def edgeWeight (par : Params) (p : Ins) (tag : Tag) : Rat :=
  let base := match p.latWoLoad with | some l => l | none => p.lat
  match tag with
  | .plain => base
  | .storeLoad => base + par.stlf
  | .pIndexed => par.pIdx

/-- emissions of `create_DG` in order (a later emission for the same pair overwrites, as `add_edge`) -/
def emissions (isa : Isa) (flagDeps : Bool) (par : Params) : List Ins → List Edge
  | [] => []
  | p :: rest =>
    (if p.hasLd && !p.isLd then
      [{ src := ⟨p.line, true⟩, dst := ⟨p.line, false⟩, w := p.lat - (p.latWoLoad.getD 0) }] else []) ++
    (findDepending isa flagDeps p rest).map (fun (l, tag) =>
      { src := ⟨p.line, false⟩, dst := ⟨l, false⟩, w := edgeWeight par p tag }) ++
    emissions isa flagDeps par rest

/-- `add_edge` semantics: a later emission for an existing (src, dst) pair overwrites its weight
    in place; a new pair is appended -/
def addEdge (acc : List Edge) (e : Edge) : List Edge :=
  if acc.any (fun f => f.src == e.src && f.dst == e.dst) then
    acc.map (fun f => if f.src == e.src && f.dst == e.dst then { f with w := e.w } else f)
  else acc ++ [e]

def dedupLast (es : List Edge) : List Edge := es.foldl addEdge []

def create (isa : Isa) (flagDeps : Bool) (par : Params) (k : List Ins) : List Edge :=
  dedupLast (emissions isa flagDeps par k)

end OsacaVerif.DG
