import OsacaVerif.Model.Text
/-
  Python's `int(s)` / `int(s, 0)` and `str.strip()` / `str.split(sep)` on ASCII text, as far as
  kernel selection uses them (`int(x, 0)` on `.byte` parameters in `match_bytes`, `int(...)` on the
  pieces of a `--lines` string in `get_line_range`, `line.strip() == ""` in `parse_file`).
  Only ASCII behaviour is modelled; the correspondence harness sends ASCII only.
-/
namespace OsacaVerif.PyInt
open OsacaVerif.Text

/-- `str.isspace` on ASCII: TAB LF VT FF CR, FS GS RS US, SPACE -/
def isSpaceC (c : Nat) : Bool := (decide (9 ≤ c) && decide (c ≤ 13)) || (decide (28 ≤ c) && decide (c ≤ 32))

/-- the whitespace `int()` skips around a literal (ASCII): TAB LF VT FF CR SPACE — *not* FS GS RS US -/
def isIntSpaceC (c : Nat) : Bool := (decide (9 ≤ c) && decide (c ≤ 13)) || c == 32

/-- strip the characters satisfying `p` from both ends -/
def stripWith (p : Nat → Bool) (t : Txt) : Txt := ((t.dropWhile p).reverse.dropWhile p).reverse
/-- `s.strip()` -/
def strip (t : Txt) : Txt := stripWith isSpaceC t

/-- `line.strip() == ""` -/
def isBlank (t : Txt) : Bool := t.all isSpaceC

/-- value of a digit character in the given base -/
def digitVal (base : Nat) (c : Nat) : Option Nat :=
  let v : Option Nat :=
    if 48 ≤ c ∧ c ≤ 57 then some (c - 48)
    else if 97 ≤ c ∧ c ≤ 122 then some (c - 87)
    else if 65 ≤ c ∧ c ≤ 90 then some (c - 55)
    else none
  match v with
  | some d => if d < base then some d else none
  | none => none

/-- digits with single underscores *between* digits (PEP 515); `prev` = the previous character was
    a digit.  At least one digit; no leading, trailing or doubled underscore. -/
def digitsU (base : Nat) : Nat → Bool → Txt → Option Nat
  | acc, prev, [] => if prev then some acc else none
  | acc, prev, c :: cs =>
    if c = 95 then (if prev then digitsU base acc false cs else none)
    else match digitVal base c with
      | some v => digitsU base (acc * base + v) true cs
      | none => none

/-- sign handling shared by both bases -/
def signed (body : Txt → Option Nat) (t : Txt) : Option Int :=
  match t with
  | 43 :: r => (body r).map (fun n => (n : Int))
  | 45 :: r => (body r).map (fun n => - (n : Int))
  | r => (body r).map (fun n => (n : Int))

/-- `int(s)` (base 10) -/
def pyInt10 (t : Txt) : Option Int := signed (digitsU 10 0 false) (stripWith isIntSpaceC t)

/-- after a base prefix one underscore is allowed before the first digit -/
def afterPrefix (base : Nat) (r : Txt) : Option Nat :=
  match r with
  | 95 :: r' => digitsU base 0 false r'
  | r' => digitsU base 0 false r'

/-- the unsigned part of `int(s, 0)`: `0x…`, `0o…`, `0b…`, or decimal without leading zeros
    (a literal consisting of zeros only is allowed) -/
def body0 (r : Txt) : Option Nat :=
  match r with
  | 48 :: x :: rest =>
    if x = 120 ∨ x = 88 then afterPrefix 16 rest
    else if x = 111 ∨ x = 79 then afterPrefix 8 rest
    else if x = 98 ∨ x = 66 then afterPrefix 2 rest
    else match digitsU 10 0 false r with
      | some v => if v = 0 then some 0 else none
      | none => none
  | _ => digitsU 10 0 false r

/-- `int(s, 0)` -/
def pyInt0 (t : Txt) : Option Int := signed body0 (stripWith isIntSpaceC t)

/-- decimal rendering of a natural number (`str(n)`) -/
def natDigits (n : Nat) : Txt :=
  if n < 10 then [48 + n] else natDigits (n / 10) ++ [48 + n % 10]
termination_by n
decreasing_by omega

/-- `s.split(sep)` for a one-character separator: never empty -/
def splitOn (sep : Nat) : Txt → List Txt
  | [] => [[]]
  | c :: cs =>
    if c = sep then [] :: splitOn sep cs
    else match splitOn sep cs with
      | [] => [[c]]
      | p :: ps => (c :: p) :: ps

/-- `sep.join(pieces)` for a one-character separator -/
def joinWith (sep : Nat) : List Txt → Txt
  | [] => []
  | [p] => p
  | p :: q :: rest => p ++ sep :: joinWith sep (q :: rest)

end OsacaVerif.PyInt
