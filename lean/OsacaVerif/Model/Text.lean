/-
  Text helpers.  Text in the models is `List Nat` (Unicode code points), never `String`:
  the kernel cannot reduce `String` primitives, and `decide +kernel` has to evaluate these.
  Only the ASCII behaviour of Python's `str.upper/lower/isdigit/rstrip` is modelled; the
  correspondence harness only sends ASCII.
-/
namespace OsacaVerif.Text

abbrev Txt := List Nat

def ofString (s : String) : Txt := s.toList.map Char.toNat
def toStr (t : Txt) : String := String.ofList (t.map Char.ofNat)

def upperC (c : Nat) : Nat := if 97 ≤ c ∧ c ≤ 122 then c - 32 else c
def lowerC (c : Nat) : Nat := if 65 ≤ c ∧ c ≤ 90 then c + 32 else c
def isDigitC (c : Nat) : Bool := decide (48 ≤ c ∧ c ≤ 57)
def isAlphaC (c : Nat) : Bool := decide ((65 ≤ c ∧ c ≤ 90) ∨ (97 ≤ c ∧ c ≤ 122))

def upper (t : Txt) : Txt := t.map upperC
def lower (t : Txt) : Txt := t.map lowerC

/-- `s.rstrip(string.digits)` -/
def rstripDigits : Txt → Txt
  | [] => []
  | c :: cs =>
    match rstripDigits cs with
    | [] => if isDigitC c then [] else [c]
    | r => c :: r

/-- `t.startswith(p)` -/
def startsWith : Txt → Txt → Bool
  | _, [] => true
  | [], _ :: _ => false
  | c :: cs, p :: ps => c == p && startsWith cs ps

/-- Python `p in t` for strings (substring test). -/
def isInfix (p : Txt) : Txt → Bool
  | [] => p.isEmpty
  | c :: cs => startsWith (c :: cs) p || isInfix p cs

def anyDigit (t : Txt) : Bool := t.any isDigitC

/-- leading run of decimal digits and the rest -/
def spanDigits : Txt → Txt × Txt
  | [] => ([], [])
  | c :: cs => if isDigitC c then let (d, r) := spanDigits cs; (c :: d, r) else ([], c :: cs)

end OsacaVerif.Text
