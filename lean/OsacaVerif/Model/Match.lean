import OsacaVerif.Model.Operand
import OsacaVerif.Model.RegDep
import OsacaVerif.Gen.MatchConsts
/-
  Model of the instruction-form matcher of `MachineModel` (osaca/semantics/hw_model.py):
  `_check_operands` → `_check_x86_operands` / `_check_AArch64_operands` → `_is_*_reg_type`,
  `_is_*_mem_type`; `_match_operands`; `get_instruction`; and the mnemonic-suffix fall-backs of
  `ArchSemantics.assign_tp_lt` / `ISASemantics.assign_src_dst`.  Rule by rule, in the code's order,
  quirks included.  All literals come from `Gen.MatchConsts` / `Gen.RegTables`.
-/
namespace OsacaVerif.Match
open OsacaVerif OsacaVerif.Text OsacaVerif.Operand

/-! ### Python `==` between a parsed attribute and a raw YAML scalar of an entry -/

/-- `y == WILDCARD` -/
def isWild (y : Y) : Bool := isStr y Gen.wildcard

/-- `opt == y` for an optional string attribute (`None` ↔ YAML null) -/
def eqOptTxt (o : Option Txt) (y : Y) : Bool :=
  match o, y with
  | none, .null => true
  | some t, .str s => t == s
  | _, _ => false

/-- `n == y` for an `int` attribute (`True == 1` in Python) -/
def eqInt (n : Int) : Y → Bool
  | .num q => q == (n : Rat)
  | .bool b => (if b then 1 else 0) == n
  | _ => false

/-- `b == y` for a `bool` attribute -/
def eqBool (b : Bool) : Y → Bool
  | .bool b' => b == b'
  | .num q => q == (if b then 1 else 0)
  | _ => false

/-- truth value of a YAML scalar / collection -/
def truthy : Y → Bool
  | .null => false
  | .bool b => b
  | .num q => q != 0
  | .str t => !t.isEmpty
  | .list l => !l.isEmpty
  | .map kv => !kv.isEmpty

/-- `None` / a string, as the x86 register test receives `i_mem.base` / `i_mem.index` -/
def yName : Y → Option Txt
  | .str t => some t
  | _ => none

/-! ### registers -/

/-- `reg.name.rstrip(string.digits).lower()` -/
def x86Stem (name : Txt) : Txt := lower (rstripDigits name)

/-- `_is_x86_reg_type(i_reg, reg)` for a register operand `reg` with a name; `iName` is the entry's
    class name (`i_reg.name`, or the string/None standing in a memory entry's base/index) -/
def x86RegType (iName : Option Txt) (r : PReg) : Bool :=
  if iName == some Gen.wildcard || r.name == Gen.wildcard then true
  else if RegDep.isVectorRegister r.name then iName == some (x86Stem r.name)
  else iName == some (x86Stem r.name) || iName == some Gen.x86GprClass

/-- shape clause shared by both branches of `_is_AArch64_reg_type` -/
def a64ShapeOk (iShape : Option Txt) (s : Txt) : Bool :=
  match iShape with
  | some is => s == is || isInfix Gen.wildcard (s ++ is)
  | none => false

/-- `_is_AArch64_reg_type(i_reg, reg)`; the entry never has `lanes` (`operand_to_class` drops it) -/
def a64RegType (iPfx iShape : Option Txt) (r : PReg) : Bool :=
  if r.pfx == some Gen.wildcard || iPfx == some Gen.wildcard then
    match r.shape with
    | some s => a64ShapeOk iShape s
    | none => true
  else if r.pfx != iPfx then false
  else
    match r.shape with
    | some s => a64ShapeOk iShape s
    | none =>
      match r.lanes with
      | some _ => false
      | none => true

/-! ### memory -/

/-- scale clause (identical in both ISAs) -/
def scaleOk (iScale : Y) (scale : Int) : Bool :=
  eqInt scale iScale || isWild iScale || (scale != Gen.scaleUnit && !eqInt Gen.scaleUnit iScale)

/-- x86 base / index clause -/
def x86AddrReg (i : Y) (r : Option PReg) : Bool :=
  (r.isNone && i matches .null) || isWild i ||
  (match r with
   | some reg => x86RegType (yName i) reg
   | none => false)

/-- x86 base clause: `(mem.base is None and i_mem.base is None) or i_mem.base == "*" or
    _is_x86_reg_type(i_mem.base, mem.base)` — with `mem.base is None` the last disjunct is
    `i_mem.base is None` again -/
def x86BaseOk (i : Y) (r : Option PReg) : Bool := x86AddrReg i r

/-- x86 index clause: `mem.index == i_mem.index or i_mem.index == "*" or (mem.index is not None and
    _is_x86_reg_type(i_mem.index, mem.index))`; a register never equals a string -/
def x86IndexOk (i : Y) (r : Option PReg) : Bool := x86AddrReg i r

def x86OffsetOk (i : Y) : POff → Bool
  | .none => (i matches .null) || isWild i
  | .imm str0 => isWild i || isStr i Gen.x86OffImd || ((i matches .null) && str0)
  | .ident => isWild i || isStr i Gen.x86OffId
  | .other => isWild i

def x86MemType (base offset index scale : Y) (m : PMem) : Bool :=
  x86BaseOk base m.base && x86OffsetOk offset m.offset && x86IndexOk index m.index && scaleOk scale m.scale

def a64BaseOk (i : Y) (r : Option PReg) : Bool :=
  (r.isNone && i matches .null) || isWild i ||
  (match r with
   | some reg => eqOptTxt reg.pfx i
   | none => false)

def a64OffsetOk (i : Y) : POff → Bool
  | .none => (i matches .null) || isWild i
  | .imm _ => isWild i || isStr i Gen.a64OffImd
  | .ident => isWild i
  | .other => isWild i

def a64IndexOk (i : Y) (r : Option PReg) : Bool :=
  (r.isNone && i matches .null) || isWild i ||
  (match r with
   | some reg => (match reg.pfx with
                  | some p => isStr i p
                  | none => false)
   | none => false)

def a64PreOk (i : Y) (pre : Bool) : Bool := isWild i || eqBool pre i

/-- `post_indexed` of an instruction is `False` or a dict -/
def a64PostOk (i : Y) (post : Bool) : Bool :=
  isWild i || (if post then truthy i else eqBool false i)

def a64MemType (base offset index scale pre post : Y) (m : PMem) : Bool :=
  a64BaseOk base m.base && a64OffsetOk offset m.offset && a64IndexOk index m.index &&
  scaleOk scale m.scale && a64PreOk pre m.pre && a64PostOk post m.post

/-! ### `_check_*_operands` -/

def checkX86 (e : EOperand) (o : POperand) : Bool :=
  match o with
  | .reg r =>
    (match e with
     | .reg n _ _ => x86RegType n r
     | _ => false)
  | .mem m =>
    (match e with
     | .mem b off i s _ _ => x86MemType b off i s m
     | _ => false)
  | .imm _ _ _ =>
    (match e with
     | .imm t => isStr t Gen.x86ImmType
     | _ => false)
  | .ident => (e matches .ident)
  | _ => Gen.unknownClassMatches          -- `_compare_db_entries`

/-- the chain of `isinstance(i_operand, ImmediateOperand) and i_operand.imd_type == …` tests -/
def a64ImmEntry (t : Y) (o : POperand) : Option Bool :=
  if isWild t then
    some (match o with
          | .imm _ hv _ => hv
          | _ => false)
  else
    match Gen.a64ImmTypes.find? (fun ty => isStr t ty) with
    | some ty =>
      some (match o with
            | .imm ot hv _ => ot == some ty && hv
            | _ => false)
    | none => none

def checkA64Rest (e : EOperand) (o : POperand) : Bool :=
  match o with
  | .ident => (e matches .ident)
  | .imm _ _ true => (e matches .ident)
  | .prfop => (e matches .prfop)
  | .cond cc =>
    (match e with
     | .cond icc => icc == Gen.wildcard || icc == cc
     | _ => false)
  | _ => false

def checkA64 (e : EOperand) (o : POperand) : Bool :=
  match o with
  | .reg r =>
    (match e with
     | .reg _ p s => a64RegType p s r
     | _ => false)
  | .mem m =>
    (match e with
     | .mem b off i s pre post => a64MemType b off i s pre post m
     | _ => false)
  | _ =>
    match e with
    | .imm t =>
      (match a64ImmEntry t o with
       | some b => b
       | none => checkA64Rest e o)
    | _ => checkA64Rest e o

/-- `_check_operands(i_operand, operand)` -/
def checkOperand (isa : Isa) (e : EOperand) (o : POperand) : Bool :=
  match o with
  | .wild => (e matches .reg _ _ _)
  | _ =>
    match isa with
    | .x86 => checkX86 e o
    | .a64 => checkA64 e o

/-- `_match_operands(i_operands, operands)`: length test, then conjunction over positions -/
def matchOperands (isa : Isa) : List EOperand → List POperand → Bool
  | [], [] => true
  | e :: es, o :: os => checkOperand isa e o && matchOperands isa es os
  | _, _ => false

/-- does the entry match (name compared after upper-casing both, as the name index does) -/
def entryMatches (isa : Isa) (name : Txt) (ops : List POperand) (e : Entry) : Bool :=
  e.name == upper name && matchOperands isa e.operands ops

/-- index of the first entry in (post-expansion) list order that matches -/
def lookupIdx (isa : Isa) (db : List Entry) (name : Txt) (ops : List POperand) : Option Nat :=
  let i := db.findIdx (entryMatches isa name ops)
  if i < db.length then some i else none

/-- `MachineModel.get_instruction(name, operands)` -/
def getInstruction (isa : Isa) (db : List Entry) (name : Txt) (ops : List POperand) : Option Entry :=
  db.find? (entryMatches isa name ops)

/-! ### mnemonic-suffix fall-backs -/

/-- `mnemonic[:-1]` if the last character is one of `GAS_SUFFIXES` -/
def dropGasSuffix (name : Txt) : Option Txt :=
  match name.getLast? with
  | some c => if Gen.gasSuffixesArch.contains c then some name.dropLast else none
  | none => none

/-- `mnemonic[:mnemonic.index(".")]` if there is a '.' -/
def cutAtDot (name : Txt) : Option Txt :=
  if name.contains Gen.suffixSep then some (name.takeWhile (· != Gen.suffixSep)) else none

/-- the alternative mnemonic tried after a failed lookup -/
def fallbackName (isa : Isa) (name : Txt) : Option Txt :=
  match isa with
  | .x86 => dropGasSuffix name
  | .a64 => cutAtDot name

/-- lookup as `assign_tp_lt` / `assign_src_dst` do it: full mnemonic first, then the fall-back -/
def lookupWithFallbacks (isa : Isa) (db : List Entry) (name : Txt) (ops : List POperand) : Option Entry :=
  match getInstruction isa db name ops with
  | some e => some e
  | none =>
    match fallbackName isa name with
    | some n => getInstruction isa db n ops
    | none => none

def lookupIdxWithFallbacks (isa : Isa) (db : List Entry) (name : Txt) (ops : List POperand) : Option Nat :=
  match lookupIdx isa db name ops with
  | some i => some i
  | none =>
    match fallbackName isa name with
    | some n => lookupIdx isa db n ops
    | none => none

end OsacaVerif.Match
