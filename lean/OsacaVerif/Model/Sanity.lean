import OsacaVerif.Model.Yaml
/-
  `--db-check`: the three "missing" counters of `db_interface._check_sanity_arch_db`
  (one pass over the loaded instruction forms, appending to three lists).
-/
namespace OsacaVerif.Sanity
open OsacaVerif

structure FormNums where
  tp : Y
  lat : Y
  pp : Y
  deriving Inhabited

def isNull : Y → Bool
  | .null => true
  | _ => false

structure Counts where
  noTp : Nat := 0
  noLat : Nat := 0
  noPP : Nat := 0
  deriving Repr, DecidableEq

/-- the loop: three independent `if x is None: list.append(form)` -/
def sanityCounts (forms : List FormNums) : Counts :=
  forms.foldl (fun c f =>
    { noTp := if isNull f.tp then c.noTp + 1 else c.noTp,
      noLat := if isNull f.lat then c.noLat + 1 else c.noLat,
      noPP := if isNull f.pp then c.noPP + 1 else c.noPP }) {}

end OsacaVerif.Sanity
