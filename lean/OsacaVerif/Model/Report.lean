import OsacaVerif.Model.Fmt
import OsacaVerif.Gen.ReportConsts
/-
  Model of the report generator of osaca/frontend.py (C13): `combined_view` with its helpers
  (`_get_max_port_len`, `_get_separator_list`, `_get_port_number_line`, `_get_port_pressure`,
  `_get_lcd_cp_ports`, `_get_flag_symbols`, `_missing_instruction_error`), `loopcarried_dependencies`,
  `_user_warnings_header/_footer`, `_symbol_map`, `_header_report`, `full_analysis`, the parts of
  `full_analysis_dict` the property speaks about, and the option logic of `osaca.inspect`.

  Every literal (titles, warning texts, widths, symbols, threshold, default models) comes from
  `Gen.Report` which the translator regenerates from the source on every run.

  Floats are exact rationals.  Where the code prints `str(float)` (CP / LCD cells and sums) the
  model takes Python's `repr` text as an input next to the value (DESIGN §3); everything printed
  with a format precision (`{:.2f}`, `{:w.pf}`, `{:4.1f}`) is computed here, ties-to-even.
  Domain: doubles whose `repr` is positional (0 or 1e-4 ≤ |x| < 1e16) and not `-0.0`.
-/
namespace OsacaVerif.Report
open OsacaVerif.Text OsacaVerif.Fmt
open OsacaVerif.Gen.Report

/-- one kernel line as the front end sees it -/
structure Row where
  line : Nat
  press : List Rat          -- `port_pressure`
  used : List Bool          -- per port: is the port named in `port_uops`
  hasMnemonic : Bool
  flags : List Txt          -- `instruction_form.flags`
  text : Txt                -- `instruction_form.line` (raw)
deriving Inhabited

/-- one entry of `get_loopcarried_dependencies()` (dict order = list order) -/
structure Dep where
  key : Txt                 -- "3-5-7"
  lat : Rat                 -- ["latency"]
  latRepr : Txt             -- repr of that float
  root : Txt                -- ["root"].line (raw)
  members : List (Nat × Txt)  -- ["dependencies"]: (line number, repr of float(lat))
deriving Inhabited

structure Analysis where
  ports : List Txt
  rows : List Row
  cp : List (Nat × Txt)     -- `get_critical_path()`: (line number, repr of float(latency_cp))
  deps : List Dep
  ignoreUnknown : Bool
  tpSum : List Rat          -- `ArchSemantics.get_throughput_sum(kernel)` (empty if no line has throughput)
  cpSum : Txt               -- `str(sum(latency_cp of the critical path))`
deriving Inhabited

/-! ### layout -/

/-- `re.search(r"\d+", name)` -/
def firstDigits (t : Txt) : Option Txt :=
  match t.dropWhile (fun c => !isDigitC c) with
  | [] => none
  | r => some (spanDigits r).1

def sameGroup (a b : Txt) : Bool :=
  match firstDigits a, firstDigits b with
  | some x, some y => x == y
  | _, _ => false

/-- `_get_separator_list(separator, separator_2)` -/
def sepList (s s2 : Nat) : List Txt → List Nat
  | [] => [s]
  | [_] => [s]
  | a :: b :: r => (if sameGroup a b then s2 else s) :: sepList s s2 (b :: r)

/-- column `i` of the pressures -/
def column (rows : List Row) (i : Nat) : List Rat := rows.map (fun r => r.press.getD i 0)

/-- `_get_max_port_len`: per port `max(4, len("{:.2f}".format(v)))` over the kernel -/
def portLenOf (vals : List Rat) : Nat :=
  vals.foldl (fun m v => max m (fmtFixed v portLenDecimals).length) minPortLen

def maxPortLen (ports : List Txt) (rows : List Row) : List Nat :=
  (List.range ports.length).map (fun i => portLenOf (column rows i))

/-- the centred port names, each followed by its separator -/
def portSegs : List Txt → List Nat → List Nat → Txt
  | n :: ns, l :: ls, s :: ss => center (l + headerPad) n ++ s :: portSegs ns ls ss
  | _, _, _ => []

/-- `_get_port_number_line(port_len, separator)` -/
def portNumberLine (ports : List Txt) (plens : List Nat) (sep : Nat) : Txt :=
  sep :: portSegs ports plens (sepList sep headerGroupSep ports)

/-! ### cells -/

/-- the text of one pressure cell without the blank that follows it (see `portPressure`) -/
def cellBody (x : Rat) (used : Bool) (plen sep : Nat) : Txt :=
  if x.num = 0 && !used then spaces plen ++ [32, sep]
  else
    let ll := leftLen x
    let p := plen - ll - cellReserve
    if p = 0 then fmtFixed x fallbackDecimals ++ [sep]
    else padLeft ll (fmtFixed x p) ++ [32, sep]

def cellBodies : List Rat → List Bool → List Nat → List Nat → List Txt
  | x :: xs, u :: us, l :: ls, s :: ss => cellBody x u l s :: cellBodies xs us ls ss
  | _, _, _, _ => []

/-- `_get_port_pressure(ports, port_len, used_ports, separator)`:
    `"<last sep> " + Σ (cell + " ")` and then `[:-1]` -/
def portPressure (xs : List Rat) (used : List Bool) (plens seps : List Nat) : Txt :=
  ([seps.getLastD 124, 32] ++ (cellBodies xs used plens seps).flatMap (fun b => b ++ [32])).dropLast

/-- `_get_flag_symbols(flags)` -/
def flagSymbolsOf (flags : List Txt) : Txt :=
  let s := flagSymbols.filterMap (fun (sym, name) => if flags.contains name then some sym else none)
  if s.isEmpty then [32] else s

def isUnknown (r : Row) : Bool := r.flags.contains unknownFlag

/-- first maximal entry (`max(dep_dict, key=latency)`: replaced only by a strictly larger one) -/
def firstMax : List Dep → Option Dep
  | [] => none
  | d :: ds => some (ds.foldl (fun best e => if best.lat < e.lat then e else best) d)

/-- `lcd_lines.get(n)`: a dict comprehension keeps the last binding of a key -/
def lookupLast (n : Nat) : List (Nat × Txt) → Option Txt
  | [] => none
  | (k, v) :: r => match lookupLast n r with
    | some w => some w
    | none => if k = n then some v else none

/-- `_get_node_by_lineno(n, cp)` : first node with that line number -/
def lookupFirst (n : Nat) : List (Nat × Txt) → Option Txt
  | [] => none
  | (k, v) :: r => if k = n then some v else lookupFirst n r

def lcdMembers (a : Analysis) : List (Nat × Txt) :=
  match firstMax a.deps with
  | some d => d.members
  | none => []

/-- `lcd_sum` as printed: `str(0.0)` or the repr of the selected latency -/
def lcdSumRepr (a : Analysis) : Txt :=
  match firstMax a.deps with
  | some d => d.latRepr
  | none => [48, 46, 48]

/-- `_get_lcd_cp_ports`: `"| {:>4} | {:>4} |"` -/
def lcdCp (cp lcd : Txt) : Txt :=
  colSep :: 32 :: padLeft cellWidth cp ++ 32 :: colSep :: 32 :: padLeft cellWidth lcd ++ [32, colSep]

def cleanLine (t : Txt) : Txt := untab (strip t)

/-- one line of the table (without the newline) -/
def renderRow (a : Analysis) (plens seps : List Nat) (r : Row) : Txt :=
  padLeft rowNumWidth (natDigits r.line) ++ 32 ::
    portPressure r.press r.used plens seps ++
    lcdCp ((lookupFirst r.line a.cp).getD []) ((lookupLast r.line (lcdMembers a)).getD []) ++
    32 :: (if r.hasMnemonic then flagSymbolsOf r.flags else [32]) ++ 32 :: cleanLine r.text

/-- `_missing_instruction_error(amount)` -/
def missingError (n : Nat) : Txt :=
  missingPre ++ natDigits n ++ missingMid ++ dashes (natDigits n).length ++ missingPost

def numMissing (rows : List Row) : Nat := (rows.filter isUnknown).length

/-- the sums shown in the last line: `get_throughput_sum(kernel)` or, if that is empty, the first
    line's pressures -/
def sumsOf (a : Analysis) : List Rat :=
  if a.tpSum.isEmpty then (a.rows.headD default).press else a.tpSum

def summaryRow (a : Analysis) (plens : List Nat) : Txt :=
  let sums := sumsOf a
  linenoFiller ++
    portPressure sums (sums.map fun _ => false) plens (sums.map fun _ => 32) ++
    32 :: padLeft sumWidth a.cpSum ++ 32 :: 32 :: padLeft sumWidth (lcdSumRepr a) ++ [32, 32]

def showsTotals (a : Analysis) : Bool := a.ignoreUnknown || !(a.rows.any isUnknown)

/-- the lines of `combined_view` (each without its newline) -/
def tableLines (a : Analysis) : List Txt :=
  let plens := maxPortLen a.ports a.rows
  let seps := sepList colSep groupSep a.ports
  let lastLine := (a.rows.getLast?.map (·.line)).getD 0
  let sepLen := (plens.map (· + 3)).sum + (natDigits lastLine).length + sepTail
  let portLine := linenoFiller ++ portNumberLine a.ports plens colSep ++
    colSep :: center cpTitleWidth cpTitle ++ colSep :: center cpTitleWidth lcdTitle ++ [colSep]
  [center sepLen headline, portLine, dashes portLine.length] ++
    a.rows.map (renderRow a plens seps) ++ [[]] ++
    (if showsTotals a then [summaryRow a plens] else [])

def unlines (ls : List Txt) : Txt := ls.flatMap (fun l => l ++ [10])

/-- what follows the table lines: nothing (the totals line is a table line) or the missing-data warning -/
def tailTxt (a : Analysis) : Txt := if showsTotals a then [] else missingError (numMissing a.rows)

/-- `combined_view(kernel, cp_kernel, dep_dict, ignore_unknown)` -/
def combinedView (a : Analysis) : Txt :=
  combinedTitle ++ unlines (tableLines a) ++ tailTxt a

/-! ### LCD list, warnings, header -/

def insertKey (d : Dep) : List Dep → List Dep
  | [] => [d]
  | e :: r => if ltTxt d.key e.key then d :: e :: r else e :: insertKey d r

/-- `sorted(dep_dict.keys())` (keys of a dict are distinct) -/
def sortDeps (ds : List Dep) : List Dep := ds.foldr insertKey []

/-- `str([n1, n2, …])` -/
def listRepr (ns : List Nat) : Txt := 91 :: joinWith [44, 32] (ns.map natDigits) ++ [93]

/-- `int(key.split("-")[0])` -/
def keyHead (k : Txt) : Nat := natVal ((splitOn 45 k).headD [])

def lcdLine (d : Dep) : Txt :=
  padLeft lcdNumWidth (natDigits (keyHead d.key)) ++ 32 :: colSep :: 32 ::
    padLeft lcdLatWidth (fmtFixed d.lat lcdLatDecimals) ++ 32 :: colSep :: 32 ::
    padRight lcdRootWidth (strip d.root) ++ colSep :: 32 :: listRepr (d.members.map (·.1))

/-- `loopcarried_dependencies(dep_dict)` -/
def lcdList (a : Analysis) : Txt :=
  lcdTitle2 ++ unlines ((sortDeps a.deps).map lcdLine)

/-- `_user_warnings_header(arch_warning, length_warning)` -/
def warningsHeader (aw lw : Bool) : Txt :=
  (if aw then archWarning else []) ++ (if lw then lengthWarning else []) ++ [10]

/-- `_user_warnings_footer(lcd_warning)` -/
def warningsFooter (lcdw : Bool) : Txt :=
  10 :: (if lcdw then lcdWarning else []) ++ [10]

def insertTxt (d : Txt × Txt) : List (Txt × Txt) → List (Txt × Txt)
  | [] => [d]
  | e :: r => if ltTxt d.1 e.1 then d :: e :: r else e :: insertTxt d r

/-- `_symbol_map()` -/
def symbolMap : Txt :=
  (symbolTexts.foldr insertTxt []).flatMap (fun (flag, txt) =>
    32 :: flagSymbolsOf [flag] ++ [32, 45, 32] ++ txt ++ [10])

/-- `_header_report()` with the version, file name, ARCH and time stamp given -/
def headerReport (version file arch stamp : Txt) : Txt :=
  match headerLabels with
  | [l1, l2, l3] =>
    headerTitle ++ version ++ [10] ++ padRight headerAdjust l1 ++ file ++ [10] ++
      padRight headerAdjust l2 ++ arch ++ [10] ++ padRight headerAdjust l3 ++ stamp ++ [10, 10]
  | _ => []

/-- `full_analysis(...)` -/
def fullAnalysis (version file arch stamp : Txt) (aw lw lcdw : Bool) (a : Analysis) : Txt :=
  headerReport version file arch stamp ++ warningsHeader aw lw ++ symbolMap ++ combinedView a ++
    warningsFooter lcdw ++ lcdList a

/-! ### option logic of `osaca.inspect` -/

/-- `print_arch_warning = False if args.arch else True` -/
def archWarningFlag (archGiven : Bool) : Bool := !archGiven

/-- `print_length_warning`: no `--lines`, the kernel is the whole file, more than the threshold -/
def lengthWarningFlag (linesGiven : Bool) (kernelLen parsedLen : Nat) : Bool :=
  !linesGiven && kernelLen == parsedLen && decide (lengthThreshold < kernelLen)

/-- `DEFAULT_ARCHS[isa]` -/
def defaultArch (isa : Txt) : Option Txt := (defaultArchs.find? (fun e => e.1 == isa)).map (·.2)

/-- the `Warnings` list of `full_analysis_dict` -/
def dictWarningList (aw lw lcdw : Bool) (rows : List Row) : List Txt :=
  match dictWarnings with
  | [w1, w2, w3, w4] =>
    (if aw then [w1] else []) ++ (if lw then [w2] else []) ++ (if lcdw then [w3] else []) ++
      (if rows.any isUnknown then [w4] else [])
  | _ => []

/-- per line `LatencyLCD` of `full_analysis_dict` (member of the selected dependency, else 0) -/
def dictLatencyLcd (a : Analysis) (r : Row) : Option Txt := lookupLast r.line (lcdMembers a)

end OsacaVerif.Report
