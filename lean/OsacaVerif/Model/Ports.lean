import OsacaVerif.Model.Yaml
/-
  Port pressure: model of `MachineModel.average_port_pressure` (hw_model.py) and
  `ArchSemantics.get_throughput_sum` (arch_semantics.py), plus the vector helpers of the
  load/store composition path.
-/
namespace OsacaVerif.Ports
open OsacaVerif OsacaVerif.Text

/-- a micro-op after port names have been resolved to indices of the model's port list -/
structure Uop where
  cycles : Rat
  ports  : List Nat
  mult   : Rat := 1       -- load/store throughput multiplier (1 for register-form micro-ops)
  deriving Repr, Inhabited

def Uop.amount (u : Uop) : Rat := u.mult * u.cycles

/-- `v[i] += x` -/
def addAt : List Rat → Nat → Rat → List Rat
  | [], _, _ => []
  | v :: vs, 0, x => (v + x) :: vs
  | v :: vs, i + 1, x => v :: addAt vs i x

/-- inner loop: `for p in ports: average_pressure[index(p)] += c` -/
def addPorts (v : List Rat) (c : Rat) : List Nat → List Rat
  | [] => v
  | p :: ps => addPorts (addAt v p c) c ps

/-- outer loop of `average_port_pressure` (times the multiplier, as the composition path does) -/
def accumulate (v : List Rat) : List Uop → List Rat
  | [] => v
  | u :: us => accumulate (addPorts v (u.mult * (u.cycles / u.ports.length)) u.ports) us

def zeros (n : Nat) : List Rat := List.replicate n 0

/-- `average_port_pressure` on resolved micro-ops -/
def average (n : Nat) (us : List Uop) : List Rat := accumulate (zeros n) us

/-- closed form: every micro-op puts `amount / |ports|` on each of its ports (a port listed twice
    is counted twice, as in the code) -/
def share (u : Uop) (p : Nat) : Rat := (u.ports.count p : Rat) * (u.mult * (u.cycles / u.ports.length))
def uniform (n : Nat) (us : List Uop) : List Rat :=
  (List.range n).map fun p => (us.map (share · p)).sum

/-! ### from raw YAML (error behaviour of the Python code) -/

inductive Err where
  | keyError      -- port not in port list / missing option key
  | typeError     -- unpacking / arithmetic on a non-number / iteration over a number
  | valueError    -- wrong number of values to unpack
  deriving Repr, DecidableEq, Inhabited

def indexOf (ports : List Txt) (p : Txt) : Option Nat :=
  let i := ports.findIdx (· == p)
  if i < ports.length then some i else none

/-- map with early error (first failing element in list order decides the error) -/
def mapE {α β : Type} (f : α → Except Err β) : List α → Except Err (List β)
  | [] => .ok []
  | x :: xs =>
    match f x with
    | .error e => .error e
    | .ok y =>
      match mapE f xs with
      | .error e => .error e
      | .ok ys => .ok (y :: ys)

/-- the iteration `for p in ports` : a string yields its characters, a list its elements -/
def portItems : Y → Except Err (List Y)
  | .str t => .ok (t.map fun c => .str [c])
  | .list l => .ok l
  | _ => .error .typeError

/-- `port_list.index(p)`; anything that is not a string of the port list is a KeyError -/
def resolvePort (ports : List Txt) : Y → Except Err Nat
  | .str t => match indexOf ports t with
    | some i => .ok i
    | none => .error .keyError
  | _ => .error .keyError

/-- one element of a micro-op list: `cycles, ports = elem` -/
def resolveUop (ports : List Txt) : Y → Except Err Uop
  | .list [c, p] =>
    match portItems p with
    | .error e => .error e
    | .ok items =>
      match mapE (resolvePort ports) items with
      | .error e => .error e
      | .ok idx =>
        match c with
        | .num q => .ok { cycles := q, ports := idx }
        | _ => if idx.isEmpty then .ok { cycles := 0, ports := [] } else .error .typeError
  | .list _ => .error .valueError
  | .str t => if t.length == 2 then .error .typeError else .error .valueError
  | _ => .error .typeError

def isZeroKey : Y → Bool
  | .num q => q == 0
  | _ => false

def resolveList (ports : List Txt) : Y → Except Err (List Uop)
  | .list l => mapE (resolveUop ports) l
  | .map kv =>
    -- `port_pressure[option]` with option = 0
    match kv.find? (fun kv => isZeroKey kv.1) with
    | some (_, .list l) => mapE (resolveUop ports) l
    | some _ => .error .typeError
    | none => .error .keyError
  | _ => .error .typeError

/-- `MachineModel.average_port_pressure(pp)` on the raw YAML value -/
def averageY (ports : List Txt) (pp : Y) : Except Err (List Rat) :=
  match resolveList ports pp with
  | .ok us => .ok (average ports.length us)
  | .error e => .error e

/-! ### kernel totals -/

/-- Python `round(x, 2)` on an exact rational: nearest multiple of 1/100, ties to even. -/
def roundHalfEven (x : Rat) (digits : Nat) : Rat :=
  let s : Rat := (10 ^ digits : Nat)
  let y := x * s
  let f := y.floor
  let r := y - f
  let n : Int := if r < 1/2 then f else if r > 1/2 then f + 1 else (if f % 2 == 0 then f else f + 1)
  (n : Rat) / s

def addVec : List Rat → List Rat → List Rat
  | a :: as, b :: bs => (a + b) :: addVec as bs
  | _, _ => []          -- `zip` stops at the shorter list

def scale (m : Rat) (v : List Rat) : List Rat := v.map (m * ·)

/-- a kernel line as `get_throughput_sum` sees it -/
structure Line where
  tp : Rat
  pressure : List Rat
  deriving Repr, Inhabited

/-- column sums over the lines with `throughput != skip` (exact, before rounding) -/
def colSumsExact (skip : Rat) (k : List Line) : List Rat :=
  match k.filter (·.tp != skip) with
  | [] => []                                   -- `zip()` of nothing
  | l :: ls => ls.foldl (fun acc l' => addVec acc l'.pressure) l.pressure

/-- `get_throughput_sum` -/
def colSums (skip : Rat) (digits : Nat) (k : List Line) : List Rat :=
  (colSumsExact skip k).map (roundHalfEven · digits)

end OsacaVerif.Ports
