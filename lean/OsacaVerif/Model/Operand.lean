import OsacaVerif.Model.Text
import OsacaVerif.Model.Yaml
/-
  Operands as the instruction-form matcher (osaca/semantics/hw_model.py) sees them.

  * `POperand` — an operand of an instruction as the parsers (or the composition path of
    `assign_tp_lt`) hand it to `MachineModel.get_instruction`: only the attributes the matcher reads.
  * `EOperand` — an operand of a model entry after `MachineModel.operand_to_class`; the fields of a
    memory entry stay the raw YAML scalars (`Y`), because the matcher compares them with `==` against
    strings, numbers, `None` and booleans, and the model reproduces those comparisons.
  * `Entry`, `loadEntries` — `MachineModel.__init__`: alias-list expansion (appended at the END of
    the form list), upper-casing of names, operand class conversion.
-/
namespace OsacaVerif.Operand
open OsacaVerif OsacaVerif.Text

inductive Isa where
  | x86 | a64
  deriving DecidableEq, Repr, Inhabited

/-- a `RegisterOperand` of an instruction: `name`, `prefix`, `shape`, `lanes` -/
structure PReg where
  name  : Txt
  pfx   : Option Txt := none
  shape : Option Txt := none
  lanes : Option Txt := none
  deriving DecidableEq, Repr, Inhabited

/-- `MemoryOperand.offset` of an instruction: `None`, an `ImmediateOperand` (with the one bit the
    matcher reads: `value == "0"` as a *string*), an `IdentifierOperand`, anything else -/
inductive POff where
  | none
  | imm (valueIsStr0 : Bool)
  | ident
  | other
  deriving DecidableEq, Repr, Inhabited

structure PMem where
  base   : Option PReg
  offset : POff
  index  : Option PReg
  scale  : Int
  pre    : Bool          -- `pre_indexed` (True / False)
  post   : Bool          -- `post_indexed` is a dict (`{"value": n}`), else `False`
  deriving DecidableEq, Repr, Inhabited

inductive POperand where
  | reg (r : PReg)
  | mem (m : PMem)
  | imm (type : Option Txt) (hasValue hasIdent : Bool)
  | ident
  | cond (cc : Txt)
  | prfop
  | wild               -- the `{"*": "*"}` dict of `substitute_mem_address`
  | other              -- any other object (directive, label, raw parse dict, …)
  deriving DecidableEq, Repr, Inhabited

/-- entry operand after `operand_to_class` -/
inductive EOperand where
  | reg (name pfx shape : Option Txt)
  | mem (base offset index scale pre post : Y)
  | imm (type : Y)
  | ident
  | cond (cc : Txt)
  | flag
  | prfop
  | other
  deriving Repr, Inhabited

/-- a loaded instruction form: upper-cased name, converted operands, the payload (`throughput`,
    `latency`, `port_pressure` as raw YAML) and where it came from (index of the YAML list element) -/
structure Entry where
  name : Txt
  operands : List EOperand
  tp : Y := .null
  lat : Y := .null
  pp : Y := .null
  raw : Nat := 0
  deriving Repr, Inhabited

/-! ### raw YAML access -/

def isStr (y : Y) (t : Txt) : Bool :=
  match y with
  | .str s => s == t
  | _ => false

/-- `d[key]` / `key in d` for a YAML mapping with string keys (first occurrence) -/
def getKey (kv : List (Y × Y)) (key : Txt) : Option Y :=
  match kv with
  | [] => none
  | (k, v) :: rest => if isStr k key then some v else getKey rest key

/-! key and class names as code points (the kernel cannot evaluate `String` operations) -/
def k_base : Txt := [98, 97, 115, 101]   -- "base"
def k_ccode : Txt := [99, 99, 111, 100, 101]   -- "ccode"
def k_class : Txt := [99, 108, 97, 115, 115]   -- "class"
def k_condition : Txt := [99, 111, 110, 100, 105, 116, 105, 111, 110]   -- "condition"
def k_flag : Txt := [102, 108, 97, 103]   -- "flag"
def k_identifier : Txt := [105, 100, 101, 110, 116, 105, 102, 105, 101, 114]   -- "identifier"
def k_imd : Txt := [105, 109, 100]   -- "imd"
def k_immediate : Txt := [105, 109, 109, 101, 100, 105, 97, 116, 101]   -- "immediate"
def k_index : Txt := [105, 110, 100, 101, 120]   -- "index"
def k_latency : Txt := [108, 97, 116, 101, 110, 99, 121]   -- "latency"
def k_memory : Txt := [109, 101, 109, 111, 114, 121]   -- "memory"
def k_name : Txt := [110, 97, 109, 101]   -- "name"
def k_offset : Txt := [111, 102, 102, 115, 101, 116]   -- "offset"
def k_operands : Txt := [111, 112, 101, 114, 97, 110, 100, 115]   -- "operands"
def k_port_pressure : Txt := [112, 111, 114, 116, 95, 112, 114, 101, 115, 115, 117, 114, 101]   -- "port_pressure"
def k_post_indexed : Txt := [112, 111, 115, 116, 95, 105, 110, 100, 101, 120, 101, 100]   -- "post_indexed"
def k_pre_indexed : Txt := [112, 114, 101, 95, 105, 110, 100, 101, 120, 101, 100]   -- "pre_indexed"
def k_prefix : Txt := [112, 114, 101, 102, 105, 120]   -- "prefix"
def k_prfop : Txt := [112, 114, 102, 111, 112]   -- "prfop"
def k_register : Txt := [114, 101, 103, 105, 115, 116, 101, 114]   -- "register"
def k_scale : Txt := [115, 99, 97, 108, 101]   -- "scale"
def k_shape : Txt := [115, 104, 97, 112, 101]   -- "shape"
def k_throughput : Txt := [116, 104, 114, 111, 117, 103, 104, 112, 117, 116]   -- "throughput"

/-- `x.lower() if x else None` of the `RegisterOperand` constructor (prefix, shape); a truthy
    non-string would raise: `none` on the outside -/
def lowerOrNone : Option Y → Option (Option Txt)
  | none => some none
  | some .null => some none
  | some (.str []) => some none
  | some (.str t) => some (some (lower t))
  | some (.bool false) => some none
  | some (.num q) => if q == 0 then some none else none
  | some _ => none

/-- optional string attribute passed through unchanged (`name`) -/
def optTxt : Option Y → Option (Option Txt)
  | none => some none
  | some .null => some none
  | some (.str t) => some (some t)
  | some _ => none

/-- `operand_to_class(o)`; `none` = the loader raises (missing key, wrong type) -/
def operandToClass : Y → Option EOperand
  | .map kv =>
    match getKey kv k_class with
    | none => none                                     -- KeyError 'class'
    | some c =>
      if isStr c k_register then
        match optTxt (getKey kv k_name), lowerOrNone (getKey kv k_prefix),
              lowerOrNone (getKey kv k_shape) with
        | some n, some p, some s => some (.reg n p s)
        | _, _, _ => none
      else if isStr c k_memory then
        match getKey kv k_base, getKey kv k_offset, getKey kv k_index, getKey kv k_scale with
        | some b, some o, some i, some s =>
          some (.mem b o i s ((getKey kv k_pre_indexed).getD (.bool false))
                             ((getKey kv k_post_indexed).getD (.bool false)))
        | _, _, _, _ => none
      else if isStr c k_immediate then
        match getKey kv k_imd with
        | some t => some (.imm t)
        | none => none
      else if isStr c k_identifier then some .ident
      else if isStr c k_condition then
        match getKey kv k_ccode with
        | some (.str t) => some (.cond (upper t))
        | _ => none
      else if isStr c k_flag then
        match getKey kv k_name with
        | some _ => some .flag
        | none => none
      else if isStr c k_prfop then some .prfop
      else some .other
  | _ => none

def mapOpt {α β : Type} (f : α → Option β) : List α → Option (List β)
  | [] => some []
  | x :: xs =>
    match f x, mapOpt f xs with
    | some y, some ys => some (y :: ys)
    | _, _ => none

/-- one raw form (already given one name) → entry -/
def formToEntry (raw : Nat) (name : Txt) (kv : List (Y × Y)) : Option Entry :=
  match getKey kv k_operands with
  | some (.list ops) =>
    match mapOpt operandToClass ops with
    | some eops =>
      some { name := upper name, operands := eops,
             tp := (getKey kv k_throughput).getD .null,
             lat := (getKey kv k_latency).getD .null,
             pp := (getKey kv k_port_pressure).getD .null, raw := raw }
    | none => none
  | _ => none

/-- the forms with a single name, in file order (with their raw index) -/
def singles : Nat → List Y → List (Option Entry)
  | _, [] => []
  | i, .map kv :: rest =>
    match getKey kv k_name with
    | some (.str n) => formToEntry i n kv :: singles (i + 1) rest
    | some (.list _) => singles (i + 1) rest
    | _ => none :: singles (i + 1) rest
  | i, _ :: rest => none :: singles (i + 1) rest

def aliasNames : List Y → Option (List Txt)
  | [] => some []
  | .str n :: rest => (aliasNames rest).map (n :: ·)
  | _ :: _ => none

/-- the forms whose `name` is a list, expanded name by name, in file order -/
def aliases : Nat → List Y → List (Option Entry)
  | _, [] => []
  | i, .map kv :: rest =>
    match getKey kv k_name with
    | some (.list ns) =>
      (match aliasNames ns with
       | some names => names.map (fun n => formToEntry i n kv)
       | none => [none]) ++ aliases (i + 1) rest
    | _ => aliases (i + 1) rest
  | i, _ :: rest => aliases (i + 1) rest

def sequenceOpt {α : Type} : List (Option α) → Option (List α)
  | [] => some []
  | some x :: xs => (sequenceOpt xs).map (x :: ·)
  | none :: _ => none

/-- `MachineModel.__init__` on `instruction_forms`: single-name forms keep their order, the expansions
    of list-named forms are appended at the end. `none` = the loader raises. -/
def loadEntries (forms : List Y) : Option (List Entry) :=
  sequenceOpt (singles 0 forms ++ aliases 0 forms)

end OsacaVerif.Operand
