import OsacaVerif.Model.Text
/-
  Raw YAML values as the loaders hand them to OSACA (after ruamel's safe construction):
  numbers are exact rationals (the decimal text of the YAML scalar), strings are code points.
-/
namespace OsacaVerif
open OsacaVerif.Text

inductive Y where
  | null
  | bool (b : Bool)
  | num (q : Rat)
  | str (t : Txt)
  | list (l : List Y)
  | map (kv : List (Y × Y))
  deriving Repr, Inhabited

end OsacaVerif
