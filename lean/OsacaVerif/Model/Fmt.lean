import OsacaVerif.Model.Text
/-
  Number and padding primitives of Python's `format` as used by osaca/frontend.py (C13).

  * `natDigits` / `natVal`     : `str(int)` and its inverse
  * `Shown`                    : a decimal literal *as shown* (sign, digits without the point, number of
                                 decimals); `renderShown` prints it, `parseNum` reads it back
  * `roundHE`, `shown`         : correctly rounded (ties-to-even) `p`-decimal of an exact rational -
                                 what `"{:.pf}".format(x)` prints for the double `x` (the harness sends
                                 the double exactly as `n/d`)
  * `padLeft/padRight/center`  : `{:>w}`, `{:<w}`, `{:^w}`

  Core Lean only.  Text is `List Nat` (code points).
-/
namespace OsacaVerif.Fmt
open OsacaVerif.Text

/-- value of a digit string (most significant first); non-digits are not checked here -/
def natVal (t : Txt) : Nat := t.foldl (fun a c => a * 10 + (c - 48)) 0

/-- digits of `n` with explicit fuel (structural recursion, so the kernel can evaluate it) -/
def natDigitsAux : Nat → Nat → Txt
  | 0, n => [48 + n % 10]
  | f + 1, n => if n < 10 then [48 + n] else natDigitsAux f (n / 10) ++ [48 + n % 10]

/-- `str(n)` for a natural number -/
def natDigits (n : Nat) : Txt := natDigitsAux n n

def spaces (n : Nat) : Txt := List.replicate n 32
def dashes (n : Nat) : Txt := List.replicate n 45

/-- `{:>w}` -/
def padLeft (w : Nat) (t : Txt) : Txt := spaces (w - t.length) ++ t
/-- `{:<w}` / `str.ljust` -/
def padRight (w : Nat) (t : Txt) : Txt := t ++ spaces (w - t.length)
/-- `{:^w}` of `format` (the odd blank goes to the right) -/
def center (w : Nat) (t : Txt) : Txt :=
  let pad := w - t.length
  spaces (pad / 2) ++ t ++ spaces (pad - pad / 2)

/-- a decimal literal as shown: `neg`, all digits without the point, number of decimals -/
structure Shown where
  neg : Bool
  mant : Nat
  decs : Nat
deriving DecidableEq, Repr, Inhabited

/-- `n / d` rounded to the nearest integer, ties to even (`d > 0`) -/
def roundHE (n d : Nat) : Nat :=
  let q := n / d
  let r := n % d
  if 2 * r < d then q else if d < 2 * r then q + 1 else if q % 2 = 0 then q else q + 1

def isNeg (x : Rat) : Bool := decide (x.num < 0)

/-- what `"{:.pf}".format(x)` shows: sign of `x`, `|x|·10^p` rounded half-even -/
def shown (x : Rat) (p : Nat) : Shown :=
  ⟨isNeg x, roundHE (x.num.natAbs * 10 ^ p) x.den, p⟩

/-- `r` as exactly `p` digits (leading zeros) -/
def fracDigits (p r : Nat) : Txt :=
  List.replicate (p - (natDigits r).length) 48 ++ natDigits r

def renderShown (s : Shown) : Txt :=
  (if s.neg then [45] else []) ++ natDigits (s.mant / 10 ^ s.decs) ++
    (if s.decs = 0 then [] else 46 :: fracDigits s.decs (s.mant % 10 ^ s.decs))

/-- `"{:.pf}".format(x)` -/
def fmtFixed (x : Rat) (p : Nat) : Txt := renderShown (shown x p)

/-- `len(str(float(x)).split(".")[0])` for a double whose `repr` is positional
    (`x = 0` or `1e-4 ≤ |x| < 1e16`): the sign and the digits of `⌊|x|⌋`. -/
def leftLen (x : Rat) : Nat :=
  (if isNeg x then 1 else 0) + (natDigits (x.num.natAbs / x.den)).length

/-- reads `digits(.digits)?` -/
def parseUnsigned (neg : Bool) (t1 : Txt) : Option (Shown × Txt) :=
  let sp := spanDigits t1
  if sp.1.isEmpty then none else
  match sp.2 with
  | 46 :: r =>
    let fp := spanDigits r
    some (⟨neg, natVal (sp.1 ++ fp.1), fp.1.length⟩, fp.2)
  | t2 => some (⟨neg, natVal sp.1, 0⟩, t2)

/-- reads `-?digits(.digits)?`; returns the literal and the rest -/
def parseNum : Txt → Option (Shown × Txt)
  | 45 :: r => parseUnsigned true r
  | t => parseUnsigned false t

/-- reads a natural number (at least one digit) -/
def parseNatPre (t : Txt) : Option (Nat × Txt) :=
  let (ip, r) := spanDigits t
  if ip.isEmpty then none else some (natVal ip, r)

/-- longest prefix satisfying `p`, and the rest (`List.span`, structurally) -/
def spanP {α : Type} (p : α → Bool) : List α → List α × List α
  | [] => ([], [])
  | c :: cs => if p c then ((c :: (spanP p cs).1), (spanP p cs).2) else ([], c :: cs)

def expect (c : Nat) : Txt → Option Txt
  | d :: r => if d = c then some r else none
  | [] => none

def expectSpaces : Nat → Txt → Option Txt
  | 0, t => some t
  | n + 1, t => match t with
    | 32 :: r => expectSpaces n r
    | _ => none

def expectTxt : Txt → Txt → Option Txt
  | [], t => some t
  | c :: cs, t => match t with
    | d :: r => if d = c then expectTxt cs r else none
    | [] => none

def skipSpaces : Txt → Txt
  | 32 :: r => skipSpaces r
  | t => t

/-- Python `str.strip()` on ASCII: blank, \t \n \v \f \r -/
def isWs (c : Nat) : Bool := c == 32 || (9 ≤ c && c ≤ 13)
def lstrip : Txt → Txt
  | c :: r => if isWs c then lstrip r else c :: r
  | [] => []
def rstrip : Txt → Txt
  | [] => []
  | c :: cs =>
    match rstrip cs with
    | [] => if isWs c then [] else [c]
    | r => c :: r
def strip (t : Txt) : Txt := rstrip (lstrip t)

/-- `.replace("\t", " ")` -/
def untab (t : Txt) : Txt := t.map (fun c => if c = 9 then 32 else c)

/-- `"sep".join(parts)` -/
def joinWith (sep : Txt) : List Txt → Txt
  | [] => []
  | [a] => a
  | a :: b :: r => a ++ sep ++ joinWith sep (b :: r)

/-- split at every occurrence of `c` (like `str.split(c)`) -/
def splitOn (c : Nat) : Txt → List Txt
  | [] => [[]]
  | d :: r =>
    match splitOn c r with
    | [] => [[d]]        -- unreachable
    | h :: tl => if d = c then [] :: h :: tl else (d :: h) :: tl

/-- lexicographic `<` on code points (Python `str` ordering) -/
def ltTxt : Txt → Txt → Bool
  | [], [] => false
  | [], _ :: _ => true
  | _ :: _, [] => false
  | a :: as, b :: bs => if a < b then true else if b < a then false else ltTxt as bs

end OsacaVerif.Fmt
