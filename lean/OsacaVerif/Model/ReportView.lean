import OsacaVerif.Model.Report
import OsacaVerif.Spec.ReportView
/-
  `view a`: what the text report of analysis `a` is *supposed* to show - the values of the
  machine-readable output at the shown precision - in the vocabulary of `Spec.Report`.
  `Props.C13.report_roundtrip` proves `parseTable (combinedView a) = some (view a)`.
-/
namespace OsacaVerif.Report
open OsacaVerif.Text OsacaVerif.Fmt OsacaVerif.Spec.Report
open OsacaVerif.Gen.Report

/-- precision at which a pressure `x` is shown in a column of width `plen` -/
def cellPrec (x : Rat) (plen : Nat) : Nat := plen - leftLen x - cellReserve

/-- a kernel-row cell: blank for an unused zero, else the value at the column's precision -/
def cellView (x : Rat) (used : Bool) (plen : Nat) : Option Shown :=
  if x.num = 0 && !used then none else some (shown x (cellPrec x plen))

def cellViews : List Rat → List Bool → List Nat → List (Option Shown)
  | x :: xs, u :: us, l :: ls => cellView x u l :: cellViews xs us ls
  | _, _, _ => []

def colsOf (ports : List Txt) (plens seps : List Nat) : List Col :=
  match ports, plens, seps with
  | n :: ns, l :: ls, s :: ss => ⟨n, l, s⟩ :: colsOf ns ls ss
  | _, _, _ => []

def rowView (a : Analysis) (plens : List Nat) (r : Row) : RowView :=
  { line := r.line
    cells := cellViews r.press r.used plens
    cp := (lookupFirst r.line a.cp).getD []
    lcd := (lookupLast r.line (lcdMembers a)).getD []
    flags := if r.hasMnemonic then
        flagSymbols.filterMap (fun (sym, name) => if r.flags.contains name then some sym else none)
      else []
    text := cleanLine r.text }

/-- a total: at the column's precision, or with `fallbackDecimals` when there is no room -/
def sumView (x : Rat) (plen : Nat) : Option Shown :=
  if x.num = 0 then none
  else if cellPrec x plen = 0 then some (shown x fallbackDecimals) else some (shown x (cellPrec x plen))

def sumViews : List Rat → List Nat → List (Option Shown)
  | x :: xs, l :: ls => sumView x l :: sumViews xs ls
  | _, _ => []

def tailView (a : Analysis) (plens : List Nat) : TailView :=
  if showsTotals a then
    .summary ((sumViews (sumsOf a) plens).filterMap id) a.cpSum (lcdSumRepr a)
  else .missing (numMissing a.rows)

def view (a : Analysis) : TableView :=
  let plens := maxPortLen a.ports a.rows
  { cols := colsOf a.ports plens (sepList colSep groupSep a.ports)
    rows := a.rows.map (rowView a plens)
    tail := tailView a plens }

def lcdView (d : Dep) : LcdView :=
  ⟨keyHead d.key, shown d.lat lcdLatDecimals, d.members.map (·.1)⟩

end OsacaVerif.Report
