import OsacaVerif.Model.Text
/-
  Text functions used by the benchmark importer (C20): Python's `str.strip`, `str.split(sep)`,
  `str.split()`, `"sep".join`, `str.endswith`, and `float(token)` for plain decimals.
  ASCII behaviour only; text is `List Nat` (code points).
-/
namespace OsacaVerif.ImportText
open OsacaVerif.Text

/-- ASCII whitespace as stripped by `str.strip()` / split by `str.split()` -/
def isSpaceC (c : Nat) : Bool := c == 32 || (9 ≤ c && c ≤ 13) || (28 ≤ c && c ≤ 31)

def lstrip : Txt → Txt
  | [] => []
  | c :: cs => if isSpaceC c then lstrip cs else c :: cs

/-- `s.rstrip()` -/
def rstrip : Txt → Txt
  | [] => []
  | c :: cs =>
    match rstrip cs with
    | [] => if isSpaceC c then [] else [c]
    | r => c :: r

def strip (t : Txt) : Txt := rstrip (lstrip t)

/-- `s.split(sep)` for a one-character separator: always at least one field -/
def splitOn (sep : Nat) : Txt → List Txt
  | [] => [[]]
  | c :: cs =>
    if c == sep then [] :: splitOn sep cs
    else
      match splitOn sep cs with
      | [] => [[c]]           -- unreachable: `splitOn` never returns `[]`
      | f :: fs => (c :: f) :: fs

/-- `sep.join(fields)` -/
def join (sep : Nat) : List Txt → Txt
  | [] => []
  | [f] => f
  | f :: g :: fs => f ++ sep :: join sep (g :: fs)

/-- `s.split()`: maximal runs of non-whitespace -/
def splitWs : Txt → List Txt
  | [] => []
  | c :: cs =>
    if isSpaceC c then splitWs cs
    else
      match cs with
      | [] => [[c]]
      | d :: _ =>
        if isSpaceC d then [c] :: splitWs cs
        else
          match splitWs cs with
          | [] => [[c]]       -- unreachable
          | f :: fs => (c :: f) :: fs

/-- `s.endswith(suf)` -/
def endsWith (t suf : Txt) : Bool := suf.isSuffixOf t

def digitsVal (ds : Txt) : Nat := ds.foldl (fun acc c => acc * 10 + (c - 48)) 0

def pow10 (k : Nat) : Rat := ((10 ^ k : Nat) : Rat)

/-- `float(tok)` for tokens of the shape `[+-]? digits [. digits]` / `[+-]? . digits`
    (exact decimal value; exponents, `inf`, `nan`, `_` are not modelled: `none`). -/
def parseDecimal (t : Txt) : Option Rat :=
  let (neg, body) :=
    match t with
    | 45 :: r => (true, r)
    | 43 :: r => (false, r)
    | r => (false, r)
  let (ip, rest) := spanDigits body
  let fp? : Option Txt :=
    match rest with
    | [] => some []
    | 46 :: r => let (fp, rest2) := spanDigits r; if rest2.isEmpty then some fp else none
    | _ => none
  match fp? with
  | none => none
  | some fp =>
    if ip.isEmpty && fp.isEmpty then none
    else
      let v : Rat := (digitsVal ip : Rat) + (digitsVal fp : Rat) / pow10 fp.length
      some (if neg then -v else v)

end OsacaVerif.ImportText
