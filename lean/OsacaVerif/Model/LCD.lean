import OsacaVerif.Model.DG
/-
  Loop-carried dependencies (`KernelDG.check_for_loopcarried_dep`) and critical path
  (`KernelDG.get_critical_path`) on top of the dependency-graph model.
-/
namespace OsacaVerif.LCD
open OsacaVerif OsacaVerif.DG

/-- `offset` of the second kernel copy: `max(floor, max line + 1)` -/
def offsetOf (floor : Nat) (k : List Ins) : Nat := max floor ((k.map (·.line)).foldl max 0 + 1)

def double (off : Nat) (k : List Ins) : List Ins := k ++ k.map (fun i => { i with line := i.line + off })

/-- successors of an instruction node with weights -/
def succs (es : List Edge) (n : Nat) : List (Nat × Rat) :=
  es.filterMap fun e => if !e.src.load && e.src.line == n && !e.dst.load then some (e.dst.line, e.w) else none

/-- all simple paths `src ⇝ tgt` (as edge lists `(from, weight)`), DFS with fuel = number of nodes -/
def pathsFrom (es : List Edge) (tgt : Nat) : Nat → Nat → List Nat → List (List (Nat × Rat))
  | 0, _, _ => []
  | fuel + 1, cur, visited =>
    (succs es cur).flatMap fun (nxt, w) =>
      if nxt == tgt then [[(cur, w)]]
      else if visited.contains nxt then []
      else (pathsFrom es tgt fuel nxt (nxt :: visited)).map (fun p => (cur, w) :: p)

/-- insertion sort on (line, latency) pairs — `lat_path.sort()` -/
def insertPair (x : Nat × Rat) : List (Nat × Rat) → List (Nat × Rat)
  | [] => [x]
  | y :: ys => if x.1 < y.1 || (x.1 == y.1 && x.2 ≤ y.2) then x :: y :: ys else y :: insertPair x ys
def sortPairs (l : List (Nat × Rat)) : List (Nat × Rat) := l.foldr insertPair []

structure Entry where
  lines : List Nat          -- ascending, line numbers of the first iteration
  lats : List Rat           -- edge latency leaving the corresponding line
  latency : Rat
  deriving Repr, Inhabited

def pairsEq (a b : List (Nat × Rat)) : Bool :=
  a.length == b.length && (a.zip b).all (fun (x, y) => x.1 == y.1 && x.2 == y.2)

/-- post-processing of the path list: map back, sort, de-duplicate (keep first) -/
def post (off : Nat) (paths : List (List (Nat × Rat))) : List Entry :=
  let norm := paths.map fun p => sortPairs (p.map fun (s, w) => (if s ≥ off then s - off else s, w))
  let rec dedup (seen : List (List (Nat × Rat))) : List (List (Nat × Rat)) → List (List (Nat × Rat))
    | [] => []
    | p :: ps => if seen.any (pairsEq p) then dedup seen ps else p :: dedup (p :: seen) ps
  (dedup [] norm).map fun p => { lines := p.map (·.1), lats := p.map (·.2), latency := (p.map (·.2)).sum }

/-- the whole LCD computation (sequential search) -/
def lcd (isa : Isa) (flagDeps : Bool) (par : Params) (floor : Nat) (k : List Ins) : List Entry :=
  let off := offsetOf floor k
  let es := create isa flagDeps par (double off k)
  let fuel := 2 * k.length + 1
  post off (k.flatMap fun i => pathsFrom es (i.line + off) fuel i.line [i.line])

/-! ### critical path (the code as it is; see Props/C04 for what it does and does not guarantee) -/

/-- successors of any node (load nodes included) -/
def succsN (es : List Edge) (n : Node) : List (Node × Rat) :=
  es.filterMap fun e => if e.src == n then some (e.dst, e.w) else none

def nodesOf (k : List Ins) (es : List Edge) : List Node :=
  k.flatMap fun i => (if es.any (fun e => e.src == ⟨i.line, true⟩) then [⟨i.line, true⟩] else []) ++ [⟨i.line, false⟩]

/-- all maximal-or-not paths from a node, with their edge-weight sums (DFS; the graph is a DAG with
    forward edges, fuel = number of nodes) -/
def allPaths (es : List Edge) : Nat → Node → List (List Node × Rat)
  | 0, n => [([n], 0)]
  | fuel + 1, n =>
    ([n], 0) :: (succsN es n).flatMap fun (m, w) =>
      (allPaths es fuel m).map fun (p, s) => (n :: p, s + w)

/-- what `get_critical_path` reports when `dag_longest_path` returns `path`:
    the marked lines and their `latency_cp` values -/
def cpReport (k : List Ins) (es : List Edge) (path : List Node) : List (Nat × Rat) :=
  let latOf (l : Nat) : Rat := match k.find? (·.line == l) with | some i => i.lat | none => 0
  let edgeW (a b : Node) : Rat := match es.find? (fun e => e.src == a && e.dst == b) with | some e => e.w | none => 0
  let rec assign (acc : List (Nat × Rat)) : List Node → List (Nat × Rat)
    | a :: b :: rest =>
      -- `node.latency_cp = edge latency` (assignment: a later pair with the same line overwrites)
      assign ((acc.filter (·.1 != a.line)) ++ [(a.line, edgeW a b)]) (b :: rest)
    | [a] => (acc.filter (·.1 != a.line)) ++ [(a.line, latOf a.line)]
    | [] => acc
  let cp := assign [] path
  -- report in kernel order
  k.filterMap fun i => (cp.find? (·.1 == i.line)).map fun e => (i.line, e.2)

/-- candidates: one report per path of maximal edge-weight sum (networkx' tie-breaking is not modelled;
    the implementation's result must be one of them), or the single slowest instruction when its
    latency exceeds that sum -/
def cpCandidates (k : List Ins) (es : List Edge) : List (List (Nat × Rat)) :=
  let nodes := nodesOf k es
  let fuel := nodes.length
  let all := nodes.flatMap (allPaths es fuel)
  let best : Rat := all.foldl (fun (m : Rat) (ps : List Node × Rat) => if m < ps.2 then ps.2 else m) 0
  let maxLat : Rat := (k.map (·.lat)).foldl (fun (m : Rat) (x : Rat) => if m < x then x else m) 0
  if best < maxLat then
    (k.filter (·.lat == maxLat)).map fun i => [(i.line, i.lat)]
  else
    (all.filter (fun (_, s) => s == best)).map fun (p, _) => cpReport k es p

end OsacaVerif.LCD

namespace OsacaVerif.LCD
open OsacaVerif OsacaVerif.DG

/-! ### critical path, repaired code (`get_critical_path` after the fix): one pass over the lines in order -/

structure CpRow where
  line : Nat
  longer : Option (Rat × Nat)      -- best chain with ≥ 2 instructions ending here (without own latency), predecessor
  carried : Rat × Option Nat        -- what a chain brings into a successor of this line, predecessor
  deriving Repr, Inhabited

/-- weight of the separately modelled load stage `line.1 → line` (0 if there is none) -/
def loadEdgeOf (es : List Edge) (l : Nat) : Rat :=
  match es.find? (fun e => e.src == ⟨l, true⟩ && e.dst == ⟨l, false⟩) with
  | some e => e.w
  | none => 0

/-- Python `max(candidates, key=value)`: the first maximal element -/
def firstMax : List (Rat × Nat) → Option (Rat × Nat)
  | [] => none
  | c :: cs => some (cs.foldl (fun (m : Rat × Nat) (x : Rat × Nat) => if m.1 < x.1 then x else m) c)

def cpStep (es : List Edge) (acc : List CpRow) (i : Ins) : List CpRow :=
  let ls := loadEdgeOf es i.line
  let cands := es.filterMap fun e =>
    if !e.src.load && !e.dst.load && e.dst.line == i.line then
      (acc.find? (·.line == e.src.line)).map fun r => (r.carried.1 + e.w, e.src.line)
    else none
  let longer := firstMax cands
  let carried : Rat × Option Nat := match longer with
    | some (v, p) => if ls < v then (v, some p) else (ls, none)
    | none => (ls, none)
  acc ++ [{ line := i.line, longer := longer, carried := carried }]

def cpTable (k : List Ins) (es : List Edge) : List CpRow := k.foldl (cpStep es) []

def chainLengthAt (k : List Ins) (t : List CpRow) (i : Ins) : Rat :=
  (match (t.find? (·.line == i.line)).bind (·.longer) with | some (v, _) => v | none => 0) + i.lat

/-- the reported critical-path total: the largest `chain_length` over the lines (0 for an empty kernel) -/
def cpTotal (k : List Ins) (es : List Edge) : Rat :=
  let t := cpTable k es
  match k.map (chainLengthAt k t) with
  | [] => 0
  | v :: vs => vs.foldl (fun (m : Rat) x => if m < x then x else m) v

end OsacaVerif.LCD
