import OsacaVerif.Model.ParseA64
import OsacaVerif.Spec.RenderA64
/-
  Executable membership test for the domain of the round-trip theorem `Props.C10.a64_roundtrip`
  (well-formed instruction ASTs in valid operand order, admissible layouts).  The driver evaluates it on
  every generated AST (op `a64domain`); `Props/C10.lean` proves that it implies the theorem's hypotheses.
-/
namespace OsacaVerif.ParseA64.Domain
open OsacaVerif.Text OsacaVerif.Spec.A64 OsacaVerif.Gen OsacaVerif.ParseA64

def aliasTextsB : List Txt :=
  [ofString "sp", ofString "wsp", ofString "SP", ofString "WSP",
   ofString "xzr", ofString "wzr", ofString "XZR", ofString "WZR"]
def scaleOpsB : List Txt := [ofString "lsl", ofString "uxtw", ofString "sxtw", ofString "sxtx"]
def condLitsB : List Txt := A64.conditions.map lower
def prfWordsB : List Txt := [ofString "pld", ofString "pst"]
def regLettersB : List Nat := ofString "xwbhsdqvzp"

def lanesOkB (lanes : Option Txt) : Bool :=
  match lanes with
  | none => true
  | some l => !l.isEmpty && l.all isLaneC
def shapeOkB (shape : Option Nat) : Bool :=
  match shape with
  | none => true
  | some s => isAlphaC s

def elemOkB : ElemA → Bool
  | .scalar p _ => isScalarPrefixC p
  | .vec p _ lanes shape => isVectorPrefixC p && lanesOkB lanes && shapeOkB shape

def predTailOkB : PredTail → Bool
  | .none => true
  | .pred c => isPredicationC c
  | .shape lanes s => lanesOkB lanes && isAlphaC s

def digitsB (t : Txt) : Bool := !t.isEmpty && t.all isDigitC

def ciPrefixB : Txt → Txt → Bool
  | [], _ => true
  | _ :: _, [] => false
  | a :: l, c :: w => lowerC c == a && ciPrefixB l w

def regLikeB (name : Txt) : Bool :=
  match name with
  | c :: d :: _ => regLettersB.contains (lowerC c) && isDigitC d
  | _ => false
def aliasLikeB (name : Txt) : Bool :=
  [ofString "sp", ofString "zr"].any (fun a => startsWith (lower name) a || startsWith ((lower name).drop 1) a)

def nameShapeB (name : Txt) : Bool :=
  match name with
  | c :: w => isIdFirstC c && w.all isIdRestC
  | [] => false

/-- a label name: not spelled like a register, an alias or a condition code, not itself a shift / extend
    operator (`lsl`; names that merely begin with one — `lsl_loop`, `rorx` — are inside: the operator
    ends at a word boundary), not beginning with a prefetch type -/
def identNameOkB (name : Txt) : Bool :=
  nameShapeB name && !regLikeB name && !aliasLikeB name && !condLitsB.contains (lower name) &&
  !A64.shiftOps.contains (lower name) && prfWordsB.all (fun sw => !ciPrefixB sw name)

def hexDigitB (up : Bool) (d : Nat) : Nat := if d < 10 then 48 + d else if up then 55 + d else 87 + d

/-- a decimal numeral without leading zeros, or `0x` + a hexadecimal numeral (lower or upper case) -/
def offOkB (o : Option Txt) : Bool :=
  match o with
  | none => true
  | some x =>
    x == showNat (natOfDigits 10 x) ||
    (match x with
     | 48 :: 120 :: h => h == showBase 16 (hexDigitB false) (natOfDigits 16 h) ||
                         h == showBase 16 (hexDigitB true) (natOfDigits 16 h)
     | _ => false)

def relocOkB (r : Option Txt) : Bool :=
  match r with
  | none => true
  | some x => !x.isEmpty && x.all isRelocC

def identOkB (i : IdentA) : Bool :=
  nameShapeB i.name && relocOkB i.reloc && offOkB i.off &&
  (i.hash || i.reloc.isSome || identNameOkB i.name)

def memRegOkB : RegA → Bool
  | .scalar p _ => isScalarPrefixC p
  | .alias t => aliasTextsB.contains t
  | _ => false

def midOkB : MemMidA → Bool
  | .none => true
  | .off (.int _) => true
  | .off (.ident i) => identOkB i
  | .idx r s => memRegOkB r && (match s with | none => true | some x => scaleOpsB.contains (lower x.op))

def memOkB (m : MemA) : Bool := memRegOkB m.base && midOkB m.mid && (!m.pre || m.post.isNone)

def expOkB (e : Option (Nat × Nat × Txt)) : Bool :=
  match e with
  | none => true
  | some x => lowerC x.1 == 101 && isSignC x.2.1 && digitsB x.2.2
def fOkB (f : Option Nat) : Bool :=
  match f with
  | none => true
  | some c => lowerC c == 102

/-- `last`: the operand is the last one; `fst`: it is the first one -/
def opOkB (last fst : Bool) : OpA → Bool
  | .reg (.scalar p _) => isScalarPrefixC p
  | .reg (.alias t) => aliasTextsB.contains t
  | .reg (.vec p _ lanes shape _) => isVectorPrefixC p && lanesOkB lanes && shapeOkB shape
  | .reg (.pred p _ tail) => lowerC p == 112 && predTailOkB tail
  | .list es _ => !es.isEmpty && es.all elemOkB
  | .range first _ _ => elemOkB first
  | .int _ => true
  | .flt _ _ ip fp e f => digitsB ip && digitsB fp && expOkB e && fOkB f
  | .shimm _ _ _ op _ _ => scaleOpsB.contains (lower op)
  | .cond c => !fst && condLitsB.contains (lower c)
  | .ident i => identOkB i
  | .prf t g p => fst && (A64.prfTypes.map lower).contains (lower t) && (A64.prfTargets.map lower).contains (lower g)
      && (A64.prfPolicies.map lower).contains (lower p)
  | .mem m => last && memOkB m

def kindsOkB : Bool → List OpA → Bool
  | _, [] => true
  | fst, o :: os => opOkB os.isEmpty fst o && kindsOkB false os

def wordOkB (w : Txt) : Bool := !w.isEmpty && w.all isPrintC

def instrOkB (a : InstrA) : Bool :=
  (match a.mn with
   | m :: ms => (m :: ms).all isMnemC && m != 46
   | [] => false) &&
  decide (a.ops.length ≤ 5) &&
  (match a.comment with
   | none => true
   | some ws => ws.all wordOkB)

def layoutOkB : List Piece → List Txt → Bool
  | [], gs => match gs with | [g] => g.all isBlankC | _ => false
  | p :: ps, g :: gs => g.all isBlankC && (p.2 != 2 || !g.isEmpty) && layoutOkB ps gs
  | _ :: _, [] => false

/-- the AST and its layout are inside the domain of `a64_roundtrip` -/
def inDomain (a : InstrA) (gaps : List Txt) : Bool :=
  instrOkB a && kindsOkB true a.ops && layoutOkB (linePieces a) gaps

end OsacaVerif.ParseA64.Domain
