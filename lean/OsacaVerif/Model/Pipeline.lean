import OsacaVerif.Model.Marker
import OsacaVerif.Model.CpMark
import OsacaVerif.Model.LcdPost
import OsacaVerif.Model.Ports
import OsacaVerif.Model.Report
import OsacaVerif.Gen.Consts
/-
  The analysis pipeline of `osaca.osaca.inspect` under `--fixed`, composed from the stage models:

      parsed + matched file
        │  kernel selection    `reduce_to_section` / `--lines`     Model/Marker  (C11)
        ▼
      kernel (list of instruction forms, non-instruction lines included)
        │  dependency graph    `KernelDG.create_DG`                 Model/DG      (C03, C06)
        │  critical path       `KernelDG.get_critical_path`         Model/LCD, Model/CpMark (C04)
        │  loop-carried deps   `check_for_loopcarried_dep`          Model/LCD, Model/LcdPost (C05, C16)
        │  column sums         `ArchSemantics.get_throughput_sum`   Model/Ports   (C01)
        ▼
      analysis record  ──►  `Report.Analysis` (what `Frontend.full_analysis` renders; Model/Report, C13)

  The cut.  Input is the file *after* `parse_file` and with the per-instruction data that
  `ArchSemantics.add_semantics` (`assign_src_dst`, `assign_tp_lt`; C03Roles, C07, C08) puts on an
  instruction form: semantic operands, latency, latency without load, throughput, (uniform)
  port pressure, flags, register changes.  For a line WITHOUT a mnemonic (comment, label,
  directive) that data is not an input: the model computes what the code computes for it
  (`noiseSem`: no operands, zeros, no register changes — the first branches of `assign_src_dst`,
  `assign_tp_lt` and `get_reg_changes`).  Nothing here re-models a stage; the definitions below
  only plug the existing models together.
-/
namespace OsacaVerif.Pipeline
open OsacaVerif OsacaVerif.Text

/-- what `add_semantics` leaves on an instruction form (as far as the later stages read it) -/
structure Sem where
  src : List DG.Op := []
  dst : List DG.Op := []
  srcDst : List DG.Op := []
  lat : Rat := 0
  latWoLoad : Option Rat := some 0
  hasLd : Bool := false          -- HAS_LD ∈ flags
  isLd : Bool := false           -- LD ∈ flags
  changes : List (Txt × Option DG.Change) := []       -- get_reg_changes(iform)
  changesPost : List (Txt × Option DG.Change) := []   -- get_reg_changes(iform, only_postindexed=True)
  tp : Rat := 0
  pressure : List Rat := []
  used : List Bool := []         -- per port: named in `port_uops`
  flags : List Txt := []
  deriving Repr, Inhabited

/-- a parsed line: what kernel selection sees of it (`Marker.Line`, C11's abstraction), the
    semantic data of an instruction line, and the raw text for the report -/
structure PLine where
  sel : Marker.Line
  sem : Sem := {}
  text : Txt := []
  deriving Repr

def PLine.num (l : PLine) : Nat := l.sel.num
def PLine.isInstr (l : PLine) : Bool := l.sel.mnem.isSome

/-- what the code stores on a line without mnemonic: `semantic_operands` all empty
    (`assign_src_dst`), throughput = latency = latency_wo_load = 0.0, zero pressure, no micro-ops
    (`assign_tp_lt`), `get_reg_changes` = {} -/
def noiseSem (nports : Nat) : Sem :=
  { latWoLoad := some 0, pressure := Ports.zeros nports, used := List.replicate nports false }

/-- the semantic data the later stages work with -/
def semOf (nports : Nat) (l : PLine) : Sem := if l.isInstr then l.sem else noiseSem nports

/-- the instruction form as `KernelDG` sees it -/
def toIns (nports : Nat) (l : PLine) : DG.Ins :=
  let s := semOf nports l
  { line := l.num, src := s.src, dst := s.dst, srcDst := s.srcDst, lat := s.lat, latWoLoad := s.latWoLoad,
    hasLd := s.hasLd, isLd := s.isLd, changes := s.changes, changesPost := s.changesPost }

/-- the instruction form as `get_throughput_sum` sees it -/
def toPorts (nports : Nat) (l : PLine) : Ports.Line :=
  let s := semOf nports l
  { tp := s.tp, pressure := s.pressure }

/-! ### kernel selection (thin wrappers: `Marker.*` work on `Marker.Line`, here the payload is kept) -/

inductive Mode where
  /-- no `--lines`: `reduce_to_section(parsed_code, isa)` (whole file if there is no marker) -/
  | markers (isa : Txt)
  /-- `--lines <spec>` -/
  | lines (spec : Txt)
  deriving Repr

inductive Outcome (α : Type) where
  | ok (a : α)
  /-- `ValueError("ISA not supported.")` -/
  | badIsa
  /-- an exception out of `find_marked_section` -/
  | raised
  /-- `get_line_range` raises `ValueError` -/
  | badLines
  /-- an empty kernel: `max([])` in `check_for_loopcarried_dep` raises `ValueError` -/
  | emptyKernel
  deriving Repr

/-- `kernel[start:end]` with the `-1` defaults (= `Marker.slice`, for any element type) -/
def sliceOf {α : Type} (xs : List α) (se : Option Nat × Option Nat) : List α :=
  (xs.take (se.2.getD xs.length)).drop (se.1.getD 0)

/-- the marker configuration `reduce_to_section` dispatches to -/
def cfgOf (isa : Txt) : Option Marker.Cfg :=
  let isa := if Gen.isaLowered then lower isa else isa
  if isa = Gen.x86IsaName then some Marker.x86Cfg
  else if isa = Gen.a64IsaName then some Marker.a64Cfg
  else none

def selectWith (c : Marker.Cfg) (file : List PLine) : Option (List PLine) :=
  (Marker.findMarkedSection c (file.map (·.sel))).map (sliceOf file)

def selectMarkers (file : List PLine) (isa : Txt) : Outcome (List PLine) :=
  match cfgOf isa with
  | none => .badIsa
  | some c =>
    match selectWith c file with
    | some k => .ok k
    | none => .raised

/-- `[line for line in parsed_code if line.line_number in line_range]` -/
def selectRange (r : List Int) (file : List PLine) : List PLine :=
  file.filter (fun l => r.contains (l.num : Int))

def select (mode : Mode) (file : List PLine) : Outcome (List PLine) :=
  match mode with
  | .markers isa => selectMarkers file isa
  | .lines spec =>
    match Marker.getLineRange spec with
    | some r => .ok (selectRange r file)
    | none => .badLines

/-! ### the analysis of a kernel -/

structure Cfg where
  isa : DG.Isa
  flagDeps : Bool := false       -- `--consider-flag-deps`
  par : DG.Params := {}          -- store_to_load_forward_latency, p_index_latency of the model
  floor : Nat := 1000            -- the `1000` of `offset = max(1000, max line + 1)`
  nports : Nat

/-- the per-line numbers the report shows -/
structure Row where
  line : Nat
  instr : Bool
  lat : Rat
  latWoLoad : Option Rat
  tp : Rat
  pressure : List Rat
  deriving Repr, DecidableEq

/-- `(lat_sum, lat_path)` of one loop-carried dependency, from an entry of `LCD.lcd` -/
def entryOf (e : LCD.Entry) : LcdPost.Entry := (e.latency, e.lines.zip e.lats)

/-- `max(dep_dict, key=latency)`: the first maximal entry of the (insertion-ordered) dictionary -/
def firstMaxDep : List (List Nat × LcdPost.Entry) → Option (List Nat × LcdPost.Entry)
  | [] => none
  | d :: ds => some (ds.foldl (fun best e => if best.2.1 < e.2.1 then e else best) d)

structure Analysis where
  rows : List Row
  /-- `KernelDG.dg`: edges in insertion order, load nodes as `Node.load` -/
  edges : List DG.Edge
  /-- the longest chain (= Σ `latency_cp` over the marked lines, `Props.C04.cp_lines_sum`) -/
  cpTotal : Rat
  /-- `get_critical_path()`: marked lines with their `latency_cp` -/
  cpMarks : List (Nat × Rat)
  /-- the loop-carried dependencies as found (arrival order, de-duplicated) -/
  lcd : List LCD.Entry
  /-- `get_loopcarried_dependencies()`: the insertion-ordered dictionary, key = member lines -/
  lcdDict : List (List Nat × LcdPost.Entry)
  /-- `lcd_sum` of the report: latency of the first maximal entry, 0 without any -/
  lcdFigure : Rat
  /-- `lcd_lines` of the report: members of that entry with the latency of their outgoing edge -/
  lcdMarks : List (Nat × Rat)
  /-- `ArchSemantics.get_throughput_sum(kernel)` -/
  colSums : List Rat
  deriving Repr

def rowOf (nports : Nat) (l : PLine) : Row :=
  let s := semOf nports l
  { line := l.num, instr := l.isInstr, lat := s.lat, latWoLoad := s.latWoLoad, tp := s.tp, pressure := s.pressure }

/-- graph ∘ critical path ∘ loop-carried dependencies ∘ column sums, on the three views of a kernel -/
def analyzeCore (c : Cfg) (ins : List DG.Ins) (rows : List Row) (ports : List Ports.Line) : Analysis :=
  let es := DG.create c.isa c.flagDeps c.par ins
  let l := LCD.lcd c.isa c.flagDeps c.par c.floor ins
  let dict := LcdPost.postE (l.map entryOf)
  let best := firstMaxDep dict
  { rows := rows
    edges := es
    cpTotal := LCD.cpTotal ins es
    cpMarks := LCD.cpMarks ins es
    lcd := l
    lcdDict := dict
    lcdFigure := match best with | some d => d.2.1 | none => 0
    lcdMarks := match best with | some d => d.2.2 | none => []
    colSums := Ports.colSums Gen.tpSumSkipValue Gen.tpSumDigits ports }

/-- the analysis of a selected kernel -/
def analyze (c : Cfg) (k : List PLine) : Analysis :=
  analyzeCore c (k.map (toIns c.nports)) (k.map (rowOf c.nports)) (k.map (toPorts c.nports))

/-- the whole pipeline: selection, then the analysis -/
def run (c : Cfg) (mode : Mode) (file : List PLine) : Outcome Analysis :=
  match select mode file with
  | .ok [] => .emptyKernel
  | .ok k => .ok (analyze c k)
  | .badIsa => .badIsa
  | .raised => .raised
  | .badLines => .badLines
  | .emptyKernel => .emptyKernel

/-! ### renaming of line numbers -/

def renLine (f : Nat → Nat) (l : PLine) : PLine := { l with sel := { l.sel with num := f l.sel.num } }

def renNode (f : Nat → Nat) (n : DG.Node) : DG.Node := { n with line := f n.line }
def renEdge (f : Nat → Nat) (e : DG.Edge) : DG.Edge := { e with src := renNode f e.src, dst := renNode f e.dst }
def renPair (f : Nat → Nat) (p : Nat × Rat) : Nat × Rat := (f p.1, p.2)
def renEntry (f : Nat → Nat) (e : LCD.Entry) : LCD.Entry := { e with lines := e.lines.map f }
def renDict (f : Nat → Nat) (d : List Nat × LcdPost.Entry) : List Nat × LcdPost.Entry :=
  (d.1.map f, (d.2.1, d.2.2.map (renPair f)))
def renRow (f : Nat → Nat) (r : Row) : Row := { r with line := f r.line }

/-- every line number of an analysis sent through `f` -/
def Analysis.rename (f : Nat → Nat) (a : Analysis) : Analysis :=
  { rows := a.rows.map (renRow f)
    edges := a.edges.map (renEdge f)
    cpTotal := a.cpTotal
    cpMarks := a.cpMarks.map (renPair f)
    lcd := a.lcd.map (renEntry f)
    lcdDict := a.lcdDict.map (renDict f)
    lcdFigure := a.lcdFigure
    lcdMarks := a.lcdMarks.map (renPair f)
    colSums := a.colSums }

/-- the part of an analysis that speaks about instructions (rows of non-instruction lines dropped) -/
def Analysis.instrView (a : Analysis) : Analysis := { a with rows := a.rows.filter (·.instr) }

/-! ### hand-over to the report model (C13) -/

/-- `instruction_form.line` of the first kernel line with that number (`_get_node_by_lineno`) -/
def textOf (k : List PLine) (n : Nat) : Txt :=
  match k.find? (fun l => l.num == n) with
  | some l => l.text
  | none => []

/-- the record `Model/Report.lean` renders.  `repr` is Python's `repr(float)` (an input of the
    report model, DESIGN §3); `ports` the model's port names; `ignoreUnknown` the CLI flag. -/
def toReport (repr : Rat → Txt) (ports : List Txt) (ignoreUnknown : Bool) (nports : Nat)
    (k : List PLine) (a : Analysis) : Report.Analysis :=
  { ports := ports
    rows := k.map fun l =>
      let s := semOf nports l
      { line := l.num, press := s.pressure, used := s.used, hasMnemonic := l.isInstr, flags := s.flags,
        text := l.text }
    cp := a.cpMarks.map fun p => (p.1, repr p.2)
    deps := a.lcdDict.map fun d =>
      { key := Fmt.joinWith [45] (d.1.map Fmt.natDigits)
        lat := d.2.1
        latRepr := repr d.2.1
        root := textOf k (d.1.headD 0)
        members := d.2.2.map fun p => (p.1, repr p.2) }
    ignoreUnknown := ignoreUnknown
    tpSum := a.colSums
    cpSum := repr ((a.cpMarks.map (·.2)).sum) }

end OsacaVerif.Pipeline
