import OsacaVerif.Model.Text
/-
  The `operation` mini-programs of the ISA databases (osaca/data/isa/*.yml) as
  `ISASemantics.get_reg_changes` runs them:  `exec(isa_data.operation, {}, operand_state)`.

  `operand_state` maps `"op<N>"` to a dict: `{"name": <register name>, "value": 0}` for a register operand,
  `{"value": <immediate value>}` for an immediate; other operands have no entry.  The programs are
  sequences of assignments to `opN['value']` / `opN['name']` whose right-hand sides are built from
  `opM['value']`, integer literals, `+` and `-` (tools/gen/operations.py translates every distinct
  `operation` string with Python's `ast` into `Prog` and fails on any other shape).

  Python exceptions are modelled by `Except Err`: a missing `opN` is a `NameError`, a missing key a
  `KeyError`, arithmetic on `None` a `TypeError`.
-/
namespace OsacaVerif.IsaOp
open OsacaVerif.Text

/-- one `opN` dict of `operand_state` -/
structure OpState where
  name : Option Txt      -- key 'name' (absent for immediates)
  value : Option Int     -- key 'value' (always present); `none` = Python `None`
  deriving DecidableEq, Repr, Inhabited

/-- `operand_state`: `N ↦ dict of opN` (first occurrence of a key is the live one) -/
abbrev State := List (Nat × OpState)

inductive Err where
  | nameError | keyError | typeError | valueError | attributeError | unsupported
  deriving DecidableEq, Repr, Inhabited

inductive Expr where
  | lit (n : Int)
  | val (op : Nat)                 -- `opN['value']`
  | add (a b : Expr)
  | sub (a b : Expr)
  deriving DecidableEq, Repr, Inhabited

inductive Stmt where
  | setValue (op : Nat) (e : Expr)   -- `opN['value'] = e`   (`+=` / `-=` are written out by the translator)
  | setName (op : Nat) (src : Nat)   -- `opN['name'] = opM['name']`
  deriving DecidableEq, Repr, Inhabited

abbrev Prog := List Stmt

def get (s : State) (n : Nat) : Option OpState :=
  match s with
  | [] => none
  | (k, d) :: rest => if k == n then some d else get rest n

def set (s : State) (n : Nat) (d : OpState) : State :=
  match s with
  | [] => []
  | (k, d') :: rest => if k == n then (k, d) :: rest else (k, d') :: set rest n d

/-- Python `a + b` / `a - b` on `int | None` -/
def arith (f : Int → Int → Int) (a b : Option Int) : Except Err (Option Int) :=
  match a, b with
  | some x, some y => .ok (some (f x y))
  | _, _ => .error .typeError

def eval (s : State) : Expr → Except Err (Option Int)
  | .lit n => .ok (some n)
  | .val n =>
    match get s n with
    | some d => .ok d.value
    | none => .error .nameError
  | .add a b =>
    match eval s a with
    | .error e => .error e
    | .ok x =>
      match eval s b with
      | .error e => .error e
      | .ok y => arith (· + ·) x y
  | .sub a b =>
    match eval s a with
    | .error e => .error e
    | .ok x =>
      match eval s b with
      | .error e => .error e
      | .ok y => arith (· - ·) x y

def step (s : State) : Stmt → Except Err State
  | .setValue n e =>
    match eval s e with
    | .error err => .error err
    | .ok v =>
      match get s n with
      | some d => .ok (set s n { d with value := v })
      | none => .error .nameError
  | .setName n m =>
    match get s m with
    | none => .error .nameError
    | some dm =>
      match dm.name with
      | none => .error .keyError
      | some nm =>
        match get s n with
        | some d => .ok (set s n { d with name := some nm })
        | none => .error .nameError

/-- `exec(operation, {}, operand_state)`: statement by statement, the first exception aborts -/
def exec (s : State) : Prog → Except Err State
  | [] => .ok s
  | st :: rest =>
    match step s st with
    | .error e => .error e
    | .ok s' => exec s' rest

end OsacaVerif.IsaOp
