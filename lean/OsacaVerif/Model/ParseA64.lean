import OsacaVerif.Model.Text
import OsacaVerif.Model.A64Types
import OsacaVerif.Gen.A64Grammar
/-
  Model of `ParserAArch64` (osaca/parser/parser_AArch64.py) and `BaseParser.parse_file`.

  The pyparsing grammar of `construct_parser` is transcribed expression by expression into
  scannerless parsers `Txt → Option (result × rest)` with pyparsing's semantics:
    * every terminal skips the default white space " \t\n\r" first, except inside `Combine`
      (flag `sk = false`);
    * `A + B` is sequencing, `Optional(A)` is greedy and does not backtrack into what follows;
    * `A | B` (MatchFirst) takes the first alternative that matches (`<|>` below / `firstOf`);
    * `A ^ B` (Or) takes the longest match, the first listed one on ties (`<^>` below);
    * `parseString(..., parseAll=True)` requires only white space after the match.
  The post-processing functions (`process_operand`, `process_memory_address`, `resolve_range_list`,
  `process_immediate`, …) are transcribed on the structured results (the `asDict()` views).
  All literals come from `Gen.A64` (regenerated from the source on every run).
  Text is `List Nat` code points; only ASCII input is modelled.
-/
namespace OsacaVerif.ParseA64
open OsacaVerif.Text
open OsacaVerif.Gen

abbrev Res (α : Type) := Option (α × Txt)

/-! ### characters -/
def isWs (c : Nat) : Bool := c == 32 || c == 9 || c == 10 || c == 13
def isAlnumC (c : Nat) : Bool := isAlphaC c || isDigitC c
def isHexC (c : Nat) : Bool := isDigitC c || decide ((65 ≤ c ∧ c ≤ 70) ∨ (97 ≤ c ∧ c ≤ 102))
def isPrintC (c : Nat) : Bool := decide (33 ≤ c ∧ c ≤ 126)
def isIdFirstC (c : Nat) : Bool := isAlphaC c || A64.identFirstExtra.contains c
def isIdRestC (c : Nat) : Bool := isAlnumC c || A64.identRestExtra.contains c
def isRelocC (c : Nat) : Bool := isAlnumC c || A64.relocExtra.contains c
def isMnemC (c : Nat) : Bool := isAlnumC c || A64.mnemonicExtra.contains c
def isSignC (c : Nat) : Bool := c == 43 || c == 45
def isLaneC (c : Nat) : Bool := A64.laneChars.contains c
def isScalarPrefixC (c : Nat) : Bool := A64.scalarPrefixes.contains c
def isVectorPrefixC (c : Nat) : Bool := A64.vectorPrefixes.contains (lowerC c)
def isPredicationC (c : Nat) : Bool := A64.predicationChars.contains (lowerC c)

/-! ### primitives -/
def skipWs : Txt → Txt
  | [] => []
  | c :: r => if isWs c then skipWs r else c :: r

/-- `sk true` = a terminal outside `Combine` (skips white space), `sk false` = inside `Combine` -/
def sk (b : Bool) (s : Txt) : Txt := if b then skipWs s else s

/-- longest prefix satisfying `p`, and the rest -/
def spanP (p : Nat → Bool) : Txt → Txt × Txt
  | [] => ([], [])
  | c :: r => if p c then ((c :: (spanP p r).1), (spanP p r).2) else ([], c :: r)

/-- `Word(chars)` -/
def wordNS (p : Nat → Bool) (s : Txt) : Res Txt :=
  match spanP p s with
  | ([], _) => none
  | (w, r) => some (w, r)
def word (b : Bool) (p : Nat → Bool) (s : Txt) : Res Txt := wordNS p (sk b s)

/-- `Word(chars, exact=1)`: one character of the set (no look at the following character) -/
def charNS (p : Nat → Bool) : Txt → Res Nat
  | c :: r => if p c then some (c, r) else none
  | [] => none
def char1 (b : Bool) (p : Nat → Bool) (s : Txt) : Res Nat := charNS p (sk b s)

/-- `Literal(l)` on the text as is -/
def dropPrefix : Txt → Txt → Option Txt
  | s, [] => some s
  | [], _ :: _ => none
  | c :: cs, p :: ps => if c == p then dropPrefix cs ps else none
/-- `CaselessLiteral(l)`; `l` is given in lower case -/
def dropPrefixCI : Txt → Txt → Option Txt
  | s, [] => some s
  | [], _ :: _ => none
  | c :: cs, p :: ps => if lowerC c == p then dropPrefixCI cs ps else none
def lit (b : Bool) (l : Txt) (s : Txt) : Option Txt := dropPrefix (sk b s) l
def clit (b : Bool) (l : Txt) (s : Txt) : Option Txt := dropPrefixCI (sk b s) l

/-- `Optional(p)`.  A failing `Optional` (outside `Combine`) has already skipped the white space in
    front of it and returns that position: the end of an expression whose last part is a failed
    `Optional` includes the following white space.  This is visible in the match lengths `^` compares. -/
def optP {α : Type} (b : Bool) (p : Txt → Res α) (s : Txt) : Option α × Txt :=
  match p s with
  | some (a, r) => (some a, r)
  | none => (none, sk b s)
/-- `Optional(Literal)` / `Optional(Suppress(Literal))` -/
def optLit (b : Bool) (l : Txt) (s : Txt) : Txt :=
  match lit b l s with
  | some r => r
  | none => sk b s

/-- `a ^ b`: the longer match; `a` (listed first) on ties -/
def better {α : Type} (a b : Res α) : Res α :=
  match a, b with
  | none, b => b
  | some x, none => some x
  | some (x, r1), some (y, r2) => if r2.length < r1.length then some (y, r2) else some (x, r1)
infixl:60 " <^> " => better

/-- `a | b` on results -/
def orElseR {α : Type} (a b : Res α) : Res α :=
  match a with
  | some x => some x
  | none => b
infixl:55 " </> " => orElseR

def mapR {α β : Type} (f : α → β) (a : Res α) : Res β :=
  match a with
  | some (x, r) => some (f x, r)
  | none => none

/-- Or over a list of caseless literals; result is the literal as defined -/
def clitOr (b : Bool) (ls : List Txt) (s : Txt) : Res Txt :=
  ls.foldl (fun acc l => acc <^> (match clit b l s with | some r => some (l, r) | none => none)) none

/-! ### numbers, identifiers, immediates -/
/-- `Combine(Optional("-") + Word(nums))` -/
def decNumNS (s : Txt) : Res Txt :=
  match s with
  | 45 :: r => mapR (fun w => 45 :: w) (wordNS isDigitC r)
  | _ => wordNS isDigitC s
/-- `Combine(Optional("-") + Literal("0x") + Word(hexnums))` -/
def hexNumNS (s : Txt) : Res Txt :=
  match s with
  | 45 :: r =>
    match dropPrefix r A64.hexPrefix with
    | some r1 => mapR (fun w => 45 :: (A64.hexPrefix ++ w)) (wordNS isHexC r1)
    | none => none
  | _ =>
    match dropPrefix s A64.hexPrefix with
    | some r1 => mapR (fun w => A64.hexPrefix ++ w) (wordNS isHexC r1)
    | none => none
def decNum (s : Txt) : Res Txt := decNumNS (skipWs s)
def hexNum (s : Txt) : Res Txt := hexNumNS (skipWs s)

/-- `Combine(":" + Word(alphanums+"_") + ":")` -/
def relocation (s : Txt) : Res Txt :=
  match skipWs s with
  | 58 :: r =>
    match wordNS isRelocC r with
    | some (w, 58 :: r1) => some (58 :: (w ++ [58]), r1)
    | _ => none
  | _ => none

/-- `Combine(first + Optional(rest))` -/
def identName (s : Txt) : Res Txt :=
  match skipWs s with
  | c :: r => if isIdFirstC c then some (c :: (spanP isIdRestC r).1, (spanP isIdRestC r).2) else none
  | [] => none

/-- `Suppress("+") + (hex_number | decimal_number)` -/
def identOffset (s : Txt) : Res Txt :=
  match lit true [43] s with
  | some r => hexNum r </> decNum r
  | none => none

def identifier (s : Txt) : Res Ident :=
  let rel := optP true relocation s
  match identName rel.2 with
  | some (n, r1) =>
    let off := optP true identOffset r1
    some (⟨rel.1, n, off.1⟩, off.2)
  | none => none

/-- one immediate as the grammar leaves it (`asDict()` of the `immediate` group) -/
inductive ImmTok where
  | num (t : Txt)                                            -- key "value"
  | flt (dbl : Bool) (mant : Txt) (exp : Option (Txt × Txt)) -- key "float"/"double"; exp = (e_sign, exponent)
  | ident (i : Ident)                                        -- key "identifier"
  deriving DecidableEq, Repr

/-- `Word(nums) + "." + Word(nums)` without white space -/
def mantissaNS (s : Txt) : Res Txt :=
  match wordNS isDigitC s with
  | some (a, 46 :: r1) => mapR (fun b => a ++ 46 :: b) (wordNS isDigitC r1)
  | _ => none

/-- `Combine(Optional("-") + Word(nums) + "." + Word(nums))` -/
def mantissa (s : Txt) : Res Txt :=
  match skipWs s with
  | 45 :: r => mapR (fun m => 45 :: m) (mantissaNS r)
  | s0 => mantissaNS s0

/-- `CaselessLiteral("e") + Word("+-") + Word(nums)` -/
def exponent (s : Txt) : Res (Txt × Txt) :=
  match clit true [101] s with
  | some r =>
    match word true isSignC r with
    | some (sg, r1) => mapR (fun e => (sg, e)) (word true isDigitC r1)
    | none => none
  | none => none

def floatP (s : Txt) : Res ImmTok :=
  match mantissa s with
  | some (m, r) =>
    let e := optP true exponent r
    match clit true [102] e.2 with
    | some r2 => some (.flt false m e.1, r2)
    | none => none
  | none => none

def doubleP (s : Txt) : Res ImmTok :=
  match mantissa s with
  | some (m, r) => let e := optP true exponent r; some (.flt true m e.1, e.2)
  | none => none

def immediate (s : Txt) : Res ImmTok :=
  let r := optLit true A64.immSym s
  (mapR ImmTok.num (hexNum r) <^> mapR ImmTok.num (decNum r) <^> floatP r <^> doubleP r)
    </> mapR ImmTok.ident (identifier r)

/-- `WordEnd(alphanums + "_.")` (no white-space skipping): end of text or a non-word character next -/
def isWordEndC (c : Nat) : Bool := isAlnumC c || A64.wordEndExtra.contains c
def wordEnd {α : Type} (a : Res α) : Res α :=
  match a with
  | some (x, c :: r) => if isWordEndC c then none else some (x, c :: r)
  | some (x, []) => some (x, [])
  | none => none

/-- `shift_op + word_end` (in `register` and in `arith_immediate`): one of the operators, as a complete
    word — `lsl_loop` behind a register is not the shift `lsl`.  `A64.shiftWordEnd` says whether the
    grammar has the word end there (it has since the repair `a64-shiftop-prefix-label`). -/
def shiftOp (s : Txt) : Res Txt :=
  if A64.shiftWordEnd then wordEnd (clitOr true A64.shiftOps s) else clitOr true A64.shiftOps s

/-- `immediate + Suppress(",") + shift_op + word_end + Optional(immediate)` -/
def arithP (s : Txt) : Res (ImmTok × Txt × Option ImmTok) :=
  match immediate s with
  | some (b, r) =>
    match lit true [44] r with
    | some r1 =>
      match shiftOp r1 with
      | some (op, r2) => let sh := optP true immediate r2; some ((b, op, sh.1), sh.2)
      | none => none
    | none => none
  | none => none

/-! ### registers -/
/-- a vector/scalar register as the grammar leaves it (also the elements of a register list) -/
structure Elem where
  pre : Option Txt := none
  name : Option Txt := none
  lanes : Option Txt := none
  shape : Option Txt := none
  index : Option Txt := none
  deriving DecidableEq, Repr

/-- the `register` group as the grammar leaves it -/
structure RegTok where
  pre : Option Txt := none
  name : Option Txt := none
  lanes : Option Txt := none
  shape : Option Txt := none
  index : Option Txt := none
  pred : Option Txt := none
  /-- `some (isRange, elements)` for `{...}` -/
  list : Option (Bool × List Elem) := none
  shiftOp : Option Txt := none
  shift : Option ImmTok := none
  deriving DecidableEq, Repr

def RegTok.ofElem (e : Elem) : RegTok :=
  { pre := e.pre, name := e.name, lanes := e.lanes, shape := e.shape, index := e.index }

/-- `Regex("(?P<prefix>[a-zA-Z])?(?P<name>(sp|SP))")` -/
def aliasP (names : List Txt) (s : Txt) : Res RegTok :=
  let s0 := skipWs s
  match s0 with
  | c :: r =>
    if isAlphaC c && names.any (fun n => startsWith r n) then
      some ({ pre := some [c], name := some (r.take 2) }, r.drop 2)
    else if names.any (fun n => startsWith s0 n) then
      some ({ name := some (s0.take 2) }, s0.drop 2)
    else none
  | [] => none

/-- `"[" + Word(nums) + "]"` -/
def indexP (b : Bool) (s : Txt) : Res Txt :=
  match lit b [91] s with
  | some r =>
    match word b isDigitC r with
    | some (w, r1) =>
      match lit b [93] r1 with
      | some r2 => some (w, r2)
      | none => none
    | none => none
  | none => none

/-- `"." + Optional(Word("12468")) + Word(alphas, exact=1)` -/
def laneShape (b : Bool) (s : Txt) : Res (Option Txt × Txt) :=
  match lit b [46] s with
  | some r =>
    let l := optP b (word b isLaneC) r
    match char1 b isAlphaC l.2 with
    | some (c, r2) => some ((l.1, [c]), r2)
    | none => none
  | none => none

def vectorP (b : Bool) (s : Txt) : Res Elem :=
  match char1 b isVectorPrefixC s with
  | some (c, r) =>
    match word b isDigitC r with
    | some (n, r1) =>
      let ls := optP b (laneShape b) r1
      let ix := optP b (indexP b) ls.2
      some ({ pre := some [c], name := some n,
              lanes := match ls.1 with | some x => x.1 | none => none,
              shape := match ls.1 with | some x => some x.2 | none => none,
              index := ix.1 }, ix.2)
    | none => none
  | none => none

def scalarP (b : Bool) (s : Txt) : Res Elem :=
  match char1 b isScalarPrefixC s with
  | some (c, r) =>
    match word b isDigitC r with
    | some (n, r1) => some ({ pre := some [c], name := some n }, r1)
    | none => none
  | none => none

def predTail (s : Txt) : Res (Option Txt × Option (Option Txt × Txt)) :=
  (match lit true [47] s with
   | some r => mapR (fun c => (some [c], none)) (char1 true isPredicationC r)
   | none => none)
  </> mapR (fun x => (none, some x)) (laneShape true s)

def predicateP (s : Txt) : Res RegTok :=
  match clit true A64.predPrefix s with
  | some r =>
    match word true isDigitC r with
    | some (n, r1) =>
      let t := optP true predTail r1
      some ({ pre := some A64.predPrefix, name := some n,
              pred := match t.1 with | some x => x.1 | none => none,
              lanes := match t.1 with | some (_, some y) => y.1 | _ => none,
              shape := match t.1 with | some (_, some y) => some y.2 | _ => none }, t.2)
    | none => none
  | none => none

/-- `Combine(vector ^ scalar)`; the element text is re-parsed by `process_register_list` with the same
    two alternatives, which yields the same fields (the text contains no white space) -/
def listElem (s : Txt) : Res Elem :=
  let s0 := skipWs s
  vectorP false s0 <^> scalarP false s0

def delimRest (d : Nat) : Nat → Txt → List Elem × Txt
  | 0, s => ([], s)
  | f + 1, s =>
    match lit true [d] s with
    | some r =>
      match listElem r with
      | some (e, r1) => (e :: (delimRest d f r1).1, (delimRest d f r1).2)
      | none => ([], s)
    | none => ([], s)

/-- `delimitedList(Combine(list_element), delim=d)` -/
def delimList (d : Nat) (s : Txt) : Res (List Elem) :=
  match listElem s with
  | some (e, r) =>
    match delimRest d r.length r with
    | ([], _) => some ([e], skipWs r)       -- `ZeroOrMore` without iteration: position after white space
    | (es, r1) => some (e :: es, r1)
  | none => none

def registerList (s : Txt) : Res RegTok :=
  match lit true [123] s with
  | some r =>
    match mapR (fun l => (false, l)) (delimList 44 r) <^> mapR (fun l => (true, l)) (delimList 45 r) with
    | some (l, r1) =>
      match lit true [125] r1 with
      | some r2 =>
        let ix := optP true (indexP true) r2
        -- named results of the `Combine`d elements leak into the group: the last element index is
        -- visible as the group's "index" when the list itself has none
        let leaked := (l.2.filterMap (·.index)).getLast?
        some ({ list := some l, index := match ix.1 with | some i => some i | none => leaked }, ix.2)
      | none => none
    | none => none
  | none => none

/-- `Suppress(",") + shift_op + word_end + Optional(immediate)` -/
def shiftTail (s : Txt) : Res (Txt × Option ImmTok) :=
  match lit true [44] s with
  | some r =>
    match shiftOp r with
    | some (op, r1) => let im := optP true immediate r1; some ((op, im.1), im.2)
    | none => none
  | none => none

def registerCore (s : Txt) : Res RegTok :=
  aliasP A64.aliasSp s </> aliasP A64.aliasZr s </> mapR RegTok.ofElem (vectorP true s)
    </> mapR RegTok.ofElem (scalarP true s)
    </> predicateP s </> registerList s

def registerP (s : Txt) : Res RegTok :=
  match registerCore s with
  | some (t, r) =>
    let sh := optP true shiftTail r
    some ({ t with shiftOp := match sh.1 with | some x => some x.1 | none => none,
                   shift := match sh.1 with | some x => x.2 | none => none }, sh.2)
  | none => none

/-! ### memory, prefetch, condition -/
inductive OffTok where
  | imm (i : ImmTok)
  | arith
  deriving Repr

structure MemTok where
  base : Option RegTok
  index : Option RegTok
  offset : Option OffTok
  pre : Bool
  post : Option ImmTok
  deriving Repr

/-- `register("index") + Optional("," + Word(alphas) + immediate("scale"))` -/
def registerIndex (s : Txt) : Res RegTok :=
  match registerP s with
  | some (t, r) =>
    let tail : Res Unit :=
      match lit true [44] r with
      | some a =>
        match word true isAlphaC a with
        | some (_, b) => mapR (fun _ => ()) (immediate b)
        | none => none
      | none => none
    some (t, match tail with | some (_, r1) => r1 | none => r)
  | none => none

inductive MemMid where
  | idx (r : RegTok)
  | off (o : OffTok)

def memMid (s : Txt) : Res MemMid :=
  mapR MemMid.idx (registerIndex s) <^> mapR (fun i => MemMid.off (.imm i)) (immediate s)
    <^> mapR (fun _ => MemMid.off .arith) (arithP s)

inductive MemPost where
  | bang
  | post (i : ImmTok)

def memPost (s : Txt) : Res MemPost :=
  (match lit true [33] s with | some r => some (MemPost.bang, r) | none => none)
  </> (match lit true [44] s with | some r => mapR MemPost.post (immediate r) | none => none)

def memoryP (s : Txt) : Res MemTok :=
  match lit true [91] s with
  | some r =>
    let b := optP true registerP r
    let r2 := optLit true [44] b.2
    let m := optP true memMid r2
    match lit true [93] m.2 with
    | some r4 =>
      let p := optP true memPost r4
      some ({ base := b.1,
              index := match m.1 with | some (.idx x) => some x | _ => none,
              offset := match m.1 with | some (.off o) => some o | _ => none,
              pre := match p.1 with | some .bang => true | _ => false,
              post := match p.1 with | some (.post i) => some i | _ => none }, p.2)
    | none => none
  | none => none

def prefetchP (s : Txt) : Res (Txt × Txt × Txt) :=
  match clitOr true (A64.prfTypes.map lower) s with
  | some (t, r) =>
    match clitOr true (A64.prfTargets.map lower) r with
    | some (g, r1) =>
      match clitOr true (A64.prfPolicies.map lower) r1 with
      | some (p, r2) => some ((upper t, upper g, upper p), r2)
      | none => none
    | none => none
  | none => none

/-- the 17 condition codes; result as written (upper-cased by `process_condition`) -/
def conditionP (s : Txt) : Res Txt := mapR upper (clitOr true (A64.conditions.map lower) s)

/-! ### operands -/
inductive RawOp where
  | reg (r : RegTok)
  | cond (c : Txt)
  | imm (i : ImmTok)
  | mem (m : MemTok)
  | arith (base : ImmTok) (op : Txt) (shift : Option ImmTok)
  | prf (t g p : Txt)
  | ident (i : Ident)
  deriving Repr

def arithOp (s : Txt) : Res RawOp := mapR (fun x => RawOp.arith x.1 x.2.1 x.2.2) (arithP s)

/-- `(prefetch_op + word_end)
     | (register ^ (prefetch_op | immediate) ^ memory ^ arith_immediate ^ identifier)` -/
def operandFirst (s : Txt) : Res RawOp :=
  wordEnd (mapR (fun x => RawOp.prf x.1 x.2.1 x.2.2) (prefetchP s)) </>
  mapR RawOp.reg (registerP s)
    <^> (mapR (fun x => RawOp.prf x.1 x.2.1 x.2.2) (prefetchP s) </> mapR RawOp.imm (immediate s))
    <^> mapR RawOp.mem (memoryP s) <^> arithOp s <^> mapR RawOp.ident (identifier s)

/-- `(condition + word_end) | (register ^ condition ^ immediate ^ memory ^ arith_immediate)
     | identifier` -/
def operandRest (s : Txt) : Res RawOp :=
  wordEnd (mapR RawOp.cond (conditionP s)) </>
  (mapR RawOp.reg (registerP s) <^> mapR RawOp.cond (conditionP s) <^> mapR RawOp.imm (immediate s)
    <^> mapR RawOp.mem (memoryP s) <^> arithOp s)
  </> mapR RawOp.ident (identifier s)

/-! ### comment, label, directive, instruction (grammar level) -/
/-- `ZeroOrMore(Word(printables))`: words, and the rest from the first character that is neither white
    space nor printable -/
def commentWords : Txt → Txt → List Txt × Txt
  | [], cur => ((if cur.isEmpty then [] else [cur.reverse]), [])
  | c :: r, cur =>
    if isWs c then
      ((if cur.isEmpty then [] else [cur.reverse]) ++ (commentWords r []).1, (commentWords r []).2)
    else if isPrintC c then commentWords r (c :: cur)
    else ((if cur.isEmpty then [] else [cur.reverse]), c :: r)

/-- `Literal("//") + Group(ZeroOrMore(Word(printables)))` -/
def commentP (s : Txt) : Res (List Txt) :=
  match lit true A64.commentSym s with
  | some r =>
    match commentWords r [] with
    | ([], _) => some ([], skipWs r)
    | x => some x
  | none => none

def joinSp : List Txt → Txt
  | [] => []
  | [w] => w
  | w :: ws => w ++ 32 :: joinSp ws

def atEnd (s : Txt) : Bool := (skipWs s).isEmpty

/-- raw instruction: mnemonic, operand slots, comment words -/
structure RawInstr where
  mnemonic : Txt
  ops : List RawOp
  comment : Option (List Txt)
  deriving Repr

def opt2list {α : Type} : Option α → List α
  | some x => [x]
  | none => []

/-- the operand slots after the first: `Optional(Suppress(",")) + Optional(operand_rest)`, `n` times -/
def restSlots : Nat → Txt → List RawOp × Txt
  | 0, s => ([], s)
  | n + 1, s =>
    (opt2list (optP true operandRest (optLit true [44] s)).1
        ++ (restSlots n (optP true operandRest (optLit true [44] s)).2).1,
      (restSlots n (optP true operandRest (optLit true [44] s)).2).2)

/-- `mnemonic + Optional(operand1) + Optional(",") + Optional(operand2) + … + Optional(comment)`,
    `parseAll=True`; the number of slots is the grammar's (`Gen.A64.operandSlots`) -/
def instrP (s : Txt) : Option RawInstr :=
  match word true isMnemC s with
  | some (mn, r0) =>
    let o1 := optP true operandFirst r0
    let os := restSlots (A64.operandSlots - 1) o1.2
    let c := optP true commentP os.2
    if atEnd c.2 then some ⟨mn, opt2list o1.1 ++ os.1, c.1⟩ else none
  | none => none

/-! ### post-processing -/
inductive Err where
  | err   -- ValueError out of parse_line (ParseException / KeyError / ValueError of int())
  | exc   -- any other exception type escaping parse_line
  deriving DecidableEq, Repr

def hexBody (h : Txt) : Option Nat :=
  if !h.isEmpty && h.all isHexC then some (natOfDigits 16 h) else none

/-- `int(text, 0)` of an unsigned text: `0x…` hexadecimal, else decimal without leading zeros
    (`"00"` is accepted, `"010"` is not) -/
def pyNat0 (r : Txt) : Option Nat :=
  match r with
  | 48 :: 120 :: h => hexBody h
  | 48 :: 88 :: h => hexBody h
  | _ =>
    if !r.isEmpty && r.all isDigitC then
      (if r.head? == some 48 && natOfDigits 10 r != 0 then none else some (natOfDigits 10 r))
    else none

def negInt (v : Option Nat) : Option Int :=
  match v with
  | some n => some (- (n : Int))
  | none => none
def posInt (v : Option Nat) : Option Int :=
  match v with
  | some n => some (n : Int)
  | none => none

/-- `int(text, 0)` for the texts the grammar can produce (`-`? digits | `-`? `0x` hexdigits) -/
def pyInt0 : Txt → Option Int
  | 45 :: r => negInt (pyNat0 r)
  | t => posInt (pyNat0 t)

def pyNat10 (r : Txt) : Option Nat :=
  if !r.isEmpty && r.all isDigitC then some (natOfDigits 10 r) else none

/-- `int(text)` (base 10) -/
def pyInt10 : Txt → Option Int
  | 45 :: r => negInt (pyNat10 r)
  | t => posInt (pyNat10 t)

/-- `process_register_operand` -/
def processRegister (t : RegTok) (index : Option Txt) : Except Err Reg :=
  match t.pre, t.name with
  | some p, some n =>
    .ok { pre := lower p, name := n, shape := t.shape.map lower, lanes := t.lanes, index := index,
          pred := t.pred.map lower }
  | none, some _ => .error .exc     -- alias without prefix letter: `None.lower()`
  | _, none => .error .err          -- KeyError 'name'

/-- members `A … B` of a register range: copies of the first register with the name replaced -/
def rangeNames (a : Nat) : Nat → List Nat
  | 0 => []
  | n + 1 => a :: rangeNames (a + 1) n

def mapE {α β : Type} (f : α → Except Err β) : List α → Except Err (List β)
  | [] => .ok []
  | x :: xs =>
    match f x with
    | .error e => .error e
    | .ok y =>
      match mapE f xs with
      | .error e => .error e
      | .ok ys => .ok (y :: ys)

/-- the list index is `int(index, 0)`; printed back in decimal by the canonical form -/
def listIndex (ix : Option Txt) : Except Err (Option Txt) :=
  match ix with
  | none => .ok none
  | some i => match pyInt0 i with | some v => .ok (some (showInt v)) | none => .error .err

/-- one member of a list or range: the element's own index is overridden by the list index -/
def processElem (ix : Option Txt) (e : Elem) : Except Err Reg :=
  processRegister (RegTok.ofElem e) (match ix with | some i => some i | none => e.index)

/-- members of `{first - last}`: copies of `first` named `A … B` -/
def expandRange (ix : Option Txt) (first : Elem) (a z : Nat) : Except Err (List Reg) :=
  mapE (fun n => processElem ix { first with name := some (showNat n) })
    (rangeNames a (z + A64.rangeInclusive - a))

/-- `resolve_range_list(process_register_list(...))` -/
def resolveList (t : RegTok) (isRange : Bool) (elems : List Elem) : Except Err (List Reg) :=
  match listIndex t.index with
  | .error e => .error e
  | .ok ix =>
    if isRange then
      match elems with
      | b :: e :: _ =>
        match b.name, e.name with
        | some sn, some en => expandRange ix b (natOfDigits 10 sn) (natOfDigits 10 en)
        | _, _ => .error .err
      | _ => .error .exc
    else mapE (processElem ix) elems

/-- `process_immediate` -/
def processImmediate (i : ImmTok) : Except Err Operand :=
  match i with
  | .ident d => .ok (.ident d)
  | .num t => match pyInt0 t with | some v => .ok (.imm (.int v)) | none => .error .err
  | .flt dbl m e => .ok (.imm (.flt dbl m e))

/-- shifted immediate: `int(base, 0) << int(shift)` -/
def processArith (base : ImmTok) (shift : Option ImmTok) : Except Err Operand :=
  match base, shift with
  | .num b, some (.num s) =>
    match pyInt0 b, pyInt10 s with
    | some v, some (Int.ofNat n) => .ok (.imm (.int (v * (2 ^ n : Nat))))
    | _, _ => .error .err
  | _, _ => .error .err

def forcedPrefix (name : Txt) : Option Txt :=
  match A64.memAliasForced.find? (fun e => e.1 == lower name) with
  | some e => some e.2
  | none => none

def shiftText (s : Option ImmTok) : Option Txt :=
  match s with
  | none => none
  | some (.num t) => some t
  | some _ => some [63]

/-- offset of a memory operand: `int(value, 0)`, identifier, or left as the grammar's dictionary -/
def memOffsetOf (o : Option OffTok) : Except Err (Option MemOff) :=
  match o with
  | none => .ok none
  | some (.imm (.num t)) => match pyInt0 t with | some v => .ok (some (.imm v)) | none => .error .err
  | some (.imm (.ident i)) => .ok (some (.ident i))
  | some (.imm (.flt _ _ _)) => .ok (some .other)
  | some .arith => .ok (some .other)

/-- `scale = 2 ** int(shift)` if the index carries one of `valid_shift_ops` with an amount, else 1 -/
def memScaleOf (index : Option RegTok) : Except Err Nat :=
  match index with
  | some ix =>
    match ix.shift, ix.shiftOp with
    | some sh, some op =>
      if A64.validShiftOps.contains (lower op) then
        match sh with
        | .num t =>
          match pyInt10 t with
          | some (Int.ofNat n) => .ok (A64.scaleBase ^ n)
          | some _ => .error .exc          -- negative amount: a float scale; outside the model
          | none => .error .err
        | _ => .error .err                  -- KeyError 'value'
      else .ok A64.defaultScale
    | _, _ => .ok A64.defaultScale
  | none => .ok A64.defaultScale

def memPostOf (p : Option ImmTok) : Except Err (Option PostIdx) :=
  match p with
  | none => .ok none
  | some (.num t) => match pyInt0 t with | some v => .ok (some (.imm v)) | none => .error .err
  | some _ => .ok (some .other)

/-- base/index register: name as written; prefix lower-cased, `x` for the sp/zr aliases -/
def memRegOf (r : RegTok) : Except Err (Txt × Txt) :=
  match r.name with
  | none => .error .exc
  | some n =>
    match (match forcedPrefix n with | some p => some p | none => r.pre) with
    | some p => .ok (lower p, n)
    | none => .error .exc

def memIndexOf (index : Option RegTok) : Except Err (Option MemIdx) :=
  match index with
  | none => .ok none
  | some ix =>
    match memRegOf ix with
    | .ok (p, n) => .ok (some ⟨p, n, ix.shiftOp, shiftText ix.shift⟩)
    | .error e => .error e

/-- `process_memory_address` -/
def processMemory (m : MemTok) : Except Err Mem :=
  match memOffsetOf m.offset, memScaleOf m.index, memPostOf m.post with
  | .error e, _, _ => .error e
  | _, .error e, _ => .error e
  | _, _, .error e => .error e
  | .ok off, .ok sc, .ok po =>
    match m.base with
    | none => .error .exc
    | some b =>
      match memRegOf b, memIndexOf m.index with
      | .error e, _ => .error e
      | _, .error e => .error e
      | .ok bpn, .ok ixo =>
        .ok { offset := off, basePre := bpn.1, baseName := bpn.2, index := ixo, scale := sc,
              pre := m.pre, post := po }

/-- `process_operand` on one operand slot -/
def processOperand (o : RawOp) : Except Err (List Operand) :=
  match o with
  | .mem m => match processMemory m with | .ok x => .ok [.mem x] | .error e => .error e
  | .reg t =>
    match t.list with
    | some (isRange, elems) =>
      match resolveList t isRange elems with
      | .ok rs => .ok (rs.map Operand.reg)
      | .error e => .error e
    | none =>
      match t.name with
      | some n =>
        if lower n == A64.spOperandName then
          .ok [.reg { pre := A64.spOperandPrefix, name := A64.spOperandResult }]
        else
          match processRegister t t.index with
          | .ok r => .ok [.reg r]
          | .error e => .error e
      | none => .error .err
  | .imm i => match processImmediate i with | .ok x => .ok [x] | .error e => .error e
  | .arith b _ sh => match processArith b sh with | .ok x => .ok [x] | .error e => .error e
  | .ident i => .ok [.ident i]
  | .cond c => .ok [.cond (upper c)]
  | .prf t g p => .ok [.prf t g p]

def processOperands : List RawOp → Except Err (List Operand)
  | [] => .ok []
  | o :: os =>
    match processOperand o with
    | .error e => .error e
    | .ok xs =>
      match processOperands os with
      | .error e => .error e
      | .ok ys => .ok (xs ++ ys)

/-! ### lines -/
/-- 1. comment line -/
def commentLine (s : Txt) : Option Txt :=
  match commentP s with
  | some (ws, r) => if atEnd r then some (joinSp ws) else none
  | none => none

/-- 1.2 `# LLVM-MCA-BEGIN|END` marker (a trailing comment makes `" ".join` run over a dict: "comment") -/
def llvmMarker (s : Txt) : Option Txt :=
  match lit true [35] s with
  | some r =>
    match clit true (ofString "llvm-mca-") r with
    | some r1 =>
      let kw : Res Txt :=
        (match clit false (ofString "begin") r1 with | some x => some (ofString "BEGIN", x) | none => none)
        </> (match clit false (ofString "end") r1 with | some x => some (ofString "END", x) | none => none)
      match kw with
      | some (k, r2) =>
        let c := optP true commentP r2
        if atEnd c.2 then
          (match c.1 with
           | none => some (ofString "# LLVM-MCA-" ++ k)
           | some _ => some (ofString "comment"))
        else none
      | none => none
    | none => none
  | none => none

/-- 2. label -/
def labelLine (s : Txt) : Option (Txt × Option Txt) :=
  match identifier s with
  | some (i, r) =>
    match lit true [58] r with
    | some r1 =>
      let c := optP true commentP r1
      if atEnd c.2 then some (i.name, c.1.map joinSp) else none
    | none => none
  | none => none

/-! directive parameters -/
def isDirFirstC (c : Nat) : Bool := isAlphaC c || c == 35 || c == 64 || c == 46 || c == 37
def isDirRestC (c : Nat) : Bool := (isPrintC c || c == 32) && c != 44

/-- simplified `quotedString`: `"…"` / `'…'` without backslash, the quote itself or a line break inside -/
def quoted (s : Txt) : Res Txt :=
  match skipWs s with
  | q :: r =>
    if q == 34 || q == 39 then
      match spanP (fun c => c != q && c != 92 && c != 10 && c != 13) r with
      | (body, q' :: r1) => if q' == q then some (q :: (body ++ [q]), r1) else none
      | _ => none
    else none
  | [] => none

/-- `Combine(Word(alphas+"#@.%", exact=1) + Optional(Word(printables+" ", excludeChars=",")))` -/
def dirOption (s : Txt) : Res Txt :=
  match skipWs s with
  | c :: r => if isDirFirstC c then some (c :: (spanP isDirRestC r).1, (spanP isDirRestC r).2) else none
  | [] => none

/-- a parameter parsed as `identifier` is a nested group, not a string: rendered as `?` -/
def dirParam (s : Txt) : Res Txt :=
  quoted s </> dirOption s </> mapR (fun _ => [63]) (identifier s) </> hexNum s </> decNum s

def dirMany : Nat → Txt → List Txt × Txt
  | 0, s => ([], s)
  | f + 1, s =>
    match dirParam s with
    | some (p, r) => (p :: (dirMany f r).1, (dirMany f r).2)
    | none => ([], s)

/-- `delimitedList(Optional(directive_parameter), delim=",")` -/
def dirCommaRest : Nat → Txt → List Txt × Txt
  | 0, s => ([], s)
  | f + 1, s =>
    match lit true [44] s with
    | some r =>
      let p := optP true dirParam r
      (opt2list p.1 ++ (dirCommaRest f p.2).1, (dirCommaRest f p.2).2)
    | none => ([], s)

def dirParams (s : Txt) : Res (List Txt) :=
  let many : Res (List Txt) :=
    match dirMany (s.length + 1) s with
    | ([], _) => none
    | x => some x
  let p0 := optP true dirParam s
  let rest : List Txt × Txt :=
    match lit true [44] p0.2 with
    | some _ => dirCommaRest (s.length + 1) p0.2
    | none => ([], skipWs p0.2)
  many <^> some (opt2list p0.1 ++ rest.1, rest.2)

/-- 3. directive -/
def directiveLine (s : Txt) : Option (Txt × List Txt × Option Txt) :=
  match lit true [46] s with
  | some r =>
    match word true isRelocC r with
    | some (n, r1) =>
      match dirParams r1 with
      | some (ps, r2) =>
        let c := optP true commentP r2
        if atEnd c.2 then some (n, ps, c.1.map joinSp) else none
      | none => none
    | none => none
  | none => none

/-- 4. instruction -/
def instrLine (s : Txt) : Out :=
  match instrP s with
  | none => .err
  | some raw =>
    match processOperands raw.ops with
    | .ok ops => .ok (.instr raw.mnemonic ops (raw.comment.map joinSp))
    | .error .err => .err
    | .error .exc => .exc

/-- `parse_line` -/
def parseLine (s : Txt) : Out :=
  match commentLine s with
  | some c => .ok (.comment c)
  | none =>
    match llvmMarker s with
    | some c => .ok (.comment c)
    | none =>
      match labelLine s with
      | some (n, c) => .ok (.label n c)
      | none =>
        match directiveLine s with
        | some (n, ps, c) => .ok (.directive n ps c)
        | none => instrLine s

/-! ### parse_file -/
/-- `str.split("\n")` -/
def splitLines : Txt → List Txt
  | [] => [[]]
  | c :: r =>
    if c == 10 then [] :: splitLines r
    else
      match splitLines r with
      | l :: ls => (c :: l) :: ls
      | [] => [[c]]

/-- characters removed by `str.strip()` -/
def isPyWs (c : Nat) : Bool :=
  c == 32 || decide (9 ≤ c ∧ c ≤ 13) || decide (28 ≤ c ∧ c ≤ 31) || c == 133 || c == 160 || c == 5760 ||
  decide (8192 ≤ c ∧ c ≤ 8202) || c == 8232 || c == 8233 || c == 8239 || c == 8287 || c == 12288

def isBlank (l : Txt) : Bool := l.all isPyWs

/-- the loop of `parse_file`: `i` is the 0-based index of the first line of `ls` -/
def parseLinesFrom (start : Nat) : Nat → List Txt → List FileLine
  | _, [] => []
  | i, l :: ls =>
    if isBlank l then parseLinesFrom start (i + 1) ls
    else ⟨i + A64.lineBase + start, l, parseLine l⟩ :: parseLinesFrom start (i + 1) ls

def parseFile (content : Txt) (start : Nat) : List FileLine :=
  parseLinesFrom start 0 (splitLines content)

end OsacaVerif.ParseA64
