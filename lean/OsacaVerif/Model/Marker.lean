import OsacaVerif.Model.Text
import OsacaVerif.Model.PyInt
import OsacaVerif.Gen.MarkerConsts
/-
  Model of kernel selection (C11):
    osaca/semantics/marker_utils.py  reduce_to_section, find_marked_kernel_{x86ATT,AArch64},
                                     find_marked_section, match_bytes
    osaca/osaca.py                   get_line_range, the `--lines` filter of `inspect`
    osaca/parser/base_parser.py      parse_file (which lines exist and how they are numbered)

  A parsed line is abstracted to exactly what these functions look at.  Every literal comes from
  `Gen.MarkerConsts` (regenerated from the source on every run).
-/
namespace OsacaVerif.Marker
open OsacaVerif.Text OsacaVerif.PyInt

/-- what `find_marked_section` can see of an operand -/
inductive Opd where
  /-- `ImmediateOperand`; `parser.normalize_imd(op)` if that is an integer (or an integral float:
      Python's `==` with `111` treats them alike), else `none` -/
  | imm (v : Option Int)
  /-- `RegisterOperand`; `parser.get_full_reg_name(op)` -/
  | reg (full : Txt)
  | other
  deriving DecidableEq, Repr

/-- `line.directive`; a parameter is a string, or some other object (`none`; the AArch64 grammar
    can yield dicts) on which `int(x, 0)` raises `TypeError` -/
structure Dir where
  name : Txt
  params : List (Option Txt)
  deriving DecidableEq, Repr

/-- what kernel selection can see of an `InstructionForm` -/
structure Line where
  num : Nat
  mnem : Option Txt
  comment : Option Txt
  dir : Option Dir
  ops : List Opd
  deriving DecidableEq, Repr

/-- the arguments `find_marked_kernel_*` pass to `find_marked_section` -/
structure Cfg where
  movInstr : List Txt
  movReg : Txt
  vals : List Int
  nop : List Int
  reverse : Bool
  comments : Bool
  deriving DecidableEq, Repr

def x86Cfg : Cfg := ⟨Gen.x86MovInstr, Gen.x86MovReg, Gen.x86MovVals, Gen.x86NopBytes, Gen.x86Reverse, Gen.x86Comments⟩
def a64Cfg : Cfg := ⟨Gen.a64MovInstr, Gen.a64MovReg, Gen.a64MovVals, Gen.a64NopBytes, Gen.a64Reverse, Gen.a64Comments⟩

/-- what a single loop iteration of `find_marked_section` does -/
inductive Ev where
  | none
  /-- `index_start = i + off` (`off` already contains `line_count` for byte markers) -/
  | start (off : Nat)
  /-- `index_end = i + off` -/
  | stop (off : Nat)
  /-- an exception other than `TypeError` leaves the function (`IndexError`: a marker `mov` with
      fewer than two operands in front of a directive) -/
  | raise
  deriving DecidableEq, Repr

def isByteDir (l : Line) : Bool :=
  match l.dir with
  | some d => d.name == Gen.byteDirName
  | none => false

/-- `int(x, 0)` as written in `match_bytes`; `none` = `ValueError` / `TypeError` -/
def byteInt (p : Option Txt) : Option Int :=
  match p with
  | some t => if Gen.byteIntBase = 0 then pyInt0 t else pyInt10 t
  | none => none

def dirParams (l : Line) : List (Option Txt) :=
  match l.dir with
  | some d => d.params
  | none => []

/-- `[int(x, 0) for x in line.directive.parameters]`; `none` if any conversion raises -/
def allInts : List (Option Txt) → Option (List Int)
  | [] => some []
  | p :: ps =>
    match byteInt p, allInts ps with
    | some v, some vs => some (v :: vs)
    | _, _ => none

/-- result of `match_bytes(lines, i + 1, byte_list)` on the lines after the `mov` -/
inductive MB where
  | hit (lineCount : Nat)
  | miss
  deriving DecidableEq, Repr

/-- `match_bytes` (after the repair): consecutive `.byte` lines are consumed *until enough bytes have
    been collected*; a parameter that is not an integer literal means "no marker"; the collected bytes
    are compared as a prefix with the nop bytes. -/
def matchBytesGo (nop : List Int) : List Line → List Int → Nat → MB
  | [], acc, k => if acc.take nop.length = nop then .hit k else .miss
  | l :: rest, acc, k =>
    if isByteDir l && decide (acc.length < nop.length) then
      match allInts (dirParams l) with
      | some vs => matchBytesGo nop rest (acc ++ vs) (k + 1)
      | none => .miss
    else if acc.take nop.length = nop then .hit k else .miss

def matchBytes (rest : List Line) (nop : List Int) : MB := matchBytesGo nop rest [] 0

def hasDirective (rest : List Line) : Bool :=
  match rest with
  | l :: _ => l.dir.isSome
  | [] => false

/-- the operand test of `find_marked_section` for one of the two marker values -/
def opsMatch (c : Cfg) (src dst : Opd) (val : Option Int) : Bool :=
  match src, dst, val with
  | .imm (some v), .reg r, some w => v == w && r == c.movReg
  | _, _, _ => false

/-- one iteration of the loop of `find_marked_section` on line `l` followed by `rest` -/
def trigger (c : Cfg) (l : Line) (rest : List Line) : Ev :=
  match l.mnem with
  | none =>
    if c.comments && l.comment.isSome then
      if l.comment == some Gen.commentStart then .start Gen.startOffComment
      else if l.comment == some Gen.commentEnd then .stop Gen.endOffComment
      else .none
    else .none
  | some m =>
    if c.movInstr.contains m && hasDirective rest then
      match l.ops[if c.reverse then Gen.srcIdxRev else Gen.srcIdx]?,
            l.ops[if c.reverse then Gen.dstIdxRev else Gen.dstIdx]? with
      | some src, some dst =>
        if opsMatch c src dst c.vals[Gen.valIdxStart]? then
          match matchBytes rest c.nop with
          | .hit k => .start (Gen.startOffBytes + k)
          | .miss => .none
        else if opsMatch c src dst c.vals[Gen.valIdxEnd]? then
          match matchBytes rest c.nop with
          | .hit _ => .stop Gen.endOffBytes
          | .miss => .none
        else .none
      | _, _ => .raise
    else .none

/-- the loop of `find_marked_section` from index `i` on, with the indices found so far
    (`none` = `-1`); `none` as a result = an exception left the function -/
def scan (c : Cfg) : Nat → List Line → Option Nat → Option Nat → Option (Option Nat × Option Nat)
  | _, [], s, e => some (s, e)
  | i, l :: rest, s, e =>
    match trigger c l rest with
    | .raise => none
    | .none => if s.isSome && e.isSome then some (s, e) else scan c (i + 1) rest s e
    | .start k => if e.isSome then some (some (i + k), e) else scan c (i + 1) rest (some (i + k)) e
    | .stop k => if s.isSome then some (s, some (i + k)) else scan c (i + 1) rest s (some (i + k))

def findMarkedSection (c : Cfg) (lines : List Line) : Option (Option Nat × Option Nat) :=
  scan c 0 lines none none

/-- `kernel[start:end]` with the `-1` defaults of `reduce_to_section` -/
def slice (lines : List Line) (se : Option Nat × Option Nat) : List Line :=
  (lines.take (se.2.getD lines.length)).drop (se.1.getD 0)

def reduceWith (c : Cfg) (lines : List Line) : Option (List Line) :=
  (findMarkedSection c lines).map (slice lines)

inductive Sel where
  | ok (kernel : List Line)
  /-- `ValueError("ISA not supported.")` -/
  | badIsa
  /-- an exception out of `find_marked_section` -/
  | raised
  deriving DecidableEq, Repr

/-- `reduce_to_section(kernel, isa)` -/
def reduceToSection (lines : List Line) (isa : Txt) : Sel :=
  let isa := if Gen.isaLowered then lower isa else isa
  if isa = Gen.x86IsaName then
    match reduceWith x86Cfg lines with | some k => .ok k | none => .raised
  else if isa = Gen.a64IsaName then
    match reduceWith a64Cfg lines with | some k => .ok k | none => .raised
  else .badIsa

/-! ### `--lines` -/

/-- `list(range(a, b))` over the integers -/
def rangeInt (a b : Int) : List Int := (List.range (b - a).toNat).map (fun (k : Nat) => a + (k : Int))

/-- one comma-separated piece of `get_line_range` (after `:` has become `-`) -/
def pieceRange (p : Txt) : Option (List Int) :=
  if p.contains Gen.lrRangeSep then
    let parts := splitOn Gen.lrRangeSep p
    match parts[Gen.lrIdxStart]?, parts[Gen.lrIdxEnd]? with
    | some a, some b =>
      match pyInt10 a, pyInt10 b with
      | some s, some e => some (rangeInt s (e + Gen.lrEndInc))
      | _, _ => none
    | _, _ => none
  else (pyInt10 p).map (fun n => [n])

def collect : List (Option (List Int)) → Option (List Int)
  | [] => some []
  | none :: _ => none
  | some r :: rest => (collect rest).map (fun t => r ++ t)

/-- `get_line_range(line_str)`; `none` = `ValueError` -/
def getLineRange (s : Txt) : Option (List Int) :=
  let s := s.map (fun c => if c = Gen.lrReplaceFrom then Gen.lrReplaceTo else c)
  collect ((splitOn Gen.lrListSep s).map pieceRange)

/-- `[line for line in parsed_code if line.line_number in line_range]` -/
def selectLines (range : List Int) (kernel : List Line) : List Line :=
  kernel.filter (fun l => range.contains (l.num : Int))

/-! ### which lines of a file exist, and their numbers (`BaseParser.parse_file`) -/

def numberFrom (start : Nat) : Nat → List Txt → List (Nat × Txt)
  | _, [] => []
  | i, t :: ts =>
    if isBlank t then numberFrom start (i + 1) ts
    else (i + Gen.pfFirstLine + start, t) :: numberFrom start (i + 1) ts

/-- line numbers and raw texts of the instruction forms `parse_file(content, start)` creates -/
def parseFileNums (content : Txt) (start : Nat := Gen.pfStartLineDefault) : List (Nat × Txt) :=
  numberFrom start 0 (splitOn Gen.pfSep content)

end OsacaVerif.Marker
