import OsacaVerif.Model.LCD
/-
  The marking done by the repaired `KernelDG.get_critical_path` (osaca/semantics/kernel_dg.py) on top
  of the table `LCD.cpTable`: the line with the largest `chain_length` (the first one on ties, as
  Python's `max(lines, key=chain_length)`), the walk back along the predecessor pointers
  (`longer[last][1]`, then `carried[pred][1]` until `None`), and the per-line `latency_cp` values.
-/
namespace OsacaVerif.LCD
open OsacaVerif OsacaVerif.DG

/-- Python `max(lines, key=chain_length)`: the first line with the maximal `chain_length` -/
def cpLast (k : List Ins) (t : List CpRow) : Option Ins :=
  match k with
  | [] => none
  | i :: is => some (is.foldl (fun (m : Ins) (x : Ins) =>
      if chainLengthAt k t m < chainLengthAt k t x then x else m) i)

/-- `carried[p][1]`: the predecessor a chain through line `p` comes from (`None`: it starts at `p`) -/
def cpPredOf (t : List CpRow) (p : Nat) : Option Nat := (t.find? (·.line == p)).bind (·.carried.2)

/-- the loop `while pred is not None: path.insert(0, pred); pred = carried[pred][1]`
    (fuel = number of lines: the predecessors strictly decrease) -/
def cpBack (t : List CpRow) : Nat → Option Nat → List Nat → List Nat
  | 0, _, acc => acc
  | _ + 1, none, acc => acc
  | fuel + 1, some p, acc => cpBack t fuel (cpPredOf t p) (p :: acc)

/-- the lines of the reported critical path, ascending -/
def cpPath (k : List Ins) (es : List Edge) : List Nat :=
  let t := cpTable k es
  match cpLast k t with
  | none => []
  | some i =>
    cpBack t k.length ((t.find? (·.line == i.line)).bind (fun r => r.longer.map (·.2))) [i.line]

/-- `self.dg.edges[(a, b)]["latency"]` for two instruction nodes (0 if there is no such edge) -/
def cpEdgeW (es : List Edge) (a b : Nat) : Rat :=
  match es.find? (fun e => e.src == ⟨a, false⟩ && e.dst == ⟨b, false⟩) with
  | some e => e.w
  | none => 0

/-- `self._get_node_by_lineno(l).latency` -/
def cpLatOf (k : List Ins) (l : Nat) : Rat :=
  match k.find? (·.line == l) with | some i => i.lat | none => 0

/-- `latency_cp` along a path: the latency of the edge to the next line; for the last line its own
    latency -/
def cpMarksFrom (k : List Ins) (es : List Edge) : List Nat → List (Nat × Rat)
  | [] => []
  | [a] => [(a, cpLatOf k a)]
  | a :: b :: rest => (a, cpEdgeW es a b) :: cpMarksFrom k es (b :: rest)

/-- the marked lines with their `latency_cp`: as `cpMarksFrom`, and the first line of a path with
    at least two lines additionally gets the latency of the edge from its load node -/
def cpMarks (k : List Ins) (es : List Edge) : List (Nat × Rat) :=
  match cpPath k es with
  | a :: b :: rest => (a, loadEdgeOf es a + cpEdgeW es a b) :: cpMarksFrom k es (b :: rest)
  | p => cpMarksFrom k es p

end OsacaVerif.LCD
