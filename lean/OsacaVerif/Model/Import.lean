import OsacaVerif.Model.ImportText
import OsacaVerif.Model.ImportTypes
import OsacaVerif.Gen.ImportConsts
/-
  Model of the benchmark importer (C20): osaca/db_interface.py
    `_validate_measurement`, `_create_db_operand*`, `_get_ibench_output`, `_get_asmbench_output`,
    `import_benchmark_output`;  osaca/semantics/hw_model.py `set_instruction(_entry)`, `dump`
  (the part of `dump` that decides which instruction forms are emitted).
  Every literal comes from `Gen.Import` (regenerated from the source on every run).
  Numbers are exact rationals; the measurement is the decimal that stands in the file.
-/
namespace OsacaVerif.Import
open OsacaVerif.Text OsacaVerif.ImportText
open OsacaVerif.Gen.Import

/-! ### `_validate_measurement` -/

/-- Python `round(x)` on an exact value: nearest integer, ties to even -/
def roundHalfEven (q : Rat) : Int :=
  let f := q.floor
  let d := q - (f : Rat)
  if d < 1 / 2 then f else if 1 / 2 < d then f + 1 else if f % 2 = 0 then f else f + 1

/-- Python `round(x, k)` on an exact value -/
def roundDigitsHE (k : Nat) (q : Rat) : Rat := (roundHalfEven (q * pow10 k) : Rat) / pow10 k

/-- `math.ceil` -/
def ceilI (q : Rat) : Int := -((-q).floor)

/-- mode `"lt"`:  `floor(m) * 1.05 >= m or ceil(m) * 0.95 <= m  →  float(round(m))` -/
def validateLt (m : Rat) : Option Rat :=
  if m ≤ (m.floor : Rat) * ltHi ∨ (ceilI m : Rat) * ltLo ≤ m then some (roundHalfEven m : Rat) else none

/-- `range(1, 11)` -/
def reciprocals : List Nat := List.range' reciFrom (reciTo - reciFrom)

def inTpWindow (m : Rat) (n : Nat) : Bool :=
  decide (1 / (n : Rat) * tpLo ≤ m ∧ m ≤ 1 / (n : Rat) * tpHi)

/-- mode `"tp"`: first `n` of the range with `reci*0.95 <= m <= reci*1.05` → `round(reci, 5)` -/
def validateTp (m : Rat) : Option Rat :=
  (reciprocals.find? (inTpWindow m)).map fun (n : Nat) => roundDigitsHE roundDigits (1 / (n : Rat))

/-! ### operand codes: interpreter of the if/elif chains in `Gen.Import.x86Rules` / `a64Rules` -/

inductive Isa where
  | x86
  | a64
  deriving DecidableEq, Repr

def evalTest (op : Txt) : Test → Bool
  | .eq s => op == s
  | .inStr s => isInfix op s
  | .starts s => startsWith op s

/-- `t[lo:hi]` for `0 ≤ lo`, `0 ≤ hi` -/
def slice (t : Txt) (lo hi : Nat) : Txt := (t.take hi).drop lo

def evalV (op : Txt) : VExpr → V
  | .lit v => v
  | .operand => .s op
  | .operandPlus suf => .s (op ++ suf)
  | .ifHas c a b => if isInfix c op then evalV op a else evalV op b
  | .sliceOr lo hi d => if (slice op lo hi).isEmpty then .s d else .s (slice op lo hi)

def evalFields (op : Txt) (fs : List (Txt × VExpr)) : Dict := fs.map fun kv => (kv.1, evalV op kv.2)

/-- first branch whose test holds; `none` = `raise ValueError` -/
def decode (rules : List Rule) (op : Txt) : Option Dict :=
  match rules with
  | [] => none
  | r :: rs => if evalTest op r.1 then some (evalFields op r.2) else decode rs op

def rulesOf : Isa → List Rule
  | .x86 => x86Rules
  | .a64 => a64Rules

/-- `_create_db_operand(operand, isa)` -/
def createDbOperand (isa : Isa) (op : Txt) : Option Dict := decode (rulesOf isa) op

/-! ### results and entries -/

/-- the two exception types the parsing code can raise -/
inductive Err where
  | index      -- IndexError (`split(..)[1]` without a second field / token)
  | value      -- ValueError (invalid operand code, `float()` of a non-number)
  deriving DecidableEq, Repr

inductive Res (α : Type) where
  | ok (a : α)
  | err (e : Err)
  deriving Repr

instance {α} [DecidableEq α] : DecidableEq (Res α) := fun a b =>
  match a, b with
  | .ok x, .ok y => if h : x = y then isTrue (by rw [h]) else isFalse (by intro h'; cases h'; exact h rfl)
  | .err x, .err y => if h : x = y then isTrue (by rw [h]) else isFalse (by intro h'; cases h'; exact h rfl)
  | .ok _, .err _ => isFalse (by intro h; cases h)
  | .err _, .ok _ => isFalse (by intro h; cases h)

def Res.bind {α β} (r : Res α) (f : α → Res β) : Res β :=
  match r with
  | .ok a => f a
  | .err e => .err e

def Res.map {α β} (f : α → β) (r : Res α) : Res β :=
  match r with
  | .ok a => .ok (f a)
  | .err e => .err e

def Res.toOption {α} : Res α → Option α
  | .ok a => some a
  | .err _ => none

/-- what the importer hands to `set_instruction_entry` -/
structure Entry where
  mnemonic : Txt
  operands : List Dict
  tp : Option Rat
  lt : Option Rat
  deriving DecidableEq, Repr

/-- insertion-ordered dict `db_entries` -/
abbrev Acc := List (Txt × Entry)

def lookup (k : Txt) : Acc → Option Entry
  | [] => none
  | (k', e) :: r => if k' = k then some e else lookup k r

/-- `db_entries[k] = e` (position of the first insertion is kept) -/
def upsert (k : Txt) (e : Entry) : Acc → Acc
  | [] => [(k, e)]
  | (k', e') :: r => if k' = k then (k, e) :: r else (k', e') :: upsert k e r

def decodeAll (isa : Isa) : List Txt → Res (List Dict)
  | [] => .ok []
  | c :: cs =>
    match createDbOperand isa c with
    | none => .err .value
    | some d =>
      match decodeAll isa cs with
      | .ok ds => .ok (d :: ds)
      | .err e => .err e

/-- mnemonic and operands from `MNEMONIC-OP1_OP2…[-…]` -/
def newEntry (isa : Isa) (name : Txt) : Res Entry :=
  let fields := splitOn ibDash name
  match fields[1]? with
  | none => .err .index
  | some ops =>
    (decodeAll isa (splitOn ibUnder ops)).map fun ds =>
      { mnemonic := fields.headD [], operands := ds, tp := none, lt := none }

/-- `float(line.split()[k])` -/
def measurement (k : Nat) (line : Txt) : Res Rat :=
  match (splitWs line)[k]? with
  | none => .err .index
  | some tok =>
    match parseDecimal tok with
    | none => .err .value
    | some q => .ok q

/-! ### `_get_ibench_output` -/

/-- what the loop body reads off one line -/
structure ILine where
  skip : Bool          -- `"Using frequency" in line or len(line) == 0`
  instr : Txt          -- `line.split(":")[0]`
  meas : Res Rat       -- `float(line.split()[1])`, evaluated only in the TP / LT branch
  deriving Repr

def viewLine (line : Txt) : ILine :=
  { skip := isInfix ibSkip line || line.isEmpty
    instr := (splitOn ibColon line).headD []
    meas := measurement ibTok line }

/-- `"-".join(instruction.split("-")[:2])` -/
def keyOf (instr : Txt) : Txt := join ibDash ((splitOn ibDash instr).take ibKeyFields)

/-- the TP / LT test of the dispatch, as the source has it now -/
def hasTag (tag instr : Txt) : Bool :=
  let i := if ibDispatchRstrip then rstrip instr else instr
  if ibDispatchSuffix then endsWith i tag else isInfix tag i

def isTP (l : ILine) : Bool := hasTag ibTpTag l.instr
def isLT (l : ILine) : Bool := !isTP l && hasTag ibLtTag l.instr

/-- one iteration of the loop -/
def step (isa : Isa) (acc : Acc) (l : ILine) : Res Acc :=
  if l.skip then .ok acc
  else
    let key := keyOf l.instr
    let e0 : Res Entry :=
      match lookup key acc with
      | some e => .ok e
      | none => newEntry isa l.instr
    e0.bind fun e =>
      let e1 : Res Entry :=
        if isTP l then l.meas.map fun m => { e with tp := validateTp m }
        else if isLT l then l.meas.map fun m => { e with lt := validateLt m }
        else .ok e
      e1.map fun e' => upsert key e' acc

def run (isa : Isa) : List ILine → Acc → Res Acc
  | [], acc => .ok acc
  | l :: ls, acc =>
    match step isa acc l with
    | .ok a => run isa ls a
    | .err e => .err e

def ibench (isa : Isa) (lines : List Txt) : Res Acc := run isa (lines.map viewLine) []

/-! ### `_get_asmbench_output` -/

/-- one well-placed block of `abStep` lines → `(i_form, entry)`; the throughput argument is
    evaluated before the latency argument -/
def blockEntry (isa : Isa) (blk : List Txt) : Res (Txt × Entry) :=
  let name := strip (blk.getD abName [])
  (newEntry isa name).bind fun e =>
    (measurement abTok (blk.getD abTp [])).bind fun t =>
      (measurement abTok (blk.getD abLat [])).map fun l =>
        (name, { e with tp := validateTp t, lt := validateLt l })

/-- the loop `for i in range(0, len(input_data), step)`; `fuel` bounds the number of iterations -/
def asmGo (isa : Isa) : Nat → List Txt → Acc → Res Acc
  | 0, _, acc => .ok acc
  | fuel + 1, lines, acc =>
    if lines.isEmpty then .ok acc
    else if lines.length ≤ abBlank then (if abGuard then .ok acc else .err .index)
    else if !(strip (lines.getD abBlank [])).isEmpty then .ok acc      -- malformed: stop here
    else
      match blockEntry isa (lines.take abStep) with
      | .err e => .err e
      | .ok (k, e) => asmGo isa fuel (lines.drop abStep) (upsert k e acc)

def asmbench (isa : Isa) (lines : List Txt) : Res Acc := asmGo isa lines.length lines []

/-! ### `set_instruction_entry` / `dump`: which forms are emitted -/

/-- The machine model as far as the import touches it.  `existing`: forms loaded from the YAML
    file — in the look-up index as objects of their own (key = upper-cased name, operand count),
    while `dump` walks the untouched list.  `added`: objects appended by the import, in both the
    list and the index (index key = mnemonic as written when appended). -/
structure MState where
  existing : List (Txt × Nat)
  added : List (Txt × Entry)
  deriving Repr

/-- `_match_operands` of DB-format (dict) operands: equal length and, operand by operand,
    x86 falls through to `_compare_db_entries` (= `True`), AArch64 ends in `return False`. -/
def matchArity (isa : Isa) (a b : Nat) : Bool := a == b && (isa == .x86 || a == 0)

inductive Hit where
  | existing
  | added (j : Nat)
  | miss
  deriving DecidableEq, Repr

def findAdded (isa : Isa) (K : Txt) (ar : Nat) : List (Txt × Entry) → Nat → Option Nat
  | [], _ => none
  | (k, e) :: r, j => if k = K ∧ matchArity isa e.operands.length ar then some j else findAdded isa K ar r (j + 1)

/-- `get_instruction(mnemonic, operands)`: bucket `name.upper()`, loaded forms first -/
def lookupIdx (isa : Isa) (st : MState) (name : Txt) (ar : Nat) : Hit :=
  let K := upper name
  if st.existing.any (fun x => x.1 = K ∧ matchArity isa x.2 ar) then .existing
  else
    match findAdded isa K ar st.added 0 with
    | some j => .added j
    | none => .miss

def setAt (j : Nat) (e : Entry) : List (Txt × Entry) → List (Txt × Entry)
  | [] => []
  | (k, e') :: r => match j with
    | 0 => (k, e) :: r
    | j + 1 => (k, e') :: setAt j e r

/-- `set_instruction`: overwrite the object found by the look-up, else append a new one -/
def insert (isa : Isa) (st : MState) (e : Entry) : MState :=
  match lookupIdx isa st e.mnemonic e.operands.length with
  | .existing => st                                   -- only the index object changes: invisible to `dump`
  | .added j => { st with added := setAt j e st.added }
  | .miss => { st with added := st.added ++ [(e.mnemonic, e)] }

def insertAll (isa : Isa) (st : MState) (es : List Entry) : MState := es.foldl (insert isa) st

/-- the appended part of the `instruction_forms` list written by `dump` -/
def dumpAdded (st : MState) : List Entry := st.added.map (·.2)

/-- `import_benchmark_output`: the forms emitted after the model's own -/
def importBench (isa : Isa) (asm : Bool) (existing : List (Txt × Nat)) (lines : List Txt) : Res (List Entry) :=
  ((if asm then asmbench isa lines else ibench isa lines)).map fun acc =>
    dumpAdded (insertAll isa { existing := existing, added := [] } (acc.map (·.2)))

end OsacaVerif.Import
