import OsacaVerif.Model.Ports
/-
  The 0.01-step port balancer (`ArchSemantics.assign_optimal_throughput`) as a *relation*.

  The real loop branches on floating-point noise, so it is not modelled as a function.  What is
  modelled is the bookkeeping it performs on one instruction: the instruction's pressure vector is
  the column sum of a per-micro-op decomposition `x` (row j = where micro-op j's cycles currently
  sit), and every mutation the loop performs moves an amount `δ` of micro-op j from one of its
  admissible ports to another (`δ = INC` for a balancing step; `δ` = the residual for the
  "add the residual to the former port" step, in which case the source cell becomes 0).
  `lo` is the lower bound a cell may reach (−½·INC: the loop removes a port from balancing as soon as
  its cell rounds to ≤ 0).
-/
namespace OsacaVerif.Balance
open OsacaVerif OsacaVerif.Ports

abbrev Decomp := List (List Rat)      -- one row (length n) per micro-op

def initRow (n : Nat) (u : Uop) : List Rat := (List.range n).map (share u)
def init (n : Nat) (us : List Uop) : Decomp := us.map (initRow n)

def moveRow (row : List Rat) (a b : Nat) (δ : Rat) : List Rat := addAt (addAt row a (-δ)) b δ

/-- guard of one move of micro-op `u` on its row -/
def guardOk (lo : Rat) (u : Uop) (row : List Rat) (a b : Nat) (δ : Rat) : Bool :=
  u.ports.contains a && u.ports.contains b && a != b &&
  decide (lo ≤ row.getD a 0 - δ) && decide (lo ≤ row.getD b 0 + δ)

structure Move where
  j : Nat
  a : Nat
  b : Nat
  δ : Rat
  deriving Repr

/-- apply one move if its guard holds -/
def step (lo : Rat) (us : List Uop) (x : Decomp) (m : Move) : Option Decomp :=
  match us[m.j]?, x[m.j]? with
  | some u, some row =>
    if guardOk lo u row m.a m.b m.δ then some (x.set m.j (moveRow row m.a m.b m.δ)) else none
  | _, _ => none

def run (lo : Rat) (us : List Uop) (x : Decomp) : List Move → Option Decomp
  | [] => some x
  | m :: ms => match step lo us x m with
    | some x' => run lo us x' ms
    | none => none

/-- the instruction's pressure vector: column sums of the decomposition -/
def pressure (n : Nat) (x : Decomp) : List Rat :=
  (List.range n).map fun p => (x.map (·.getD p 0)).sum

end OsacaVerif.Balance
