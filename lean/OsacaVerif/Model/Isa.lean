import OsacaVerif.Model.Match
import OsacaVerif.Model.IsaOp
import OsacaVerif.Model.DG
import OsacaVerif.Gen.Operations
/-
  Operand roles and register changes: model of `ISASemantics.assign_src_dst`, `_apply_found_ISA_data`,
  `_get_regular_source_operands`, `_get_regular_destination_operands`, `substitute_mem_address`,
  `_has_load`, `_has_store` and `get_reg_changes` (osaca/semantics/isa_semantics.py), on top of the
  instruction-form matcher model (`Model/Match.lean`).  Rule by rule in the code's order, quirks included.

  An instruction is its mnemonic and its operands as the parser produced them (`Opnd`: the matcher's view
  `POperand` plus what the later stages read: the identity under `__eq__`, immediate / offset / post-index
  values).  An ISA database is a list of `IsaEntry` in `MachineModel`'s post-expansion order.
-/
namespace OsacaVerif.Isa
open OsacaVerif OsacaVerif.Text OsacaVerif.Operand OsacaVerif.IsaOp

/-! ### data -/

/-- `source` / `destination` of an entry operand (truth values) -/
structure Role where
  src : Bool
  dst : Bool
  deriving DecidableEq, Repr, Inhabited

/-- a hidden operand of an entry after `operand_to_class` -/
inductive HOp where
  | reg (pfx : Option Txt) (name : Txt)
  | flag (name : Txt)
  /-- `base`: `RegisterOperand(name=…)` or None; `index`: (prefix, name) or None; offset present? -/
  | mem (base : Option Txt) (index : Option (Option Txt × Txt)) (scale : Int) (hasOffset : Bool)
  | other
  deriving DecidableEq, Repr, Inhabited

structure IsaEntry where
  e : Entry                      -- upper-cased name and operand patterns: what the matcher reads
  roles : List Role              -- per operand pattern
  hidden : List (HOp × Role) := []
  brk : Bool := false            -- `breaks_dependency_on_equal_operands` (truth value)
  operation : Option Prog := none
  deriving Repr, Inhabited

/-- `ImmediateOperand.value` / `post_indexed["value"]` -/
inductive Val where
  | int (v : Int)
  | none             -- Python `None`
  | other            -- float, string, …: outside the model
  /-- `post_indexed` only: the dictionary has NO `"value"` key.  `ParserAArch64.process_memory_address` keeps the
      grammar's own parse result when the post-index amount is not a number: a register
      (`ld1 {v0.4s}, [x0], x1` ↦ `{"identifier": {"name": "x1"}}`) or a symbol.  The base register is then changed
      by an amount that is not known statically. -/
  | absent
  deriving DecidableEq, Repr, Inhabited

/-- `MemoryOperand.offset` as `get_reg_changes` reads it -/
inductive MOff where
  | absent           -- `None`
  | imm (v : Val)    -- an `ImmediateOperand`
  | obj              -- an object without `.value` (identifier)
  deriving DecidableEq, Repr, Inhabited

/-- an operand of an instruction -/
structure Opnd where
  p : POperand
  key : Txt                 -- identity under `==` (`__eq__` of the operand classes): equal keys ⇔ equal operands
  val : Val := .none        -- immediates: `value`
  off : MOff := .absent     -- memory: `offset`
  /-- memory with `off = .obj`: canonical text of a symbolic displacement (`IdentifierOperand`: name, constant
      offset, relocation) as `kernel_dg.is_memload` compares it; `[]`: not an identifier -/
  offSym : Txt := []
  postVal : Val := .none    -- memory: `post_indexed["value"]` (`.absent`: a dict without that key)
  deriving DecidableEq, Repr, Inhabited

/-- an element of `semantic_operands[…]` -/
inductive SemOp where
  | op (i : Nat) (o : Opnd)                    -- `operands[i]`
  | hid (h : HOp)                              -- a hidden operand of the entry
  /-- `operands[i].base` with `pre_indexed` / `post_indexed` copied from the memory operand -/
  | wb (i : Nat) (base : PReg) (pre post : Bool) (postVal : Val)
  deriving DecidableEq, Repr, Inhabited

structure Sem where
  src : List SemOp := []
  dst : List SemOp := []
  srcDst : List SemOp := []
  deriving DecidableEq, Repr, Inhabited

structure Result where
  sem : Sem
  hasLd : Bool            -- `INSTR_FLAGS.HAS_LD` added
  hasSt : Bool            -- `INSTR_FLAGS.HAS_ST` added
  deriving DecidableEq, Repr, Inhabited

/-! ### lookup (`get_instruction` with the suffix fall-backs of `assign_src_dst` / `get_reg_changes`) -/

def getInstruction (isa : Isa) (db : List IsaEntry) (name : Txt) (ops : List POperand) : Option IsaEntry :=
  db.find? (fun e => Match.entryMatches isa name ops e.e)

/-- `mnemonic[:-1]` if `mnemonic[-1] in ISASemantics.GAS_SUFFIXES` -/
def dropGasSuffix (name : Txt) : Option Txt :=
  match name.getLast? with
  | some c => if Gen.gasSuffixesIsa.contains c then some name.dropLast else none
  | none => none

def fallbackName (isa : Isa) (name : Txt) : Option Txt :=
  match isa with
  | .x86 => dropGasSuffix name
  | .a64 => Match.cutAtDot name

/-- full mnemonic first; on failure the mnemonic without AT&T suffix (x86) / cut at the first '.' (AArch64) -/
def lookup (isa : Isa) (db : List IsaEntry) (name : Txt) (ops : List POperand) : Option IsaEntry :=
  match getInstruction isa db name ops with
  | some e => some e
  | none =>
    match fallbackName isa name with
    | some n => getInstruction isa db n ops
    | none => none

/-- `substitute_mem_address`: every memory operand becomes the register wildcard -/
def substituteMem (ops : List POperand) : List POperand :=
  ops.map fun o => match o with
    | .mem _ => .wild
    | o => o

def isMemP : POperand → Bool
  | .mem _ => true
  | _ => false

/-! ### `_apply_found_ISA_data` -/

/-- `[operands[0], operands[1], …]` as semantic operands -/
def indexedFrom : Nat → List Opnd → List SemOp
  | _, [] => []
  | i, o :: os => .op i o :: indexedFrom (i + 1) os

def indexed (ops : List Opnd) : List SemOp := indexedFrom 0 ops

/-- `operands[1:] == operands[:-1]` -/
def adjEq : List Opnd → Bool
  | a :: b :: rest => a.key == b.key && adjEq (b :: rest)
  | _ => true

/-- the three tests of the loop over `isa_data.operands`, in order -/
def isSrcDst (r : Role) : Bool := r.src && r.dst
def isSrc (r : Role) : Bool := r.src && !r.dst
def isDst (r : Role) : Bool := !r.src && r.dst

/-- `dict_key` of a hidden operand: `src_dst` if both, `source` if source, else `destination` -/
def hidSrcDst (r : Role) : Bool := r.src && r.dst
def hidSrc (r : Role) : Bool := r.src && !r.dst
def hidDst (r : Role) : Bool := !r.src

/-- the operands (position by position) whose entry operand passes `f` -/
def pick (f : Role → Bool) : List Role → List SemOp → List SemOp
  | r :: rs, o :: os => if f r then o :: pick f rs os else pick f rs os
  | _, _ => []

def pickHidden (f : Role → Bool) (h : List (HOp × Role)) : List SemOp :=
  (h.filter fun x => f x.2).map fun x => .hid x.1

def applyEntry (e : IsaEntry) (ops : List Opnd) : Sem :=
  if e.brk && adjEq ops then
    { src := [], dst := indexed ops ++ e.hidden.map (fun x => .hid x.1), srcDst := [] }
  else
    { src := pick isSrc e.roles (indexed ops) ++ pickHidden hidSrc e.hidden,
      dst := pick isDst e.roles (indexed ops) ++ pickHidden hidDst e.hidden,
      srcDst := pick isSrcDst e.roles (indexed ops) ++ pickHidden hidSrcDst e.hidden }

/-! ### default roles -/

/-- Python `n`-element list index `i` of a slice bound, clamped -/
def pyBound (n : Nat) (i : Int) : Nat :=
  if i < 0 then n - i.natAbs else min i.toNat n

/-- Python `l[lo:hi]` -/
def pySlice {α : Type} (lo hi : Option Int) (l : List α) : List α :=
  let a := match lo with | some i => pyBound l.length i | none => 0
  let b := match hi with | some i => pyBound l.length i | none => l.length
  (l.take b).drop a

/-- `_get_regular_source_operands` / `_get_regular_destination_operands`; the slice bounds are the
    literals of the source (`Gen.default…`) -/
def defaultSem (isa : Isa) (ops : List Opnd) : Sem :=
  match ops with
  | [_] => { src := if Gen.singleIsSource then indexed ops else [],
             dst := if Gen.singleIsDestination then indexed ops else [],
             srcDst := [] }
  | _ =>
    match isa with
    | .x86 => { src := pySlice Gen.defaultSrcX86.1 Gen.defaultSrcX86.2 (indexed ops),
                dst := pySlice Gen.defaultDstX86.1 Gen.defaultDstX86.2 (indexed ops),
                srcDst := [] }
    | .a64 => { src := pySlice Gen.defaultSrcA64.1 Gen.defaultSrcA64.2 (indexed ops),
                dst := pySlice Gen.defaultDstA64.1 Gen.defaultDstA64.2 (indexed ops),
                srcDst := [] }

/-! ### AArch64 write-back -/

/-- the register appended to `src_dst` for a pre- or post-indexed memory operand -/
def wbOf : SemOp → Option SemOp
  | .op i o =>
    match o.p with
    | .mem m =>
      if m.post || m.pre then
        match m.base with
        | some b => some (.wb i b m.pre m.post o.postVal)
        | none => none
      else none
    | _ => none
  | _ => none

def writeBack (s : Sem) : Sem :=
  { s with srcDst := s.srcDst ++ s.src.filterMap wbOf ++ s.dst.filterMap wbOf }

/-! ### HAS_LD / HAS_ST -/

def isMem : SemOp → Bool
  | .op _ o => isMemP o.p
  | .hid (.mem _ _ _ _) => true
  | _ => false

def hasLoad (s : Sem) : Bool := (s.src ++ s.srcDst).any isMem
def hasStore (s : Sem) : Bool := (s.dst ++ s.srcDst).any isMem

/-! ### `assign_src_dst` -/

/-- roles before the AArch64 post-processing -/
def baseSem (isa : Isa) (db : List IsaEntry) (name : Txt) (ops : List Opnd) : Sem :=
  let pops := ops.map (·.p)
  match lookup isa db name pops with
  | some e => applyEntry e ops
  | none =>
    if pops.any isMemP then
      match lookup isa db name (substituteMem pops) with
      | some e => applyEntry e ops
      | none => defaultSem isa ops
    else defaultSem isa ops

def semOf (isa : Isa) (db : List IsaEntry) (name : Txt) (ops : List Opnd) : Sem :=
  match isa with
  | .x86 => baseSem isa db name ops
  | .a64 => writeBack (baseSem isa db name ops)

/-- `assign_src_dst(instruction_form)`; `mnemonic = none` is a line without instruction -/
def assignSrcDst (isa : Isa) (db : List IsaEntry) (mnemonic : Option Txt) (ops : List Opnd) : Result :=
  match mnemonic with
  | none => { sem := {}, hasLd := false, hasSt := false }
  | some name =>
    let s := semOf isa db name ops
    { sem := s, hasLd := hasLoad s, hasSt := hasStore s }

/-! ### `get_reg_changes` -/

def fullName (pfx : Option Txt) (name : Txt) : Txt := pfx.getD [] ++ name

/-- name of a destination that `get_reg_changes` reports: a register whose `post_indexed` is not a dict -/
def destName : SemOp → Option Txt
  | .op _ o =>
    match o.p with
    | .reg r => some (fullName r.pfx r.name)
    | _ => none
  | .hid (.reg p n) => some (fullName p n)
  | .hid _ => none
  | .wb _ b _ post _ => if post then none else some (fullName b.pfx b.name)

def destNames (s : Sem) : List Txt := (s.dst ++ s.srcDst).filterMap destName

/-- `d["value"]` / `o.value` as a number.  `.absent` is what a plain subscript does on a dictionary without the
    key (`KeyError: 'value'`): that was `get_reg_changes(…, only_postindexed=True)` before the repair, for every access
    post-indexed by a register; the repaired code tests for the key first (`postChange`), so no path of the model
    reaches this case with a value the parser can produce. -/
def valInt : Val → Except Err (Option Int)
  | .int v => .ok (some v)
  | .none => .ok none
  | .other => .error .unsupported
  | .absent => .error .keyError

/-- `only_postindexed=True`: the first memory operand with a base and a post-index dict.
    `if "value" not in o.post_indexed: return {base_name: None}` — a post-index by a register changes the base
    "beyond reconstruction" (`KernelDG._update_reg_changes` reads `None` that way); otherwise
    `{base_name: {"name": base_name, "value": o.post_indexed["value"]}}`. -/
def postChange : List Opnd → Except Err (List (Txt × Option OpState))
  | [] => .ok []
  | o :: rest =>
    match o.p with
    | .mem m =>
      match m.base, m.post with
      | some b, true =>
        match o.postVal with
        | .absent => .ok [(fullName b.pfx b.name, none)]
        | pv =>
          match valInt pv with
          | .error e => .error e
          | .ok v => .ok [(fullName b.pfx b.name, some { name := some (fullName b.pfx b.name), value := v })]
      | _, _ => postChange rest
    | _ => postChange rest

/-- state of the name map and `operand_state` -/
structure Track where
  names : List (Txt × Nat) := []     -- `reg_operand_names` (register name ↦ N of `opN`)
  state : State := []                -- `operand_state`
  deriving Repr, Inhabited

def nameGet (l : List (Txt × Nat)) (n : Txt) : Option Nat :=
  match l with
  | [] => none
  | (k, v) :: rest => if k == n then some v else nameGet rest n

def nameSet (l : List (Txt × Nat)) (n : Txt) (v : Nat) : List (Txt × Nat) :=
  match l with
  | [] => [(n, v)]
  | (k, v') :: rest => if k == n then (k, v) :: rest else (k, v') :: nameSet rest n v

/-- `operand_state[key] = d` (dict store: overwrite or append) -/
def statePut (s : State) (n : Nat) (d : OpState) : State :=
  match s with
  | [] => [(n, d)]
  | (k, d') :: rest => if k == n then (k, d) :: rest else (k, d') :: statePut rest n d

/-- the loop over pre-indexed memory operands: each one REPLACES both dictionaries -/
def preIndexed (hasOperation : Bool) : Track → List Opnd → Except Err Track
  | t, [] => .ok t
  | t, o :: rest =>
    match o.p with
    | .mem m =>
      if m.pre then
        if hasOperation then .error .valueError
        else
          match m.base with
          | none => .error .attributeError
          | some b =>
            match o.off with
            | .imm v =>
              match valInt v with
              | .error e => .error e
              | .ok x =>
                let bn := fullName b.pfx b.name
                preIndexed hasOperation { names := [(bn, Gen.preIndexedOp)],
                                          state := [(Gen.preIndexedOp, { name := some bn, value := x })] } rest
            | _ => .error .attributeError
      else preIndexed hasOperation t rest
    | _ => preIndexed hasOperation t rest

/-- the loop `for i, o in enumerate(operands)` filling `reg_operand_names` / `operand_state` -/
def bindOperands : Nat → List Role → List Opnd → Track → Except Err Track
  | _, _, [], t => .ok t
  | i, roles, o :: rest, t =>
    let tail := roles.drop 1
    match o.p with
    | .reg r =>
      let nm := fullName r.pfx r.name
      -- `isa_data.operands[i].destination`: the matched entry has as many operands as the instruction
      let isDest := match roles with | ro :: _ => ro.dst | [] => false
      let names := if (nameGet t.names nm).isNone || isDest then nameSet t.names nm (i + Gen.opIndexBase) else t.names
      bindOperands (i + 1) tail rest { names := names, state := statePut t.state (i + Gen.opIndexBase) { name := some nm, value := some Gen.regInitValue } }
    | .imm _ _ _ =>
      match valInt o.val with
      | .error e => .error e
      | .ok v => bindOperands (i + 1) tail rest { t with state := statePut t.state (i + Gen.opIndexBase) { name := none, value := v } }
    | _ => bindOperands (i + 1) tail rest t

/-- dict comprehension over `dest_reg_names`: a repeated name keeps its first position -/
def dedupKeys {α : Type} : List (Txt × α) → List (Txt × α)
  | [] => []
  | (k, v) :: rest => (k, v) :: (dedupKeys rest).filter (fun x => x.1 != k)

def changeOf (t : Track) (reg : Txt) : Option OpState :=
  match nameGet t.names reg with
  | some n => get t.state n
  | none => none

/-- `get_reg_changes(instruction_form, only_postindexed)`; `sem` is `instruction_form.semantic_operands` -/
def regChanges (isa : Isa) (db : List IsaEntry) (mnemonic : Option Txt) (ops : List Opnd) (sem : Sem)
    (onlyPost : Bool) : Except Err (List (Txt × Option OpState)) :=
  match mnemonic with
  | none => .ok []
  | some name =>
    if onlyPost then postChange ops
    else
      let entry := lookup isa db name (ops.map (·.p))
      let prog : Option Prog := entry.bind (·.operation)
      match preIndexed prog.isSome {} ops with
      | .error e => .error e
      | .ok t0 =>
        let tracked : Except Err Track :=
          match entry, prog with
          | some e, some p =>
            match bindOperands 0 e.roles ops t0 with
            | .error err => .error err
            | .ok t =>
              match exec t.state p with
              | .error err => .error err
              | .ok s => .ok { t with state := s }
          | _, _ => .ok t0
        match tracked with
        | .error e => .error e
        | .ok t => .ok (dedupKeys ((destNames sem).map fun r => (r, changeOf t r)))

/-! ### hand-over to the dependency-graph model (`Model/DG.lean`) -/

def dgReg (pfx : Option Txt) (name : Txt) (pre post : Bool) : DG.Reg :=
  { pre := pfx.getD [], name := name, preIdx := pre, postIdx := post }

/-- offset value as `kernel_dg.is_memload` reads it -/
def dgOffset : MOff → Option Int
  | .imm (.int v) => some v
  | _ => none

/-- symbolic displacement as `kernel_dg.is_memload` (repaired) reads it -/
def dgSym : MOff → Txt → Option Txt
  | .obj, t => if t.isEmpty then none else some t
  | _, _ => none

def toDG : SemOp → DG.Op
  | .op _ o =>
    match o.p with
    | .reg r => .reg (dgReg r.pfx r.name false false)
    | .mem m =>
      .mem { base := m.base.map (fun b => dgReg b.pfx b.name false false),
             index := m.index.map (fun b => dgReg b.pfx b.name false false),
             scale := m.scale, offset := dgOffset o.off, sym := dgSym o.off o.offSym,
             pre := m.pre, post := m.post, eqKey := o.key }
    | _ => .other
  | .hid (.reg p n) => .reg (dgReg p n false false)
  | .hid (.flag n) => .flag n
  | .hid (.mem b i sc _) =>
    .mem { base := b.map (fun n => dgReg none n false false),
           index := i.map (fun x => dgReg x.1 x.2 false false),
           scale := sc, offset := none, pre := false, post := false, eqKey := [72] }
  | .hid .other => .other
  | .wb _ b pre post _ => .reg (dgReg b.pfx b.name pre post)

/-- canonical form of a reported change as the dependency-graph model consumes it
    (`harness/dgenc.py: changes_y`): unknown unless both a name and an integer value are there -/
def toChange : Option OpState → Option DG.Change
  | some { name := some n, value := some v } => some { name := n, value := v }
  | _ => none

end OsacaVerif.Isa
