import OsacaVerif.Gen.WorkersConsts
/-
  The multi-process part of `KernelDG.check_for_loopcarried_dep` (kernel_dg.py):

  * static partition of the root instructions over `cpu_count()` workers (expressions regenerated
    from the source: `Gen.workloadExpr`, `Gen.startExpr`, `Gen.endExpr`, slice `kernel[s:e]`);
  * every worker (`_extend_path`) appends one *batch* per root (all simple paths root → root+offset)
    to the shared list with ONE `extend`; the shared list is therefore an interleaving of the
    workers' batch sequences (`Interleave`), `merge` is the executable version for a given schedule;
  * the poll loop with time-out (C19): abstract clock readings, workers with delivery times.
-/
namespace OsacaVerif.Workers

/-! ### partition -/

def workload (klen n : Nat) : Nat := Gen.workloadExpr klen n 0 0
def start (klen n tid : Nat) : Nat := Gen.startExpr klen n (workload klen n) tid
def stop (klen n tid : Nat) : Nat := Gen.endExpr klen n (workload klen n) tid

/-- `(workload, starts, ends)` exactly as the code computes them -/
def partition (klen n : Nat) : Nat × List Nat × List Nat :=
  (workload klen n, (List.range n).map (start klen n), (List.range n).map (stop klen n))

/-- Python `l[s:e]` for `0 ≤ s, e` -/
def pySlice (l : List α) (s e : Nat) : List α := (l.take e).drop s

/-- `instrs = [kernel[s:e] for s, e in zip(starts, ends)]` -/
def slices (kernel : List α) (n : Nat) : List (List α) :=
  let p := partition kernel.length n
  (p.2.1.zip p.2.2).map fun se => pySlice kernel se.1 se.2

/-! ### arrival orders -/

/-- `out` is an interleaving of the queues `qs` (each queue is consumed front to back) -/
inductive Interleave {β : Type} : List (List β) → List β → Prop
  | done {qs : List (List β)} : (∀ q ∈ qs, q = []) → Interleave qs []
  | step {qs : List (List β)} {out : List β} (i : Nat) (x : β) (rest : List β) :
      qs[i]? = some (x :: rest) → Interleave (qs.set i rest) out → Interleave qs (x :: out)

/-- executable arrival order: `sched` names the worker whose next batch arrives; when the
    schedule is exhausted the remaining queues are drained in worker order -/
def merge {β : Type} : List Nat → List (List β) → List β
  | [], qs => qs.flatten
  | i :: sched, qs =>
    match qs[i]? with
    | some (x :: rest) => x :: merge sched (qs.set i rest)
    | _ => merge sched qs

/-- what the workers deliver when nothing is cut: worker `t` one batch per root of its slice -/
def queues (batch : α → β) (kernel : List α) (n : Nat) : List (List β) :=
  (slices kernel n).map (·.map batch)

/-! ### poll loop (C19) -/

/-- one worker process: its batches with the time each is appended to the shared list, and the
    time from which `is_alive()` is false -/
structure Worker (β : Type) where
  batches : List (Rat × β)
  exit : Rat

def Worker.alive (w : Worker β) (t : Rat) : Bool := decide (t < w.exit)

/-- `time.time() - start_time <= timeout` (operator regenerated from the source) -/
def withinTimeout (start timeout t : Rat) : Bool :=
  if Gen.loopCondLe then decide (t - start ≤ timeout) else decide (t - start < timeout)

/-- The `while … else`: `ticks` are the successive values of `time.time()` in the loop condition
    (the aliveness test that follows uses the same instant).  Result: the reading at which the loop
    is left and whether it is left through the `else` (time-out) branch; `none` = still polling
    when the readings run out. -/
def poll (start timeout : Rat) (ws : List (Worker β)) : List Rat → Option (Rat × Bool)
  | [] => none
  | t :: ts =>
    if withinTimeout start timeout t then
      if ws.any (·.alive t) then poll start timeout ws ts else some (t, false)
    else some (t, true)

structure Outcome (β : Type) where
  /-- `self.timed_out` -/
  timedOut : Bool
  /-- per worker: was it killed -/
  killed : List Bool
  /-- per worker: the batches that reached the shared list -/
  delivered : List (List β)
  /-- reading at which the loop was left (`none` for plain joins) -/
  leftAt : Option Rat
  deriving DecidableEq

def allBatches (w : Worker β) : List β := w.batches.map (·.2)

/-- batches of a worker that is killed at time `c`: those appended up to then -/
def deliveredUntil (w : Worker β) (c : Rat) : List β :=
  (w.batches.filter fun b => decide (b.1 ≤ c)).map (·.2)

/-- The whole waiting part.  `kd` = delay between the loop's last clock reading and the
    `is_alive()`/kill of each worker (workers keep running meanwhile).  `flagFix` selects where
    `self.timed_out = True` stands (true: only next to a kill). -/
def run (flagFix : Bool) (timeout : Rat) (start : Rat) (ticks : List Rat) (kd : List Rat)
    (ws : List (Worker β)) : Option (Outcome β) :=
  if timeout = (Gen.noTimeoutValue : Int) then
    some ⟨false, ws.map (fun _ => false), ws.map allBatches, none⟩
  else
    match poll start timeout ws ticks with
    | none => none
    | some (t, false) => some ⟨false, ws.map (fun _ => false), ws.map allBatches, some t⟩
    | some (t, true) =>
      let cut := (List.range ws.length).map fun i => t + kd.getD i 0
      let killed := (ws.zip cut).map fun wc => wc.1.alive wc.2
      let delivered := (ws.zip cut).map fun wc =>
        if wc.1.alive wc.2 then deliveredUntil wc.1 wc.2 else allBatches wc.1
      some ⟨if flagFix then killed.any id else true, killed, delivered, some t⟩

/-- batch times never exceed the exit time (a process appends only while it is alive) -/
def Worker.WF (w : Worker β) : Prop := ∀ b ∈ w.batches, b.1 < w.exit

end OsacaVerif.Workers
