import OsacaVerif.Model.Text
import OsacaVerif.Gen.RegTables
/-
  Model of `ParserX86ATT.is_reg_dependend_of` and `ParserAArch64.is_reg_dependend_of`
  (osaca/parser/parser_x86att.py, parser_AArch64.py).  All tables come from `Gen.RegTables`.
-/
namespace OsacaVerif.RegDep
open OsacaVerif.Text

/-- `is_vector_register`: `name.rstrip(digits).lower() in [...]` -/
def isVectorRegister (name : Txt) : Bool :=
  Gen.vectorNames.contains (lower (rstripDigits name))

/-- `is_basic_gpr`: no digit in the name and no vector prefix -/
def isBasicGpr (name : Txt) : Bool :=
  !(anyDigit name || Gen.basicGprExcluded.any (fun p => startsWith (lower name) p))

/-- `re.match(r"R([0-9]+)[DWB]?", NAME)` → group 1 (maximal digit run after the head letter;
    `re.match` is anchored at the start only, so whatever follows is irrelevant). -/
def otherGprNum (nameUpper : Txt) : Option Txt :=
  match nameUpper with
  | c :: rest =>
    if c == Gen.otherGprHead then
      let d := (spanDigits rest).1
      if d.isEmpty then none else some d
    else none
  | [] => none

def inSameGroup (A B : Txt) : Bool :=
  Gen.gprGroups.any (fun g => g.contains A && g.contains B)

/-- x86 `is_reg_dependend_of(reg_a, reg_b)` on the two register names as written. -/
def x86 (a b : Txt) : Bool :=
  let A := upper a
  let B := upper b
  if A == B then true
  else if isVectorRegister a then
    (if isVectorRegister b then A.drop Gen.vectorNameDrop == B.drop Gen.vectorNameDrop else false)
  else if isBasicGpr a then
    (if isBasicGpr b then inSameGroup A B else false)
  else
    match otherGprNum A, otherGprNum B with
    | some x, some y => x == y
    | _, _ => false

/-- AArch64 `is_reg_dependend_of` on (prefix, name) pairs. -/
def a64 (pa na pb nb : Txt) : Bool :=
  (if Gen.a64NameFold then lower na == lower nb else na == nb) &&
  Gen.a64PrefixClasses.any (fun cls => isInfix (lower pa) cls && isInfix (lower pb) cls)

end OsacaVerif.RegDep
