import OsacaVerif.Model.Glue
import OsacaVerif.Model.Report
import OsacaVerif.Spec.Composed
/-
  From FILE TEXT to the analysis and its report: `osaca.osaca.inspect` under `--fixed` on an x86 or an
  AArch64 file, composed from the stage models — nothing is re-modelled here.  One definition for both
  ISAs: `analyse isa`; `analyseX86 = analyse .x86`, `analyseA64 = analyse .a64`.

      file text
        │  BaseParser.parse_file / ParserX86ATT.parse_line           ParseX86.parseFile      (C09)
        │                        / ParserAArch64.parse_line          ParseA64.parseFile      (C10)
        ▼
      parsed lines ── Glue.formX86 / Glue.formA64 ──► Glue.Form ── Form.sel ──► kernel selection (C11)
        │  per instruction line (a function of the line's text and the model only):
        │    ISASemantics.assign_src_dst                             Isa.assignSrcDst        (C03Roles)
        │      (AArch64: + write-back of pre- and post-indexed bases)
        │    ArchSemantics.assign_tp_lt  (lookup + fall-backs,       Compose.assignTpLt      (C07, C08)
        │      load/store composition, uniform pressure)             (Match, Ports.averageY) (C01)
        │    ISASemantics.get_reg_changes                            Isa.regChanges          (C03Roles)
        ▼
      Pipeline.PLine (selection view, Pipeline.Sem, raw text)
        │  selection ∘ graph ∘ critical path ∘ LCD ∘ column sums     Pipeline.run            (C11Pipeline)
        ▼
      Pipeline.Analysis ── Pipeline.toReport ──► Report.Analysis ── Report.fullAnalysis ──► text  (C13)

  The DEFAULT (optimal) scheduling path is at the end of this file: `analyseWith … P`, the same composition
  with the per-line pressure vectors the balancer left SUPPLIED, and `OptimalOutcome`, the relation "admissible
  outcome under optimal scheduling" (`analyse = analyseWith uniformP`, `Props/EndToEndOpt.lean`).

  Exceptions of the Python code are outcomes.  One difference in *when* they surface: the model
  computes the per-line data of every selected line eagerly (also `get_reg_changes`, which the
  Python code calls lazily during the scan of `find_depending`); whenever no such call raises —
  always, for the shipped ISA databases on parser outputs — the two agree.
-/
namespace OsacaVerif.EndToEnd
open OsacaVerif OsacaVerif.Text OsacaVerif.Operand

/-- the machine model: what `Match` / `Compose` / `Ports` consume, the two latencies `KernelDG` reads,
    and the ISA database of `ISASemantics` (`Gen.isaDbX86` / `Gen.isaDbA64` for the shipped `isa/x86.yml` /
    `isa/aarch64.yml`) -/
structure Model where
  mm : Compose.MModel
  par : DG.Params := {}
  isaDb : List Isa.IsaEntry

/-- the command line and the surroundings of the report -/
structure Opts where
  /-- `--lines <spec>`, or marker search (`reduce_to_section(parsed, isa)`) -/
  mode : Pipeline.Mode
  /-- `--consider-flag-deps` -/
  flagDeps : Bool := false
  /-- `--ignore-unknown` -/
  ignoreUnknown : Bool := false
  /-- `--arch` given (always, in the tie) -/
  archGiven : Bool := true
  /-- the `1000` of the LCD offset -/
  floor : Nat := 1000
  /-- header fields of the report -/
  version : Txt := []
  file : Txt := []
  arch : Txt := []
  stamp : Txt := []
  /-- Python's `repr(float)` (an input of the report model, DESIGN §3) -/
  repr : Rat → Txt

/-- the parser's exception, per ISA -/
inductive ParseErr where
  | x86 (e : X86.Err)
  | a64 (e : ParseA64.Err)
  deriving DecidableEq, Repr

/-- `parse_line` of the ISA's parser, behind the glue -/
inductive PRes where
  | ok (f : Glue.Form)
  | err (e : ParseErr)
  deriving DecidableEq, Repr

def resX86 : X86.Res → PRes
  | .ok f => .ok (Glue.formX86 f)
  | .err e => .err (.x86 e)

def resA64 : ParseA64.Out → PRes
  | .ok l => .ok (Glue.formA64 l)
  | .err => .err (.a64 .err)
  | .exc => .err (.a64 .exc)

def parseLineOf : Operand.Isa → Txt → PRes
  | .x86, t => resX86 (ParseX86.parseLine t)
  | .a64, t => resA64 (ParseA64.parseLine t)

/-- one entry of `parse_file` -/
structure FLine where
  lineNo : Nat
  text : Txt
  res : PRes

/-- `parse_file(file_content)` of the ISA's parser (`start_line = 0`) -/
def parseFileOf : Operand.Isa → Txt → List FLine
  | .x86, c => (ParseX86.parseFile 0 c).map fun x => ⟨x.lineNo, x.text, resX86 x.res⟩
  | .a64, c => (ParseA64.parseFile c 0).map fun x => ⟨x.lineNo, x.text, resA64 x.out⟩

def dgIsa : Operand.Isa → DG.Isa
  | .x86 => .x86
  | .a64 => .a64

inductive SemErr where
  /-- `assign_tp_lt` raised -/
  | tplt (e : Ports.Err)
  /-- `get_reg_changes` raised -/
  | changes (e : IsaOp.Err)
  deriving Repr

/-! ### one line -/

/-- what the per-instruction stages compute from one parsed line -/
structure Stages where
  ops : List Isa.Opnd
  roles : Isa.Result
  ins : Compose.Ins
  tplt : Except Ports.Err Compose.Result
  changes : Except IsaOp.Err (List (Txt × Option IsaOp.OpState))
  changesPost : Except IsaOp.Err (List (Txt × Option IsaOp.OpState))

def stagesOf (isa : Operand.Isa) (m : Model) (f : Glue.Form) : Stages :=
  let ops := f.operands
  let r := Isa.assignSrcDst isa m.isaDb f.mnemonic ops
  let ins := Glue.composeIns f.mnemonic ops r.sem
  { ops := ops, roles := r, ins := ins
    tplt := Compose.assignTpLt m.mm ins
    changes := Isa.regChanges isa m.isaDb f.mnemonic ops r.sem false
    changesPost := Isa.regChanges isa m.isaDb f.mnemonic ops r.sem true }

/-- the stage results as the later stages read them -/
def semOfStages (m : Model) (s : Stages) : Except SemErr Pipeline.Sem :=
  match s.tplt with
  | .error e => .error (.tplt e)
  | .ok t =>
    match s.changes, s.changesPost with
    | .ok ch, .ok chp =>
      .ok { src := s.roles.sem.src.map Isa.toDG
            dst := s.roles.sem.dst.map Isa.toDG
            srcDst := s.roles.sem.srcDst.map Isa.toDG
            lat := t.lat
            latWoLoad := some t.latWoLoad
            hasLd := s.roles.hasLd
            isLd := t.flags.contains Gen.flagLD
            changes := ch.map fun e => (e.1, Isa.toChange e.2)
            changesPost := chp.map fun e => (e.1, Isa.toChange e.2)
            tp := t.tp
            pressure := t.pressure
            used := Glue.usedMask m.mm.ports t.uops
            flags := Glue.flagsOf s.roles t }
    | .error e, _ => .error (.changes e)
    | _, .error e => .error (.changes e)

/-- the per-instruction data of a line: a function of the MODEL and the line's TEXT only -/
def semOfText (isa : Operand.Isa) (m : Model) (t : Txt) : Option (Except SemErr Pipeline.Sem) :=
  match parseLineOf isa t with
  | .ok f => some (semOfStages m (stagesOf isa m f))
  | .err _ => none

/-- a parsed line with its per-instruction data (or the exception) -/
structure Line where
  pl : Pipeline.PLine
  err : Option SemErr := none

def lineOf (isa : Operand.Isa) (m : Model) (num : Nat) (text : Txt) (f : Glue.Form) : Line :=
  match semOfStages m (stagesOf isa m f) with
  | .ok s => { pl := { sel := f.sel num, sem := s, text := text } }
  | .error e => { pl := { sel := f.sel num, text := text }, err := some e }

/-! ### the file -/

/-- `parse_file` raises at the first line `parse_line` rejects -/
def collect : List FLine → Except (Nat × ParseErr) (List (Nat × Txt × Glue.Form))
  | [] => .ok []
  | x :: xs =>
    match x.res with
    | .err e => .error (x.lineNo, e)
    | .ok f =>
      match collect xs with
      | .error e => .error e
      | .ok r => .ok ((x.lineNo, x.text, f) :: r)

def linesOf (isa : Operand.Isa) (m : Model) (fs : List (Nat × Txt × Glue.Form)) : List Line :=
  fs.map fun x => lineOf isa m x.1 x.2.1 x.2.2

/-- the first selected line whose per-instruction data could not be computed -/
def firstErr (lines : List Line) (k : List Pipeline.PLine) : Option (Nat × SemErr) :=
  (lines.filter fun l => k.any fun x => x.num == l.pl.num).findSome? fun l => l.err.map fun e => (l.pl.num, e)

structure Result where
  /-- the parsed file -/
  parsed : List Pipeline.PLine
  /-- the selected kernel -/
  kernel : List Pipeline.PLine
  analysis : Pipeline.Analysis
  report : Report.Analysis
  /-- what `osaca` prints -/
  text : Txt

inductive Outcome where
  | ok (r : Result)
  /-- `parse_line` raised on that line -/
  | parseError (line : Nat) (e : ParseErr)
  /-- `add_semantics` / `get_reg_changes` raised on that line of the kernel -/
  | semError (line : Nat) (e : SemErr)
  | badIsa
  | raised
  | badLines
  | emptyKernel

def cfgOf (isa : Operand.Isa) (m : Model) (o : Opts) : Pipeline.Cfg :=
  { isa := dgIsa isa, flagDeps := o.flagDeps, par := m.par, floor := o.floor, nports := m.mm.ports.length }

def linesGiven : Pipeline.Mode → Bool
  | .lines _ => true
  | .markers _ => false

/-- the report of an analysed kernel -/
def resultOf (m : Model) (o : Opts) (file k : List Pipeline.PLine) (a : Pipeline.Analysis) : Result :=
  let rep := Pipeline.toReport o.repr m.mm.ports o.ignoreUnknown m.mm.ports.length k a
  { parsed := file, kernel := k, analysis := a, report := rep
    text := Report.fullAnalysis o.version o.file o.arch o.stamp (Report.archWarningFlag o.archGiven)
      (Report.lengthWarningFlag (linesGiven o.mode) k.length file.length) false rep }

/-- selection, then the analysis of the kernel, then the report -/
def assemble (isa : Operand.Isa) (m : Model) (o : Opts) (lines : List Line) : Outcome :=
  let file := lines.map (·.pl)
  match Pipeline.select o.mode file with
  | .ok k =>
    (match firstErr lines k with
     | some (n, e) => .semError n e
     | none =>
       match Pipeline.run (cfgOf isa m o) o.mode file with
       | .ok a => .ok (resultOf m o file k a)
       | .badIsa => .badIsa
       | .raised => .raised
       | .badLines => .badLines
       | .emptyKernel => .emptyKernel)
  | .badIsa => .badIsa
  | .raised => .raised
  | .badLines => .badLines
  | .emptyKernel => .emptyKernel

/-- **`osaca --arch <model> --fixed [--lines …] [--ignore-unknown] [--consider-flag-deps] file`** for a model
    of the ISA `isa` -/
def analyse (isa : Operand.Isa) (m : Model) (o : Opts) (file : Txt) : Outcome :=
  match collect (parseFileOf isa file) with
  | .error (n, e) => .parseError n e
  | .ok fs => assemble isa m o (linesOf isa m fs)

/-- the x86 instance: `ParseX86.parseFile`, `Glue.formX86`, x86 roles / lookup fall-backs / register dependences -/
abbrev analyseX86 (m : Model) (o : Opts) (file : Txt) : Outcome := analyse .x86 m o file

/-- the AArch64 instance: `ParseA64.parseFile`, `Glue.formA64`, AArch64 roles with write-back, `.`-suffix
    fall-back, pre- and post-indexed composition, `p_index_latency` on write-back edges -/
abbrev analyseA64 (m : Model) (o : Opts) (file : Txt) : Outcome := analyse .a64 m o file

/-! ### optimal scheduling (the default: without `--fixed`)

  `osaca.inspect` without `--fixed` calls `ArchSemantics.assign_optimal_throughput(kernel)` twice between
  `add_semantics` and `KernelDG`: a greedy balancer that moves `INC = 0.01` cycles of a micro-op at a time from the
  busiest to the least busy of its ports.  Its control flow depends on floating-point noise, so it is modelled as
  a RELATION (`Model/Balance.lean`, C01/C02), not as a function.  What it changes is the `port_pressure` vector of
  the kernel's lines and nothing else.  `analyseWith … P` is `analyse` with these vectors SUPPLIED: the same
  composition, the pressure of line `n` replaced by `P n`; `OptimalOutcome` says which `P` are admissible. -/

/-- per line number: the pressure vector the scheduler left on that line (`none`: the uniform one) -/
abbrev Pressures := Nat → Option (List Rat)

/-- `--fixed`: no line is touched -/
def uniformP : Pressures := fun _ => none

def withPressure (P : Pressures) (l : Line) : Line :=
  match P l.pl.num with
  | some v => { l with pl := { l.pl with sem := { l.pl.sem with pressure := v } } }
  | none => l

/-- **`osaca --arch <model> [--lines …] [--ignore-unknown] [--consider-flag-deps] file`** with the per-line
    pressure vectors after scheduling given: parse, per-line data, THEN the pressures `P`, then selection,
    graph, critical path, LCD, column sums, report -/
def analyseWith (isa : Operand.Isa) (m : Model) (o : Opts) (file : Txt) (P : Pressures) : Outcome :=
  match collect (parseFileOf isa file) with
  | .error (n, e) => .parseError n e
  | .ok fs => assemble isa m o ((linesOf isa m fs).map (withPressure P))

end OsacaVerif.EndToEnd

namespace OsacaVerif.Compose
open OsacaVerif OsacaVerif.Text OsacaVerif.Operand OsacaVerif.Match OsacaVerif.Ports

/-- resolved micro-ops of a `port_pressure` value (`[]` where `average_port_pressure` would raise) -/
def resolvedOr (ports : List Txt) (pp : Y) : List Uop :=
  match resolveList ports pp with
  | .ok us => us
  | .error _ => []

def multOr (tbl : Option (List (Y × Y))) (regType : Option Txt) : Rat :=
  match multiplier tbl regType with
  | .ok q => q
  | .error _ => 1

/-- load micro-ops of the composition, carrying the load multiplier -/
def loadUops (m : MModel) (regType : Option Txt) (i : Ins) : List Uop :=
  if hasLd i then
    match firstMem (i.source ++ i.srcDst) with
    | some mem => (resolvedOr m.ports (chooseLoad m regType mem)).map (Spec.withMult (multOr m.loadMult regType))
    | none => []
  else []

/-- store micro-ops of the composition (none for a write-back-only access), carrying the store multiplier -/
def storeUops (m : MModel) (regType : Option Txt) (i : Ins) : List Uop :=
  if hasSt i then
    match firstMem (i.destination ++ i.srcDst) with
    | some mem =>
      (resolvedOr m.ports (if writeBackOnly m.isa i then Y.list [] else chooseStore m regType mem)).map
        (Spec.withMult (multOr m.storeMult regType))
    | none => []
  else []

def composeUops (m : MModel) (e : Entry) (i : Ins) (ops' : List POperand) : List Uop :=
  match e.operands[ops'.idxOf POperand.wild]? with
  | none => []
  | some eop =>
    match getRegType m.isa eop with
    | .error _ => []
    | .ok regType => resolvedOr m.ports e.pp ++ (loadUops m regType i ++ storeUops m regType i)

/-- **the micro-ops behind the pressure vector `assign_tp_lt` stores**, resolved to port indices: the entry's
    own micro-ops; on the composition path the register form's, then the load micro-ops (× load multiplier),
    then the store micro-ops (× store multiplier); none for an unknown instruction or a non-instruction line.
    `Lemmas/EndToEndOpt.lean: assignTpLt_uniform`: the stored pressure is their uniform split. -/
def uopsOf (m : MModel) (i : Ins) : List Uop :=
  match i.mnemonic with
  | none => []
  | some name =>
    match lookupWithFallbacks m.isa m.db name i.operands with
    | some e => resolvedOr m.ports e.pp
    | none =>
      if hasLd i || hasSt i then
        let ops' := substituteMem i.operands
        match lookupWithFallbacks m.isa m.db name ops' with
        | some e => composeUops m e i ops'
        | none => []
      else []

end OsacaVerif.Compose

namespace OsacaVerif.EndToEnd
open OsacaVerif OsacaVerif.Text OsacaVerif.Operand

/-- the micro-ops of a parsed line -/
def uopsOfForm (isa : Operand.Isa) (m : Model) (f : Glue.Form) : List Ports.Uop :=
  Compose.uopsOf m.mm (stagesOf isa m f).ins

/-- the micro-ops of a line of the file: a function of the MODEL and the line's TEXT -/
def uopsOfText (isa : Operand.Isa) (m : Model) (t : Txt) : List Ports.Uop :=
  match parseLineOf isa t with
  | .ok f => uopsOfForm isa m f
  | .err _ => []

/-- the slack `Props.C01.steps_feasible` proves for any run of guarded balancing moves: `INC / 2` per micro-op -/
def slackOf (us : List Ports.Uop) : Rat := Gen.balanceInc / 2 * us.length

/-- **admissible pressures**: on every instruction line of the kernel the vector `P` names (`none`: the uniform one
    the line carries) is a feasible fractional assignment (`Spec.Feasible`: one value per port, support, total,
    Hall's condition on every port set) of THAT LINE's micro-ops, within `INC / 2` per micro-op (+ `tol`, 0 in the
    theorems; the harness allows 1e-9 for the floating-point sums).  `k` is the kernel of the `--fixed` analysis
    (`kernelOf`): its lines carry the uniform vectors. -/
def Admissible (isa : Operand.Isa) (m : Model) (tol : Rat) (k : List Pipeline.PLine) (P : Pressures) : Prop :=
  ∀ l ∈ k, l.isInstr = true →
    Spec.Feasible (slackOf (uopsOfText isa m l.text) + tol) m.mm.ports.length (uopsOfText isa m l.text)
      ((P l.num).getD l.sem.pressure)

/-- the executable form: the inadmissible instruction lines of the kernel, each with the failing clause of
    `Spec.checkFeasible` (`missing`: `P` names no vector for the line) -/
def inadmissible (isa : Operand.Isa) (m : Model) (tol : Rat) (k : List Pipeline.PLine) (P : Pressures) :
    List (Nat × String) :=
  (k.filter (·.isInstr)).filterMap fun l =>
    let us := uopsOfText isa m l.text
    match P l.num with
    | none => some (l.num, "missing")
    | some v => (Spec.checkFeasible (slackOf us + tol) m.mm.ports.length us v).map fun c => (l.num, c)

def firstInadmissible (isa : Operand.Isa) (m : Model) (tol : Rat) (k : List Pipeline.PLine) (P : Pressures) :
    Option (Nat × String) := (inadmissible isa m tol k P).head?

/-- the kernel `osaca` selects from the file (`none`: no analysis) -/
def kernelOf (isa : Operand.Isa) (m : Model) (o : Opts) (file : Txt) : Option (List Pipeline.PLine) :=
  match analyse isa m o file with
  | .ok r => some r.kernel
  | _ => none

/-- **`out` is an admissible outcome of `osaca` on `file` under optimal scheduling**: the composition
    `analyseWith` on pressures that are admissible on the selected kernel (no condition when there is no
    analysis: the outcome is then that of `analyse`, `Props.EndToEndOpt.opt_invariant_part`) -/
def OptimalOutcome (isa : Operand.Isa) (m : Model) (o : Opts) (file : Txt) (out : Outcome) : Prop :=
  ∃ P : Pressures, (∀ k, kernelOf isa m o file = some k → Admissible isa m 0 k P) ∧ out = analyseWith isa m o file P

end OsacaVerif.EndToEnd
