import OsacaVerif.Model.Glue
import OsacaVerif.Model.Report
/-
  From FILE TEXT to the analysis and its report: `osaca.osaca.inspect` under `--fixed` on an x86 or an
  AArch64 file, composed from the stage models — nothing is re-modelled here.  One definition for both
  ISAs: `analyse isa`; `analyseX86 = analyse .x86`, `analyseA64 = analyse .a64`.

      file text
        │  BaseParser.parse_file / ParserX86ATT.parse_line           ParseX86.parseFile      (C09)
        │                        / ParserAArch64.parse_line          ParseA64.parseFile      (C10)
        ▼
      parsed lines ── Glue.formX86 / Glue.formA64 ──► Glue.Form ── Form.sel ──► kernel selection (C11)
        │  per instruction line (a function of the line's text and the model only):
        │    ISASemantics.assign_src_dst                             Isa.assignSrcDst        (C03Roles)
        │      (AArch64: + write-back of pre- and post-indexed bases)
        │    ArchSemantics.assign_tp_lt  (lookup + fall-backs,       Compose.assignTpLt      (C07, C08)
        │      load/store composition, uniform pressure)             (Match, Ports.averageY) (C01)
        │    ISASemantics.get_reg_changes                            Isa.regChanges          (C03Roles)
        ▼
      Pipeline.PLine (selection view, Pipeline.Sem, raw text)
        │  selection ∘ graph ∘ critical path ∘ LCD ∘ column sums     Pipeline.run            (C11Pipeline)
        ▼
      Pipeline.Analysis ── Pipeline.toReport ──► Report.Analysis ── Report.fullAnalysis ──► text  (C13)

  Exceptions of the Python code are outcomes.  One difference in *when* they surface: the model
  computes the per-line data of every selected line eagerly (also `get_reg_changes`, which the
  Python code calls lazily during the scan of `find_depending`); whenever no such call raises —
  always, for the shipped ISA databases on parser outputs — the two agree.
-/
namespace OsacaVerif.EndToEnd
open OsacaVerif OsacaVerif.Text OsacaVerif.Operand

/-- the machine model: what `Match` / `Compose` / `Ports` consume, the two latencies `KernelDG` reads,
    and the ISA database of `ISASemantics` (`Gen.isaDbX86` / `Gen.isaDbA64` for the shipped `isa/x86.yml` /
    `isa/aarch64.yml`) -/
structure Model where
  mm : Compose.MModel
  par : DG.Params := {}
  isaDb : List Isa.IsaEntry

/-- the command line and the surroundings of the report -/
structure Opts where
  /-- `--lines <spec>`, or marker search (`reduce_to_section(parsed, isa)`) -/
  mode : Pipeline.Mode
  /-- `--consider-flag-deps` -/
  flagDeps : Bool := false
  /-- `--ignore-unknown` -/
  ignoreUnknown : Bool := false
  /-- `--arch` given (always, in the tie) -/
  archGiven : Bool := true
  /-- the `1000` of the LCD offset -/
  floor : Nat := 1000
  /-- header fields of the report -/
  version : Txt := []
  file : Txt := []
  arch : Txt := []
  stamp : Txt := []
  /-- Python's `repr(float)` (an input of the report model, DESIGN §3) -/
  repr : Rat → Txt

/-- the parser's exception, per ISA -/
inductive ParseErr where
  | x86 (e : X86.Err)
  | a64 (e : ParseA64.Err)
  deriving DecidableEq, Repr

/-- `parse_line` of the ISA's parser, behind the glue -/
inductive PRes where
  | ok (f : Glue.Form)
  | err (e : ParseErr)
  deriving DecidableEq, Repr

def resX86 : X86.Res → PRes
  | .ok f => .ok (Glue.formX86 f)
  | .err e => .err (.x86 e)

def resA64 : ParseA64.Out → PRes
  | .ok l => .ok (Glue.formA64 l)
  | .err => .err (.a64 .err)
  | .exc => .err (.a64 .exc)

def parseLineOf : Operand.Isa → Txt → PRes
  | .x86, t => resX86 (ParseX86.parseLine t)
  | .a64, t => resA64 (ParseA64.parseLine t)

/-- one entry of `parse_file` -/
structure FLine where
  lineNo : Nat
  text : Txt
  res : PRes

/-- `parse_file(file_content)` of the ISA's parser (`start_line = 0`) -/
def parseFileOf : Operand.Isa → Txt → List FLine
  | .x86, c => (ParseX86.parseFile 0 c).map fun x => ⟨x.lineNo, x.text, resX86 x.res⟩
  | .a64, c => (ParseA64.parseFile c 0).map fun x => ⟨x.lineNo, x.text, resA64 x.out⟩

def dgIsa : Operand.Isa → DG.Isa
  | .x86 => .x86
  | .a64 => .a64

inductive SemErr where
  /-- `assign_tp_lt` raised -/
  | tplt (e : Ports.Err)
  /-- `get_reg_changes` raised -/
  | changes (e : IsaOp.Err)
  deriving Repr

/-! ### one line -/

/-- what the per-instruction stages compute from one parsed line -/
structure Stages where
  ops : List Isa.Opnd
  roles : Isa.Result
  ins : Compose.Ins
  tplt : Except Ports.Err Compose.Result
  changes : Except IsaOp.Err (List (Txt × Option IsaOp.OpState))
  changesPost : Except IsaOp.Err (List (Txt × Option IsaOp.OpState))

def stagesOf (isa : Operand.Isa) (m : Model) (f : Glue.Form) : Stages :=
  let ops := f.operands
  let r := Isa.assignSrcDst isa m.isaDb f.mnemonic ops
  let ins := Glue.composeIns f.mnemonic ops r.sem
  { ops := ops, roles := r, ins := ins
    tplt := Compose.assignTpLt m.mm ins
    changes := Isa.regChanges isa m.isaDb f.mnemonic ops r.sem false
    changesPost := Isa.regChanges isa m.isaDb f.mnemonic ops r.sem true }

/-- the stage results as the later stages read them -/
def semOfStages (m : Model) (s : Stages) : Except SemErr Pipeline.Sem :=
  match s.tplt with
  | .error e => .error (.tplt e)
  | .ok t =>
    match s.changes, s.changesPost with
    | .ok ch, .ok chp =>
      .ok { src := s.roles.sem.src.map Isa.toDG
            dst := s.roles.sem.dst.map Isa.toDG
            srcDst := s.roles.sem.srcDst.map Isa.toDG
            lat := t.lat
            latWoLoad := some t.latWoLoad
            hasLd := s.roles.hasLd
            isLd := t.flags.contains Gen.flagLD
            changes := ch.map fun e => (e.1, Isa.toChange e.2)
            changesPost := chp.map fun e => (e.1, Isa.toChange e.2)
            tp := t.tp
            pressure := t.pressure
            used := Glue.usedMask m.mm.ports t.uops
            flags := Glue.flagsOf s.roles t }
    | .error e, _ => .error (.changes e)
    | _, .error e => .error (.changes e)

/-- the per-instruction data of a line: a function of the MODEL and the line's TEXT only -/
def semOfText (isa : Operand.Isa) (m : Model) (t : Txt) : Option (Except SemErr Pipeline.Sem) :=
  match parseLineOf isa t with
  | .ok f => some (semOfStages m (stagesOf isa m f))
  | .err _ => none

/-- a parsed line with its per-instruction data (or the exception) -/
structure Line where
  pl : Pipeline.PLine
  err : Option SemErr := none

def lineOf (isa : Operand.Isa) (m : Model) (num : Nat) (text : Txt) (f : Glue.Form) : Line :=
  match semOfStages m (stagesOf isa m f) with
  | .ok s => { pl := { sel := f.sel num, sem := s, text := text } }
  | .error e => { pl := { sel := f.sel num, text := text }, err := some e }

/-! ### the file -/

/-- `parse_file` raises at the first line `parse_line` rejects -/
def collect : List FLine → Except (Nat × ParseErr) (List (Nat × Txt × Glue.Form))
  | [] => .ok []
  | x :: xs =>
    match x.res with
    | .err e => .error (x.lineNo, e)
    | .ok f =>
      match collect xs with
      | .error e => .error e
      | .ok r => .ok ((x.lineNo, x.text, f) :: r)

def linesOf (isa : Operand.Isa) (m : Model) (fs : List (Nat × Txt × Glue.Form)) : List Line :=
  fs.map fun x => lineOf isa m x.1 x.2.1 x.2.2

/-- the first selected line whose per-instruction data could not be computed -/
def firstErr (lines : List Line) (k : List Pipeline.PLine) : Option (Nat × SemErr) :=
  (lines.filter fun l => k.any fun x => x.num == l.pl.num).findSome? fun l => l.err.map fun e => (l.pl.num, e)

structure Result where
  /-- the parsed file -/
  parsed : List Pipeline.PLine
  /-- the selected kernel -/
  kernel : List Pipeline.PLine
  analysis : Pipeline.Analysis
  report : Report.Analysis
  /-- what `osaca` prints -/
  text : Txt

inductive Outcome where
  | ok (r : Result)
  /-- `parse_line` raised on that line -/
  | parseError (line : Nat) (e : ParseErr)
  /-- `add_semantics` / `get_reg_changes` raised on that line of the kernel -/
  | semError (line : Nat) (e : SemErr)
  | badIsa
  | raised
  | badLines
  | emptyKernel

def cfgOf (isa : Operand.Isa) (m : Model) (o : Opts) : Pipeline.Cfg :=
  { isa := dgIsa isa, flagDeps := o.flagDeps, par := m.par, floor := o.floor, nports := m.mm.ports.length }

def linesGiven : Pipeline.Mode → Bool
  | .lines _ => true
  | .markers _ => false

/-- the report of an analysed kernel -/
def resultOf (m : Model) (o : Opts) (file k : List Pipeline.PLine) (a : Pipeline.Analysis) : Result :=
  let rep := Pipeline.toReport o.repr m.mm.ports o.ignoreUnknown m.mm.ports.length k a
  { parsed := file, kernel := k, analysis := a, report := rep
    text := Report.fullAnalysis o.version o.file o.arch o.stamp (Report.archWarningFlag o.archGiven)
      (Report.lengthWarningFlag (linesGiven o.mode) k.length file.length) false rep }

/-- selection, then the analysis of the kernel, then the report -/
def assemble (isa : Operand.Isa) (m : Model) (o : Opts) (lines : List Line) : Outcome :=
  let file := lines.map (·.pl)
  match Pipeline.select o.mode file with
  | .ok k =>
    (match firstErr lines k with
     | some (n, e) => .semError n e
     | none =>
       match Pipeline.run (cfgOf isa m o) o.mode file with
       | .ok a => .ok (resultOf m o file k a)
       | .badIsa => .badIsa
       | .raised => .raised
       | .badLines => .badLines
       | .emptyKernel => .emptyKernel)
  | .badIsa => .badIsa
  | .raised => .raised
  | .badLines => .badLines
  | .emptyKernel => .emptyKernel

/-- **`osaca --arch <model> --fixed [--lines …] [--ignore-unknown] [--consider-flag-deps] file`** for a model
    of the ISA `isa` -/
def analyse (isa : Operand.Isa) (m : Model) (o : Opts) (file : Txt) : Outcome :=
  match collect (parseFileOf isa file) with
  | .error (n, e) => .parseError n e
  | .ok fs => assemble isa m o (linesOf isa m fs)

/-- the x86 instance: `ParseX86.parseFile`, `Glue.formX86`, x86 roles / lookup fall-backs / register dependences -/
abbrev analyseX86 (m : Model) (o : Opts) (file : Txt) : Outcome := analyse .x86 m o file

/-- the AArch64 instance: `ParseA64.parseFile`, `Glue.formA64`, AArch64 roles with write-back, `.`-suffix
    fall-back, pre- and post-indexed composition, `p_index_latency` on write-back edges -/
abbrev analyseA64 (m : Model) (o : Opts) (file : Txt) : Outcome := analyse .a64 m o file

end OsacaVerif.EndToEnd
