import OsacaVerif.Model.Text
/-
  Data types of the benchmark-import model (C20) that the generated tables
  (`Gen/ImportConsts.lean`) are written in.  Core Lean only.
-/
namespace OsacaVerif.Import
open OsacaVerif.Text

/-- a value of a DB operand dict: string, `None`, int, bool -/
inductive V where
  | s (t : Txt)
  | none
  | n (k : Nat)
  | b (v : Bool)
  deriving DecidableEq, Repr, Inhabited

/-- right-hand sides occurring in the dict literals of `_create_db_operand_*` -/
inductive VExpr where
  | lit (v : V)                               -- a constant
  | operand                                   -- `operand`
  | operandPlus (suf : Txt)                   -- `operand + "mm"`
  | ifHas (c : Txt) (a b : VExpr)             -- `a if "c" in operand else b`
  | sliceOr (lo hi : Nat) (dflt : Txt)        -- `operand[lo:hi] if operand[lo:hi] != "" else dflt`
  deriving Repr, Inhabited

/-- tests of the if/elif chain -/
inductive Test where
  | eq (s : Txt)          -- `operand == s`
  | inStr (s : Txt)       -- `operand in s`      (Python substring semantics)
  | starts (s : Txt)      -- `operand.startswith(s)`
  deriving Repr, Inhabited

/-- a decoded operand: the dict literal, keys in source order -/
abbrev Dict := List (Txt × V)
/-- one branch of the chain: test and dict literal -/
abbrev Rule := Test × List (Txt × VExpr)

end OsacaVerif.Import
