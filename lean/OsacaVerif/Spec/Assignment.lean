import OsacaVerif.Spec.Feasible
/-
  Specification vocabulary of C02 (duality part): what a *fractional schedule* of a kernel's
  micro-ops is — an explicit matrix `x[i][p]` = cycles of micro-op `i` placed on port `p` — and the
  quantity a schedule is judged by, the load of its busiest port.

  Core-only (no Mathlib), list-based and computable, so that the native driver can evaluate it.
-/
namespace OsacaVerif.Spec
open OsacaVerif OsacaVerif.Ports

/-- a fractional schedule: `x[i][p]` = cycles of micro-op `i` placed on port `p`.
    One row of width `n` per micro-op, non-negative entries, nothing outside the micro-op's
    admissible ports, and every micro-op placed completely. -/
structure Assignment (n : Nat) (us : List Uop) (x : List (List Rat)) : Prop where
  rows    : x.length = us.length
  width   : ∀ r ∈ x, r.length = n
  nonneg  : ∀ r ∈ x, ∀ c ∈ r, 0 ≤ c
  support : ∀ i, i < us.length → ∀ p, p < n → p ∉ (us.getD i default).ports →
              (x.getD i []).getD p 0 = 0
  rowSum  : ∀ i, i < us.length → (x.getD i []).sum = (us.getD i default).amount

theorem assignment_iff (n : Nat) (us : List Uop) (x : List (List Rat)) :
    Assignment n us x ↔
      (x.length = us.length ∧ (∀ r ∈ x, r.length = n) ∧ (∀ r ∈ x, ∀ c ∈ r, 0 ≤ c) ∧
       (∀ i, i < us.length → ∀ p, p < n → p ∉ (us.getD i default).ports →
          (x.getD i []).getD p 0 = 0) ∧
       (∀ i, i < us.length → (x.getD i []).sum = (us.getD i default).amount)) :=
  ⟨fun h => ⟨h.rows, h.width, h.nonneg, h.support, h.rowSum⟩,
   fun ⟨h1, h2, h3, h4, h5⟩ => ⟨h1, h2, h3, h4, h5⟩⟩

instance (n : Nat) (us : List Uop) (x : List (List Rat)) : Decidable (Assignment n us x) :=
  decidable_of_iff _ (assignment_iff n us x).symm

/-- per-port totals of a schedule: entry `p` is the sum of column `p` -/
def colSums (n : Nat) (x : List (List Rat)) : List Rat :=
  (List.range n).map fun p => (x.map fun r => r.getD p 0).sum

/-- load of the busiest port (0 for no ports; loads are non-negative) -/
def maxLoad (v : List Rat) : Rat := v.foldl max 0

/-- `opt` is the optimum of fractional scheduling: some schedule's busiest port carries exactly
    `opt`, and no schedule's busiest port carries less -/
def IsOptimum (n : Nat) (us : List Uop) (opt : Rat) : Prop :=
  (∃ x, Assignment n us x ∧ maxLoad (colSums n x) = opt) ∧
  ∀ x, Assignment n us x → opt ≤ maxLoad (colSums n x)

end OsacaVerif.Spec
