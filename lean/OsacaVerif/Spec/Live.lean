import OsacaVerif.Spec.KindAgree
/-
  C07, second sentence: "an instruction written with operands of exactly the kinds an entry declares".

  `liveOperand isa e` — the entry operand declares a kind that an instruction operand can have (a
  register class / prefix of the architecture, an addressing shape that can be written, a known
  immediate type, …).  `instantiate isa e c` — an operand of exactly that kind; the `Choice` fixes
  the free parts (register number, which alternative a wildcard is filled with).
  The translator emits the distinct operand signatures of every shipped model; `Props/C07.lean`
  decides `liveOperand` for all of them and proves that every instance of a live operand matches.
-/
namespace OsacaVerif.Spec
open OsacaVerif OsacaVerif.Text OsacaVerif.Operand

structure Choice where
  n : Nat := 0        -- register number
  a : Nat := 0        -- alternative selectors
  b : Nat := 0
  c : Nat := 0
  d : Nat := 0
  deriving Repr, Inhabited

def decDigitsFuel : Nat → Nat → Txt
  | 0, _ => []
  | fuel + 1, n => if n < 10 then [48 + n] else decDigitsFuel fuel (n / 10) ++ [48 + n % 10]

/-- decimal digits of a number (`7` → "7", `12` → "12") -/
def decDigits (n : Nat) : Txt := decDigitsFuel (n + 1) n

/-- register classes an x86 entry can name besides `*` and `gpr` (mask registers `k0`–`k7` included) -/
def x86Classes : List Txt := vectorClasses ++ [[107]]

def a64ScalarPrefixes : List Txt := [[120], [119], [98], [104], [115], [100], [113]]   -- x w b h s d q
def a64VectorPrefixes : List Txt := [[118], [122], [112]]                              -- v z p
def a64AddrPrefixes : List Txt := [[120], [119], [118], [122]]                         -- x w v z (index)
def a64BasePrefixes : List Txt := [[120], [119]]

def rName : Txt := [114]      -- "r": r0, r1, … are general purpose registers
def xPfx : Txt := [120]
def vPfx : Txt := [118]
def sShape : Txt := [115]
def dShape : Txt := [100]

/-! ### x86 -/

def x86LiveClass (c : Txt) : Bool := c == star || c == gprClass || x86Classes.contains c

/-- a register name of class `c` -/
def x86RegName (c : Txt) (n : Nat) : Txt :=
  if c == star || c == gprClass then rName ++ decDigits n else c ++ decDigits n

def x86LiveAddr : Y → Bool
  | .null => true
  | .str c => x86LiveClass c
  | _ => false

def x86InstAddr (f : Y) (n sel : Nat) : Option PReg :=
  match f with
  | .str c => if c == star && sel % 2 == 1 then none else some { name := x86RegName c n }
  | _ => none

def x86LiveOff : Y → Bool
  | .null => true
  | .str c => c == star || c == tImd || c == tId
  | _ => false

def x86InstOff (f : Y) (sel : Nat) : POff :=
  match f with
  | .str c =>
    if c == tImd then .imm false
    else if c == tId then .ident
    else (match sel % 3 with
          | 0 => .none
          | 1 => .imm false
          | _ => .ident)
  | _ => .none

def liveScale : Y → Bool
  | .null => true
  | .str c => c == star
  | .num q => q.den == 1
  | _ => false

def instScale (f : Y) (sel : Nat) : Int :=
  match f with
  | .num q => q.num
  | .null => 2
  | _ => (match sel % 4 with
          | 0 => 1
          | 1 => 2
          | 2 => 4
          | _ => 8)

/-! ### AArch64 -/

def a64LiveReg (p s : Option Txt) : Bool :=
  match p with
  | none => false
  | some p =>
    (match s with
     | none => p == star || a64ScalarPrefixes.contains p || a64VectorPrefixes.contains p
     | some es => (p == star || a64VectorPrefixes.contains p) && (es.contains 42 || !es.isEmpty))

def a64InstReg (p s : Option Txt) (c : Choice) : PReg :=
  let pfx : Txt := match p with
    | some p => if p == star then (match s with | some _ => vPfx | none => xPfx) else p
    | none => xPfx
  let shape : Option Txt := match s with
    | none => none
    | some es => if es.contains 42 then some (if c.a % 2 == 0 then sShape else dShape) else some es
  { name := decDigits c.n, pfx := some pfx, shape := shape }

def a64LiveBase : Y → Bool
  | .str c => c == star || a64BasePrefixes.contains c
  | _ => false

def a64InstBase (f : Y) (n : Nat) : Option PReg :=
  match f with
  | .str c => some { name := decDigits n, pfx := some (if c == star then xPfx else c) }
  | _ => none

def a64LiveOff : Y → Bool
  | .null => true
  | .str c => c == star || c == tImd
  | _ => false

def a64InstOff (f : Y) (sel : Nat) : POff :=
  match f with
  | .str c => if c == tImd then .imm false else (if sel % 2 == 0 then .none else .imm false)
  | _ => .none

def a64LiveIndex : Y → Bool
  | .null => true
  | .str c => c == star || a64AddrPrefixes.contains c
  | _ => false

/-- the scale field accepts an unscaled access (`scale = 1`, what the parser produces without an
    index register) -/
def scaleAcceptsOne : Y → Bool
  | .str c => c == star
  | .num q => q == 1
  | _ => false

def a64InstIndex (f s : Y) (n sel : Nat) : Option PReg :=
  match f with
  | .str c =>
    if c == star then
      (if sel % 2 == 0 && scaleAcceptsOne s then none else some { name := decDigits n, pfx := some xPfx })
    else some { name := decDigits n, pfx := some c }
  | _ => none

def liveTri : Y → Bool
  | .bool _ => true
  | .str c => c == star
  | _ => false

def a64InstPre (pre post : Y) (sel : Nat) : Bool :=
  match pre with
  | .bool b => b
  | _ => (match post with
          | .bool true => false
          | _ => sel % 2 == 1)

def a64InstPost (pre post : Y) (sel : Nat) : Bool :=
  match post with
  | .bool b => b
  | _ => if a64InstPre pre post sel then false else (sel / 2) % 2 == 1

def isNullY : Y → Bool
  | .null => true
  | _ => false

def isTrueY : Y → Bool
  | .bool true => true
  | _ => false

/-- an AArch64 memory entry can be written: known base/offset/index classes, a scale that an access
    without index register can have unless an index is possible, not pre- and post-indexed at once -/
def a64LiveMem (b off i s pre post : Y) : Bool :=
  a64LiveBase b && a64LiveOff off && a64LiveIndex i && liveScale s && liveTri pre && liveTri post &&
  (!isNullY i || scaleAcceptsOne s) && !(isTrueY pre && isTrueY post)

def condEq : Txt := [69, 81]   -- "EQ"

/-! ### both -/

def liveOperand (isa : Isa) (e : EOperand) : Bool :=
  match isa, e with
  | .x86, .reg (some c) _ _ => x86LiveClass c
  | .x86, .mem b off i s pre post =>
      x86LiveAddr b && x86LiveOff off && x86LiveAddr i && liveScale s && liveTri pre && liveTri post
  | .x86, .imm (.str t) => t == tInt
  | .x86, .ident => true
  | .a64, .reg _ p s => a64LiveReg p s
  | .a64, .mem b off i s pre post => a64LiveMem b off i s pre post
  | .a64, .imm (.str t) => t == star || a64ImmTypes.contains t
  | .a64, .ident => true
  | .a64, .cond _ => true
  | .a64, .prfop => true
  | _, _ => false

def instantiate (isa : Isa) (e : EOperand) (c : Choice) : POperand :=
  match isa, e with
  | .x86, .reg (some cl) _ _ => .reg { name := x86RegName cl c.n }
  | .x86, .mem b off i s _ _ =>
      .mem { base := x86InstAddr b c.n c.a, offset := x86InstOff off c.b, index := x86InstAddr i (c.n + 1) c.c,
             scale := instScale s c.d, pre := false, post := false }
  | .x86, .imm _ => .imm none true false
  | .a64, .reg _ p s => .reg (a64InstReg p s c)
  | .a64, .mem b off i s pre post =>
      let idx := a64InstIndex i s (c.n + 1) c.c
      .mem { base := a64InstBase b c.n, offset := a64InstOff off c.b, index := idx,
             scale := if idx.isNone then 1 else instScale s c.d,
             pre := a64InstPre pre post c.a, post := a64InstPost pre post c.a }
  | .a64, .imm (.str t) => .imm (some (if t == star then tInt else t)) true false
  | .a64, .cond cc => .cond (if cc == star then condEq else cc)
  | .a64, .prfop => .prfop
  | _, _ => .ident

def liveEntry (isa : Isa) (e : Entry) : Bool := e.operands.all (liveOperand isa)

/-- one choice per operand (missing choices default) -/
def instantiateAll (isa : Isa) : List EOperand → List Choice → List POperand
  | [], _ => []
  | e :: es, [] => instantiate isa e {} :: instantiateAll isa es []
  | e :: es, c :: cs => instantiate isa e c :: instantiateAll isa es cs

end OsacaVerif.Spec
