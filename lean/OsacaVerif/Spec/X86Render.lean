import OsacaVerif.Spec.X86Ast
/-
  C09 — the property's side: which instruction ASTs are quantified over, and how such an AST is
  *written* as a line of AT&T assembly under a layout (blanks and tabs around every token, notation
  of numbers, explicit or omitted scale 1, `$name` or bare label, optional trailing comment).
  Nothing here refers to the parser model or to `Gen`.
-/
namespace OsacaVerif.Spec.X86R
open OsacaVerif.Text OsacaVerif.X86

/-! ### characters of the domain -/

def isDigit (c : Nat) : Bool := decide (48 ≤ c ∧ c ≤ 57)
def isAlpha (c : Nat) : Bool := decide ((65 ≤ c ∧ c ≤ 90) ∨ (97 ≤ c ∧ c ≤ 122))
def isAlnum (c : Nat) : Bool := isAlpha c || isDigit c
/-- first character of a label -/
def isIdStart (c : Nat) : Bool := isAlpha c || c == 95 || c == 46
/-- further characters of a label: letters, digits, `_`, `.`, `$` -/
def isIdChar (c : Nat) : Bool := isAlnum c || c == 95 || c == 46 || c == 36
/-- printable, non-blank ASCII -/
def isVisible (c : Nat) : Bool := decide (33 ≤ c ∧ c ≤ 126)
/-- layout blanks: space and tab -/
def isBlankC (c : Nat) : Bool := c == 32 || c == 9

def blank (w : Txt) : Bool := w.all isBlankC
def spaces (w : Txt) : Bool := w.all (· == 32)

/-- register name as written after `%`: letters and digits (covers every GPR width, `xmm/ymm/zmm0-31`,
    in either case) -/
def validReg (n : Txt) : Bool := !n.isEmpty && n.all isAlnum

def validIdent : Txt → Bool
  | [] => false
  | c :: r => isIdStart c && r.all isIdChar

def isPrefixOf : Txt → Txt → Bool
  | [], _ => true
  | _ :: _, [] => false
  | p :: ps, c :: cs => p == c && isPrefixOf ps cs

/-- mnemonic: letters and digits starting with a letter; the prefixes `data16`/`data32`, which the
    grammar strips, are not mnemonics -/
def validMnemonic : Txt → Bool
  | [] => false
  | c :: r => isAlpha c && r.all isAlnum &&
      !isPrefixOf [100, 97, 116, 97, 49, 54] (c :: r) && !isPrefixOf [100, 97, 116, 97, 51, 50] (c :: r)

def validWord (w : Txt) : Bool := !w.isEmpty && w.all isVisible

def validOff : Option Off → Bool
  | none => true
  | some (.imm _) => true
  | some (.ident n) => validIdent n
  | some _ => false

/-- the operands the property quantifies over -/
def validOperand : Operand → Bool
  | .reg n => validReg n
  | .imm _ => true
  | .ident n => validIdent n
  | .mem off base index scale seg =>
    !seg && validOff off && base.all validReg && index.all validReg &&
    (scale == 1 || scale == 2 || scale == 4 || scale == 8) && (index.isSome || scale == 1) &&
    -- the seven non-empty base/index/displacement combinations; a displacement standing alone is a number
    (base.isSome || index.isSome || (match off with | some (.imm _) => true | _ => false))

/-! ### numbers -/

/-- digits of `n` in base `b`, least significant first (`fuel` > number of digits) -/
def digitsRev (b : Nat) : Nat → Nat → List Nat
  | 0, _ => []
  | f + 1, n => if n < b then [n] else (n % b) :: digitsRev b f (n / b)

/-- most significant digit first; `0 ↦ [0]` -/
def natDigits (b n : Nat) : List Nat := (digitsRev b (n + 1) n).reverse

def digitChar (upper : Bool) (d : Nat) : Nat :=
  if d < 10 then 48 + d else (if upper then 55 else 87) + d

/-- notation of a number: decimal, or `0x` hexadecimal with upper- or lower-case digits and extra
    leading zeros -/
structure NumFmt where
  hex : Bool := false
  upper : Bool := false
  zeros : Nat := 0

def renderNat (f : NumFmt) (n : Nat) : Txt :=
  if f.hex then 48 :: 120 :: (List.replicate f.zeros 48 ++ (natDigits 16 n).map (digitChar f.upper))
  else (natDigits 10 n).map (digitChar false)

def renderInt (f : NumFmt) (v : Int) : Txt :=
  if v < 0 then 45 :: renderNat f v.natAbs else renderNat f v.natAbs

/-! ### operands -/

/-- layout of one operand -/
structure OpLayout where
  /-- blanks before / after the operand -/
  pre : Txt := []
  post : Txt := []
  /-- notation of the immediate or displacement -/
  num : NumFmt := {}
  /-- a label written without `$` (only possible for the first operand) -/
  bare : Bool := false
  /-- write `,1` for scale 1 -/
  showScale : Bool := false
  /-- blanks inside a memory operand: `disp w1 ( w2 %base w3 , w4 %index w5 , w6 scale w7 )` -/
  w1 : Txt := []
  w2 : Txt := []
  w3 : Txt := []
  w4 : Txt := []
  w5 : Txt := []
  w6 : Txt := []
  w7 : Txt := []

def OpLayout.blanks (L : OpLayout) : List Txt :=
  [L.pre, L.post, L.w1, L.w2, L.w3, L.w4, L.w5, L.w6, L.w7]

def renderOff (f : NumFmt) : Option Off → Txt
  | some (.imm v) => renderInt f v
  | some (.ident n) => n
  | _ => []

def renderScale (L : OpLayout) (scale : Nat) : Txt :=
  if scale != 1 || L.showScale then 44 :: (L.w6 ++ (48 + scale) :: L.w7) else []

def renderIndex (L : OpLayout) (scale : Nat) : Option Txt → Txt
  | some i => 44 :: (L.w4 ++ 37 :: (i ++ (L.w5 ++ renderScale L scale)))
  | none => []

def renderBase (L : OpLayout) : Option Txt → Txt
  | some b => 37 :: (b ++ L.w3)
  | none => []

def renderMem (L : OpLayout) (off : Option Off) (base index : Option Txt) (scale : Nat) : Txt :=
  if base.isNone && index.isNone then renderOff L.num off
  else renderOff L.num off ++ (L.w1 ++ 40 :: (L.w2 ++ (renderBase L base ++ (renderIndex L scale index ++ [41]))))

def renderOperand (L : OpLayout) : Operand → Txt
  | .reg n => 37 :: n
  | .imm v => 36 :: renderInt L.num v
  | .ident n => if L.bare then n else 36 :: n
  | .mem off base index scale _ => renderMem L off base index scale

/-- operands separated by commas, each with its own blanks around it -/
def renderOps : List (OpLayout × Operand) → Txt
  | [] => []
  | [(L, o)] => L.pre ++ (renderOperand L o ++ L.post)
  | (L, o) :: rest => L.pre ++ (renderOperand L o ++ (L.post ++ 44 :: renderOps rest))

/-! ### comment and line -/

/-- trailing comment: `#` or `//`, then words each preceded by blanks, then blanks -/
structure CommentLayout where
  slashes : Bool := false
  words : List (Txt × Txt) := []      -- (blanks before the word, word)
  last : Txt := []

def renderWords : List (Txt × Txt) → Txt
  | [] => []
  | (g, w) :: r => g ++ (w ++ renderWords r)

def renderComment (c : CommentLayout) : Txt :=
  (if c.slashes then [47, 47] else [35]) ++ (renderWords c.words ++ c.last)

/-- all gaps but the first must be non-empty (else two words would be one) -/
def validGaps : List (Txt × Txt) → Bool
  | [] => true
  | (g, w) :: r => blank g && validWord w && r.all (fun p => !p.1.isEmpty) && validGaps r

def validComment (c : CommentLayout) : Bool := validGaps c.words && blank c.last

/-- `" ".join(words)` -/
def joinWords : List Txt → Txt
  | [] => []
  | [w] => w
  | w :: ws => w ++ 32 :: joinWords ws

/-- an instruction line: AST (`mn`, operands) together with its layout -/
structure Line where
  indent : Txt := []
  mn : Txt
  ops : List (OpLayout × Operand) := []
  trail : Txt := []
  comment : Option CommentLayout := none

def renderLine (l : Line) : Txt :=
  l.indent ++ (l.mn ++ (renderOps l.ops ++ (l.trail ++ (match l.comment with
    | some c => renderComment c
    | none => []))))

def validOps : Nat → List (OpLayout × Operand) → Bool
  | _, [] => true
  | i, (L, o) :: r =>
    validOperand o && L.blanks.all blank && (!L.bare || i == 0) && (i != 0 || !L.pre.isEmpty) &&
    validOps (i + 1) r

/-- the lines the property quantifies over: 0–4 operands of the domain, blanks only where the
    layout puts them, the first operand separated from the mnemonic -/
def Line.valid (l : Line) : Bool :=
  validMnemonic l.mn && blank l.indent && blank l.trail && l.ops.length ≤ 4 && validOps 0 l.ops &&
  (match l.comment with | some c => validComment c | none => true)

/-- all blanks of the layout are spaces (no tabs) -/
def Line.spacesOnly (l : Line) : Bool :=
  spaces l.indent && spaces l.trail && l.ops.all (fun p => p.1.blanks.all spaces) &&
  (match l.comment with
   | some c => c.words.all (fun p => spaces p.1) && spaces c.last
   | none => true)

/-- what the parsed form must be: the AST and the comment's words -/
def Line.expected (l : Line) : Form :=
  { mnemonic := some l.mn, operands := l.ops.map (·.2),
    comment := l.comment.map fun c => joinWords (c.words.map (·.2)) }

/-! ### files (declarative) -/

/-- lines joined by single line feeds -/
def joinLines : List Txt → Txt
  | [] => []
  | [l] => l
  | l :: ls => l ++ 10 :: joinLines ls

/-- `lines` are *the* lines of `content`: joining them with line feeds gives the content back and
    no line contains a line feed (this determines `lines`, see `Props.C09.split_unique`) -/
def IsSplit (content : Txt) (lines : List Txt) : Prop :=
  lines ≠ [] ∧ (∀ l ∈ lines, 10 ∉ l) ∧ joinLines lines = content

end OsacaVerif.Spec.X86R
