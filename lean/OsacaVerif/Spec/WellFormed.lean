import OsacaVerif.Model.Ports
/-
  C15 vocabulary: well-formedness of raw model data, as decidable predicates on YAML values.
  (Does not import Gen.)
-/
namespace OsacaVerif.Spec
open OsacaVerif OsacaVerif.Text OsacaVerif.Ports

/-- a port collection: a string (each character one port) or a list of port-name strings;
    non-empty, every member in the model's port list -/
def wfPortsY (ports : List Txt) : Y → Bool
  | .str t => !t.isEmpty && t.all (fun c => ports.contains [c])
  | .list l => !l.isEmpty && l.all (fun y => match y with | .str t => ports.contains t | _ => false)
  | _ => false

/-- `[cycles ≥ 0, non-empty port collection ⊆ ports]` -/
def wfUopY (ports : List Txt) : Y → Bool
  | .list [.num c, p] => decide (0 ≤ c) && wfPortsY ports p
  | _ => false

def wfUopListY (ports : List Txt) : Y → Bool
  | .list l => l.all (wfUopY ports)
  | _ => false

/-- a micro-op list, or a dict of alternatives (numeric keys, key 0 present) each of which is one -/
def wfPPY (ports : List Txt) : Y → Bool
  | .list l => l.all (wfUopY ports)
  | .map kv => kv.any (fun e => isZeroKey e.1) &&
      kv.all (fun e => (match e.1 with | .num _ => true | _ => false) && wfUopListY ports e.2)
  | _ => false

/-- throughput / latency: absent (null) or a non-negative number -/
def wfNumY : Y → Bool
  | .null => true
  | .num q => decide (0 ≤ q)
  | _ => false

/-- explain the first thing that is wrong (for reports) -/
def explainPP (ports : List Txt) (y : Y) : String :=
  if wfPPY ports y then "ok" else
  match y with
  | .list l =>
    match l.find? (fun u => !wfUopY ports u) with
    | some (.list [.num c, p]) =>
      if c < 0 then "negative cycles" else
      match p with
      | .str t => if t.isEmpty then "empty port collection" else
          "port not in port list: " ++ String.ofList ((t.filter (fun c => !ports.contains [c])).map Char.ofNat)
      | .list pl => if pl.isEmpty then "empty port collection" else
          "port not in port list: " ++ " ".intercalate (pl.filterMap (fun y => match y with
            | .str t => if ports.contains t then none else some (String.ofList (t.map Char.ofNat))
            | _ => some "<non-string>"))
      | _ => "port collection is not a string or list"
    | some (.list [_, _]) => "cycles is not a number"
    | some (.list l') => "micro-op has " ++ toString l'.length ++ " fields instead of [cycles, ports]"
    | some _ => "micro-op is not a list"
    | none => "?"
  | .map _ => "malformed alternative dict"
  | _ => "port_pressure is not a list"

end OsacaVerif.Spec

namespace OsacaVerif.Spec
open OsacaVerif OsacaVerif.Text

/-- the raw values of one shipped model (filled in by the translator) -/
structure Db where
  name : Txt
  ports : List Txt
  ppValues : List Y
  numValues : List Y
  loadRows : List Y
  storeRows : List Y
  loadDefault : Y
  storeDefault : Y

def dbWF (d : Db) : Bool :=
  d.ppValues.all (wfPPY d.ports) && d.numValues.all wfNumY &&
  d.loadRows.all (wfPPY d.ports) && d.storeRows.all (wfPPY d.ports) &&
  wfPPY d.ports d.loadDefault && wfPPY d.ports d.storeDefault

end OsacaVerif.Spec
