import OsacaVerif.Model.Text
/-
  Specification side of C12: a structured register universe with *architectural families*.
  Nothing here depends on `Gen` (i.e. on OSACA's tables): names are built from the
  architecture's naming rules, and two registers overlap iff they have the same family id.
-/
namespace OsacaVerif.Spec
open OsacaVerif.Text

structure Reg where
  name : Txt
  fam  : Nat
  deriving Repr, DecidableEq

def archOverlap (a b : Reg) : Bool := a.fam == b.fam

def digits (n : Nat) : Txt := (Nat.repr n).toList.map Char.toNat

/-- legacy x86 GPR families with a high-byte view: rax eax ax al ah, … -/
def x86Legacy4 (fam : Nat) (letter : Nat) : List Reg :=
  [ ⟨[114, letter, 120], fam⟩, ⟨[101, letter, 120], fam⟩, ⟨[letter, 120], fam⟩,
    ⟨[letter, 108], fam⟩, ⟨[letter, 104], fam⟩ ]

/-- rsp esp sp spl, rbp …, rsi …, rdi … -/
def x86Legacy2 (fam : Nat) (c1 c2 : Nat) : List Reg :=
  [ ⟨[114, c1, c2], fam⟩, ⟨[101, c1, c2], fam⟩, ⟨[c1, c2], fam⟩, ⟨[c1, c2, 108], fam⟩ ]

/-- r8 r8d r8w r8b … r15 -/
def x86Numbered (n : Nat) : List Reg :=
  [ ⟨114 :: digits n, 100 + n⟩, ⟨114 :: digits n ++ [100], 100 + n⟩,
    ⟨114 :: digits n ++ [119], 100 + n⟩, ⟨114 :: digits n ++ [98], 100 + n⟩ ]

def x86Vec (n : Nat) : List Reg :=
  [ ⟨[120, 109, 109] ++ digits n, 200 + n⟩, ⟨[121, 109, 109] ++ digits n, 200 + n⟩,
    ⟨[122, 109, 109] ++ digits n, 200 + n⟩ ]

def x86Universe : List Reg :=
  x86Legacy4 0 97 ++ x86Legacy4 1 98 ++ x86Legacy4 2 99 ++ x86Legacy4 3 100 ++
  x86Legacy2 4 115 112 ++ x86Legacy2 5 98 112 ++ x86Legacy2 6 115 105 ++ x86Legacy2 7 100 105 ++
  ((List.range 8).map (fun i => x86Numbered (i + 8))).flatten ++
  ((List.range 32).map x86Vec).flatten ++
  (List.range 8).map (fun n => ⟨[109, 109] ++ digits n, 300 + n⟩) ++   -- mm0-7
  (List.range 8).map (fun n => ⟨107 :: digits n, 400 + n⟩)              -- k0-7

/-- AArch64 register = (prefix, name).  Families: general (w,x), SIMD/FP/SVE (b h s d q v z),
    predicate (p); `sp` and `zr` are alias names of the general class. -/
structure AReg where
  pre  : Txt
  name : Txt
  cls  : Nat      -- 0 general, 1 vector, 2 predicate
  deriving Repr, DecidableEq

def a64Class (p : Nat) : Option Nat :=
  if p == 119 || p == 120 then some 0                                  -- w x
  else if p == 98 || p == 104 || p == 115 || p == 100 || p == 113 || p == 118 || p == 122
    then some 1                                                         -- b h s d q v z
  else if p == 112 then some 2                                          -- p
  else none

def a64Prefixes : List Nat := [119, 120, 98, 104, 115, 100, 113, 118, 122, 112]

end OsacaVerif.Spec
