import OsacaVerif.Model.Ports
/-
  Specification vocabulary of C01/C02/C15: what it means for a per-port vector to be a feasible
  fractional assignment of an instruction's micro-ops (transportation / Hall condition).
-/
namespace OsacaVerif.Spec
open OsacaVerif OsacaVerif.Ports

/-- well-formed resolved micro-ops: non-negative cycles and multiplier, non-empty port set inside
    the port list -/
def WFUops (n : Nat) (us : List Uop) : Prop :=
  ∀ u ∈ us, 0 ≤ u.cycles ∧ 0 ≤ u.mult ∧ u.ports ≠ [] ∧ ∀ p ∈ u.ports, p < n

instance (n : Nat) (us : List Uop) : Decidable (WFUops n us) := by
  unfold WFUops; infer_instance

def sumOn (v : List Rat) (S : List Nat) : Rat := (S.map fun p => v.getD p 0).sum

/-- cycles of the micro-ops that can only execute on ports of `S` -/
def confined (us : List Uop) (S : List Nat) : Rat :=
  ((us.filter fun u => u.ports.all (· ∈ S)).map Uop.amount).sum

def totalAmount (us : List Uop) : Rat := (us.map Uop.amount).sum

structure Feasible (ε : Rat) (n : Nat) (us : List Uop) (v : List Rat) : Prop where
  len     : v.length = n
  nonneg  : ∀ p < n, -ε ≤ v.getD p 0
  support : ∀ p < n, (∀ u ∈ us, p ∉ u.ports) → v.getD p 0 = 0
  totalLo : totalAmount us - ε * n ≤ v.sum
  totalHi : v.sum ≤ totalAmount us + ε * n
  hall    : ∀ S : List Nat, S.Nodup → (∀ p ∈ S, p < n) → confined us S - ε * S.length ≤ sumOn v S

/-! Executable version (the search oracle evaluated by the driver on the implementation's vectors). -/

def sublists : List Nat → List (List Nat)
  | [] => [[]]
  | x :: xs => let r := sublists xs; r ++ r.map (x :: ·)

/-- ports used by some micro-op (deduplicated, ascending by first occurrence) -/
def usedPorts (us : List Uop) : List Nat := (us.flatMap (·.ports)).eraseDups

/-- decide `Feasible ε` by enumerating the subsets of the used ports (Hall on subsets of used ports
    implies Hall on all sets when the support condition holds and `ε ≥ 0`; see Lemmas). Returns the
    name of the first failing clause. -/
def checkFeasible (ε : Rat) (n : Nat) (us : List Uop) (v : List Rat) : Option String :=
  if v.length != n then some "length"
  else if (List.range n).any (fun p => v.getD p 0 < -ε) then some "negative"
  else if (List.range n).any (fun p => us.all (fun u => !u.ports.contains p) && v.getD p 0 != 0)
    then some "support"
  else if v.sum < totalAmount us - ε * n || totalAmount us + ε * n < v.sum then some "total"
  else if (sublists (usedPorts us)).any (fun S => sumOn v S < confined us S - ε * S.length)
    then some "hall"
  else none

/-- exact optimum lower bound: max over port subsets S of confined(S)/|S| (C02) -/
def lowerBound (us : List Uop) : Rat :=
  ((sublists (usedPorts us)).filter (· ≠ [])).foldl
    (fun m S => let q := confined us S / S.length; if m < q then q else m) 0

end OsacaVerif.Spec
