import OsacaVerif.Model.Cache
/-
  Specification for C17: the machine *without any cache*.

  Only the vocabulary (`World`, `Op`, `Outcome`) is shared with the model; none of the model's
  functions (`find`, `getCached`, `loadFull`, `race`, …) is used here.  The state of the
  specification is the content of the model files and nothing else; a load returns what the loader
  makes of the content of the first data directory that has the file.
-/
namespace OsacaVerif.Spec.CacheSpec
open OsacaVerif.Cache

abbrev Files := Dir → Stem → Option Content

/-- content of the model file a name resolves to: first data directory that has it -/
def lookup (w : World) (files : Files) (stem : Stem) : Option Content :=
  (w.dirs stem).findSome? (fun d => files d stem)

/-- what a load must return, whatever the caches look like -/
def expected (w : World) (files : Files) (stem : Stem) (lazy : Bool) : Outcome :=
  match lookup w files stem with
  | none => .error
  | some c => .ok (if lazy then w.parseLazy c else w.parse c)

/-- only editing a model file changes the state of the specification -/
def stepFiles (files : Files) : Op → Files
  | .edit d stem c => fun d' st' => if d' = d ∧ st' = stem then c else files d' st'
  | _ => files

def obs (w : World) (files : Files) : Op → List Outcome
  | .load stem lazy => [expected w files stem lazy]
  | .concurrent stem n _ => List.replicate n (expected w files stem false)
  | _ => []

def run (w : World) : Files → List Op → List Outcome
  | _, [] => []
  | files, op :: ops => obs w files op ++ run w (stepFiles files op) ops

/-- the model files after a history -/
def filesAfter (files : Files) (ops : List Op) : Files := ops.foldl stepFiles files

end OsacaVerif.Spec.CacheSpec
