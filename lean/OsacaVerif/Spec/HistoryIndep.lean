/-
  Specification side of C18.  Nothing here knows OSACA, `Gen` or the `History` model:
  history independence is stated for an arbitrary state-threading step function, and the
  executable oracle compares observed outputs (reports, state digests) position by position.
-/
namespace OsacaVerif.Spec.HistoryIndep

/-- run a sequence of requests, threading the state -/
def runFrom {σ ρ α : Type} (step : σ → ρ → σ × α) (s : σ) : List ρ → σ × List α
  | [] => (s, [])
  | r :: rs =>
    let a := step s r
    let rest := runFrom step a.1 rs
    (rest.1, a.2 :: rest.2)

/-- **History independence**: in every history, every request is answered as it would be
    answered first thing in the initial state (a fresh process). -/
def HistoryIndependent {σ ρ α : Type} (step : σ → ρ → σ × α) (s0 : σ) : Prop :=
  ∀ rs : List ρ, (runFrom step s0 rs).2 = rs.map (fun r => (step s0 r).2)

/-- the observable state (digest) never changes -/
def StatePreserved {σ ρ α δ : Type} (step : σ → ρ → σ × α) (obs : σ → δ) (s0 : σ) : Prop :=
  ∀ rs : List ρ, obs (runFrom step s0 rs).1 = obs s0

/-- executable oracle: first position at which two observation sequences differ
    (a missing element differs from everything) -/
def firstDiff {α : Type} [DecidableEq α] : List α → List α → Option Nat
  | [], [] => none
  | [], _ :: _ => some 0
  | _ :: _, [] => some 0
  | a :: as, b :: bs => if a = b then (firstDiff as bs).map (· + 1) else some 0

theorem firstDiff_none_iff {α : Type} [DecidableEq α] (a b : List α) : firstDiff a b = none ↔ a = b := by
  induction a generalizing b with
  | nil => cases b <;> simp [firstDiff]
  | cons x xs ih =>
    cases b with
    | nil => simp [firstDiff]
    | cons y ys =>
      by_cases h : x = y
      · simp [firstDiff, h, ih]
      · simp [firstDiff, h]

/-- executable oracle: first call after which some state digest differs from the pristine one.
    `after[i]` is the list of (key, digest) pairs observed after call `i`. -/
def firstPolluted {κ δ : Type} [DecidableEq κ] [DecidableEq δ] (pristine : List (κ × δ)) (after : List (List (κ × δ))) :
    Option Nat :=
  after.findIdx? (fun obs => obs.any (fun kd =>
    match pristine.find? (fun p => p.1 = kd.1) with
    | some p => decide (p.2 ≠ kd.2)
    | none => false))

end OsacaVerif.Spec.HistoryIndep
