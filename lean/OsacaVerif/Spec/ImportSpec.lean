import OsacaVerif.Model.Text
import OsacaVerif.Model.ImportTypes
/-
  C20 — the property's own vocabulary, written from the property statement and the README section
  "Benchmark import" only.  Independent of the model of the algorithm and of `Gen` (all numbers
  below are the documented ones: 5 %, n = 1..10, five decimals).  Evaluated by the driver on the
  *implementation's* outputs (oracle of the search), and related to the model by the theorems of
  `Props/C20.lean`.
-/
namespace OsacaVerif.Spec.Import
open OsacaVerif.Text OsacaVerif.Import

def absQ (q : Rat) : Rat := if q < 0 then -q else q

/-- `r` is `q` rounded to five decimals (either neighbour at an exact tie) -/
def isRound5 (q r : Rat) : Bool := (r * 100000).den == 1 && decide (absQ (q - r) ≤ 1 / 200000)

/-- Throughput: a value is recorded iff it is the reciprocal `1/n` (n = 1..10, five decimals) within
    5 % of the measurement; a measurement strictly inside a 5 % window must be recorded; on the
    exact edge of a window either outcome is allowed. -/
def tpOk (m : Rat) (r : Option Rat) : Bool :=
  match r with
  | none => (List.range 10).all fun i => !decide (absQ (m - 1 / ((i + 1 : Nat) : Rat)) < 1 / 20 / ((i + 1 : Nat) : Rat))
  | some v => (List.range 10).any fun i =>
      isRound5 (1 / ((i + 1 : Nat) : Rat)) v && decide (absQ (m - 1 / ((i + 1 : Nat) : Rat)) ≤ 1 / 20 / ((i + 1 : Nat) : Rat))

/-- Latency: a recorded value is a nearest integer `k` with `|m - k| ≤ 5 % of k`; a measurement
    strictly within 5 % of some integer must be recorded (candidates `k < 2m + 3` suffice:
    `|m - k| < k/20` forces `k < m / 0.95`). -/
def ltOk (m : Rat) (r : Option Rat) : Bool :=
  match r with
  | none => (List.range ((2 * m).floor.toNat + 3)).all fun k => !decide (absQ (m - (k : Rat)) < (k : Rat) / 20)
  | some v => v.den == 1 && decide (absQ (m - v) ≤ 1 / 2) && decide (absQ (m - v) ≤ v / 20)

/-! ### documented operand codes (README "Benchmark import") -/

def t (s : String) : Txt := ofString s

def allIn (fl allowed : Txt) : Bool := fl.all fun c => allowed.contains c

def reg (k v : String) : Dict := [(t "class", .s (t "register")), (t k, .s (t v))]
def imm : Dict := [(t "class", .s (t "immediate")), (t "imd", .s (t "int"))]
def optS (b : Bool) (v : String) : V := if b then .s (t v) else .none

/-- x86: `r`; `x` `y` `z`; `i`; `m` + any of `b o i s` -/
def docX86 (code : Txt) : Option Dict :=
  if code = t "r" then some (reg "name" "gpr")
  else if code = t "x" then some (reg "name" "xmm")
  else if code = t "y" then some (reg "name" "ymm")
  else if code = t "z" then some (reg "name" "zmm")
  else if code = t "i" then some imm
  else
    match code with
    | 109 :: fl =>
      if allIn fl (t "bois") then
        some [(t "class", .s (t "memory")), (t "base", optS (fl.contains 98) "gpr"),
              (t "offset", optS (fl.contains 111) "imd"), (t "index", optS (fl.contains 105) "gpr"),
              (t "scale", .n (if fl.contains 115 then 8 else 1))]
      else none
    | _ => none

/-- AArch64: `w x b h s d q`; `v` + optional lane letter `b h s d` (default `d`); `i`;
    `m` + any of `b o i s r p` -/
def docA64 (code : Txt) : Option Dict :=
  if code = t "i" then some imm
  else
    match code with
    | 109 :: fl =>
      if allIn fl (t "boisrp") then
        some [(t "class", .s (t "memory")), (t "base", optS (fl.contains 98) "x"),
              (t "offset", optS (fl.contains 111) "imd"), (t "index", optS (fl.contains 105) "gpr"),
              (t "scale", .n (if fl.contains 115 then 8 else 1)),
              (t "pre_indexed", .b (fl.contains 114)), (t "post_indexed", .b (fl.contains 112))]
      else none
    | [118] => some [(t "class", .s (t "register")), (t "prefix", .s (t "v")), (t "shape", .s (t "d"))]
    | [118, l] =>
      if (t "bhsd").contains l then some [(t "class", .s (t "register")), (t "prefix", .s (t "v")), (t "shape", .s [l])]
      else none
    | [c] =>
      if (t "wxbhsdq").contains c then some [(t "class", .s (t "register")), (t "prefix", .s [c])]
      else none
    | _ => none

end OsacaVerif.Spec.Import
