import OsacaVerif.Model.Text
import OsacaVerif.Model.PyInt
/-
  Specification side of C11 (kernel selection).  Nothing here depends on `Gen` (OSACA's literals)
  or on the model of the algorithm: the marker convention is written down from the IACA/OSACA
  documentation, the expected selection is positional, the `--lines` denotation is set-theoretic.
-/
namespace OsacaVerif.Spec.KernelSelect
open OsacaVerif.Text

/-- the byte-marker convention of one ISA -/
structure MarkerConv where
  movs : List Txt        -- accepted mnemonics of the marker move
  reg : Txt              -- full name of the marker register
  startVal : Int
  endVal : Int
  nop : List Int         -- bytes of the marker nop
  immFirst : Bool        -- the immediate is the first operand (AT&T order) / the second (AArch64)
  deriving DecidableEq, Repr

/-- IACA x86: `movl $111, %ebx` / `movl $222, %ebx` (also `mov`), then `.byte 100,103,144` -/
def x86Marker : MarkerConv :=
  ⟨[[109, 111, 118], [109, 111, 118, 108]], [101, 98, 120], 111, 222, [100, 103, 144], true⟩

/-- OSACA AArch64: `mov x1, #111` / `mov x1, #222`, then `.byte 213,3,32,31` (a `nop`) -/
def a64Marker : MarkerConv :=
  ⟨[[109, 111, 118]], [120, 49], 111, 222, [213, 3, 32, 31], false⟩

/-- `OSACA-BEGIN` -/
def commentBegin : Txt := [79, 83, 65, 67, 65, 45, 66, 69, 71, 73, 78]
/-- `OSACA-END` -/
def commentEnd : Txt := [79, 83, 65, 67, 65, 45, 69, 78, 68]
/-- `byte` -/
def byteDirective : Txt := [98, 121, 116, 101]

/-- "the lines strictly between the start and the end marker" of a file laid out as
    prologue (`p` lines), start marker (`s` lines), body (`b` lines), end marker, epilogue -/
def between {α : Type} (xs : List α) (p s b : Nat) : List α := (xs.drop (p + s)).take b

/-- one item of a `--lines` specification -/
inductive Item where
  | single (n : Nat)
  /-- inclusive range, written `a-b` or `a:b` -/
  | range (a b : Nat) (colon : Bool)
  deriving DecidableEq, Repr

/-- the line numbers an item names: `n`, or `a, a+1, …, b` (nothing when `b < a`) -/
def Item.denote : Item → List Nat
  | .single n => [n]
  | .range a b _ => List.range' a (b + 1 - a)

def denoteAll (items : List Item) : List Nat := items.flatMap Item.denote

/-- how the item is written on the command line -/
def Item.render : Item → Txt
  | .single n => PyInt.natDigits n
  | .range a b colon => PyInt.natDigits a ++ (if colon then 58 else 45) :: PyInt.natDigits b

/-- the `--lines` string: items separated by commas -/
def renderSpec (items : List Item) : Txt := PyInt.joinWith 44 (items.map Item.render)

/-- a number is named by the specification -/
def Named (items : List Item) (n : Nat) : Prop :=
  ∃ it ∈ items, match it with
    | .single m => n = m
    | .range a b _ => a ≤ n ∧ n ≤ b

end OsacaVerif.Spec.KernelSelect
