import OsacaVerif.Model.Text
/-
  Specification of "the lines of a file" for C10, independent of the parser model:
  the lines of a text are the unique non-empty list of line-feed-free pieces that, joined with line
  feeds, give the text; a line is blank when it consists of white space (Python `str.strip`) only.
-/
namespace OsacaVerif.Spec.A64
open OsacaVerif.Text

def joinLines : List Txt → Txt
  | [] => []
  | [l] => l
  | l :: ls => l ++ 10 :: joinLines ls

/-- `ls` are the lines of `content` -/
def IsLinesOf (content : Txt) (ls : List Txt) : Prop :=
  ls ≠ [] ∧ joinLines ls = content ∧ ∀ l ∈ ls, 10 ∉ l

/-- code points Python's `str.strip()` removes -/
def spaceChars : List Nat :=
  [9, 10, 11, 12, 13, 28, 29, 30, 31, 32, 133, 160, 5760, 8192, 8193, 8194, 8195, 8196, 8197, 8198, 8199,
   8200, 8201, 8202, 8232, 8233, 8239, 8287, 12288]

def blankLine (l : Txt) : Prop := ∀ c ∈ l, c ∈ spaceChars

/-- what `parse_file(content, start)` has to deliver as (line number, text) pairs, given the lines -/
structure FileSpec (ls : List Txt) (start : Nat) (out : List (Nat × Txt)) : Prop where
  /-- in file order, no line twice -/
  sorted : out.Pairwise (fun a b => a.1 < b.1)
  /-- every entry is a non-blank line of the file with its 1-based number (plus `start`) and verbatim text -/
  sound : ∀ e ∈ out, ∃ i, ls[i]? = some e.2 ∧ e.1 = i + 1 + start ∧ ¬ blankLine e.2
  /-- every non-blank line has its entry -/
  complete : ∀ i l, ls[i]? = some l → ¬ blankLine l → (i + 1 + start, l) ∈ out

end OsacaVerif.Spec.A64
