import OsacaVerif.Model.Operand
/-
  C07 vocabulary: when does an operand of an instruction *agree in kind* with an operand of a model
  entry.  Written from the property's wording (register class / width prefix / vector shape, immediate
  type, label, condition, memory addressing shape, wildcards), with its own literals — this file does
  not import `Gen` and does not follow the control flow of the matcher.

  `KindAgree` is the relation (one constructor per kind rule); `kindAgreeB` is the same thing as a
  function, evaluated by the driver as the search oracle (`Lemmas/KindAgree.lean` proves them equal).
  Code facts that are part of the vocabulary because the code makes them so (DESIGN §6, "not defects"):
  `gpr` covers every register name that is not a vector name; on x86 an operand of a class the
  matcher does not know agrees with everything; the register wildcard of the composition path agrees
  with every register entry and nothing else.
-/
namespace OsacaVerif.Spec
open OsacaVerif OsacaVerif.Text OsacaVerif.Operand

def star : Txt := [42]
def gprClass : Txt := [103, 112, 114]                                  -- "gpr"
def vectorClasses : List Txt := [[109, 109], [120, 109, 109], [121, 109, 109], [122, 109, 109]]  -- mm xmm ymm zmm
def tInt : Txt := [105, 110, 116]
def tFloat : Txt := [102, 108, 111, 97, 116]
def tDouble : Txt := [100, 111, 117, 98, 108, 101]
def tImd : Txt := [105, 109, 100]
def tId : Txt := [105, 100]
def gasSuffixes : Txt := [98, 115, 119, 108, 113, 116]                 -- b s w l q t
def dot : Nat := 46

/-! ### what the parsers can produce (the domain of the equivalence) -/

/-- register operands of the parsers: the name is not `*`, the prefix is not `*`, the shape contains
    no `*`, lanes only come together with a shape -/
def parserReg (r : PReg) : Bool :=
  r.name != star && r.pfx != some star &&
  (match r.shape with
   | some s => !s.contains 42
   | none => r.lanes.isNone)

def parserOperand : POperand → Bool
  | .reg r => parserReg r
  | .mem m => (match m.base with | some r => parserReg r | none => true) &&
              (match m.index with | some r => parserReg r | none => true)
  | _ => true

/-- what the AArch64 parser additionally guarantees of a memory operand: a scale other than 1 comes
    from a shifted index register; an access is not pre- and post-indexed at once -/
def parserOperandA64 : POperand → Bool
  | .mem m => (m.scale == 1 || m.index.isSome) && !(m.pre && m.post)
  | _ => true

def parserOperandIsa (isa : Isa) (o : POperand) : Bool :=
  parserOperand o && (match isa with
                      | .a64 => parserOperandA64 o
                      | .x86 => true)

/-! ### what the YAML schema allows in an entry operand -/

def isNullOrStr : Y → Bool
  | .null => true
  | .str _ => true
  | _ => false

/-- scale: absent, `*` or a number -/
def scaleSchema : Y → Bool
  | .null => true
  | .str t => t == star
  | .num _ => true
  | _ => false

/-- marker of a pre- or post-indexed access: a boolean or `*` -/
def triSchema : Y → Bool
  | .bool _ => true
  | .str t => t == star
  | _ => false

def schemaOperand : EOperand → Bool
  | .mem b off i s pre post =>
    isNullOrStr b && isNullOrStr off && isNullOrStr i && scaleSchema s && triSchema pre && triSchema post
  | .imm t => (match t with | .str _ => true | _ => false)
  | _ => true

/-! ### kind rules -/

/-- x86 register name → its class stem: trailing digits dropped, lower case (`xmm12` → `xmm`) -/
def stem (n : Txt) : Txt := lower (rstripDigits n)

/-- x86 register class: wildcard, the register's own stem, or `gpr` for every non-vector name -/
def x86RegClass (c : Option Txt) (n : Txt) : Bool :=
  match c with
  | none => false
  | some c => c == star || c == stem n || (c == gprClass && !vectorClasses.contains (stem n))

/-- x86 base / index field of a memory entry against the (optional) address register -/
def x86AddrField (f : Y) (r : Option PReg) : Bool :=
  match f, r with
  | .str c, some reg => x86RegClass (some c) reg.name
  | .str c, none => c == star
  | .null, none => true
  | _, _ => false

def x86OffsetField (f : Y) (o : POff) : Bool :=
  match f with
  | .str c => c == star ||
      (match o with
       | .imm _ => c == tImd
       | .ident => c == tId
       | _ => false)
  | .null =>
      (match o with
       | .none => true
       | .imm valueIsStr0 => valueIsStr0
       | _ => false)
  | _ => false

/-- scale: wildcard, equal, or both sides scaled (≠ 1; an absent scale counts as "scaled") -/
def scaleField (f : Y) (s : Int) : Bool :=
  match f with
  | .str c => c == star
  | .num q => q == (s : Rat) || (s != 1 && q != 1)
  | .null => s != 1
  | _ => false

/-- AArch64 width prefix -/
def a64Prefix (p : Option Txt) (rp : Option Txt) : Bool := p == some star || p == rp

/-- AArch64 vector shape: a register written without a shape agrees with every entry of its prefix;
    a shape must be declared by the entry, equal or wildcard -/
def a64Shape (s : Option Txt) (r : PReg) : Bool :=
  match r.shape with
  | none => true
  | some rs =>
    (match s with
     | some es => es == rs || es.contains 42
     | none => false)

def a64BaseField (f : Y) (r : Option PReg) : Bool :=
  match f, r with
  | .str c, some reg => c == star || reg.pfx == some c
  | .str c, none => c == star
  | .null, some reg => reg.pfx == none
  | .null, none => true
  | _, _ => false

def a64OffsetField (f : Y) (o : POff) : Bool :=
  match f with
  | .str c => c == star || (match o with | .imm _ => c == tImd | _ => false)
  | .null => (match o with | .none => true | _ => false)
  | _ => false

def a64IndexField (f : Y) (r : Option PReg) : Bool :=
  match f, r with
  | .str c, some reg => c == star || reg.pfx == some c
  | .str c, none => c == star
  | .null, none => true
  | _, _ => false

def triField (f : Y) (b : Bool) : Bool :=
  match f with
  | .str c => c == star
  | .bool b' => b == b'
  | _ => false

def x86MemShape (b off i s : Y) (m : PMem) : Bool :=
  x86AddrField b m.base && x86OffsetField off m.offset && x86AddrField i m.index && scaleField s m.scale

def a64MemShape (b off i s pre post : Y) (m : PMem) : Bool :=
  a64BaseField b m.base && a64OffsetField off m.offset && a64IndexField i m.index && scaleField s m.scale &&
  triField pre m.pre && triField post m.post

/-- the immediate types an AArch64 entry can name -/
def a64ImmTypes : List Txt := [tInt, tFloat, tDouble]

/-- x86 operands of a class the matcher does not know -/
def x86Unknown : POperand → Bool
  | .cond _ => true
  | .prfop => true
  | .other => true
  | _ => false

/-- **kind agreement**, one constructor per rule -/
inductive KindAgree : Isa → EOperand → POperand → Prop
  | wildReg (isa : Isa) (n p s : Option Txt) : KindAgree isa (.reg n p s) .wild
  | x86Reg (n p s : Option Txt) (r : PReg) : x86RegClass n r.name = true → KindAgree .x86 (.reg n p s) (.reg r)
  | x86Mem (b off i s pre post : Y) (m : PMem) : x86MemShape b off i s m = true →
      KindAgree .x86 (.mem b off i s pre post) (.mem m)
  | x86Imm (ty : Option Txt) (hv hi : Bool) : KindAgree .x86 (.imm (.str tInt)) (.imm ty hv hi)
  | x86Ident : KindAgree .x86 .ident .ident
  | x86UnknownClass (e : EOperand) (o : POperand) : x86Unknown o = true → KindAgree .x86 e o
  | a64Reg (n p s : Option Txt) (r : PReg) : a64Prefix p r.pfx = true → a64Shape s r = true →
      KindAgree .a64 (.reg n p s) (.reg r)
  | a64Mem (b off i s pre post : Y) (m : PMem) : a64MemShape b off i s pre post m = true →
      KindAgree .a64 (.mem b off i s pre post) (.mem m)
  | a64ImmAny (ty : Option Txt) (hi : Bool) : KindAgree .a64 (.imm (.str star)) (.imm ty true hi)
  | a64ImmTyped (t : Txt) (hi : Bool) : t ∈ a64ImmTypes → KindAgree .a64 (.imm (.str t)) (.imm (some t) true hi)
  | a64Ident : KindAgree .a64 .ident .ident
  | a64IdentImm (ty : Option Txt) (hv : Bool) : KindAgree .a64 .ident (.imm ty hv true)
  | a64Cond (c c' : Txt) : (c = star ∨ c = c') → KindAgree .a64 (.cond c) (.cond c')
  | a64Prfop : KindAgree .a64 .prfop .prfop

/-- the same as a function (the driver's oracle) -/
def kindAgreeB (isa : Isa) (e : EOperand) (o : POperand) : Bool :=
  match o with
  | .wild => (match e with | .reg _ _ _ => true | _ => false)
  | _ =>
    match isa with
    | .x86 =>
      x86Unknown o ||
      (match e, o with
       | .reg n _ _, .reg r => x86RegClass n r.name
       | .mem b off i s _ _, .mem m => x86MemShape b off i s m
       | .imm (.str t), .imm _ _ _ => t == tInt
       | .ident, .ident => true
       | _, _ => false)
    | .a64 =>
      match e, o with
      | .reg _ p s, .reg r => a64Prefix p r.pfx && a64Shape s r
      | .mem b off i s pre post, .mem m => a64MemShape b off i s pre post m
      | .imm (.str t), .imm ty hv _ => hv && (t == star || (a64ImmTypes.contains t && ty == some t))
      | .ident, .ident => true
      | .ident, .imm _ _ hi => hi
      | .cond c, .cond c' => c == star || c == c'
      | .prfop, .prfop => true
      | _, _ => false

/-- operand lists agree: equal length and pointwise kind agreement -/
inductive OperandsAgree (isa : Isa) : List EOperand → List POperand → Prop
  | nil : OperandsAgree isa [] []
  | cons {e : EOperand} {o : POperand} {es : List EOperand} {os : List POperand} :
      KindAgree isa e o → OperandsAgree isa es os → OperandsAgree isa (e :: es) (o :: os)

/-- an entry agrees with an instruction: same mnemonic up to case, same operand count, every operand
    agrees in kind -/
def SpecMatches (isa : Isa) (name : Txt) (ops : List POperand) (e : Entry) : Prop :=
  e.name = upper name ∧ OperandsAgree isa e.operands ops

def kindAgreeAll (isa : Isa) : List EOperand → List POperand → Bool
  | [], [] => true
  | e :: es, o :: os => kindAgreeB isa e o && kindAgreeAll isa es os
  | _, _ => false

def specMatchesB (isa : Isa) (name : Txt) (ops : List POperand) (e : Entry) : Bool :=
  e.name == upper name && kindAgreeAll isa e.operands ops

/-- oracle lookup: index of the first entry that agrees -/
def specLookupIdx (isa : Isa) (db : List Entry) (name : Txt) (ops : List POperand) : Option Nat :=
  let i := db.findIdx (specMatchesB isa name ops)
  if i < db.length then some i else none

/-! ### mnemonic fall-backs, as the property words them -/

/-- `alt` is `name` without one trailing AT&T size suffix (x86) / without its `.suffix` (AArch64) -/
def IsFallback (isa : Isa) (name alt : Txt) : Prop :=
  match isa with
  | .x86 => ∃ c, c ∈ gasSuffixes ∧ name = alt ++ [c]
  | .a64 => ∃ rest, dot ∉ alt ∧ name = alt ++ dot :: rest

end OsacaVerif.Spec
