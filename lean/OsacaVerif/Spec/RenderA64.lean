import OsacaVerif.Model.A64Types
/-
  Specification side of C10: instruction ASTs "as written", their rendering into a line of text
  under an arbitrary layout (white space in every gap), and the result the parser has to deliver.
  Nothing here depends on the grammar (`Gen`) or on the parser model: only on the result types.

  The same renderer exists in Python (harness/a64gen.py: `pieces`, `line_pieces`, `join`); the harness
  compares the two on every generated line (driver op `a64render`).
-/
namespace OsacaVerif.Spec.A64
open OsacaVerif.Text OsacaVerif.ParseA64

/-! ### numerals -/
def hexDigit (up : Bool) (d : Nat) : Nat := if d < 10 then 48 + d else if up then 55 + d else 87 + d
def showHex (up : Bool) (n : Nat) : Txt := showBase 16 (hexDigit up) n

/-! ### AST as written -/
/-- element of a register list: scalar `x5` or vector `v5.4s` (prefix and shape letters as written) -/
inductive ElemA where
  | scalar (p : Nat) (n : Nat)
  | vec (p : Nat) (n : Nat) (lanes : Option Txt) (shape : Option Nat)
  deriving DecidableEq, Repr

inductive PredTail where
  | none
  | pred (c : Nat)                              -- `/z`, `/m`
  | shape (lanes : Option Txt) (shape : Nat)    -- `.b`
  deriving DecidableEq, Repr

inductive RegA where
  | scalar (p : Nat) (n : Nat)
  | alias (t : Txt)                             -- sp wsp SP WSP xzr wzr XZR WZR, as written
  | vec (p : Nat) (n : Nat) (lanes : Option Txt) (shape : Option Nat) (idx : Option Nat)
  | pred (p : Nat) (n : Nat) (tail : PredTail)
  deriving DecidableEq, Repr

structure IntA where
  hash : Bool
  neg : Bool
  hex : Bool
  hexup : Bool
  abs : Nat
  deriving DecidableEq, Repr

structure IdentA where
  hash : Bool
  reloc : Option Txt        -- without the colons
  name : Txt
  off : Option Txt          -- offset text as written (decimal or 0x…)
  deriving DecidableEq, Repr

inductive OffA where
  | int (i : IntA)
  | ident (i : IdentA)
  deriving DecidableEq, Repr

/-- shift/extend of a memory index: operator as written, optional amount (with or without `#`) -/
structure ShiftA where
  op : Txt
  amt : Option (Bool × Nat)
  deriving DecidableEq, Repr

inductive MemMidA where
  | none
  | off (o : OffA)
  | idx (r : RegA) (s : Option ShiftA)
  deriving DecidableEq, Repr

structure MemA where
  base : RegA
  mid : MemMidA
  pre : Bool
  post : Option IntA
  deriving DecidableEq, Repr

inductive OpA where
  | reg (r : RegA)
  | list (elems : List ElemA) (idx : Option Nat)
  | range (first : ElemA) (b : Nat) (idx : Option Nat)
  | int (i : IntA)
  /-- `#-12.5e+3f`: exponent = (letter e/E, sign, digits); `f` = letter f/F -/
  | flt (hash neg : Bool) (ip fp : Txt) (exp : Option (Nat × Nat × Txt)) (f : Option Nat)
  /-- `#1, lsl #12` -/
  | shimm (hash hex : Bool) (v : Nat) (op : Txt) (amthash : Bool) (amt : Nat)
  | cond (c : Txt)
  | ident (i : IdentA)
  | prf (t g p : Txt)
  | mem (m : MemA)
  deriving DecidableEq, Repr

structure InstrA where
  mn : Txt
  ops : List OpA
  comment : Option (List Txt)
  deriving DecidableEq, Repr

/-! ### rendering: pieces and gaps -/
/-- a piece of text and the kind of gap in front of it: 1 = any blanks (also none), 2 = at least one -/
abbrev Piece := Txt × Nat

def optHash (b : Bool) : Txt := if b then [35] else []
def optNeg (b : Bool) : Txt := if b then [45] else []

def elemText : ElemA → Txt
  | .scalar p n => p :: showNat n
  | .vec p n lanes shape =>
    p :: showNat n ++
      (match shape with
       | some s => 46 :: ((match lanes with | some l => l | none => []) ++ [s])
       | none => [])

def idxText (i : Option Nat) : Txt :=
  match i with
  | some k => 91 :: (showNat k ++ [93])
  | none => []

def regText : RegA → Txt
  | .scalar p n => p :: showNat n
  | .alias t => t
  | .vec p n lanes shape idx => elemText (.vec p n lanes shape) ++ idxText idx
  | .pred p n tail =>
    p :: showNat n ++
      (match tail with
       | .none => []
       | .pred c => [47, c]
       | .shape lanes s => 46 :: ((match lanes with | some l => l | none => []) ++ [s]))

def intText (i : IntA) : Txt :=
  optHash i.hash ++ optNeg i.neg ++ (if i.hex then [48, 120] ++ showHex i.hexup i.abs else showNat i.abs)

def identText (i : IdentA) : Txt :=
  optHash i.hash ++ (match i.reloc with | some r => 58 :: (r ++ [58]) | none => []) ++ i.name ++
    (match i.off with | some o => 43 :: o | none => [])

def idxPieces (i : Option Nat) : List Piece :=
  match i with
  | some k => [([91], 1), (showNat k, 1), ([93], 1)]
  | none => []

def elemsPieces : List ElemA → List Piece
  | [] => []
  | [e] => [(elemText e, 1)]
  | e :: es => (elemText e, 1) :: ([44], 1) :: elemsPieces es

def setNum : ElemA → Nat → ElemA
  | .scalar p _, n => .scalar p n
  | .vec p _ l s, n => .vec p n l s

def amtPiece (a : Bool × Nat) : Piece := (optHash a.1 ++ showNat a.2, if a.1 then 1 else 2)

def offPieces : OffA → List Piece
  | .int i => [(intText i, 1)]
  | .ident i => [(identText i, 1)]

def memPieces (m : MemA) : List Piece :=
  [([91], 1), (regText m.base, 1)] ++
  (match m.mid with
   | .none => []
   | .off o => ([44], 1) :: offPieces o
   | .idx r s =>
     [([44], 1), (regText r, 1)] ++
     (match s with
      | none => []
      | some sh => [([44], 1), (sh.op, 1)] ++ (match sh.amt with | some a => [amtPiece a] | none => []))) ++
  [([93], 1)] ++ (if m.pre then [([33], 1)] else []) ++
  (match m.post with | some i => [([44], 1), (intText i, 1)] | none => [])

def opPieces : OpA → List Piece
  | .reg r => [(regText r, 1)]
  | .list es idx => [([123], 1)] ++ elemsPieces es ++ [([125], 1)] ++ idxPieces idx
  | .range first b idx =>
    [([123], 1), (elemText first, 1), ([45], 1), (elemText (setNum first b), 1), ([125], 1)] ++ idxPieces idx
  | .int i => [(intText i, 1)]
  | .flt hash neg ip fp exp f =>
    [(optHash hash ++ optNeg neg ++ ip ++ 46 :: fp ++
      (match exp with | some (e, sg, d) => e :: sg :: d | none => []) ++
      (match f with | some c => [c] | none => []), 1)]
  | .shimm hash hex v op amthash amt =>
    [(intText ⟨hash, false, hex, false, v⟩, 1), ([44], 1), (op, 1), amtPiece (amthash, amt)]
  | .cond c => [(c, 1)]
  | .ident i => [(identText i, 1)]
  | .prf t g p => [(t ++ g ++ p, 1)]
  | .mem m => memPieces m

/-- first operand: at least one blank after the mnemonic; further operands: a comma first -/
def opsPieces : Bool → List OpA → List Piece
  | _, [] => []
  | true, o :: os =>
    (match opPieces o with
     | (t, _) :: ps => (t, 2) :: ps
     | [] => []) ++ opsPieces false os
  | false, o :: os => ([44], 1) :: opPieces o ++ opsPieces false os

def commentPieces : Option (List Txt) → List Piece
  | none => []
  | some [] => [([47, 47], 1)]
  | some (w :: ws) => ([47, 47], 1) :: (w, 1) :: ws.map (fun x => (x, 2))

def linePieces (a : InstrA) : List Piece :=
  (a.mn, 1) :: opsPieces true a.ops ++ commentPieces a.comment

/-- the line: every piece preceded by its gap, and a trailing gap -/
def joinPieces : List Piece → List Txt → Txt
  | [], gs => gs.headD []
  | p :: ps, g :: gs => g ++ p.1 ++ joinPieces ps gs
  | p :: ps, [] => p.1 ++ joinPieces ps []

def render (a : InstrA) (gaps : List Txt) : Txt := joinPieces (linePieces a) gaps

def isBlankC (c : Nat) : Bool := c == 32 || c == 9

/-- a layout for a piece list: one gap of blanks/tabs per piece (non-empty where required) and a
    trailing gap -/
def LayoutOk : List Piece → List Txt → Prop
  | [], gs => ∃ g, gs = [g] ∧ g.all isBlankC = true
  | p :: ps, g :: gs => g.all isBlankC = true ∧ (p.2 = 2 → g ≠ []) ∧ LayoutOk ps gs
  | _ :: _, [] => False

/-! ### what the parser has to deliver -/
def optMap {α β : Type} (f : α → β) : Option α → Option β
  | some x => some (f x)
  | none => none

def lowerTxt1 (c : Nat) : Txt := [lowerC c]

def expectElem (e : ElemA) (idx : Option Nat) : Reg :=
  match e with
  | .scalar p n => { pre := lowerTxt1 p, name := showNat n, index := optMap showNat idx }
  | .vec p n lanes shape =>
    { pre := lowerTxt1 p, name := showNat n, shape := optMap lowerTxt1 shape,
      lanes := (match shape with | some _ => lanes | none => none), index := optMap showNat idx }

def aliasName (t : Txt) : Txt := t.drop (t.length - 2)

def expectReg : RegA → Reg
  | .scalar p n => { pre := lowerTxt1 p, name := showNat n }
  | .alias t =>
    if lower (aliasName t) == [115, 112] then { pre := [120], name := [115, 112] }    -- sp: x, "sp"
    else { pre := lower (t.take 1), name := aliasName t }                               -- zr: as written
  | .vec p n lanes shape idx => expectElem (.vec p n lanes shape) idx
  | .pred p n tail =>
    { pre := lowerTxt1 p, name := showNat n,
      shape := (match tail with | .shape _ s => some (lowerTxt1 s) | _ => none),
      lanes := (match tail with | .shape l _ => l | _ => none),
      pred := (match tail with | .pred c => some (lowerTxt1 c) | _ => none) }

def intVal (i : IntA) : Int := if i.neg then - (i.abs : Int) else (i.abs : Int)

def expectIdent (i : IdentA) : Ident :=
  { reloc := optMap (fun r => 58 :: (r ++ [58])) i.reloc, name := i.name, offset := i.off }

/-- base/index register of a memory operand: prefix `x` for the sp/zr aliases, name as written -/
def expectMemReg : RegA → Txt × Txt
  | .scalar p n => (lowerTxt1 p, showNat n)
  | .alias t => ([120], aliasName t)
  | _ => ([], [])

def pow2 (n : Nat) : Nat := 2 ^ n

def expectMem (m : MemA) : Mem :=
  { offset := (match m.mid with
               | .off (.int i) => some (.imm (intVal i))
               | .off (.ident i) => some (.ident (expectIdent i))
               | _ => none),
    basePre := (expectMemReg m.base).1, baseName := (expectMemReg m.base).2,
    index := (match m.mid with
              | .idx r s =>
                some { pre := (expectMemReg r).1, name := (expectMemReg r).2,
                       shiftOp := optMap (fun (x : ShiftA) => lower x.op) s,
                       shift := (match s with | some ⟨_, some a⟩ => some (showNat a.2) | _ => none) }
              | _ => none),
    scale := (match m.mid with | .idx _ (some ⟨_, some a⟩) => pow2 a.2 | _ => 1),
    pre := m.pre,
    post := optMap (fun i => PostIdx.imm (intVal i)) m.post }

def rangeMembers (first : ElemA) (idx : Option Nat) (a : Nat) : Nat → List Reg
  | 0 => []
  | k + 1 => expectElem (setNum first a) idx :: rangeMembers first idx (a + 1) k

def elemNum : ElemA → Nat
  | .scalar _ n => n
  | .vec _ n _ _ => n

def expectOp : OpA → List Operand
  | .reg r => [.reg (expectReg r)]
  | .list es idx => es.map (fun e => .reg (expectElem e idx))
  | .range first b idx => (rangeMembers first idx (elemNum first) (b + 1 - elemNum first)).map .reg
  | .int i => [.imm (.int (intVal i))]
  | .flt _ neg ip fp exp f =>
    [.imm (.flt f.isNone (optNeg neg ++ ip ++ 46 :: fp) (optMap (fun (x : Nat × Nat × Txt) => ([x.2.1], x.2.2)) exp))]
  | .shimm _ _ v _ _ amt => [.imm (.int ((v * pow2 amt : Nat) : Int))]
  | .cond c => [.cond (upper c)]
  | .ident i => [.ident (expectIdent i)]
  | .prf t g p => [.prf (upper t) (upper g) (upper p)]
  | .mem m => [.mem (expectMem m)]

def joinWords : List Txt → Txt
  | [] => []
  | [w] => w
  | w :: ws => w ++ 32 :: joinWords ws

def expectLine (a : InstrA) : Line :=
  .instr a.mn (a.ops.map expectOp).flatten (optMap joinWords a.comment)

end OsacaVerif.Spec.A64
