import OsacaVerif.Model.DG
/-
  Declarative / independent oracles for C03–C05, C14.  Nothing here follows the scan of
  `find_depending`, networkx' path search or the post-processing of the LCD code.
-/
namespace OsacaVerif.Spec
open OsacaVerif OsacaVerif.DG

/-- the register and flag destinations of an instruction (flags only when requested) -/
def targetsOf (flagDeps : Bool) (p : Ins) : List Target :=
  (p.dst ++ p.srcDst).filterMap fun o => match o with
    | .reg r => some (.reg r)
    | .flag n => if flagDeps then some (.flag n) else none
    | _ => none

/-- read-after-write between positions `i < j` of the kernel -/
def rawAt (isa : Isa) (flagDeps : Bool) (k : List Ins) (i j : Nat) : Bool :=
  match k[i]?, k[j]? with
  | some p, some c =>
    decide (i < j) && (targetsOf flagDeps p).any fun t =>
      isRead isa t c &&
      (List.range (j - i - 1)).all fun d => match k[i + 1 + d]? with
        | some m => !isWritten isa t m
        | none => true
  | _, _ => false

/-- all RAW pairs as (producer line, consumer line) -/
def rawEdges (isa : Isa) (flagDeps : Bool) (k : List Ins) : List (Nat × Nat) :=
  (List.range k.length).flatMap fun i => (List.range k.length).filterMap fun j =>
    if rawAt isa flagDeps k i j then
      match k[i]?, k[j]? with
      | some p, some c => some (p.line, c.line)
      | _, _ => none
    else none

/-! ### longest chain (C04) over an explicit edge list -/

structure WEdge where
  src : Nat
  dst : Nat
  w : Rat
  deriving Repr, Inhabited

structure LatInfo where
  line : Nat
  lat : Rat
  loadStage : Rat     -- lat − latWoLoad if the instruction has a separate load node, else 0
  deriving Repr, Inhabited

def maxR (l : List Rat) : Option Rat :=
  match l with
  | [] => none
  | v :: vs => some (vs.foldl (fun (m : Rat) x => if m < x then x else m) v)

def maxOr0 (l : List Rat) : Rat := (maxR l).getD 0

/-- value of the best chain ending at `i`: alone (`lat i`) or as last of a chain with ≥ 2 members -/
def endValue (table : List (Nat × Option Rat × Rat)) (i : LatInfo) : Rat :=
  match table.find? (·.1 == i.line) with
  | some (_, some x, _) => if i.lat < x + i.lat then x + i.lat else i.lat
  | _ => i.lat

/-- longest chain: `chainLen [i] = lat i`, `chainLen (i₁…iₙ) = loadStage i₁ + Σ w + lat iₙ`.
    Per node (in line order; edges point forward): `ext` = best `loadStage i₁ + Σ w` over chains with
    ≥ 2 members ending here (if any), `b` = best value a chain *continuing* from here starts with. -/
def longestChain (infos : List LatInfo) (es : List WEdge) : Rat :=
  let table : List (Nat × Option Rat × Rat) := infos.foldl (fun (acc : List (Nat × Option Rat × Rat)) (i : LatInfo) =>
    let ext := maxR (es.filterMap fun e =>
      if e.dst == i.line then (acc.find? (·.1 == e.src)).map (fun t => t.2.2 + e.w) else none)
    let b : Rat := match ext with
      | some x => if x < i.loadStage then i.loadStage else x
      | none => i.loadStage
    acc ++ [(i.line, ext, b)]) []
  maxOr0 (infos.map fun (i : LatInfo) => endValue table i)

/-! ### winding-number-1 cycles (C05, C14) over explicit intra-iteration and cross-iteration edges -/

structure Cycle where
  lines : List Nat
  latency : Rat
  deriving Repr, Inhabited

/-- ascending chains from `cur` over intra edges; each chain that can close with a cross edge
    `last → first(next iteration)` is a cycle -/
def cyclesFrom (intra cross : List WEdge) (first : Nat) : Nat → Nat → List Nat → Rat → List Cycle
  | 0, _, _, _ => []
  | fuel + 1, cur, members, acc =>
    let closing := cross.filterMap fun e =>
      if e.src == cur && e.dst == first then some ({ lines := members.reverse, latency := acc + e.w } : Cycle) else none
    closing ++ (intra.flatMap fun e =>
      if e.src == cur && e.dst > cur then cyclesFrom intra cross first fuel e.dst (e.dst :: members) (acc + e.w) else [])

def cycles (lines : List Nat) (intra cross : List WEdge) : List Cycle :=
  lines.flatMap fun l => cyclesFrom intra cross l (lines.length + 1) l [l] 0

end OsacaVerif.Spec
