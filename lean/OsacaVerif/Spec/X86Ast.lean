import OsacaVerif.Model.Text
/-
  C09 — the vocabulary of the property: what a parsed x86 AT&T line *is*.
  Pure data, shared by the model of the parser (`Model/ParseX86.lean`) and by the independent
  renderer (`Spec/X86Render.lean`).  Mirrors the fields of OSACA's `InstructionForm`,
  `RegisterOperand`, `ImmediateOperand`, `IdentifierOperand`, `MemoryOperand` the x86 parser fills.
-/
namespace OsacaVerif.X86
open OsacaVerif.Text

/-- displacement (`offset`) of a memory operand -/
inductive Off where
  | imm (v : Int)          -- `ImmediateOperand(value=int)`
  | str (t : Txt)          -- `ImmediateOperand(value=<text>)` (bare number `int(·,0)` rejects)
  | ident (name : Txt)     -- `IdentifierOperand(name)`
  | junk                   -- raw parse results left in place (`*`-absolute forms)
  deriving DecidableEq, Repr

inductive Operand where
  | reg (name : Txt)
  | imm (v : Int)
  | ident (name : Txt)
  | mem (off : Option Off) (base index : Option Txt) (scale : Nat) (seg : Bool)
  deriving DecidableEq, Repr

/-- the fields of `InstructionForm` that `parse_line` fills -/
structure Form where
  mnemonic : Option Txt := none
  operands : List Operand := []
  comment : Option Txt := none
  label : Option Txt := none
  directive : Option (Txt × List Txt) := none
  deriving DecidableEq, Repr

/-- exceptions the parser can leave with -/
inductive Err where
  | value      -- ValueError (no grammar alternative matched, or `int(·, 0)` rejected the text)
  | attr       -- AttributeError (memory operand without any named part: `()`)
  deriving DecidableEq, Repr

inductive Res where
  | ok (f : Form)
  | err (e : Err)
  deriving DecidableEq, Repr

/-- the four line classes of the property -/
inductive Class where
  | comment | label | directive | instruction
  deriving DecidableEq, Repr

/-- which classes a filled form belongs to, read off the fields exactly as a consumer of
    `InstructionForm` would: an instruction has a mnemonic, a label line a label, a directive
    line a directive, and a pure comment line has none of these but a comment. -/
def Form.classes (f : Form) : List Class :=
  (if f.mnemonic.isSome then [Class.instruction] else []) ++
  (if f.label.isSome then [Class.label] else []) ++
  (if f.directive.isSome then [Class.directive] else []) ++
  (if f.mnemonic.isNone && f.label.isNone && f.directive.isNone && f.comment.isSome
    then [Class.comment] else [])

/-- one element of `parse_file`'s result -/
structure PLine where
  lineNo : Nat
  text : Txt
  res : Res
  deriving DecidableEq, Repr

end OsacaVerif.X86
