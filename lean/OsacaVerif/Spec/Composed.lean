import OsacaVerif.Model.Ports
import OsacaVerif.Spec.Feasible
/-
  C08 vocabulary: what it means for an instruction's numbers to be "the register form plus the
  model's load and/or store micro-ops".  Independent of the model of `assign_tp_lt` and of `Gen`.
-/
namespace OsacaVerif.Spec
open OsacaVerif OsacaVerif.Ports

/-- the ingredients the property names -/
structure Parts where
  n : Nat                  -- number of ports
  reg : List Uop           -- micro-ops of the register form
  ld : List Uop            -- load micro-ops of the addressing mode / register type ([] if no load)
  st : List Uop            -- store micro-ops ([] if no store)
  mLd : Rat := 1           -- load throughput multiplier of the register type
  mSt : Rat := 1
  tpReg : Rat
  latReg : Rat
  loadLat : Rat            -- load latency of the register type
  hasLd : Bool
  deriving Repr, Inhabited

def withMult (m : Rat) (u : Uop) : Uop := { u with mult := m * u.mult }

/-- load and store micro-ops, carrying their multipliers -/
def Parts.dataUops (p : Parts) : List Uop := p.ld.map (withMult p.mLd) ++ p.st.map (withMult p.mSt)

/-- union of the micro-ops of both forms -/
def Parts.uops (p : Parts) : List Uop := p.reg ++ p.dataUops

def maxOf : List Rat → Rat
  | [] => 0
  | x :: xs => xs.foldl (fun a b => if a < b then b else a) x

/-- what is observed on the analysed instruction -/
structure Observed where
  tp : Rat
  lat : Rat
  latWoLoad : Rat
  pressure : List Rat
  unknownFlag : Bool       -- `tp_unknown` or `lt_unknown` set
  deriving Repr, Inhabited

/-- **composed**: pressure is the sum of both forms' uniform splits, latency the register form's plus
    the load latency, throughput the larger of the register form's and the busiest port of the
    load/store micro-ops, and the instruction is not flagged unknown -/
structure Composed (p : Parts) (o : Observed) : Prop where
  pressure : o.pressure = uniform p.n p.uops
  tp : o.tp = (if maxOf (uniform p.n p.dataUops) < p.tpReg then p.tpReg else maxOf (uniform p.n p.dataUops))
  lat : o.lat = p.latReg + (if p.hasLd then p.loadLat else 0)
  latWoLoad : o.latWoLoad = p.latReg
  known : o.unknownFlag = false

def absR (x : Rat) : Rat := if x < 0 then -x else x

def closeR (ε a b : Rat) : Bool := absR (a - b) ≤ ε

def closeVec (ε : Rat) : List Rat → List Rat → Bool
  | [], [] => true
  | a :: as, b :: bs => closeR ε a b && closeVec ε as bs
  | _, _ => false

/-- executable version with a tolerance (the implementation computes in floating point): the name
    of the first clause that fails -/
def checkComposed (ε : Rat) (p : Parts) (o : Observed) : Option String :=
  let want := uniform p.n p.uops
  let d := maxOf (uniform p.n p.dataUops)
  if !closeVec ε o.pressure want then some "pressure"
  else if !closeR ε o.tp (if d < p.tpReg then p.tpReg else d) then some "throughput"
  else if !closeR ε o.lat (p.latReg + (if p.hasLd then p.loadLat else 0)) then some "latency"
  else if !closeR ε o.latWoLoad p.latReg then some "latency_wo_load"
  else if o.unknownFlag then some "flagged-unknown"
  else none

/-- an unknown instruction: both flags, zero pressure, zero latency and throughput -/
structure UnknownSpec (n : Nat) (o : Observed) (flags : List (List Nat)) (tpU ltU : List Nat) : Prop where
  flags : tpU ∈ flags ∧ ltU ∈ flags
  pressure : o.pressure = List.replicate n 0
  zero : o.tp = 0 ∧ o.lat = 0 ∧ o.latWoLoad = 0

end OsacaVerif.Spec
