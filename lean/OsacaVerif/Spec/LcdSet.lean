/-
  Specification vocabulary of C16 / C19 (independent of the model of the algorithm and of `Gen`):

  * `coversB`    – the slices handed to the workers, concatenated, are the kernel: nothing dropped,
                   nothing searched twice, order kept.
  * `cycleOf`    – what a dependency path *means* for the report: the multiset of its
                   (source line mod offset, edge latency) pairs in canonical (insertion-sorted)
                   order together with the exact sum of the latencies.
  * `agreesB`    – a reported result (list of (dependencies, latency)) is exactly the SET of the
                   cycles of the given paths: sound, complete, duplicate free.
  * `subResultB` – every reported item belongs to a reference result (C19: partial ⊆ full).
-/
namespace OsacaVerif.Spec.Lcd

def coversB (kernel : List Nat) (sections : List (List Nat)) : Bool := sections.flatten == kernel

abbrev Deps := List (Nat × Rat)

def ltPair (a b : Nat × Rat) : Bool := decide (a.1 < b.1 ∨ (a.1 = b.1 ∧ a.2 < b.2))

def insertSorted (x : Nat × Rat) : Deps → Deps
  | [] => [x]
  | y :: ys => if ltPair y x then y :: insertSorted x ys else x :: y :: ys

def canon (d : Deps) : Deps := d.foldr insertSorted []

def edges : List Nat → List (Nat × Nat)
  | a :: b :: r => (a, b) :: edges (b :: r)
  | _ => []

/-- the cycle a path stands for: canonical dependencies and total latency -/
def cycleOf (lat : Nat → Nat → Rat) (offset : Nat) (p : List Nat) : Deps × Rat :=
  let es := (edges p).map fun sd => (sd.1 % offset, lat sd.1 sd.2)
  (canon es, (es.map (·.2)).foldr (· + ·) 0)

/-- `result` is exactly the set of cycles of `paths` -/
def agreesB (lat : Nat → Nat → Rat) (offset : Nat) (paths : List (List Nat)) (result : List (Deps × Rat)) : Bool :=
  let want := paths.map (cycleOf lat offset)
  result.all (fun r => want.contains r) && want.all (fun w => result.contains w) &&
    result.all (fun r => (result.filter (· == r)).length == 1)

def subResultB (part full : List (Deps × Rat)) : Bool := part.all fun r => full.contains r

end OsacaVerif.Spec.Lcd
