/-
  Specification vocabulary of C16 / C19 (independent of the model of the algorithm and of `Gen`):

  * `coversB`    – the slices handed to the workers, concatenated, are the kernel: nothing dropped,
                   nothing searched twice, order kept.
  * `cycleOf`    – what a dependency path *means* for the report: the multiset of its
                   (source line mod offset, edge latency) pairs in canonical (insertion-sorted)
                   order together with the exact sum of the latencies.
  * `agreesB`    – a reported result (list of (dependencies, latency)) is exactly the SET of the
                   cycles of the given paths: sound, complete, duplicate free.
  * `subResultB` – every reported item belongs to a reference result (C19: partial ⊆ full).
-/
namespace OsacaVerif.Spec.Lcd

def coversB (kernel : List Nat) (sections : List (List Nat)) : Bool := sections.flatten == kernel

abbrev Deps := List (Nat × Rat)

def ltPair (a b : Nat × Rat) : Bool := decide (a.1 < b.1 ∨ (a.1 = b.1 ∧ a.2 < b.2))

def insertSorted (x : Nat × Rat) : Deps → Deps
  | [] => [x]
  | y :: ys => if ltPair y x then y :: insertSorted x ys else x :: y :: ys

def canon (d : Deps) : Deps := d.foldr insertSorted []

def edges : List Nat → List (Nat × Nat)
  | a :: b :: r => (a, b) :: edges (b :: r)
  | _ => []

/-- the cycle a path stands for: canonical dependencies and total latency -/
def cycleOf (lat : Nat → Nat → Rat) (offset : Nat) (p : List Nat) : Deps × Rat :=
  let es := (edges p).map fun sd => (sd.1 % offset, lat sd.1 sd.2)
  (canon es, (es.map (·.2)).foldr (· + ·) 0)

/-- `result` is exactly the set of cycles of `paths` -/
def agreesB (lat : Nat → Nat → Rat) (offset : Nat) (paths : List (List Nat)) (result : List (Deps × Rat)) : Bool :=
  let want := paths.map (cycleOf lat offset)
  result.all (fun r => want.contains r) && want.all (fun w => result.contains w) &&
    result.all (fun r => (result.filter (· == r)).length == 1)

/-- nodes and latencies of the dependency path that starts at the `j`-th dependency: the lines from
    there on in this iteration, then the earlier lines in the next iteration (`+ offset`), back to
    the start line of the next iteration -/
def rotation (deps : Deps) (offset j : Nat) : List Nat × List Rat :=
  let a := deps.drop j
  let b := deps.take j
  (a.map (·.1) ++ b.map (·.1 + offset) ++ (a.head?.map (·.1 + offset)).toList, (a ++ b).map (·.2))

/-- a reported item is a genuine loop-carried dependency of the doubled graph with the correct
    latency: for some start line its dependencies are, edge by edge with the reported latencies,
    a path from that line to the same line of the next iteration, and the total is their sum -/
def isCycleB (edge : Nat → Nat → Option Rat) (offset : Nat) (deps : Deps) (latency : Rat) : Bool :=
  !deps.isEmpty && latency == (deps.map (·.2)).foldr (· + ·) 0 &&
  (List.range deps.length).any fun j =>
    let r := rotation deps offset j
    (edges r.1).length == r.2.length &&
      ((edges r.1).zip r.2).all fun el => edge el.1.1 el.1.2 == some el.2

def subResultB (part full : List (Deps × Rat)) : Bool := part.all fun r => full.contains r

end OsacaVerif.Spec.Lcd
