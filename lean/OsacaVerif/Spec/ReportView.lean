import OsacaVerif.Model.Fmt
/-
  C13 specification side: what a reader takes from the text report, and when a shown number
  agrees with a value of the machine-readable output.

  `parseTable`, `parseLcdList`, `detectWarnings` read a report *text*; they know the grammar of the
  report (bars, blanks, the port line) but nothing of the renderer and import no generated
  constants.  The harness applies them to the text printed by the real `osaca.inspect` and compares
  the result with the real `full_analysis_dict` through `shownOk` (search / oracle).
-/
namespace OsacaVerif.Spec.Report
open OsacaVerif.Text OsacaVerif.Fmt

/-- A shown literal `±mant/10^decs` is an acceptable rendering of the exact value `x`:
    it is a nearest `decs`-decimal number (`|x·10^decs − ±mant| ≤ 1/2`, either neighbour at a tie)
    and carries the sign of `x` unless it shows zero. Stated on integers: `x = num/den`. -/
def shownOk (v : Shown) (x : Rat) : Bool :=
  let n := x.num.natAbs * 10 ^ v.decs
  let m := v.mant * x.den
  decide (2 * (n - m) ≤ x.den ∧ 2 * (m - n) ≤ x.den) &&
    (v.mant == 0 || v.neg == decide (x.num < 0))

/-- value of a shown literal -/
def Shown.value (v : Shown) : Rat :=
  let q : Rat := (v.mant : Rat) / ((10 ^ v.decs : Nat) : Rat)
  if v.neg then -q else q

structure Col where
  name : Txt
  plen : Nat
  sep : Nat          -- separator after the cell in kernel rows: `|` or blank
deriving DecidableEq, Repr, Inhabited

structure RowView where
  line : Nat
  cells : List (Option Shown)   -- `none` = blank cell
  cp : Txt                       -- text in the CP column ([] = blank)
  lcd : Txt
  flags : Txt                    -- flag symbols ([] = none)
  text : Txt
deriving DecidableEq, Repr, Inhabited

inductive TailView where
  | missing (n : Nat)                              -- the missing-data warning with its number
  | summary (sums : List Shown) (cp lcd : Txt)     -- non-blank sums left to right, CP and LCD totals
deriving DecidableEq, Repr, Inhabited

structure TableView where
  cols : List Col
  rows : List RowView
  tail : TailView
deriving DecidableEq, Repr, Inhabited

def isSepC (c : Nat) : Bool := c == 124 || c == 45

/-- columns of the port line after the leading bar: `<centred name><| or ->` … until a second bar -/
def parseCols : Nat → Txt → Option (List Col × Txt)
  | 0, _ => none
  | fuel + 1, t =>
    if t.head? = some 124 then some ([], t.tail) else
    let sp := spanP (fun c => !isSepC c) t
    match sp.2 with
    | s :: r' =>
      if sp.1.length < 2 then none else
      match parseCols fuel r' with
      | some (cs, r'') =>
        some (⟨sp.1.filter (· != 32), sp.1.length - 2, if s = 45 then 32 else 124⟩ :: cs, r'')
      | none => none
    | [] => none

/-- the port line: blanks, a bar, the columns, a bar, (CP and LCD titles, ignored) -/
def parsePortLine (t : Txt) : Option (List Col) :=
  match skipSpaces t with
  | 124 :: r => (parseCols (r.length + 1) r).map (·.1)
  | _ => none

/-- one pressure cell after its leading blank: blanks up to the separator, or a number, a blank
    and the separator -/
def parseCell (c : Col) (t : Txt) : Option (Option Shown × Txt) :=
  if t.head? = some 32 then
    match expectSpaces (c.plen + 1) t with
    | some r => (expect c.sep r).map (fun r' => (none, r'))
    | none => none
  else
    match parseNum t with
    | some (s, r) =>
      match expect 32 r with
      | some r' => (expect c.sep r').map (fun r'' => (some s, r''))
      | none => none
    | none => none

def parseCells : List Col → Txt → Option (List (Option Shown) × Txt)
  | [], t => some ([], t)
  | c :: cs, t =>
    match expect 32 t with
    | some r =>
      match parseCell c r with
      | some (v, r') =>
        match parseCells cs r' with
        | some (vs, r'') => some (v :: vs, r'')
        | none => none
      | none => none
    | none => none

def isTokC (c : Nat) : Bool := c != 32 && c != 124

/-- `blanks token blanks |` -/
def parseBarCell (t : Txt) : Option (Txt × Txt) :=
  let sp := spanP isTokC (skipSpaces t)
  (expect 124 (skipSpaces sp.2)).map (fun r' => (sp.1, r'))

/-- flag symbols and line text: ` <symbols or one blank> <text>` -/
def parseFlagsText (t : Txt) : Option (Txt × Txt) :=
  match expect 32 t with
  | some r7 =>
    let sp := spanP (· != 32) r7
    -- blank flag field: one blank
    let r9 := if sp.1.isEmpty then sp.2.drop 1 else sp.2
    (expect 32 r9).map (fun txt => (sp.1, txt))
  | none => none

/-- one table line: number, bar, cells, bar, CP, LCD, flags, text -/
def parseRow (cols : List Col) (t : Txt) : Option RowView :=
  match parseNatPre (skipSpaces t) with
  | some (n, r0) =>
    match expect 32 r0 with
    | some r1 =>
      match expect 124 r1 with
      | some r2 =>
        match parseCells cols r2 with
        | some (cells, r3) =>
          match expect 124 r3 with
          | some r4 =>
            match parseBarCell r4 with
            | some (cp, r5) =>
              match parseBarCell r5 with
              | some (lcd, r6) =>
                (parseFlagsText r6).map (fun ft => ⟨n, cells, cp, lcd, ft.1, ft.2⟩)
              | none => none
            | none => none
          | none => none
        | none => none
      | none => none
    | none => none
  | none => none

/-- blank-separated tokens -/
def tokens (t : Txt) : List Txt := (splitOn 32 t).filter (fun x => !x.isEmpty)

def parseNumFull (t : Txt) : Option Shown :=
  match parseNum t with
  | some (s, []) => some s
  | _ => none

def allSome {α} : List (Option α) → Option (List α)
  | [] => some []
  | none :: _ => none
  | some a :: r => (allSome r).map (a :: ·)

/-- the totals line: the non-blank sums, then the CP and LCD totals -/
def parseSummary (t : Txt) : Option TailView :=
  let ts := tokens t
  if ts.length < 2 then none else
  let k := ts.length - 2
  match allSome ((ts.take k).map parseNumFull), ts.drop k with
  | some sums, [cp, lcd] => some (.summary sums cp lcd)
  | _, _ => none

/-- first run of digits of a line -/
def firstNat (t : Txt) : Option Nat :=
  match t.dropWhile (fun c => !isDigitC c) with
  | [] => none
  | r => some (natVal (spanDigits r).1)

/-- "Combined Analysis Report" -/
def titleCombined : Txt :=
  [67, 111, 109, 98, 105, 110, 101, 100, 32, 65, 110, 97, 108, 121, 115, 105, 115, 32, 82, 101, 112, 111, 114, 116]
/-- "Loop-Carried Dependencies Analysis Report" -/
def titleLcd : Txt :=
  [76, 111, 111, 112, 45, 67, 97, 114, 114, 105, 101, 100, 32, 68, 101, 112, 101, 110, 100, 101, 110, 99, 105, 101,
   115, 32, 65, 110, 97, 108, 121, 115, 105, 115, 32, 82, 101, 112, 111, 114, 116]

def mapM' {α β} (f : α → Option β) : List α → Option (List β)
  | [] => some []
  | a :: r => match f a, mapM' f r with
    | some b, some bs => some (b :: bs)
    | _, _ => none

/-- the lines following the title of the combined view: dashes, headline, port line, dashes,
    table lines, an empty line, then the totals line or the missing-data warning -/
def parseTableLines (ls : List Txt) : Option TableView :=
  match ls with
  | _dash :: _headline :: portLine :: _sep :: rest =>
    match parsePortLine portLine with
    | some cols =>
      let sp := spanP (fun (l : Txt) => !l.isEmpty) rest
      match mapM' (parseRow cols) sp.1, sp.2 with
      | some rows, [] :: l :: _ =>
        if l.head? = some 45 then (firstNat l).map (fun n => ⟨cols, rows, .missing n⟩)
        else (parseSummary l).map (fun tl => ⟨cols, rows, tl⟩)
      | _, _ => none
    | none => none
  | _ => none

/-- everything after the first line equal to `title` -/
def afterTitle (title : Txt) : List Txt → Option (List Txt)
  | [] => none
  | l :: r => if l = title then some r else afterTitle title r

/-- the combined table of a report text (or of the text of `combined_view` alone) -/
def parseTable (t : Txt) : Option TableView :=
  match afterTitle titleCombined (splitOn 10 t) with
  | some ls => parseTableLines ls
  | none => none

structure LcdView where
  line : Nat
  lat : Shown
  members : List Nat
deriving DecidableEq, Repr, Inhabited

/-- text after the last bar of a line -/
def afterLastBar (t : Txt) : Txt := (t.reverse.takeWhile (· != 124)).reverse

/-- `[n1, n2, …]` -/
def parseNatList (t : Txt) : Option (List Nat) :=
  match skipSpaces t with
  | 91 :: r =>
    if r.getLast? = some 93 then
      let items := (splitOn 44 r.dropLast).map skipSpaces
      if items = [[]] then some [] else
      mapM' (fun i => match parseNatPre i with | some (n, []) => some n | _ => none) items
    else none
  | _ => none

/-- one line of the LCD list: `number | latency | instruction | [lines]` -/
def parseLcdLine (t : Txt) : Option LcdView :=
  match parseNatPre (skipSpaces t) with
  | some (n, r0) =>
    match expectTxt [32, 124] r0 with
    | some r1 =>
      match parseNum (skipSpaces r1) with
      | some (lat, r2) =>
        match expectTxt [32, 124] r2 with
        | some r3 => (parseNatList (afterLastBar r3)).map (fun ms => ⟨n, lat, ms⟩)
        | none => none
      | none => none
    | none => none
  | none => none

/-- the LCD list of a report text: lines after the title and its dashes, up to the first empty line -/
def parseLcdList (t : Txt) : Option (List LcdView) :=
  match afterTitle titleLcd (splitOn 10 t) with
  | some (_dash :: rest) => mapM' parseLcdLine (rest.takeWhile (fun l => !l.isEmpty))
  | _ => none

/-- "WARNING: No micro-architecture was specified" -/
def warnArch : Txt :=
  [87, 65, 82, 78, 73, 78, 71, 58, 32, 78, 111, 32, 109, 105, 99, 114, 111, 45, 97, 114, 99, 104, 105, 116, 101, 99,
   116, 117, 114, 101, 32, 119, 97, 115, 32, 115, 112, 101, 99, 105, 102, 105, 101, 100]
/-- "WARNING: You are analyzing a large amount of instruction forms" -/
def warnLength : Txt :=
  [87, 65, 82, 78, 73, 78, 71, 58, 32, 89, 111, 117, 32, 97, 114, 101, 32, 97, 110, 97, 108, 121, 122, 105, 110, 103,
   32, 97, 32, 108, 97, 114, 103, 101, 32, 97, 109, 111, 117, 110, 116, 32, 111, 102, 32, 105, 110, 115, 116, 114,
   117, 99, 116, 105, 111, 110, 32, 102, 111, 114, 109, 115]
/-- "WARNING: LCD analysis timed out" -/
def warnLcd : Txt :=
  [87, 65, 82, 78, 73, 78, 71, 58, 32, 76, 67, 68, 32, 97, 110, 97, 108, 121, 115, 105, 115, 32, 116, 105, 109, 101,
   100, 32, 111, 117, 116]

/-- which of the three user warnings a report text carries -/
def detectWarnings (t : Txt) : Bool × Bool × Bool :=
  (isInfix warnArch t, isInfix warnLength t, isInfix warnLcd t)

end OsacaVerif.Spec.Report
