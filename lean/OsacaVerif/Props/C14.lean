import OsacaVerif.Model.LCD
import OsacaVerif.Spec.Deps
import OsacaVerif.Lemmas.ScanLocal
/-
  C14 — Loop-carried dependencies are invariant under rotation of the loop body.

  TODO-FULL (central statement, not yet proved; decided by the metamorphic correspondence on the
  implementation and on the model):
    theorem lcd_rotation_invariant (isa fd par floor) (k : List Ins) (n : Nat) (hwf : WFKernel k) :
      cyclesAsSets (lcd isa fd par floor (rotate n k)) ≈ cyclesAsSets (lcd isa fd par floor k)
        (same member instructions, same latencies)
  Proved below: the structural facts about rotation the statement rests on.
-/
namespace OsacaVerif.Props.C14
open OsacaVerif OsacaVerif.DG OsacaVerif.LCD

/-- rotate the body by `n` lines: `k.drop n ++ k.take n`, renumbered 1, 2, 3, … in the new order -/
def rotateRaw (n : Nat) (k : List Ins) : List Ins := k.drop n ++ k.take n

def renumber (k : List Ins) : List Ins :=
  (k.zip (List.range k.length)).map fun (i, j) => { i with line := j + 1 }

def rotate (n : Nat) (k : List Ins) : List Ins := renumber (rotateRaw n k)

theorem rotateRaw_length (n : Nat) (k : List Ins) : (rotateRaw n k).length = k.length := by
  simp [rotateRaw]; omega

theorem rotate_length (n : Nat) (k : List Ins) : (rotate n k).length = k.length := by
  simp [rotate, renumber, rotateRaw_length]

/-- a rotation is a permutation of the instructions: the same infinite stream, other starting point -/
theorem rotateRaw_perm (n : Nat) (k : List Ins) : (rotateRaw n k).Perm k := by
  have h : k = k.take n ++ k.drop n := (List.take_append_drop n k).symm
  conv => rhs; rw [h]
  exact List.perm_append_comm

theorem rotateRaw_zero (k : List Ins) : rotateRaw 0 k = k := by simp [rotateRaw]
theorem rotateRaw_full (k : List Ins) : rotateRaw k.length k = k := by simp [rotateRaw]

/-- rotations compose (for offsets within the body) -/
theorem rotateRaw_add (a b : Nat) (k : List Ins) (h : a + b ≤ k.length) :
    rotateRaw b (rotateRaw a k) = rotateRaw (a + b) k := by
  simp only [rotateRaw]
  have h1 : b ≤ (k.drop a).length := by simp; omega
  rw [List.drop_append_of_le_length h1, List.take_append_of_le_length h1, List.drop_drop,
    List.append_assoc]
  congr 1
  rw [List.take_add]

/-- renumbered lines are 1, 2, …, |k| — strictly increasing, so the kernel is well-formed input for
    the LCD analysis whatever the original numbering was -/
theorem renumber_lines (k : List Ins) : (renumber k).map (·.line) = (List.range k.length).map (· + 1) := by
  simp only [renumber, List.map_map]
  apply List.ext_getElem
  · simp
  · intro j h1 h2
    simp

/-! ### stream locality of the producer's scan -/

/-- **scanTarget_append** (stream locality, registers / flags; ∀ streams): what a producer's scan
    for target `t` emits over `a ++ b` is what it emits over `a`, followed — unless an instruction of
    `a` overwrote `t` — by what it emits over `b`.  So the emissions up to a point of the stream
    depend only on the stream segment up to that point. -/
theorem scanTarget_append (isa : Isa) (t : Target) (tag : Tag) (a b : List Ins) :
    scanTarget isa t tag (a ++ b) =
      scanTarget isa t tag a ++ (if a.any (isWritten isa t) then [] else scanTarget isa t tag b) :=
  DG.scanTarget_append isa t tag a b

/-- **scanMem_append** (stream locality, memory destinations): the same for the store→load scan;
    the register-change state is threaded through `a` (`memThread`) and the scan ends at a
    write-back overwrite of the base or at a store to the same operand (`memStops`). -/
theorem scanMem_append (isa : Isa) (m : Mem) (s : RegState) (a b : List Ins) :
    scanMem isa m s (a ++ b) =
      scanMem isa m s a ++ (if a.any (memStops isa m) then [] else scanMem isa m (memThread s a) b) :=
  DG.scanMem_append isa m s a b

/-- **window_suffices** (one statement per scan kind, then for the producer as a whole):
    if any instruction of the prefix `a` (e.g. one full iteration) writes `t`, nothing is emitted
    beyond `a`; the memory scan likewise; and the producer's own next occurrence `p'` (same
    destinations) ends every scan of `p`, so no dependency spans more than one full iteration and two
    kernel copies contain every edge.  Register destinations must be self-dependent (`ReflDests`,
    C12 reflexivity; unconditional on x86: `reflDests_x86`). -/
theorem window_suffices (isa : Isa) (fd : Bool) :
    (∀ (t : Target) (tag : Tag) (a b : List Ins), a.any (isWritten isa t) = true →
      scanTarget isa t tag (a ++ b) = scanTarget isa t tag a) ∧
    (∀ (m : Mem) (s : RegState) (a b : List Ins), a.any (memStops isa m) = true →
      scanMem isa m s (a ++ b) = scanMem isa m s a) ∧
    (∀ (p p' : Ins) (rest more : List Ins), p'.dst = p.dst → p'.srcDst = p.srcDst → ReflDests isa p →
      findDepending isa fd p (rest ++ p' :: more) = findDepending isa fd p (rest ++ [p'])) :=
  ⟨fun t tag a b h => scanTarget_window isa t tag a b h,
   fun m s a b h => scanMem_window isa m s a b h,
   fun p p' rest more hd hsd hr => findDepending_window isa fd p p' rest more hd hsd hr⟩

/-- on x86 the window property needs no hypothesis about the registers -/
theorem window_suffices_x86 (fd : Bool) (p p' : Ins) (rest more : List Ins)
    (hd : p'.dst = p.dst) (hsd : p'.srcDst = p.srcDst) :
    findDepending .x86 fd p (rest ++ p' :: more) = findDepending .x86 fd p (rest ++ [p']) :=
  findDepending_window .x86 fd p p' rest more hd hsd (reflDests_x86 p)

/-- **stream_local** (dependency of an occurrence on an earlier one, as a function of the segment
    between them): of all emissions of producer `p` over the stream `seg ++ c :: more`, those naming
    consumer `c` are `tagsAt isa fd p seg c` — a function of `p`, the segment strictly between, and
    `c`; nothing after `c` matters, `findDepending` never sees anything before `p`, and line numbers
    play no role (`tagsAt_erase`). -/
theorem stream_local (isa : Isa) (fd : Bool) (p : Ins) (seg more : List Ins) (c : Ins)
    (h1 : ∀ x ∈ seg, x.line ≠ c.line) (h2 : ∀ x ∈ more, x.line ≠ c.line) :
    (findDepending isa fd p (seg ++ c :: more)).filter (fun x => x.1 == c.line) =
      (tagsAt isa fd p seg c).map (fun tg => (c.line, tg)) ∧
    tagsAt isa fd (eraseLine p) (seg.map eraseLine) (eraseLine c) = tagsAt isa fd p seg c :=
  ⟨findDepending_at isa fd p seg more c h1 h2, tagsAt_erase isa fd p seg c⟩

-- non-vacuity: producer `add rax` (line 1), one iteration [reader, own copy], then more readers: the
-- own copy (a write of `rax`) ends the scan — the reader on line 4 is not reached; the producer's
-- destinations are self-dependent; the emission naming line 2 is the `tagsAt` value
example :
    let r (n : String) : Op := .reg { name := Text.ofString n }
    let mk (line : Nat) (src sd : List Op) : Ins :=
      { line := line, src := src, dst := [], srcDst := sd, lat := 1, latWoLoad := none, hasLd := false,
        isLd := false, changes := [], changesPost := [] }
    let p := mk 1 [] [r "rax"]
    findDepending .x86 false p ([mk 2 [r "eax"] [r "rbx"]] ++ mk 3 [] [r "rax"] :: [mk 4 [r "rax"] [r "rcx"]]) =
      [(2, .plain), (3, .plain)] ∧
    ([mk 2 [r "eax"] [r "rbx"], mk 3 [] [r "rax"]].any (isWritten .x86 (.reg { name := Text.ofString "rax" }))) = true ∧
    tagsAt .x86 false p [] (mk 2 [r "eax"] [r "rbx"]) = [.plain] ∧
    tagsAt .x86 false p [mk 2 [r "eax"] [r "rbx"], mk 3 [] [r "rax"]] (mk 4 [r "rax"] [r "rcx"]) = [] := by
  decide +kernel

-- non-vacuity: rotating the two-instruction accumulation loop keeps both cycles and their latencies
example :
    let r (n : String) : Op := .reg { name := Text.ofString n }
    let mk (line : Nat) (src sd : List Op) (lat : Rat) : Ins :=
      { line := line, src := src, dst := [], srcDst := sd, lat := lat, latWoLoad := none, hasLd := false,
        isLd := false, changes := [], changesPost := [] }
    let k := [mk 1 [r "xmm1"] [r "xmm0"] 4, mk 2 [r "rax"] [r "rbx"] 1]
    ((lcd .x86 false {} 1000 (rotate 1 k)).map (·.latency)) = [1, 4] ∧
    ((lcd .x86 false {} 1000 k).map (·.latency)) = [4, 1] := by
  decide +kernel

end OsacaVerif.Props.C14
