import OsacaVerif.Model.LCD
import OsacaVerif.Spec.Deps
/-
  C14 — Loop-carried dependencies are invariant under rotation of the loop body.

  TODO-FULL (central statement, not yet proved; decided by the metamorphic correspondence on the
  implementation and on the model):
    theorem lcd_rotation_invariant (isa fd par floor) (k : List Ins) (n : Nat) (hwf : WFKernel k) :
      cyclesAsSets (lcd isa fd par floor (rotate n k)) ≈ cyclesAsSets (lcd isa fd par floor k)
        (same member instructions, same latencies)
  Proved below: the structural facts about rotation the statement rests on.
-/
namespace OsacaVerif.Props.C14
open OsacaVerif OsacaVerif.DG OsacaVerif.LCD

/-- rotate the body by `n` lines: `k.drop n ++ k.take n`, renumbered 1, 2, 3, … in the new order -/
def rotateRaw (n : Nat) (k : List Ins) : List Ins := k.drop n ++ k.take n

def renumber (k : List Ins) : List Ins :=
  (k.zip (List.range k.length)).map fun (i, j) => { i with line := j + 1 }

def rotate (n : Nat) (k : List Ins) : List Ins := renumber (rotateRaw n k)

theorem rotateRaw_length (n : Nat) (k : List Ins) : (rotateRaw n k).length = k.length := by
  simp [rotateRaw]; omega

theorem rotate_length (n : Nat) (k : List Ins) : (rotate n k).length = k.length := by
  simp [rotate, renumber, rotateRaw_length]

/-- a rotation is a permutation of the instructions: the same infinite stream, other starting point -/
theorem rotateRaw_perm (n : Nat) (k : List Ins) : (rotateRaw n k).Perm k := by
  have h : k = k.take n ++ k.drop n := (List.take_append_drop n k).symm
  conv => rhs; rw [h]
  exact List.perm_append_comm

theorem rotateRaw_zero (k : List Ins) : rotateRaw 0 k = k := by simp [rotateRaw]
theorem rotateRaw_full (k : List Ins) : rotateRaw k.length k = k := by simp [rotateRaw]

/-- rotations compose (for offsets within the body) -/
theorem rotateRaw_add (a b : Nat) (k : List Ins) (h : a + b ≤ k.length) :
    rotateRaw b (rotateRaw a k) = rotateRaw (a + b) k := by
  simp only [rotateRaw]
  have h1 : b ≤ (k.drop a).length := by simp; omega
  rw [List.drop_append_of_le_length h1, List.take_append_of_le_length h1, List.drop_drop,
    List.append_assoc]
  congr 1
  rw [List.take_add]

/-- renumbered lines are 1, 2, …, |k| — strictly increasing, so the kernel is well-formed input for
    the LCD analysis whatever the original numbering was -/
theorem renumber_lines (k : List Ins) : (renumber k).map (·.line) = (List.range k.length).map (· + 1) := by
  simp only [renumber, List.map_map]
  apply List.ext_getElem
  · simp
  · intro j h1 h2
    simp

-- non-vacuity: rotating the two-instruction accumulation loop keeps both cycles and their latencies
example :
    let r (n : String) : Op := .reg { name := Text.ofString n }
    let mk (line : Nat) (src sd : List Op) (lat : Rat) : Ins :=
      { line := line, src := src, dst := [], srcDst := sd, lat := lat, latWoLoad := none, hasLd := false,
        isLd := false, changes := [], changesPost := [] }
    let k := [mk 1 [r "xmm1"] [r "xmm0"] 4, mk 2 [r "rax"] [r "rbx"] 1]
    ((lcd .x86 false {} 1000 (rotate 1 k)).map (·.latency)) = [1, 4] ∧
    ((lcd .x86 false {} 1000 k).map (·.latency)) = [4, 1] := by
  decide +kernel

end OsacaVerif.Props.C14
