import OsacaVerif.Model.LCD
import OsacaVerif.Spec.Deps
import OsacaVerif.Lemmas.ScanLocal
import OsacaVerif.Lemmas.Rotation
import OsacaVerif.Props.C05
/-
  C14 — Loop-carried dependencies are invariant under rotation of the loop body.

  Central statement (proved below, for every kernel with strictly increasing line numbers and every
  rotation offset `r ≤ |k|`): `lcd_rotation_invariant` — the entries reported for the rotated body
  and for the body correspond one to another with the same member instructions (identified by their
  position in the original body) carrying the same edge latencies, hence the same total latency.
  It rests on: stream locality of the scans (`scanTarget_append`, `scanMem_append`, `stream_local`),
  locality of the graph (`C05.dg_local`), the characterisation of the reported entries as the
  winding-1 dependency cycles of the stream `k^ω` (`C05.lcd_sound`, `C05.lcd_complete`), and the fact
  that rotating the body shifts the stream relation (`streamDep_rotate`), which is periodic.
  `lcd_rotation_count`: the two reported lists have the same length (the correspondence is a bijection).
-/
namespace OsacaVerif.Props.C14
open OsacaVerif OsacaVerif.DG OsacaVerif.LCD

/-- rotate the body by `n` lines: `k.drop n ++ k.take n`, renumbered 1, 2, 3, … in the new order -/
def rotateRaw (n : Nat) (k : List Ins) : List Ins := k.drop n ++ k.take n

def renumber (k : List Ins) : List Ins :=
  (k.zip (List.range k.length)).map fun (i, j) => { i with line := j + 1 }

def rotate (n : Nat) (k : List Ins) : List Ins := renumber (rotateRaw n k)

theorem rotateRaw_length (n : Nat) (k : List Ins) : (rotateRaw n k).length = k.length := by
  simp [rotateRaw]; omega

theorem rotate_length (n : Nat) (k : List Ins) : (rotate n k).length = k.length := by
  simp [rotate, renumber, rotateRaw_length]

/-- a rotation is a permutation of the instructions: the same infinite stream, other starting point -/
theorem rotateRaw_perm (n : Nat) (k : List Ins) : (rotateRaw n k).Perm k := by
  have h : k = k.take n ++ k.drop n := (List.take_append_drop n k).symm
  conv => rhs; rw [h]
  exact List.perm_append_comm

theorem rotateRaw_zero (k : List Ins) : rotateRaw 0 k = k := by simp [rotateRaw]
theorem rotateRaw_full (k : List Ins) : rotateRaw k.length k = k := by simp [rotateRaw]

/-- rotations compose (for offsets within the body) -/
theorem rotateRaw_add (a b : Nat) (k : List Ins) (h : a + b ≤ k.length) :
    rotateRaw b (rotateRaw a k) = rotateRaw (a + b) k := by
  simp only [rotateRaw]
  have h1 : b ≤ (k.drop a).length := by simp; omega
  rw [List.drop_append_of_le_length h1, List.take_append_of_le_length h1, List.drop_drop,
    List.append_assoc]
  congr 1
  rw [List.take_add]

/-- renumbered lines are 1, 2, …, |k| — strictly increasing, so the kernel is well-formed input for
    the LCD analysis whatever the original numbering was -/
theorem renumber_lines (k : List Ins) : (renumber k).map (·.line) = (List.range k.length).map (· + 1) := by
  simp only [renumber, List.map_map]
  apply List.ext_getElem
  · simp
  · intro j h1 h2
    simp

/-! ### stream locality of the producer's scan -/

/-- **scanTarget_append** (stream locality, registers / flags; ∀ streams): what a producer's scan
    for target `t` emits over `a ++ b` is what it emits over `a`, followed — unless an instruction of
    `a` overwrote `t` — by what it emits over `b`.  So the emissions up to a point of the stream
    depend only on the stream segment up to that point. -/
theorem scanTarget_append (isa : Isa) (t : Target) (tag : Tag) (a b : List Ins) :
    scanTarget isa t tag (a ++ b) =
      scanTarget isa t tag a ++ (if a.any (isWritten isa t) then [] else scanTarget isa t tag b) :=
  DG.scanTarget_append isa t tag a b

/-- **scanMem_append** (stream locality, memory destinations): the same for the store→load scan;
    the register-change state is threaded through `a` (`memThread`) and the scan ends at a
    write-back overwrite of the base or at a store to the same operand (`memStops`). -/
theorem scanMem_append (isa : Isa) (m : Mem) (s : RegState) (a b : List Ins) :
    scanMem isa m s (a ++ b) =
      scanMem isa m s a ++ (if a.any (memStops isa m) then [] else scanMem isa m (memThread s a) b) :=
  DG.scanMem_append isa m s a b

/-- **window_suffices** (one statement per scan kind, then for the producer as a whole):
    if any instruction of the prefix `a` (e.g. one full iteration) writes `t`, nothing is emitted
    beyond `a`; the memory scan likewise; and the producer's own next occurrence `p'` (same
    destinations) ends every scan of `p`, so no dependency spans more than one full iteration and two
    kernel copies contain every edge.  Register destinations must be self-dependent (`ReflDests`,
    C12 reflexivity; unconditional on x86: `reflDests_x86`). -/
theorem window_suffices (isa : Isa) (fd : Bool) :
    (∀ (t : Target) (tag : Tag) (a b : List Ins), a.any (isWritten isa t) = true →
      scanTarget isa t tag (a ++ b) = scanTarget isa t tag a) ∧
    (∀ (m : Mem) (s : RegState) (a b : List Ins), a.any (memStops isa m) = true →
      scanMem isa m s (a ++ b) = scanMem isa m s a) ∧
    (∀ (p p' : Ins) (rest more : List Ins), p'.dst = p.dst → p'.srcDst = p.srcDst → ReflDests isa p →
      findDepending isa fd p (rest ++ p' :: more) = findDepending isa fd p (rest ++ [p'])) :=
  ⟨fun t tag a b h => scanTarget_window isa t tag a b h,
   fun m s a b h => scanMem_window isa m s a b h,
   fun p p' rest more hd hsd hr => findDepending_window isa fd p p' rest more hd hsd hr⟩

/-- on x86 the window property needs no hypothesis about the registers -/
theorem window_suffices_x86 (fd : Bool) (p p' : Ins) (rest more : List Ins)
    (hd : p'.dst = p.dst) (hsd : p'.srcDst = p.srcDst) :
    findDepending .x86 fd p (rest ++ p' :: more) = findDepending .x86 fd p (rest ++ [p']) :=
  findDepending_window .x86 fd p p' rest more hd hsd (reflDests_x86 p)

/-- **window_suffices_all**: the producer-level window property holds for every ISA and every
    producer without any hypothesis: in the model as written a register that is not self-dependent
    depends on nothing at all (`regDep_dead_or_refl`), so its scans emit nothing anyway. -/
theorem window_suffices_all (isa : Isa) (fd : Bool) (p p' : Ins) (rest more : List Ins)
    (hd : p'.dst = p.dst) (hsd : p'.srcDst = p.srcDst) :
    findDepending isa fd p (rest ++ p' :: more) = findDepending isa fd p (rest ++ [p']) :=
  findDepending_window_all isa fd p p' rest more hd hsd

/-- **stream_local** (dependency of an occurrence on an earlier one, as a function of the segment
    between them): of all emissions of producer `p` over the stream `seg ++ c :: more`, those naming
    consumer `c` are `tagsAt isa fd p seg c` — a function of `p`, the segment strictly between, and
    `c`; nothing after `c` matters, `findDepending` never sees anything before `p`, and line numbers
    play no role (`tagsAt_erase`). -/
theorem stream_local (isa : Isa) (fd : Bool) (p : Ins) (seg more : List Ins) (c : Ins)
    (h1 : ∀ x ∈ seg, x.line ≠ c.line) (h2 : ∀ x ∈ more, x.line ≠ c.line) :
    (findDepending isa fd p (seg ++ c :: more)).filter (fun x => x.1 == c.line) =
      (tagsAt isa fd p seg c).map (fun tg => (c.line, tg)) ∧
    tagsAt isa fd (eraseLine p) (seg.map eraseLine) (eraseLine c) = tagsAt isa fd p seg c :=
  ⟨findDepending_at isa fd p seg more c h1 h2, tagsAt_erase isa fd p seg c⟩

-- non-vacuity: producer `add rax` (line 1), one iteration [reader, own copy], then more readers: the
-- own copy (a write of `rax`) ends the scan — the reader on line 4 is not reached; the producer's
-- destinations are self-dependent; the emission naming line 2 is the `tagsAt` value
example :
    let r (n : String) : Op := .reg { name := Text.ofString n }
    let mk (line : Nat) (src sd : List Op) : Ins :=
      { line := line, src := src, dst := [], srcDst := sd, lat := 1, latWoLoad := none, hasLd := false,
        isLd := false, changes := [], changesPost := [] }
    let p := mk 1 [] [r "rax"]
    findDepending .x86 false p ([mk 2 [r "eax"] [r "rbx"]] ++ mk 3 [] [r "rax"] :: [mk 4 [r "rax"] [r "rcx"]]) =
      [(2, .plain), (3, .plain)] ∧
    ([mk 2 [r "eax"] [r "rbx"], mk 3 [] [r "rax"]].any (isWritten .x86 (.reg { name := Text.ofString "rax" }))) = true ∧
    tagsAt .x86 false p [] (mk 2 [r "eax"] [r "rbx"]) = [.plain] ∧
    tagsAt .x86 false p [mk 2 [r "eax"] [r "rbx"], mk 3 [] [r "rax"]] (mk 4 [r "rax"] [r "rcx"]) = [] := by
  decide +kernel

/-! ### rotation invariance of the reported loop-carried dependencies -/

/-- the rotated, renumbered body has strictly increasing lines 1, 2, …, |k| -/
theorem rotate_wf (r : Nat) (k : List Ins) : WFKernel (rotate r k) := by
  unfold WFKernel rotate
  rw [renumber_lines, List.pairwise_map]
  exact List.pairwise_lt_range.imp (fun h => by omega)

theorem renumber_erase (k : List Ins) : (renumber k).map eraseLine = k.map eraseLine := by
  unfold renumber
  apply List.ext_getElem
  · simp
  · intro j h1 h2
    simp [eraseLine]

/-- **rotation shifts the stream relation**: the dependency relation of the rotated (and renumbered)
    body between stream positions `x, y` is the relation of the original body between `x + r, y + r` -/
theorem streamDep_rotate' (isa : Isa) (fd : Bool) (par : Params) (k : List Ins) (r : Nat) (hr : r ≤ k.length)
    (x y : Nat) : streamDep isa fd par (rotate r k) x y = streamDep isa fd par k (x + r) (y + r) := by
  rw [rotate, streamDep_congr isa fd par (rotateRaw r k) _ (renumber_erase _)]
  exact streamDep_rotate isa fd par k r hr x y

/-- position in the body of the instruction with line number `l` -/
def posOf (k : List Ins) (l : Nat) : Nat := (k.map (·.line)).idxOf l

/-- an entry as its members: (position of the instruction in the body, edge latency leaving it) -/
def idxMembers (k : List Ins) (e : Entry) : List (Nat × Rat) :=
  (e.lines.zip e.lats).map (fun x => (posOf k x.1, x.2))

theorem posOf_lineAt (k : List Ins) (hwf : WFKernel k) (j : Nat) (hj : j < k.length) :
    posOf k (lineAt k j) = j := by
  have hnd : (k.map (·.line)).Nodup := by
    unfold WFKernel at hwf; exact hwf.imp (fun h => Nat.ne_of_lt h)
  have hj' : j < (k.map (·.line)).length := by simpa using hj
  have := hnd.idxOf_getElem j hj'
  rw [lineAt_lt k j hj]; unfold posOf; simpa using this

theorem idxMembers_of_cycle (k : List Ins) (hwf : WFKernel k) (e : Entry) (a : List (Nat × Rat))
    (hst : StartsBelow k.length a) (h : (e.lines.zip e.lats).Perm (C05.cycleMembers k a)) :
    (idxMembers k e).Perm (a.map (fun x => (x.1 % k.length, x.2))) := by
  have hn : 0 < k.length := by
    cases a with
    | nil => exact absurd hst (fun h => h)
    | cons x _ => exact Nat.lt_of_le_of_lt (Nat.zero_le _) hst
  unfold idxMembers
  refine (h.map _).trans (List.Perm.of_eq ?_)
  simp only [C05.cycleMembers, List.map_map]
  apply List.map_congr_left
  intro x _
  simp only [Function.comp_apply]
  rw [posOf_lineAt k hwf _ (Nat.mod_lt _ hn)]

/-- **lcd_transfer**: two well-formed bodies of equal length whose stream relations differ by a shift
    `s` report corresponding entries: same latencies, members shifted by `s` modulo the length. -/
theorem lcd_transfer (isa : Isa) (fd : Bool) (par : Params) (floor : Nat) (k1 k2 : List Ins) (s : Nat)
    (hwf1 : WFKernel k1) (hwf2 : WFKernel k2) (hlen : k2.length = k1.length) (hs : s ≤ k1.length)
    (hD : ∀ x y, streamDep isa fd par k2 x y = streamDep isa fd par k1 (x + s) (y + s))
    (e2 : Entry) (he2 : e2 ∈ lcd isa fd par floor k2) :
    ∃ e1 ∈ lcd isa fd par floor k1,
      (idxMembers k1 e1).Perm ((idxMembers k2 e2).map (fun x => ((x.1 + s) % k1.length, x.2))) ∧
      e1.latency = e2.latency := by
  obtain ⟨a2, hc2, hst2, hperm2, hlat2⟩ := C05.lcd_sound isa fd par floor k2 hwf2 e2 he2
  have h2 := idxMembers_of_cycle k2 hwf2 e2 a2 hst2 hperm2
  rw [hlen] at hc2 hst2 h2
  obtain ⟨a1, hc1, hst1, hmap⟩ := cycle_transport (streamDep isa fd par k1) (streamDep isa fd par k2)
    k1.length s hs hD (streamDep_periodic isa fd par k1) a2 hc2 hst2
  obtain ⟨e1, he1, hperm1, hlat1⟩ := C05.lcd_complete isa fd par floor k1 hwf1 a1 hc1 hst1
  have h1 := idxMembers_of_cycle k1 hwf1 e1 a1 hst1 hperm1
  refine ⟨e1, he1, ?_, ?_⟩
  · refine h1.trans ((List.Perm.of_eq ?_).trans (h2.map _).symm)
    rw [hmap, List.map_map]
    apply List.map_congr_left
    intro x _
    simp only [Function.comp_apply]
    rw [Nat.mod_add_mod]
  · rw [hlat1, hlat2]
    have := congrArg (List.map (fun x : Nat × Rat => x.2)) hmap
    simp only [List.map_map, Function.comp_def] at this
    rw [this]

/-- **lcd_rotation_invariant** (∀ kernels with strictly increasing lines, ∀ rotation offsets
    `r ≤ |k|`): rotating the loop body does not change the reported loop-carried dependencies.
    Instruction `j` of the rotated body is instruction `(j + r) mod |k|` of the original body; with
    members identified this way, every entry reported for `k` has a counterpart reported for
    `rotate r k` with the same member instructions carrying the same edge latencies (as multisets)
    and the same total latency — and conversely.  (Latency sums are compared in ℚ.) -/
theorem lcd_rotation_invariant (isa : Isa) (fd : Bool) (par : Params) (floor : Nat) (k : List Ins) (r : Nat)
    (hwf : WFKernel k) (hr : r ≤ k.length) :
    (∀ e ∈ lcd isa fd par floor k, ∃ e' ∈ lcd isa fd par floor (rotate r k),
      ((idxMembers (rotate r k) e').map (fun x => ((x.1 + r) % k.length, x.2))).Perm (idxMembers k e) ∧
      e'.latency = e.latency) ∧
    (∀ e' ∈ lcd isa fd par floor (rotate r k), ∃ e ∈ lcd isa fd par floor k,
      ((idxMembers (rotate r k) e').map (fun x => ((x.1 + r) % k.length, x.2))).Perm (idxMembers k e) ∧
      e'.latency = e.latency) := by
  have hlen := rotate_length r k
  constructor
  · intro e he
    have hD : ∀ x y, streamDep isa fd par k x y =
        streamDep isa fd par (rotate r k) (x + (k.length - r)) (y + (k.length - r)) := by
      intro x y
      rw [streamDep_rotate' isa fd par k r hr]
      have e1 : x + (k.length - r) + r = x + k.length := by omega
      have e2 : y + (k.length - r) + r = y + k.length := by omega
      rw [e1, e2, streamDep_periodic]
    obtain ⟨e', he', hperm, hlat⟩ := lcd_transfer isa fd par floor (rotate r k) k (k.length - r)
      (rotate_wf r k) hwf hlen.symm (by rw [hlen]; omega) hD e he
    refine ⟨e', he', ?_, hlat⟩
    rw [hlen] at hperm
    -- members of `e` are positions below |k|
    obtain ⟨a, _, hst, hpa, _⟩ := C05.lcd_sound isa fd par floor k hwf e he
    have hn : 0 < k.length := by
      cases a with
      | nil => exact absurd hst (fun h => h)
      | cons x _ => exact Nat.lt_of_le_of_lt (Nat.zero_le _) hst
    have hidx := idxMembers_of_cycle k hwf e a hst hpa
    have hlt : ∀ x ∈ idxMembers k e, x.1 < k.length := by
      intro x hx
      obtain ⟨y, _, rfl⟩ := List.mem_map.mp (hidx.mem_iff.mp hx)
      exact Nat.mod_lt _ hn
    refine (hperm.map _).trans (List.Perm.of_eq ?_)
    rw [List.map_map]
    conv => rhs; rw [← List.map_id (idxMembers k e)]
    apply List.map_congr_left
    intro x hx
    have := hlt x hx
    simp only [Function.comp_apply, id]
    refine Prod.ext ?_ rfl
    simp only
    rw [Nat.mod_add_mod]
    have e1 : x.1 + (k.length - r) + r = x.1 + k.length := by omega
    rw [e1, Nat.add_mod_right, Nat.mod_eq_of_lt this]
  · intro e' he'
    obtain ⟨e, he, hperm, hlat⟩ := lcd_transfer isa fd par floor k (rotate r k) r hwf (rotate_wf r k) hlen hr
      (streamDep_rotate' isa fd par k r hr) e' he'
    exact ⟨e, he, hperm.symm, hlat.symm⟩

/-- the reported latencies (in particular the largest one, the LCD figure) do not change under rotation -/
theorem lcd_rotation_latencies (isa : Isa) (fd : Bool) (par : Params) (floor : Nat) (k : List Ins) (r : Nat)
    (hwf : WFKernel k) (hr : r ≤ k.length) (q : Rat) :
    (∃ e ∈ lcd isa fd par floor k, e.latency = q) ↔ (∃ e' ∈ lcd isa fd par floor (rotate r k), e'.latency = q) := by
  obtain ⟨h1, h2⟩ := lcd_rotation_invariant isa fd par floor k r hwf hr
  constructor
  · rintro ⟨e, he, rfl⟩
    obtain ⟨e', he', _, hl⟩ := h1 e he
    exact ⟨e', he', hl⟩
  · rintro ⟨e', he', rfl⟩
    obtain ⟨e, he, _, hl⟩ := h2 e' he'
    exact ⟨e, he, hl.symm⟩

-- non-vacuity of `lcd_rotation_invariant`: a three-instruction ring with lines 3 < 4 < 7 (well-formed),
-- rotated by one: the single reported cycle keeps its members — instruction `j` of the rotated body is
-- instruction `(j + 1) mod 3` of the original — each with its own edge latency, total 7
example :
    let r (n : String) : Op := .reg { name := Text.ofString n }
    let mk (line : Nat) (src dst sd : List Op) (lat : Rat) : Ins :=
      { line := line, src := src, dst := dst, srcDst := sd, lat := lat, latWoLoad := none, hasLd := false,
        isLd := false, changes := [], changesPost := [] }
    let k := [mk 3 [r "rbx"] [r "rax"] [] 4, mk 4 [r "rax"] [r "rcx"] [] 1, mk 7 [r "rcx"] [r "rbx"] [] 2]
    WFKernel k ∧ WFKernel (rotate 1 k) ∧
    (lcd .x86 false {} 1000 k).map (fun e => (idxMembers k e, e.latency)) = [([(0, 4), (1, 1), (2, 2)], 7)] ∧
    (lcd .x86 false {} 1000 (rotate 1 k)).map (fun e =>
      ((idxMembers (rotate 1 k) e).map (fun x => ((x.1 + 1) % 3, x.2)), e.latency)) = [([(1, 1), (2, 2), (0, 4)], 7)] ∧
    streamDep .x86 false {} (rotate 1 k) 0 1 = streamDep .x86 false {} k 1 2 := by
  decide +kernel

-- non-vacuity: rotating the two-instruction accumulation loop keeps both cycles and their latencies
example :
    let r (n : String) : Op := .reg { name := Text.ofString n }
    let mk (line : Nat) (src sd : List Op) (lat : Rat) : Ins :=
      { line := line, src := src, dst := [], srcDst := sd, lat := lat, latWoLoad := none, hasLd := false,
        isLd := false, changes := [], changesPost := [] }
    let k := [mk 1 [r "xmm1"] [r "xmm0"] 4, mk 2 [r "rax"] [r "rbx"] 1]
    ((lcd .x86 false {} 1000 (rotate 1 k)).map (·.latency)) = [1, 4] ∧
    ((lcd .x86 false {} 1000 k).map (·.latency)) = [4, 1] := by
  decide +kernel

/-! ### the counting step: the same *number* of entries -/

/-- counting by an injective total relation: if every element of a duplicate-free list `l1` is related
    to some element of `l2`, and no element of `l2` is related to two different elements of `l1`,
    then `l1` is not longer than `l2` -/
theorem length_le_of_inj_rel {α β : Type} (R : α → β → Prop) (l1 : List α) (l2 : List β) (h1 : l1.Nodup)
    (htot : ∀ a ∈ l1, ∃ b ∈ l2, R a b)
    (hinj : ∀ a1 ∈ l1, ∀ a2 ∈ l1, ∀ b, R a1 b → R a2 b → a1 = a2) : l1.length ≤ l2.length := by
  induction l1 generalizing l2 with
  | nil => simp
  | cons a l1 ih =>
    obtain ⟨b, hb, hab⟩ := htot a List.mem_cons_self
    obtain ⟨s, t, rfl⟩ := List.append_of_mem hb
    have hnd := List.nodup_cons.mp h1
    have := ih (s ++ t) hnd.2
      (by
        intro a' ha'
        obtain ⟨b', hb', hab'⟩ := htot a' (List.mem_cons_of_mem _ ha')
        rcases Classical.em (b' = b) with heq | hne
        · subst heq
          have := hinj a' (List.mem_cons_of_mem _ ha') a List.mem_cons_self b' hab' hab
          subst this
          exact absurd ha' hnd.1
        · refine ⟨b', ?_, hab'⟩
          rcases List.mem_append.mp hb' with h | h
          · exact List.mem_append_left _ h
          · rcases List.mem_cons.mp h with h | h
            · exact absurd h hne
            · exact List.mem_append_right _ h)
      (fun a1 ha1 a2 ha2 b' => hinj a1 (List.mem_cons_of_mem _ ha1) a2 (List.mem_cons_of_mem _ ha2) b')
    simp only [List.length_cons, List.length_append] at this ⊢
    omega

theorem eq_of_pairwise_ne {α β : Type} (f : α → β) (l : List α) (h : l.Pairwise (fun a b => f a ≠ f b))
    (a b : α) (ha : a ∈ l) (hb : b ∈ l) (hf : f a = f b) : a = b := by
  induction l with
  | nil => cases ha
  | cons x l ih =>
    obtain ⟨hx, hl⟩ := List.pairwise_cons.mp h
    rcases List.mem_cons.mp ha with ha' | ha'
    · rcases List.mem_cons.mp hb with hb' | hb'
      · rw [ha', hb']
      · rw [ha'] at hf; exact absurd hf (hx b hb')
    · rcases List.mem_cons.mp hb with hb' | hb'
      · rw [hb'] at hf; exact absurd hf.symm (hx a ha')
      · exact ih hl ha' hb'

/-- **an entry's members *are* its normal-form cycle**: for a reported entry, `idxMembers` (positions
    of the member lines in the body, with the edge latencies) is literally a winding-1 stream cycle
    with ascending positions inside the body -/
theorem idxMembers_normal (isa : Isa) (fd : Bool) (par : Params) (floor : Nat) (k : List Ins) (hwf : WFKernel k)
    (e : Entry) (he : e ∈ lcd isa fd par floor k) :
    IsStreamCycle (streamDep isa fd par k) k.length (idxMembers k e) ∧
    (∀ y ∈ idxMembers k e, y.1 < k.length) ∧ (verts (idxMembers k e)).Pairwise (· < ·) ∧
    e.lines = (idxMembers k e).map (fun y => lineAt k y.1) := by
  obtain ⟨b, hc, hlt, hinc, hl, ht, _⟩ := C05.lcd_sound_normal isa fd par floor k hwf e he
  have hidx : idxMembers k e = b := by
    unfold idxMembers
    rw [hl, ht]
    have : (b.map (fun y => lineAt k y.1)).zip (b.map (·.2)) = b.map (fun y => (lineAt k y.1, y.2)) := by
      have := zip_fst_snd (b.map (fun y => (lineAt k y.1, y.2)))
      simpa [List.map_map, Function.comp_def] using this
    rw [this, List.map_map]
    conv => rhs; rw [← List.map_id b]
    apply List.map_congr_left
    intro y hy
    simp only [Function.comp_apply, id]
    rw [posOf_lineAt k hwf y.1 (hlt y hy)]
  rw [hidx]
  exact ⟨hc, hlt, hinc, hl⟩

/-- two reported entries with the same members (as multisets of (position, latency)) are the same entry -/
theorem entry_eq_of_members_perm (isa : Isa) (fd : Bool) (par : Params) (floor : Nat) (k : List Ins)
    (hwf : WFKernel k) (e1 e2 : Entry) (h1 : e1 ∈ lcd isa fd par floor k) (h2 : e2 ∈ lcd isa fd par floor k)
    (hp : (idxMembers k e1).Perm (idxMembers k e2)) : e1 = e2 := by
  obtain ⟨_, _, hi1, hl1⟩ := idxMembers_normal isa fd par floor k hwf e1 h1
  obtain ⟨_, _, hi2, hl2⟩ := idxMembers_normal isa fd par floor k hwf e2 h2
  have hs : ∀ b : List (Nat × Rat), (verts b).Pairwise (· < ·) → b.Pairwise le2 := by
    intro b hb
    have : b.Pairwise (fun x y => x.1 < y.1) := by simpa [verts, List.pairwise_map] using hb
    exact this.imp (fun h => Or.inl h)
  have heq : idxMembers k e1 = idxMembers k e2 :=
    List.Perm.eq_of_pairwise (le := le2) (fun _ _ _ _ a b => le2_antisymm a b) (hs _ hi1) (hs _ hi2) hp
  have hlines : e1.lines = e2.lines := by rw [hl1, hl2, heq]
  exact eq_of_pairwise_ne (·.lines) _ (C05.lcd_reported_once isa fd par floor k hwf) e1 e2 h1 h2 hlines

theorem lcd_nodup (isa : Isa) (fd : Bool) (par : Params) (floor : Nat) (k : List Ins) (hwf : WFKernel k) :
    (lcd isa fd par floor k).Nodup :=
  (C05.lcd_reported_once isa fd par floor k hwf).imp (fun h heq => h (by rw [heq]))

/-- **lcd_rotation_count** (∀ kernels with strictly increasing lines, ∀ rotation offsets `r ≤ |k|`):
    the rotated body has exactly as many reported loop-carried dependencies as the body.  With
    `lcd_rotation_invariant` (every entry has a counterpart with the same members and latency, both
    ways) and `lcd_reported_once` (no entry twice): the member-set correspondence is a bijection
    between the two reported lists — nothing is merged, split, lost or invented by a rotation. -/
theorem lcd_rotation_count (isa : Isa) (fd : Bool) (par : Params) (floor : Nat) (k : List Ins) (r : Nat)
    (hwf : WFKernel k) (hr : r ≤ k.length) :
    (lcd isa fd par floor (rotate r k)).length = (lcd isa fd par floor k).length := by
  obtain ⟨h1, h2⟩ := lcd_rotation_invariant isa fd par floor k r hwf hr
  have hwf' := rotate_wf r k
  have hlen := rotate_length r k
  apply Nat.le_antisymm
  · -- every rotated entry has a counterpart; two rotated entries with the same counterpart coincide
    refine length_le_of_inj_rel
      (fun e' e => ((idxMembers (rotate r k) e').map (fun x => ((x.1 + r) % k.length, x.2))).Perm (idxMembers k e))
      _ _ (lcd_nodup isa fd par floor _ hwf') ?_ ?_
    · intro e' he'
      obtain ⟨e, he, hp, _⟩ := h2 e' he'
      exact ⟨e, he, hp⟩
    · intro e1 he1 e2 he2 e hp1 hp2
      apply entry_eq_of_members_perm isa fd par floor _ hwf' e1 e2 he1 he2
      have hp := (hp1.trans hp2.symm).map (fun x : Nat × Rat => ((x.1 + (k.length - r)) % k.length, x.2))
      have hun : ∀ e' ∈ lcd isa fd par floor (rotate r k),
          ((idxMembers (rotate r k) e').map (fun x => ((x.1 + r) % k.length, x.2))).map
            (fun x : Nat × Rat => ((x.1 + (k.length - r)) % k.length, x.2)) = idxMembers (rotate r k) e' := by
        intro e' he'
        obtain ⟨_, hlt, _, _⟩ := idxMembers_normal isa fd par floor _ hwf' e' he'
        rw [List.map_map]
        conv => rhs; rw [← List.map_id (idxMembers (rotate r k) e')]
        apply List.map_congr_left
        intro x hx
        have hx' := hlt x hx
        rw [hlen] at hx'
        simp only [Function.comp_apply, id]
        refine Prod.ext ?_ rfl
        simp only
        rw [Nat.mod_add_mod]
        have e1 : x.1 + r + (k.length - r) = x.1 + k.length := by omega
        rw [e1, Nat.add_mod_right, Nat.mod_eq_of_lt hx']
      rw [hun e1 he1, hun e2 he2] at hp
      exact hp
  · refine length_le_of_inj_rel
      (fun e e' => ((idxMembers (rotate r k) e').map (fun x => ((x.1 + r) % k.length, x.2))).Perm (idxMembers k e))
      _ _ (lcd_nodup isa fd par floor k hwf) ?_ ?_
    · intro e he
      obtain ⟨e', he', hp, _⟩ := h1 e he
      exact ⟨e', he', hp⟩
    · intro e1 he1 e2 he2 e' hp1 hp2
      exact entry_eq_of_members_perm isa fd par floor k hwf e1 e2 he1 he2 (hp1.symm.trans hp2)

-- non-vacuity: the two-instruction accumulation loop has two cycles before and after rotation,
-- the three-instruction ring one
example :
    let r (n : String) : Op := .reg { name := Text.ofString n }
    let mk (line : Nat) (src sd : List Op) (lat : Rat) : Ins :=
      { line := line, src := src, dst := [], srcDst := sd, lat := lat, latWoLoad := none, hasLd := false,
        isLd := false, changes := [], changesPost := [] }
    let k := [mk 1 [r "xmm1"] [r "xmm0"] 4, mk 2 [r "rax"] [r "rbx"] 1]
    WFKernel k ∧ (lcd .x86 false {} 1000 (rotate 1 k)).length = 2 ∧ (lcd .x86 false {} 1000 k).length = 2 ∧
    (lcd .x86 false {} 1000 k).map (idxMembers k) = [[(0, 4)], [(1, 1)]] := by
  decide +kernel

end OsacaVerif.Props.C14
