import OsacaVerif.Model.Workers
import OsacaVerif.Model.LcdPost
import OsacaVerif.Lemmas.Workers
import OsacaVerif.Lemmas.LcdPost
import OsacaVerif.Props.C16
/-
  C19 — LCD timeout yields sound partial results and leaves no workers behind.

  `Workers.poll` / `Workers.run` model the waiting part of `check_for_loopcarried_dep`:
  arbitrary clock readings `ticks`, workers with batch delivery times and exit times, the
  `while … else`, the kill of the workers that are still alive, the flag.  The constants
  (`Gen.loopCondLe`, `Gen.noTimeoutValue`, `Gen.pollInterval`, `Gen.flagOnlyIfAlive`) are
  regenerated from the source.  Theorems hold for every timeout, every clock, every number of
  workers and every schedule of deliveries.
-/
namespace OsacaVerif.Props.C19
open OsacaVerif OsacaVerif.Workers OsacaVerif.LcdPost

variable {β : Type}

/-! ### the loop -/

theorem poll_mem (start timeout : Rat) (ws : List (Worker β)) (ticks : List Rat) (t : Rat) (b : Bool)
    (h : poll start timeout ws ticks = some (t, b)) : t ∈ ticks := by
  induction ticks with
  | nil => simp [poll] at h
  | cons x xs ih =>
    unfold poll at h
    split at h
    · split at h
      · exact List.mem_cons_of_mem _ (ih h)
      · simp only [Option.some.injEq, Prod.mk.injEq] at h; rw [← h.1]; exact List.mem_cons_self
    · simp only [Option.some.injEq, Prod.mk.injEq] at h; rw [← h.1]; exact List.mem_cons_self

/-- leaving through `break`: the reading was within the timeout and no worker was alive -/
theorem poll_break (start timeout : Rat) (ws : List (Worker β)) (ticks : List Rat) (t : Rat)
    (h : poll start timeout ws ticks = some (t, false)) :
    withinTimeout start timeout t = true ∧ ∀ w ∈ ws, w.alive t = false := by
  induction ticks with
  | nil => simp [poll] at h
  | cons x xs ih =>
    unfold poll at h
    split at h
    · next hw =>
      split at h
      · exact ih h
      · next ha =>
        simp only [Option.some.injEq, Prod.mk.injEq] at h
        rw [← h.1]
        refine ⟨hw, ?_⟩
        intro w hwm
        have := ha
        simp only [List.any_eq_true, not_exists, not_and, Bool.not_eq_true] at this
        exact this w hwm
    · simp at h

/-- leaving through `else`: the reading was beyond the timeout -/
theorem poll_else (start timeout : Rat) (ws : List (Worker β)) (ticks : List Rat) (t : Rat)
    (h : poll start timeout ws ticks = some (t, true)) : withinTimeout start timeout t = false := by
  induction ticks with
  | nil => simp [poll] at h
  | cons x xs ih =>
    unfold poll at h
    split at h
    · split at h
      · exact ih h
      · simp at h
    · next hw =>
      simp only [Option.some.injEq, Prod.mk.injEq] at h
      rw [← h.1]; simpa using hw

theorem within_le (start timeout t : Rat) (h : withinTimeout start timeout t = true) :
    t - start ≤ timeout := by
  unfold withinTimeout at h
  split at h
  · simpa using h
  · have : t - start < timeout := by simpa using h
    exact Rat.le_of_lt this

/-! ### wall-clock bound and termination, relative to the clock readings -/

/-- consecutive readings (starting from `prev`) are at most `g` apart -/
def gapsLe (g : Rat) : Rat → List Rat → Prop
  | _, [] => True
  | p, t :: ts => t - p ≤ g ∧ gapsLe g t ts

/-- consecutive readings advance by at least `i` (the `sleep`) -/
def growsBy (i : Rat) : Rat → List Rat → Prop
  | _, [] => True
  | p, t :: ts => p + i ≤ t ∧ growsBy i t ts

theorem exit_bound_aux (start timeout g : Rat) (hg : 0 ≤ g) (ws : List (Worker β)) (ticks : List Rat)
    (prev : Rat) (hprev : prev - start ≤ timeout) (hgap : gapsLe g prev ticks) (t : Rat) (b : Bool)
    (h : poll start timeout ws ticks = some (t, b)) : t - start ≤ timeout + g := by
  induction ticks generalizing prev with
  | nil => simp [poll] at h
  | cons x xs ih =>
    obtain ⟨hx, hxs⟩ := hgap
    unfold poll at h
    split at h
    · next hw =>
      have hxw := within_le _ _ _ hw
      split at h
      · exact ih x hxw hxs h
      · simp only [Option.some.injEq, Prod.mk.injEq] at h; rw [← h.1]; grind
    · simp only [Option.some.injEq, Prod.mk.injEq] at h; rw [← h.1]; grind

/-- **exit_bound**: if successive clock readings are at most `g` apart (`g` = poll interval plus
    scheduling overshoot) the loop is left no later than `timeout + g` after it was entered. -/
theorem exit_bound (start timeout g : Rat) (hg : 0 ≤ g) (ht : 0 ≤ timeout) (ws : List (Worker β))
    (ticks : List Rat) (hgap : gapsLe g start ticks) (t : Rat) (b : Bool)
    (h : poll start timeout ws ticks = some (t, b)) : t - start ≤ timeout + g :=
  exit_bound_aux start timeout g hg ws ticks start (by grind) hgap t b h

theorem poll_terminates_aux (start timeout i : Rat) (ws : List (Worker β)) (ticks : List Rat)
    (prev : Rat) (hprev : prev - start ≤ timeout) (hgrow : growsBy i prev ticks)
    (hlen : prev - start + (ticks.length : Rat) * i > timeout) :
    poll start timeout ws ticks ≠ none := by
  induction ticks generalizing prev with
  | nil => simp at hlen; grind
  | cons x xs ih =>
    obtain ⟨hx, hxs⟩ := hgrow
    unfold poll
    split
    · next hw =>
      split
      · apply ih x (within_le _ _ _ hw) hxs
        have : ((xs.length + 1 : Nat) : Rat) = (xs.length : Rat) + 1 := by
          simp [Rat.natCast_add]
        simp only [List.length_cons] at hlen
        rw [this] at hlen
        grind
      · simp
    · simp

/-- **poll_terminates**: a clock that advances by at least the poll interval `i > 0` per
    iteration ends the loop within `⌊timeout / i⌋ + 1` readings, whatever the workers do. -/
theorem poll_terminates (start timeout i : Rat) (ht : 0 ≤ timeout) (ws : List (Worker β))
    (ticks : List Rat) (hgrow : growsBy i start ticks) (hlen : (ticks.length : Rat) * i > timeout) :
    poll start timeout ws ticks ≠ none :=
  poll_terminates_aux start timeout i ws ticks start (by grind) hgrow (by grind)

/-- the source's poll interval is positive and small (bound of the property: a fraction of a second) -/
theorem pollInterval_small : 0 < Gen.pollInterval ∧ Gen.pollInterval ≤ 1 / 4 := by decide +kernel

/-! ### what reaches the shared list -/

theorem deliveredUntil_sub (w : Worker β) (c : Rat) : (deliveredUntil w c).Sublist (allBatches w) :=
  List.Sublist.map _ List.filter_sublist

/-- shape of every outcome: one `delivered` list per worker, each a sub-list of WHOLE batches of
    that worker, in the worker's order -/
theorem delivered_sublists (flagFix : Bool) (timeout start : Rat) (ticks kd : List Rat)
    (ws : List (Worker β)) (o : Outcome β) (h : run flagFix timeout start ticks kd ws = some o) :
    o.delivered.length = ws.length ∧
      ∀ i (hi : i < o.delivered.length) (hw : i < ws.length), (o.delivered[i]).Sublist (allBatches ws[i]) := by
  unfold run at h
  split at h
  · simp only [Option.some.injEq] at h; subst h
    refine ⟨by simp, ?_⟩
    intro i hi hw; simp
  · split at h
    · simp at h
    · simp only [Option.some.injEq] at h; subst h
      refine ⟨by simp, ?_⟩
      intro i hi hw; simp
    · simp only [Option.some.injEq] at h; subst h
      refine ⟨by simp, ?_⟩
      intro i hi hw
      simp only [List.getElem_map, List.getElem_zip]
      split
      · exact deliveredUntil_sub _ _
      · exact List.Sublist.refl _

theorem mem_delivered (flagFix : Bool) (timeout start : Rat) (ticks kd : List Rat)
    (ws : List (Worker β)) (o : Outcome β) (h : run flagFix timeout start ticks kd ws = some o)
    (b : β) (hb : b ∈ o.delivered.flatten) : b ∈ ws.flatMap allBatches := by
  obtain ⟨hlen, hsub⟩ := delivered_sublists flagFix timeout start ticks kd ws o h
  obtain ⟨d, hd, hbd⟩ := List.mem_flatten.mp hb
  obtain ⟨i, hi, rfl⟩ := List.getElem_of_mem hd
  have hw : i < ws.length := by omega
  exact List.mem_flatMap.mpr ⟨ws[i], List.getElem_mem hw, (hsub i hi hw).subset hbd⟩

/-- **partial_subset**: whatever the timeout, the clock and the kill points, the shared list (any
    arrival order `arr` of what was delivered) consists of whole batches of the workers – nothing
    torn, nothing invented. -/
theorem partial_subset (flagFix : Bool) (timeout start : Rat) (ticks kd : List Rat)
    (ws : List (Worker β)) (o : Outcome β) (h : run flagFix timeout start ticks kd ws = some o)
    (arr : List β) (harr : Interleave o.delivered arr) : ∀ b ∈ arr, b ∈ ws.flatMap allBatches :=
  fun b hb => mem_delivered flagFix timeout start ticks kd ws o h b (harr.perm.subset hb)

/-- hence the reported dictionary is a sub-dictionary of the untimed one: every reported LCD is
    reported by the complete search too, with the same dependencies and the same latency.
    (`SumByKey`, `LinesUnique` of the complete path list are evaluated on every real run.) -/
theorem partial_post_subdict (sumF : List Rat → Rat) (lat : Nat → Nat → Rat) (offset : Nat)
    (flagFix : Bool) (timeout start : Rat) (ticks kd : List Rat)
    (ws : List (Worker (List Path))) (o : Outcome (List Path))
    (h : run flagFix timeout start ticks kd ws = some o)
    (arr : List (List Path)) (harr : Interleave o.delivered arr)
    (hs : SumByKey (((ws.flatMap allBatches).flatten).map (norm sumF lat offset)))
    (hu : LinesUnique (((ws.flatMap allBatches).flatten).map (norm sumF lat offset)))
    (x : List Nat × Entry) (hx : x ∈ post sumF lat offset arr.flatten) :
    x ∈ post sumF lat offset (ws.flatMap allBatches).flatten := by
  apply C16.post_mono sumF lat offset arr.flatten _ _ hs hu x hx
  intro p hp
  obtain ⟨b, hb, hpb⟩ := List.mem_flatten.mp hp
  exact List.mem_flatten.mpr ⟨b, partial_subset flagFix timeout start ticks kd ws o h arr harr b hb, hpb⟩

/-! ### complete when in time -/

/-- **complete_if_in_time**: with the timeout switched off, or when the loop is left through
    `break`, nothing is flagged, nobody is killed and every batch of every worker is delivered. -/
theorem complete_if_in_time (flagFix : Bool) (timeout start : Rat) (ticks kd : List Rat)
    (ws : List (Worker β)) (o : Outcome β) (h : run flagFix timeout start ticks kd ws = some o)
    (hin : timeout = (Gen.noTimeoutValue : Int) ∨ ∃ t, poll start timeout ws ticks = some (t, false)) :
    o.timedOut = false ∧ o.delivered = ws.map allBatches ∧ ∀ k ∈ o.killed, k = false := by
  unfold run at h
  split at h
  · simp only [Option.some.injEq] at h; subst h; simp
  · next hne =>
    rcases hin with hin | ⟨t, ht⟩
    · exact absurd hin hne
    · rw [ht] at h
      simp only [Option.some.injEq] at h; subst h; simp

/-- a reading within the timeout at which all workers have exited is enough: the loop then leaves
    through `break` (at that reading or an earlier one) -/
theorem in_time_breaks (start timeout : Rat) (ws : List (Worker β)) (pre : List Rat) (t : Rat)
    (post : List Rat) (hpre : ∀ x ∈ pre, withinTimeout start timeout x = true)
    (ht : withinTimeout start timeout t = true) (hdone : ∀ w ∈ ws, w.alive t = false) :
    ∃ t', poll start timeout ws (pre ++ t :: post) = some (t', false) := by
  induction pre with
  | nil =>
    refine ⟨t, ?_⟩
    simp only [List.nil_append, poll, ht, if_true]
    have : ws.any (fun w => w.alive t) = false := by
      simp only [List.any_eq_false]; intro w hw; simp [hdone w hw]
    simp [this]
  | cons x xs ih =>
    have hx := hpre x List.mem_cons_self
    obtain ⟨t', ht'⟩ := ih (fun y hy => hpre y (List.mem_cons_of_mem _ hy))
    simp only [List.cons_append, poll, hx, if_true]
    split
    · exact ⟨t', ht'⟩
    · exact ⟨x, rfl⟩

/-- the complete result equals the single-process result (link to C16): if the workers' batches
    are the batches of the partition's slices, any arrival order gives the sequential dictionary -/
theorem complete_eq_sequential {α : Type} (sumF : List Rat → Rat) (lat : Nat → Nat → Rat) (offset : Nat)
    (kernel : List α) (batch : α → List Path) (n : Nat) (hn : 1 ≤ n)
    (flagFix : Bool) (timeout start : Rat) (ticks kd : List Rat)
    (ws : List (Worker (List Path))) (o : Outcome (List Path))
    (hws : ws.map allBatches = queues batch kernel n)
    (h : run flagFix timeout start ticks kd ws = some o)
    (hin : timeout = (Gen.noTimeoutValue : Int) ∨ ∃ t, poll start timeout ws ticks = some (t, false))
    (arr : List (List Path)) (harr : Interleave o.delivered arr)
    (hs : SumByKey ((kernel.flatMap batch).map (norm sumF lat offset))) :
    post sumF lat offset arr.flatten = post sumF lat offset (kernel.flatMap batch) := by
  have hc := (complete_if_in_time flagFix timeout start ticks kd ws o h hin).2.1
  rw [hc, hws] at harr
  exact C16.parallel_eq_sequential sumF lat offset kernel batch n hn arr harr hs

/-! ### the flag (repaired loop: `Gen.flagOnlyIfAlive = true`) -/

theorem flagOnlyIfAlive_true : Gen.flagOnlyIfAlive = true := by decide

/-- **flag_iff_cut**: the warning flag is set exactly when some worker was killed -/
theorem flag_iff_cut (timeout start : Rat) (ticks kd : List Rat) (ws : List (Worker β)) (o : Outcome β)
    (h : run Gen.flagOnlyIfAlive timeout start ticks kd ws = some o) :
    o.timedOut = true ↔ ∃ k ∈ o.killed, k = true := by
  rw [flagOnlyIfAlive_true] at h
  unfold run at h
  split at h
  · simp only [Option.some.injEq] at h; subst h; simp
  · split at h
    · simp at h
    · simp only [Option.some.injEq] at h; subst h; simp
    · simp only [Option.some.injEq] at h; subst h
      simp

/-- no flag ⇒ the result is complete -/
theorem no_flag_complete (timeout start : Rat) (ticks kd : List Rat) (ws : List (Worker β)) (o : Outcome β)
    (h : run Gen.flagOnlyIfAlive timeout start ticks kd ws = some o) (hf : o.timedOut = false) :
    o.delivered = ws.map allBatches := by
  rw [flagOnlyIfAlive_true] at h
  unfold run at h
  split at h
  · simp only [Option.some.injEq] at h; subst h; rfl
  · split at h
    · simp at h
    · simp only [Option.some.injEq] at h; subst h; rfl
    · simp only [Option.some.injEq] at h; subst h
      simp only [if_true, List.any_eq_false, List.mem_map, id_eq] at hf
      apply List.ext_getElem (by simp)
      intro i h1 h2
      simp only [List.getElem_map, List.getElem_zip]
      split
      · next ha =>
        exfalso
        apply hf true ?_ rfl
        refine ⟨(ws[i]'(by simpa using h2), _), ?_, ha⟩
        rw [List.mem_iff_getElem]
        exact ⟨i, by simpa using h1, by simp⟩
      · rfl

/-- D8 (the loop before the repair): all workers finish during the last `sleep`; the loop leaves
    through `else`; nothing is killed, everything is delivered, yet the flag is set.
    The repaired placement does not set it on the same schedule. -/
theorem old_flag_spurious :
    ∃ (ticks : List Rat) (ws : List (Worker Nat)) (o : Outcome Nat),
      run false 1 0 ticks [] ws = some o ∧ o.timedOut = true ∧ (∀ k ∈ o.killed, k = false) ∧
      o.delivered = ws.map allBatches ∧
      (∃ o', run true 1 0 ticks [] ws = some o' ∧ o'.timedOut = false ∧ o'.delivered = o.delivered) := by
  refine ⟨[0, 1/5, 2/5, 3/5, 4/5, 11/10], [⟨[(9/10, 7)], 1⟩, ⟨[(1/10, 8), (19/20, 9)], 21/20⟩],
    ⟨true, [false, false], [[7], [8, 9]], some (11/10)⟩, ?_, rfl, ?_, ?_, ?_⟩
  · decide +kernel
  · decide
  · decide +kernel
  · exact ⟨⟨false, [false, false], [[7], [8, 9]], some (11/10)⟩, by decide +kernel, rfl, rfl⟩

-- non-vacuity: a cut run (worker 1 killed with one of two batches delivered) and a run in time
example : run true 1 0 [0, 1/5, 2/5, 3/5, 4/5, 19/20, 6/5] []
    [(⟨[(1/2, 7)], 3/5⟩ : Worker Nat), ⟨[(1/10, 8), (5, 9)], 6⟩]
    = some ⟨true, [false, true], [[7], [8]], some (6/5)⟩ := by decide +kernel
example : run true 1 0 [0, 1/5, 2/5, 3/5, 4/5, 19/20, 6/5] []
    [(⟨[(1/2, 7)], 3/5⟩ : Worker Nat), ⟨[(1/10, 8), (1/2, 9)], 7/10⟩]
    = some ⟨false, [false, false], [[7], [8, 9]], some (4/5)⟩ := by decide +kernel
example : run true (-1) 0 [] [] [(⟨[(1/2, 7)], 3/5⟩ : Worker Nat)]
    = some ⟨false, [false], [[7]], none⟩ := by decide +kernel
example : gapsLe (1/4) 0 [0, 1/5, 2/5] ∧ growsBy (1/5) 0 [1/5, 2/5] := by
  simp [gapsLe, growsBy]; decide +kernel

end OsacaVerif.Props.C19
