import OsacaVerif.Model.Isa
import OsacaVerif.Lemmas.Roles
import OsacaVerif.Gen.IsaDb_x86
import OsacaVerif.Gen.IsaDb_aarch64
/-
  C03 (roles part) / C06 (register changes part) — what counts as read or written follows the ISA semantics.

  `Isa.assignSrcDst` mirrors `ISASemantics.assign_src_dst`, `Isa.regChanges` mirrors `get_reg_changes`
  (Model/Isa.lean); the `operation` mini-programs and the ISA databases are generated from the source
  (Gen/Operations.lean, Gen/IsaDb_x86.lean, Gen/IsaDb_aarch64.lean).  The theorems state the decision logic
  outright, for every ISA entry, every operand list and every immediate value.
-/
namespace OsacaVerif.Props.C03Roles
open OsacaVerif OsacaVerif.Text OsacaVerif.Operand OsacaVerif.Isa OsacaVerif.IsaOp

/-! ## roles from an ISA entry -/

/-- **roles_spec (entry, explicit operands)**: unless the zero idiom applies, operand `i` of the instruction is
    put into `source` / `destination` / `src_dst` exactly according to the flags of the entry's `i`-th operand:
    source only → `source`, destination only → `destination`, both → `src_dst` (neither → nowhere). -/
theorem roles_spec (e : IsaEntry) (ops : List Opnd) (hz : (e.brk && adjEq ops) = false) (i : Nat) (o : Opnd) :
    (.op i o ∈ (applyEntry e ops).src ↔
        ∃ r, ops[i]? = some o ∧ e.roles[i]? = some r ∧ r.src = true ∧ r.dst = false) ∧
    (.op i o ∈ (applyEntry e ops).dst ↔
        ∃ r, ops[i]? = some o ∧ e.roles[i]? = some r ∧ r.src = false ∧ r.dst = true) ∧
    (.op i o ∈ (applyEntry e ops).srcDst ↔
        ∃ r, ops[i]? = some o ∧ e.roles[i]? = some r ∧ r.src = true ∧ r.dst = true) := by
  simp only [applyEntry, hz, Bool.false_eq_true, if_false, List.mem_append, op_not_mem_pickHidden, or_false]
  unfold indexed
  refine ⟨?_, ?_, ?_⟩
  · rw [mem_pick]
    constructor
    · rintro ⟨j, r, h1, h2, h3, h4⟩
      have : i = j := by omega
      subst this
      simp only [isSrc, Bool.and_eq_true, Bool.not_eq_true'] at h4
      exact ⟨r, h2, h3, h4.1, h4.2⟩
    · rintro ⟨r, h2, h3, h4, h5⟩
      exact ⟨i, r, by omega, h2, h3, by simp [isSrc, h4, h5]⟩
  · rw [mem_pick]
    constructor
    · rintro ⟨j, r, h1, h2, h3, h4⟩
      have : i = j := by omega
      subst this
      simp only [isDst, Bool.and_eq_true, Bool.not_eq_true'] at h4
      exact ⟨r, h2, h3, h4.1, h4.2⟩
    · rintro ⟨r, h2, h3, h4, h5⟩
      exact ⟨i, r, by omega, h2, h3, by simp [isDst, h4, h5]⟩
  · rw [mem_pick]
    constructor
    · rintro ⟨j, r, h1, h2, h3, h4⟩
      have : i = j := by omega
      subst this
      simp only [isSrcDst, Bool.and_eq_true] at h4
      exact ⟨r, h2, h3, h4.1, h4.2⟩
    · rintro ⟨r, h2, h3, h4, h5⟩
      exact ⟨i, r, by omega, h2, h3, by simp [isSrcDst, h4, h5]⟩

/-- **roles_spec (entry, hidden operands)**: a hidden operand goes to `src_dst` if it is both source and
    destination, to `source` if it is a source only, and to `destination` otherwise. -/
theorem roles_spec_hidden (e : IsaEntry) (ops : List Opnd) (hz : (e.brk && adjEq ops) = false) (h : HOp) :
    (.hid h ∈ (applyEntry e ops).src ↔ ∃ r, (h, r) ∈ e.hidden ∧ r.src = true ∧ r.dst = false) ∧
    (.hid h ∈ (applyEntry e ops).dst ↔ ∃ r, (h, r) ∈ e.hidden ∧ r.src = false) ∧
    (.hid h ∈ (applyEntry e ops).srcDst ↔ ∃ r, (h, r) ∈ e.hidden ∧ r.src = true ∧ r.dst = true) := by
  simp only [applyEntry, hz, Bool.false_eq_true, if_false, List.mem_append]
  unfold indexed
  simp [hid_not_mem_pick, mem_pickHidden, hidSrc, hidDst, hidSrcDst]

/-- **roles_spec (zero idiom)**: with `breaks_dependency_on_equal_operands` and all operands equal
    (`operands[1:] == operands[:-1]`), every operand and every hidden operand is a destination and nothing is read. -/
theorem roles_spec_zero_idiom (e : IsaEntry) (ops : List Opnd) (hb : e.brk = true) (heq : adjEq ops = true) :
    (applyEntry e ops).src = [] ∧ (applyEntry e ops).srcDst = [] ∧
    (∀ i o, .op i o ∈ (applyEntry e ops).dst ↔ ops[i]? = some o) ∧
    (∀ h, .hid h ∈ (applyEntry e ops).dst ↔ ∃ r, (h, r) ∈ e.hidden) := by
  simp only [applyEntry, hb, heq, Bool.and_self, if_true, List.mem_append, true_and]
  refine ⟨?_, ?_⟩
  · intro i o
    rw [mem_indexed]
    simp
  · intro h
    unfold indexed
    simp only [hid_not_mem_indexedFrom, false_or, List.mem_map]
    constructor
    · rintro ⟨⟨h', r⟩, hm, heq⟩
      injection heq with heq
      subst heq
      exact ⟨r, hm⟩
    · rintro ⟨r, hm⟩
      exact ⟨(h, r), hm, rfl⟩

/-- the idiom test itself: all neighbouring operands are equal (so all operands are) -/
theorem zero_idiom_test (ops : List Opnd) :
    adjEq ops = true ↔ ∀ j a b, ops[j]? = some a → ops[j + 1]? = some b → a.key = b.key :=
  adjEq_iff ops

/-! ## default roles (no entry) -/

/-- **roles_spec (no entry, x86)**: the last operand is the destination, all others are sources. -/
theorem roles_spec_default_x86 (init : List Opnd) (l : Opnd) (hne : init ≠ []) :
    defaultSem .x86 (init ++ [l]) = { src := indexed init, dst := [.op init.length l], srcDst := [] } := by
  have hshape : ∀ (ops : List Opnd), ops.length ≠ 1 →
      defaultSem .x86 ops = { src := (indexed ops).dropLast, dst := (indexed ops).drop ((indexed ops).length - 1), srcDst := [] } := by
    intro ops hl
    unfold defaultSem
    split
    · simp at hl
    · simp only [show Gen.defaultSrcX86 = (some 0, some (-1)) from rfl, show Gen.defaultDstX86 = (some (-1), none) from rfl,
        pySlice_0_m1, pySlice_m1_none]
  have hl : (init ++ [l]).length ≠ 1 := by
    cases init with
    | nil => exact absurd rfl hne
    | cons a as => simp
  rw [hshape _ hl]
  unfold indexed
  rw [indexedFrom_append]
  simp [indexedFrom, length_indexedFrom]

/-- **roles_spec (no entry, AArch64)**: the first operand is the destination, all others are sources. -/
theorem roles_spec_default_a64 (f : Opnd) (rest : List Opnd) (hne : rest ≠ []) :
    defaultSem .a64 (f :: rest) = { src := indexedFrom 1 rest, dst := [.op 0 f], srcDst := [] } := by
  unfold defaultSem
  split
  · next h => simp at h; exact absurd h.2 hne
  · simp only [show Gen.defaultSrcA64 = (some 1, none) from rfl, show Gen.defaultDstA64 = (none, some 1) from rfl,
      pySlice_1_none, pySlice_none_1]
    simp [indexed, indexedFrom]

/-- **roles_spec (no entry, one operand)**: a single operand is a source, on both ISAs. -/
theorem roles_spec_default_single (isa : Isa) (o : Opnd) :
    defaultSem isa [o] = { src := [.op 0 o], dst := [], srcDst := [] } := by
  simp [defaultSem, indexed, indexedFrom, show Gen.singleIsSource = true from rfl,
    show Gen.singleIsDestination = false from rfl]

/-- no operand at all: nothing is read or written -/
theorem roles_spec_default_none (isa : Isa) : defaultSem isa [] = { src := [], dst := [], srcDst := [] } := by
  cases isa <;> simp [defaultSem, indexed, indexedFrom, pySlice]

/-- **when the default applies**: neither the lookup with the operands as written nor (for memory forms) the
    lookup with every memory operand replaced by the register wildcard finds an entry -/
theorem roles_default_iff (isa : Isa) (db : List IsaEntry) (name : Txt) (ops : List Opnd)
    (h1 : lookup isa db name (ops.map (·.p)) = none)
    (h2 : lookup isa db name (substituteMem (ops.map (·.p))) = none) :
    baseSem isa db name ops = defaultSem isa ops := by
  simp only [baseSem, h1, h2]
  split <;> rfl

/-- an entry found for the operands as written decides the roles -/
theorem roles_entry_direct (isa : Isa) (db : List IsaEntry) (name : Txt) (ops : List Opnd) (e : IsaEntry)
    (h : lookup isa db name (ops.map (·.p)) = some e) : baseSem isa db name ops = applyEntry e ops := by
  simp [baseSem, h]

/-- a memory form without an entry of its own takes the roles of the register form (second lookup) -/
theorem roles_entry_wildcard (isa : Isa) (db : List IsaEntry) (name : Txt) (ops : List Opnd) (e : IsaEntry)
    (h1 : lookup isa db name (ops.map (·.p)) = none) (hm : (ops.map (·.p)).any isMemP = true)
    (h2 : lookup isa db name (substituteMem (ops.map (·.p))) = some e) :
    baseSem isa db name ops = applyEntry e ops := by
  simp [baseSem, h1, hm, h2]

/-- an entry that decides the roles has one role per operand of the instruction -/
theorem entry_arity (isa : Isa) (db : List IsaEntry) (name : Txt) (ops : List Opnd) (e : IsaEntry)
    (h : lookup isa db name (ops.map (·.p)) = some e ∨ lookup isa db name (substituteMem (ops.map (·.p))) = some e) :
    e.e.operands.length = ops.length := by
  rcases h with h | h
  · simpa using (lookup_some isa db name _ e h).2
  · simpa [substituteMem_length] using (lookup_some isa db name _ e h).2

/-! ## AArch64 write-back -/

/-- **roles_spec (write-back)**: on AArch64 the base register of every pre- or post-indexed memory operand among
    the sources, then among the destinations, is appended to `src_dst` (carrying the memory operand's
    `pre_indexed` / `post_indexed`); `source` and `destination` stay as they are.  x86 has no such step. -/
theorem roles_spec_writeback (db : List IsaEntry) (name : Txt) (ops : List Opnd) :
    semOf .x86 db name ops = baseSem .x86 db name ops ∧
    (semOf .a64 db name ops).src = (baseSem .a64 db name ops).src ∧
    (semOf .a64 db name ops).dst = (baseSem .a64 db name ops).dst ∧
    (semOf .a64 db name ops).srcDst =
      (baseSem .a64 db name ops).srcDst ++ (baseSem .a64 db name ops).src.filterMap wbOf ++
        (baseSem .a64 db name ops).dst.filterMap wbOf := by
  simp [semOf, writeBack]

/-- which register that is: `operands[i].base` of a memory operand with `pre_indexed` or `post_indexed` set -/
theorem writeback_register (x : SemOp) (i : Nat) (b : PReg) (pre post : Bool) (pv : Val) :
    wbOf x = some (.wb i b pre post pv) ↔
      ∃ o m, x = .op i o ∧ o.p = .mem m ∧ (m.post || m.pre) = true ∧ m.base = some b ∧ pre = m.pre ∧ post = m.post ∧
        pv = o.postVal := by
  constructor
  · intro h
    cases x with
    | op j o =>
      cases hp : o.p with
      | mem m =>
        simp only [wbOf, hp] at h
        split at h
        · next hpp =>
          cases hb : m.base with
          | none => simp [hb] at h
          | some b' =>
            simp only [hb, Option.some.injEq, SemOp.wb.injEq] at h
            obtain ⟨h1, h2, h3, h4, h5⟩ := h
            subst h1; subst h2
            exact ⟨o, m, rfl, hp, hpp, hb, h3.symm, h4.symm, h5.symm⟩
        · cases h
      | _ => simp [wbOf, hp] at h
    | hid h' => simp [wbOf] at h
    | wb _ _ _ _ _ => simp [wbOf] at h
  · rintro ⟨o, m, hx, hp, hpp, hb, h3, h4, h5⟩
    subst hx
    simp [wbOf, hp, hpp, hb, h3, h4, h5]

/-! ## every operand lands in exactly one list -/

/-- **roles_partition**: for an instruction with an entry (no idiom) whose `i`-th operand has the flags `r`,
    operand `i` occurs exactly once over the three lists if `r` is a source or a destination, and nowhere if
    it is neither (the branch targets of the AArch64 database). -/
theorem roles_partition (e : IsaEntry) (ops : List Opnd) (hz : (e.brk && adjEq ops) = false)
    (i : Nat) (o : Opnd) (r : Role) (ho : ops[i]? = some o) (hr : e.roles[i]? = some r) :
    occ i (applyEntry e ops).src + occ i (applyEntry e ops).dst + occ i (applyEntry e ops).srcDst =
      if r.src || r.dst then 1 else 0 := by
  simp only [applyEntry, hz, Bool.false_eq_true, if_false, occ_append, occ_pickHidden, Nat.add_zero]
  unfold indexed
  simp only [occ_pick, Nat.zero_le, if_true, Nat.sub_zero, hr, ho, isSrc, isDst, isSrcDst]
  cases r with
  | mk s d => cases s <;> cases d <;> simp

/-- with the zero idiom every operand occurs exactly once, as a destination -/
theorem roles_partition_zero_idiom (e : IsaEntry) (ops : List Opnd) (hb : e.brk = true) (heq : adjEq ops = true)
    (i : Nat) (hi : i < ops.length) :
    occ i (applyEntry e ops).src = 0 ∧ occ i (applyEntry e ops).dst = 1 ∧ occ i (applyEntry e ops).srcDst = 0 := by
  simp only [applyEntry, hb, heq, Bool.and_self, if_true, occ_append, occ_hidden_map, Nat.add_zero]
  unfold indexed
  rw [occ_indexedFrom]
  simp [occ, hi]

/-- the database side of `roles_partition`: every entry of the two shipped ISA databases has one pair of flags
    per operand pattern (so every operand of a matched instruction has a role) -/
theorem db_roles_total :
    (Gen.isaDbX86.all fun e => e.roles.length == e.e.operands.length) = true ∧
    (Gen.isaDbA64.all fun e => e.roles.length == e.e.operands.length) = true := by
  constructor <;> decide +kernel

/-! ## HAS_LD / HAS_ST -/

theorem isMem_of_pick (f : Role → Bool) (roles : List Role) (k : Nat) (ops : List Opnd) :
    (pick f roles (indexedFrom k ops)).any isMem = true ↔
      ∃ (j : Nat) (o : Opnd) (r : Role), ops[j]? = some o ∧ roles[j]? = some r ∧ f r = true ∧ isMemP o.p = true := by
  rw [List.any_eq_true]
  constructor
  · rintro ⟨x, hx, hm⟩
    cases x with
    | op i o =>
      obtain ⟨j, r, _, h2, h3, h4⟩ := (mem_pick f roles k ops i o).mp hx
      exact ⟨j, o, r, h2, h3, h4, by simpa [isMem] using hm⟩
    | hid h => exact absurd hx (hid_not_mem_pick f roles k ops h)
    | wb _ _ _ _ _ => simp [isMem] at hm
  · rintro ⟨j, o, r, h2, h3, h4, h5⟩
    exact ⟨.op (k + j) o, (mem_pick f roles k ops (k + j) o).mpr ⟨j, r, rfl, h2, h3, h4⟩, by simpa [isMem] using h5⟩

theorem isMem_of_pickHidden (f : Role → Bool) (hs : List (HOp × Role)) :
    (pickHidden f hs).any isMem = true ↔ ∃ (b : Option Txt) (i : Option (Option Txt × Txt)) (sc : Int) (off : Bool) (r : Role), (HOp.mem b i sc off, r) ∈ hs ∧ f r = true := by
  rw [List.any_eq_true]
  constructor
  · rintro ⟨x, hx, hm⟩
    cases x with
    | op i o => exact absurd hx (op_not_mem_pickHidden f hs i o)
    | hid h =>
      obtain ⟨r, h1, h2⟩ := (mem_pickHidden f hs h).mp hx
      cases h with
      | mem b i sc off => exact ⟨b, i, sc, off, r, h1, h2⟩
      | _ => simp [isMem] at hm
    | wb _ _ _ _ _ => simp [isMem] at hm
  · rintro ⟨b, i, sc, off, r, h1, h2⟩
    exact ⟨.hid (.mem b i sc off), (mem_pickHidden f hs _).mpr ⟨r, h1, h2⟩, rfl⟩

/-- **has_load_iff**: `HAS_LD` is set iff a memory operand is read — an explicit memory operand whose entry
    operand is a source (alone or together with destination), or a hidden memory operand that is a source. -/
theorem has_load_iff (e : IsaEntry) (ops : List Opnd) (hz : (e.brk && adjEq ops) = false) :
    hasLoad (applyEntry e ops) = true ↔
      (∃ (j : Nat) (o : Opnd) (r : Role), ops[j]? = some o ∧ e.roles[j]? = some r ∧ r.src = true ∧ isMemP o.p = true) ∨
      (∃ (b : Option Txt) (i : Option (Option Txt × Txt)) (sc : Int) (off : Bool) (r : Role), (HOp.mem b i sc off, r) ∈ e.hidden ∧ r.src = true) := by
  simp only [hasLoad, applyEntry, hz, Bool.false_eq_true, if_false, List.any_append, Bool.or_eq_true]
  unfold indexed
  simp only [isMem_of_pick, isMem_of_pickHidden]
  constructor
  · rintro ((⟨j, o, r, h1, h2, h3, h4⟩ | ⟨b, i, sc, off, r, h1, h2⟩) | (⟨j, o, r, h1, h2, h3, h4⟩ | ⟨b, i, sc, off, r, h1, h2⟩))
    · left; exact ⟨j, o, r, h1, h2, by simp [isSrc] at h3; exact h3.1, h4⟩
    · right; exact ⟨b, i, sc, off, r, h1, by simp [hidSrc] at h2; exact h2.1⟩
    · left; exact ⟨j, o, r, h1, h2, by simp [isSrcDst] at h3; exact h3.1, h4⟩
    · right; exact ⟨b, i, sc, off, r, h1, by simp [hidSrcDst] at h2; exact h2.1⟩
  · rintro (⟨j, o, r, h1, h2, h3, h4⟩ | ⟨b, i, sc, off, r, h1, h2⟩)
    · cases hd : r.dst
      · left; left; exact ⟨j, o, r, h1, h2, by simp [isSrc, h3, hd], h4⟩
      · right; left; exact ⟨j, o, r, h1, h2, by simp [isSrcDst, h3, hd], h4⟩
    · cases hd : r.dst
      · left; right; exact ⟨b, i, sc, off, r, h1, by simp [hidSrc, h2, hd]⟩
      · right; right; exact ⟨b, i, sc, off, r, h1, by simp [hidSrcDst, h2, hd]⟩

/-- **has_store_iff**: `HAS_ST` is set iff a memory operand is written — an explicit memory operand whose entry
    operand is a destination, or a hidden memory operand that lands in `destination` / `src_dst`
    (i.e. is not a pure source). -/
theorem has_store_iff (e : IsaEntry) (ops : List Opnd) (hz : (e.brk && adjEq ops) = false) :
    hasStore (applyEntry e ops) = true ↔
      (∃ (j : Nat) (o : Opnd) (r : Role), ops[j]? = some o ∧ e.roles[j]? = some r ∧ r.dst = true ∧ isMemP o.p = true) ∨
      (∃ (b : Option Txt) (i : Option (Option Txt × Txt)) (sc : Int) (off : Bool) (r : Role), (HOp.mem b i sc off, r) ∈ e.hidden ∧ (r.src = false ∨ r.dst = true)) := by
  simp only [hasStore, applyEntry, hz, Bool.false_eq_true, if_false, List.any_append, Bool.or_eq_true]
  unfold indexed
  simp only [isMem_of_pick, isMem_of_pickHidden]
  constructor
  · rintro ((⟨j, o, r, h1, h2, h3, h4⟩ | ⟨b, i, sc, off, r, h1, h2⟩) | (⟨j, o, r, h1, h2, h3, h4⟩ | ⟨b, i, sc, off, r, h1, h2⟩))
    · left; exact ⟨j, o, r, h1, h2, by simp [isDst] at h3; exact h3.2, h4⟩
    · right; exact ⟨b, i, sc, off, r, h1, by simp [hidDst] at h2; exact Or.inl h2⟩
    · left; exact ⟨j, o, r, h1, h2, by simp [isSrcDst] at h3; exact h3.2, h4⟩
    · right; exact ⟨b, i, sc, off, r, h1, by simp [hidSrcDst] at h2; exact Or.inr h2.2⟩
  · rintro (⟨j, o, r, h1, h2, h3, h4⟩ | ⟨b, i, sc, off, r, h1, h2⟩)
    · cases hs : r.src
      · left; left; exact ⟨j, o, r, h1, h2, by simp [isDst, h3, hs], h4⟩
      · right; left; exact ⟨j, o, r, h1, h2, by simp [isSrcDst, h3, hs], h4⟩
    · cases hs : r.src
      · left; right; exact ⟨b, i, sc, off, r, h1, by simp [hidDst, hs]⟩
      · right; right
        rcases h2 with h2 | h2
        · rw [hs] at h2; cases h2
        · exact ⟨b, i, sc, off, r, h1, by simp [hidSrcDst, hs, h2]⟩

/-- the flags are computed after the write-back step, which adds registers only -/
theorem has_load_store_writeback (s : Sem) :
    hasLoad (writeBack s) = hasLoad s ∧ hasStore (writeBack s) = hasStore s := by
  have hwb : ∀ l : List SemOp, (l.filterMap wbOf).any isMem = false := by
    intro l
    rw [List.any_eq_false]
    intro x hx
    obtain ⟨y, _, hy⟩ := List.mem_filterMap.mp hx
    cases y with
    | op i o =>
      cases hp : o.p with
      | mem m =>
        simp only [wbOf, hp] at hy
        split at hy
        · cases hb : m.base with
          | none => simp [hb] at hy
          | some b => simp only [hb, Option.some.injEq] at hy; subst hy; simp [isMem]
        · cases hy
      | _ => simp [wbOf, hp] at hy
    | hid h => simp [wbOf] at hy
    | wb _ _ _ _ _ => simp [wbOf] at hy
  simp [hasLoad, hasStore, writeBack, List.any_append, hwb]

/-- a line without an instruction has no roles and no flags -/
theorem no_instruction (isa : Isa) (db : List IsaEntry) (ops : List Opnd) :
    assignSrcDst isa db none ops = { sem := { src := [], dst := [], srcDst := [] }, hasLd := false, hasSt := false } := rfl

/-! ## register changes (`get_reg_changes`) -/

theorem preIndexed_none (b : Bool) (t : Track) (ops : List Opnd)
    (h : ∀ o ∈ ops, ∀ m, o.p = .mem m → m.pre = false) : preIndexed b t ops = .ok t := by
  induction ops generalizing t with
  | nil => rfl
  | cons o os ih =>
    have ho := h o (by simp)
    have hos : ∀ o' ∈ os, ∀ m, o'.p = .mem m → m.pre = false := fun o' ho' => h o' (by simp [ho'])
    unfold preIndexed
    cases hp : o.p with
    | mem m => simp [ho m hp, ih _ hos]
    | _ => simp [ih _ hos]

theorem mem_dedupKeys {α : Type} (l : List (Txt × α)) (x : Txt × α) (h : x ∈ dedupKeys l) : x ∈ l := by
  induction l with
  | nil => simp [dedupKeys] at h
  | cons a as ih =>
    obtain ⟨k, v⟩ := a
    simp only [dedupKeys, List.mem_cons, List.mem_filter] at h
    rcases h with h | h
    · simp [h]
    · exact List.mem_cons_of_mem _ (ih h.1)

/-- **unknown change**: for an instruction whose ISA entry has no `operation` (or that has no entry) and that has
    no pre-indexed memory operand, every reported destination register is reported as `None`
    ("changed beyond reconstruction"). -/
theorem reg_changes_unknown (isa : Isa) (db : List IsaEntry) (name : Txt) (ops : List Opnd) (sem : Sem)
    (hop : (lookup isa db name (ops.map (·.p))).bind (·.operation) = none)
    (hpre : ∀ o ∈ ops, ∀ m, o.p = .mem m → m.pre = false) :
    regChanges isa db (some name) ops sem false = .ok (dedupKeys ((destNames sem).map fun r => (r, none))) := by
  simp only [regChanges, Bool.false_eq_true, if_false, hop, Option.isSome_none, preIndexed_none _ _ _ hpre]
  have : ∀ r, changeOf ({} : Track) r = none := by intro r; simp [changeOf, nameGet]
  split <;> simp_all

/-- … and so no destination register without operation carries a value -/
theorem reg_changes_unknown_none (isa : Isa) (db : List IsaEntry) (name : Txt) (ops : List Opnd) (sem : Sem)
    (hop : (lookup isa db name (ops.map (·.p))).bind (·.operation) = none)
    (hpre : ∀ o ∈ ops, ∀ m, o.p = .mem m → m.pre = false) (l : List (Txt × Option OpState))
    (hl : regChanges isa db (some name) ops sem false = .ok l) :
    ∀ r c, (r, c) ∈ l → c = none ∧ r ∈ destNames sem := by
  rw [reg_changes_unknown isa db name ops sem hop hpre] at hl
  injection hl with hl
  subst hl
  intro r c hm
  have := mem_dedupKeys _ _ hm
  simp only [List.mem_map, Prod.mk.injEq] at this
  obtain ⟨r', h1, h2, h3⟩ := this
  subst h2
  exact ⟨h3.symm, h1⟩

/-- **with an operation**: the reported change of a destination register is the state of its operand after running
    the entry's program on `op1 …` (registers start at value 0 under their own name, immediates carry their value) -/
theorem reg_changes_program (isa : Isa) (db : List IsaEntry) (name : Txt) (ops : List Opnd) (sem : Sem)
    (e : IsaEntry) (p : Prog) (hl : lookup isa db name (ops.map (·.p)) = some e) (hp : e.operation = some p)
    (hpre : ∀ o ∈ ops, ∀ m, o.p = .mem m → m.pre = false) :
    regChanges isa db (some name) ops sem false =
      match bindOperands 0 e.roles ops {} with
      | .error err => .error err
      | .ok t =>
        match exec t.state p with
        | .error err => .error err
        | .ok s => .ok (dedupKeys ((destNames sem).map fun r => (r, changeOf { t with state := s } r))) := by
  simp only [regChanges, Bool.false_eq_true, if_false, hl, Option.bind_some, hp, Option.isSome_some,
    preIndexed_none _ _ _ hpre]
  cases bindOperands 0 e.roles ops {} with
  | error err => rfl
  | ok t =>
    dsimp only
    cases exec t.state p with
    | error err => rfl
    | ok s => rfl

/-- **post-indexed query**: the first memory operand with a base and a post-index value `v` reports
    `base = base + v`; nothing else is reported -/
theorem reg_changes_post (isa : Isa) (db : List IsaEntry) (name : Txt) (sem : Sem) (pre : List Opnd) (o : Opnd)
    (rest : List Opnd) (m : PMem) (b : PReg) (v : Int)
    (hpre : ∀ x ∈ pre, ∀ m', x.p = .mem m' → m'.post = false)
    (ho : o.p = .mem m) (hb : m.base = some b) (hpost : m.post = true) (hv : o.postVal = .int v) :
    regChanges isa db (some name) (pre ++ o :: rest) sem true =
      .ok [(fullName b.pfx b.name, some { name := some (fullName b.pfx b.name), value := some v })] := by
  simp only [regChanges, if_true]
  induction pre with
  | nil => simp [postChange, ho, hb, hpost, hv, valInt]
  | cons x xs ih =>
    have hx := hpre x (by simp)
    have hxs : ∀ y ∈ xs, ∀ m', y.p = .mem m' → m'.post = false := fun y hy => hpre y (by simp [hy])
    simp only [List.cons_append, postChange]
    cases hp : x.p with
    | mem m' =>
      have := hx m' hp
      cases hbm : m'.base <;> simp [this, ih hxs]
    | _ => simp [ih hxs]

/-- no post-indexed memory operand: the post-indexed query reports nothing -/
theorem reg_changes_post_none (isa : Isa) (db : List IsaEntry) (name : Txt) (sem : Sem) (ops : List Opnd)
    (h : ∀ x ∈ ops, ∀ m', x.p = .mem m' → m'.post = false) :
    regChanges isa db (some name) ops sem true = .ok [] := by
  simp only [regChanges, if_true]
  induction ops with
  | nil => rfl
  | cons x xs ih =>
    have hx := h x (by simp)
    have hxs : ∀ y ∈ xs, ∀ m', y.p = .mem m' → m'.post = false := fun y hy => h y (by simp [hy])
    simp only [postChange]
    cases hp : x.p with
    | mem m' =>
      have := hx m' hp
      cases hbm : m'.base <;> simp [this, ih hxs]
    | _ => simp [ih hxs]

/-- **post-index by a register** (`ld1 {v0.4s}, [x0], x1`, `st1 {v0.16b}, [x2], x3`: `post_indexed` is the parser's
    dictionary WITHOUT a `"value"` key, `Val.absent`): the post-indexed query reports the base register as changed by an
    unknown amount, `{base: None}`, and nothing else — for EVERY base register `b` and EVERY such operand `o` (the
    index register is not read by the query at all: it is part of the operand's identity `o.key` only, and `o` is
    arbitrary), at any operand position behind operands that are not post-indexed.  In particular the query is not
    an error: before the repair of `get_reg_changes` it evaluated `post_indexed["value"]` and raised `KeyError`. -/
theorem reg_changes_post_register (isa : Isa) (db : List IsaEntry) (name : Txt) (sem : Sem) (pre : List Opnd) (o : Opnd)
    (rest : List Opnd) (m : PMem) (b : PReg)
    (hpre : ∀ x ∈ pre, ∀ m', x.p = .mem m' → m'.post = false)
    (ho : o.p = .mem m) (hb : m.base = some b) (hpost : m.post = true) (hv : o.postVal = .absent) :
    regChanges isa db (some name) (pre ++ o :: rest) sem true = .ok [(fullName b.pfx b.name, none)] := by
  simp only [regChanges, if_true]
  induction pre with
  | nil => simp [postChange, ho, hb, hpost, hv]
  | cons x xs ih =>
    have hx := hpre x (by simp)
    have hxs : ∀ y ∈ xs, ∀ m', y.p = .mem m' → m'.post = false := fun y hy => hpre y (by simp [hy])
    simp only [List.cons_append, postChange]
    cases hp : x.p with
    | mem m' =>
      have := hx m' hp
      cases hbm : m'.base <;> simp [this, ih hxs]
    | _ => simp [ih hxs]

/-- **the post-indexed query never raises**: for ALL instructions and operand lists its only failure is a value
    outside the model (`Val.other`: a `"value"` that is not an integer — the parser produces none); `KeyError`,
    `TypeError`, … are unreachable.  (With the unrepaired code the statement is false: see `valInt .absent`.) -/
theorem reg_changes_post_error (isa : Isa) (db : List IsaEntry) (mn : Option Txt) (ops : List Opnd) (sem : Sem) (e : Err)
    (h : regChanges isa db mn ops sem true = .error e) : e = .unsupported ∧ ∃ o ∈ ops, o.postVal = .other := by
  cases mn with
  | none => simp [regChanges] at h
  | some name =>
    simp only [regChanges, if_true] at h
    induction ops with
    | nil => simp [postChange] at h
    | cons x xs ih =>
      have lift : (e = .unsupported ∧ ∃ o ∈ xs, o.postVal = .other) → e = .unsupported ∧ ∃ o ∈ x :: xs, o.postVal = .other :=
        fun ⟨h1, o, ho, h2⟩ => ⟨h1, o, List.mem_cons_of_mem _ ho, h2⟩
      simp only [postChange] at h
      cases hp : x.p with
      | mem m =>
        simp only [hp] at h
        cases hbm : m.base with
        | none => simp only [hbm] at h; exact lift (ih h)
        | some b =>
          cases hpo : m.post with
          | false => simp only [hbm, hpo] at h; exact lift (ih h)
          | true =>
            simp only [hbm, hpo] at h
            cases hv : x.postVal with
            | absent => simp [hv] at h
            | int v => simp [hv, valInt] at h
            | none => simp [hv, valInt] at h
            | other =>
              simp only [hv, valInt] at h
              injection h with h
              exact ⟨h.symm, x, by simp, hv⟩
      | _ => simp only [hp] at h; exact lift (ih h)

/-- … in particular no `KeyError: 'value'`, whatever the operands are -/
theorem reg_changes_post_no_key_error (isa : Isa) (db : List IsaEntry) (mn : Option Txt) (ops : List Opnd) (sem : Sem) :
    regChanges isa db mn ops sem true ≠ .error .keyError := by
  intro h
  have := (reg_changes_post_error isa db mn ops sem _ h).1
  cases this

/-- a line without an instruction changes nothing -/
theorem reg_changes_no_instruction (isa : Isa) (db : List IsaEntry) (ops : List Opnd) (sem : Sem) (b : Bool) :
    regChanges isa db none ops sem b = .ok [] := rfl

/-! ## the translated `operation` programs -/

/-- the program of the entry that `name ops` selects in `db` (empty if there is none) -/
def progOf (isa : Isa) (db : List IsaEntry) (name : Txt) (ops : List POperand) : Prog :=
  ((lookup isa db name ops).bind (·.operation)).getD []

def nAdd : Txt := [97, 100, 100]          -- "add"
def nAddq : Txt := [97, 100, 100, 113]    -- "addq"
def nSub : Txt := [115, 117, 98]          -- "sub"
def nInc : Txt := [105, 110, 99]          -- "inc"
def nDec : Txt := [100, 101, 99]          -- "dec"
def nMov : Txt := [109, 111, 118]         -- "mov"
def nAdds : Txt := [97, 100, 100, 115]    -- "adds"
def nXor : Txt := [120, 111, 114]         -- "xor"
def nLdr : Txt := [108, 100, 114]         -- "ldr"
def nFoo : Txt := [102, 111, 111]         -- "foo" (no entry)
def rax : Txt := [114, 97, 120]
def rbx : Txt := [114, 98, 120]
def tInt : Txt := [105, 110, 116]         -- "int"
def tX : Txt := [120]                     -- "x"

/-- an x86 general purpose register operand -/
def pX86 (n : Txt) : POperand := .reg { name := n }
/-- an AArch64 `x<n>` register operand -/
def pA64 (n : Txt) : POperand := .reg { name := n, pfx := some tX }
/-- `$imm` (x86: no immediate type) / `#imm` (AArch64: type "int") -/
def pImmX86 : POperand := .imm none true false
def pImmA64 : POperand := .imm (some tInt) true false

/-- **op_add_imm** (x86 `add $n, %reg`): `op2['value'] += op1['value']` — for ALL immediates `n`, start values
    `v` and names, the destination operand ends at `v + n` under its own name. -/
theorem op_add_imm (nm : Option Txt) (v n : Int) :
    exec [(1, ⟨none, some n⟩), (2, ⟨nm, some v⟩)] (progOf .x86 Gen.isaDbX86 nAdd [pImmX86, pX86 rax]) =
      .ok [(1, ⟨none, some n⟩), (2, ⟨nm, some (v + n)⟩)] := by
  have h : progOf .x86 Gen.isaDbX86 nAdd [pImmX86, pX86 rax] = [.setValue 2 (.add (.val 2) (.val 1))] := by decide +kernel
  simp [h, exec, step, eval, IsaOp.get, IsaOp.set, arith]

/-- **op_sub_imm** (x86 `sub $n, %reg`): the destination ends at `v - n`. -/
theorem op_sub_imm (nm : Option Txt) (v n : Int) :
    exec [(1, ⟨none, some n⟩), (2, ⟨nm, some v⟩)] (progOf .x86 Gen.isaDbX86 nSub [pImmX86, pX86 rax]) =
      .ok [(1, ⟨none, some n⟩), (2, ⟨nm, some (v - n)⟩)] := by
  have h : progOf .x86 Gen.isaDbX86 nSub [pImmX86, pX86 rax] = [.setValue 2 (.sub (.val 2) (.val 1))] := by decide +kernel
  simp [h, exec, step, eval, IsaOp.get, IsaOp.set, arith]

/-- **op_inc / op_dec** (x86 `inc %reg`, `dec %reg`): `v + 1`, `v - 1`. -/
theorem op_inc (nm : Option Txt) (v : Int) :
    exec [(1, ⟨nm, some v⟩)] (progOf .x86 Gen.isaDbX86 nInc [pX86 rax]) = .ok [(1, ⟨nm, some (v + 1)⟩)] := by
  have h : progOf .x86 Gen.isaDbX86 nInc [pX86 rax] = [.setValue 1 (.add (.val 1) (.lit 1))] := by decide +kernel
  simp [h, exec, step, eval, IsaOp.get, IsaOp.set, arith]

theorem op_dec (nm : Option Txt) (v : Int) :
    exec [(1, ⟨nm, some v⟩)] (progOf .x86 Gen.isaDbX86 nDec [pX86 rax]) = .ok [(1, ⟨nm, some (v - 1)⟩)] := by
  have h : progOf .x86 Gen.isaDbX86 nDec [pX86 rax] = [.setValue 1 (.sub (.val 1) (.lit 1))] := by decide +kernel
  simp [h, exec, step, eval, IsaOp.get, IsaOp.set, arith]

/-- **op_mov** (x86 `mov %src, %dst`): the destination takes over the source's name AND value (a register copy
    is tracked as "dst = src + its change", never as an unknown). -/
theorem op_mov_x86 (ns nd : Txt) (vs vd : Option Int) :
    exec [(1, ⟨some ns, vs⟩), (2, ⟨some nd, vd⟩)] (progOf .x86 Gen.isaDbX86 nMov [pX86 rax, pX86 rbx]) =
      .ok [(1, ⟨some ns, vs⟩), (2, ⟨some ns, vs⟩)] := by
  have h : progOf .x86 Gen.isaDbX86 nMov [pX86 rax, pX86 rbx] = [.setName 2 1, .setValue 2 (.val 1)] := by decide +kernel
  simp [h, exec, step, eval, IsaOp.get, IsaOp.set]

/-- **op_add_imm (AArch64 `add xd, xn, #imm`)**: `op1 = (name of op2, value of op2 + imm)`. -/
theorem op_add_imm_a64 (nd nn : Txt) (vd : Option Int) (v n : Int) :
    exec [(1, ⟨some nd, vd⟩), (2, ⟨some nn, some v⟩), (3, ⟨none, some n⟩)]
        (progOf .a64 Gen.isaDbA64 nAdd [pA64 [48], pA64 [49], pImmA64]) =
      .ok [(1, ⟨some nn, some (v + n)⟩), (2, ⟨some nn, some v⟩), (3, ⟨none, some n⟩)] := by
  have h : progOf .a64 Gen.isaDbA64 nAdd [pA64 [48], pA64 [49], pImmA64] =
      [.setValue 1 (.add (.val 2) (.val 3)), .setName 1 2] := by decide +kernel
  simp [h, exec, step, eval, IsaOp.get, IsaOp.set, arith]

theorem op_sub_imm_a64 (nd nn : Txt) (vd : Option Int) (v n : Int) :
    exec [(1, ⟨some nd, vd⟩), (2, ⟨some nn, some v⟩), (3, ⟨none, some n⟩)]
        (progOf .a64 Gen.isaDbA64 nSub [pA64 [48], pA64 [49], pImmA64]) =
      .ok [(1, ⟨some nn, some (v - n)⟩), (2, ⟨some nn, some v⟩), (3, ⟨none, some n⟩)] := by
  have h : progOf .a64 Gen.isaDbA64 nSub [pA64 [48], pA64 [49], pImmA64] =
      [.setValue 1 (.sub (.val 2) (.val 3)), .setName 1 2] := by decide +kernel
  simp [h, exec, step, eval, IsaOp.get, IsaOp.set, arith]

theorem op_mov_a64 (nd ns : Txt) (vd vs : Option Int) :
    exec [(1, ⟨some nd, vd⟩), (2, ⟨some ns, vs⟩)] (progOf .a64 Gen.isaDbA64 nMov [pA64 [48], pA64 [49]]) =
      .ok [(1, ⟨some ns, vs⟩), (2, ⟨some ns, vs⟩)] := by
  have h : progOf .a64 Gen.isaDbA64 nMov [pA64 [48], pA64 [49]] = [.setName 1 2, .setValue 1 (.val 2)] := by decide +kernel
  simp [h, exec, step, eval, IsaOp.get, IsaOp.set]

/-- every `operation` of the two databases sits on an entry whose operand patterns are registers and immediates
    only: each `opN` the program mentions is bound, and a pre-indexed memory form never meets an operation -/
def opEntryOk (e : IsaEntry) : Bool :=
  e.operation.isNone || e.e.operands.all fun o => match o with
    | .reg _ _ _ => true
    | .imm _ => true
    | _ => false

theorem db_operations_on_register_forms :
    (Gen.isaDbX86.all opEntryOk) = true ∧ (Gen.isaDbA64.all opEntryOk) = true := by
  constructor <;> decide +kernel

/-! ## end to end on the shipped databases, for ALL immediates -/

def isFlagH : HOp × Role → Bool
  | (.flag _, _) => true
  | _ => false

/-- the lookup result is an entry with these roles and this program, no idiom flag, flag-only hidden operands -/
def entryIs (r : Option IsaEntry) (roles : List Role) (op : Option Prog) : Bool :=
  match r with
  | some e => e.roles == roles && e.operation == op && !e.brk && e.hidden.all isFlagH
  | none => false

theorem entryIs_spec (r : Option IsaEntry) (roles : List Role) (op : Option Prog) (h : entryIs r roles op = true) :
    ∃ e, r = some e ∧ e.roles = roles ∧ e.operation = op ∧ e.brk = false ∧ e.hidden.all isFlagH = true := by
  cases r with
  | none => simp [entryIs] at h
  | some e =>
    simp only [entryIs, Bool.and_eq_true, beq_iff_eq, Bool.not_eq_true'] at h
    exact ⟨e, rfl, h.1.1.1, h.1.1.2, h.1.2, h.2⟩

theorem destName_pickHidden_flags (f : Role → Bool) (hs : List (HOp × Role)) (h : hs.all isFlagH = true) :
    (pickHidden f hs).filterMap destName = [] := by
  rw [List.filterMap_eq_nil_iff]
  intro x hx
  simp only [pickHidden, List.mem_map, List.mem_filter] at hx
  obtain ⟨⟨hd, r⟩, ⟨hm, _⟩, rfl⟩ := hx
  have := List.all_eq_true.mp h _ hm
  cases hd <;> simp_all [isFlagH, destName]

/-- destinations reported for an entry without idiom whose hidden operands are flags: the explicit ones -/
theorem destNames_entry (e : IsaEntry) (ops : List Opnd) (hb : e.brk = false) (hf : e.hidden.all isFlagH = true) :
    destNames (applyEntry e ops) =
      (pick isDst e.roles (indexed ops)).filterMap destName ++ (pick isSrcDst e.roles (indexed ops)).filterMap destName := by
  simp [destNames, applyEntry, hb, List.filterMap_append, destName_pickHidden_flags _ _ hf]

/-- without a memory operand among the explicit operands the write-back step changes nothing -/
theorem writeBack_noMem (e : IsaEntry) (ops : List Opnd) (h : ∀ o ∈ ops, isMemP o.p = false) :
    writeBack (applyEntry e ops) = applyEntry e ops := by
  have key : ∀ l : List SemOp, (∀ i o, SemOp.op i o ∈ l → o ∈ ops) → l.filterMap wbOf = [] := by
    intro l hl
    rw [List.filterMap_eq_nil_iff]
    intro x hx
    cases x with
    | op i o =>
      have hm := h o (hl i o hx)
      cases hp : o.p <;> simp_all [wbOf, isMemP]
    | hid _ => rfl
    | wb _ _ _ _ _ => rfl
  have hidx : ∀ i o, SemOp.op i o ∈ indexed ops → o ∈ ops := by
    intro i o hm
    exact List.mem_of_getElem? ((mem_indexed ops i o).mp hm)
  have hpick : ∀ (f : Role → Bool) i o, SemOp.op i o ∈ pick f e.roles (indexed ops) → o ∈ ops := by
    intro f i o hm
    obtain ⟨j, r, _, h2, _, _⟩ := (mem_pick f e.roles 0 ops i o).mp hm
    exact List.mem_of_getElem? h2
  have hsrc : (applyEntry e ops).src.filterMap wbOf = [] := by
    apply key
    intro i o hm
    simp only [applyEntry] at hm
    split at hm
    · simp at hm
    · simp only [List.mem_append, op_not_mem_pickHidden, or_false] at hm
      exact hpick _ i o hm
  have hdst : (applyEntry e ops).dst.filterMap wbOf = [] := by
    apply key
    intro i o hm
    simp only [applyEntry] at hm
    split at hm
    · simp only [List.mem_append, List.mem_map] at hm
      rcases hm with hm | ⟨_, _, hc⟩
      · exact hidx i o hm
      · cases hc
    · simp only [List.mem_append, op_not_mem_pickHidden, or_false] at hm
      exact hpick _ i o hm
  simp [writeBack, hsrc, hdst]

def oImmX86 (n : Int) : Opnd := { p := pImmX86, key := [36], val := .int n }
def oImmA64 (n : Int) : Opnd := { p := pImmA64, key := [35], val := .int n }
def oX86 (nm : Txt) : Opnd := { p := pX86 nm, key := nm }
def oA64 (nm : Txt) : Opnd := { p := pA64 nm, key := 120 :: nm }

/-- **`addq $n, %rax`** (AT&T suffix fall-back to the entry `add imm, gpr` of isa/x86.yml): for every immediate
    `n` the analysis reports `rax = rax + n` — roles from `assign_src_dst`, change from `get_reg_changes`. -/
theorem x86_addq_imm_changes (n : Int) :
    regChanges .x86 Gen.isaDbX86 (some nAddq) [oImmX86 n, oX86 rax]
        (assignSrcDst .x86 Gen.isaDbX86 (some nAddq) [oImmX86 n, oX86 rax]).sem false =
      .ok [(rax, some ⟨some rax, some n⟩)] := by
  have hk : entryIs (lookup .x86 Gen.isaDbX86 nAddq [pImmX86, pX86 rax]) [⟨true, false⟩, ⟨true, true⟩]
      (some [.setValue 2 (.add (.val 2) (.val 1))]) = true := by decide +kernel
  obtain ⟨e, hl, hr, hp, hb, hf⟩ := entryIs_spec _ _ _ hk
  have hl' : lookup .x86 Gen.isaDbX86 nAddq ([oImmX86 n, oX86 rax].map (·.p)) = some e := by
    simpa [oImmX86, oX86] using hl
  have hsem : (assignSrcDst .x86 Gen.isaDbX86 (some nAddq) [oImmX86 n, oX86 rax]).sem = applyEntry e [oImmX86 n, oX86 rax] := by
    simp only [assignSrcDst, semOf]
    exact roles_entry_direct _ _ _ _ e hl'
  rw [reg_changes_program .x86 Gen.isaDbX86 nAddq _ _ e _ hl' hp (by simp [oImmX86, oX86, pImmX86, pX86])]
  rw [hsem, destNames_entry e _ hb hf, hr]
  simp [bindOperands, oImmX86, oX86, pImmX86, pX86, valInt, nameGet, nameSet, statePut, fullName, exec, step, eval,
    IsaOp.get, IsaOp.set, arith, pick, indexed, indexedFrom, isDst, isSrcDst, destName, dedupKeys, changeOf,
    show Gen.opIndexBase = 1 from rfl, show Gen.regInitValue = 0 from rfl]

/-- **`add x1, x1, #n`** (isa/aarch64.yml): for every immediate `n` the analysis reports `x1 = x1 + n`
    (the register is source and destination; it is tracked through its destination operand). -/
theorem a64_add_imm_changes (n : Int) :
    regChanges .a64 Gen.isaDbA64 (some nAdd) [oA64 [49], oA64 [49], oImmA64 n]
        (assignSrcDst .a64 Gen.isaDbA64 (some nAdd) [oA64 [49], oA64 [49], oImmA64 n]).sem false =
      .ok [(120 :: [49], some ⟨some (120 :: [49]), some n⟩)] := by
  have hk : entryIs (lookup .a64 Gen.isaDbA64 nAdd [pA64 [49], pA64 [49], pImmA64])
      [⟨false, true⟩, ⟨true, false⟩, ⟨true, false⟩]
      (some [.setValue 1 (.add (.val 2) (.val 3)), .setName 1 2]) = true := by decide +kernel
  obtain ⟨e, hl, hr, hp, hb, hf⟩ := entryIs_spec _ _ _ hk
  have hl' : lookup .a64 Gen.isaDbA64 nAdd ([oA64 [49], oA64 [49], oImmA64 n].map (·.p)) = some e := by
    simpa [oImmA64, oA64] using hl
  have hsem : (assignSrcDst .a64 Gen.isaDbA64 (some nAdd) [oA64 [49], oA64 [49], oImmA64 n]).sem =
      applyEntry e [oA64 [49], oA64 [49], oImmA64 n] := by
    simp only [assignSrcDst, semOf, roles_entry_direct _ _ _ _ e hl']
    exact writeBack_noMem e _ (by simp [oA64, oImmA64, pA64, pImmA64, isMemP])
  rw [reg_changes_program .a64 Gen.isaDbA64 nAdd _ _ e _ hl' hp (by simp [oImmA64, oA64, pImmA64, pA64])]
  rw [hsem, destNames_entry e _ hb hf, hr]
  simp [bindOperands, oImmA64, oA64, pImmA64, pA64, valInt, nameGet, nameSet, statePut, fullName, exec, step, eval,
    IsaOp.get, IsaOp.set, arith, pick, indexed, indexedFrom, isDst, isSrcDst, destName, dedupKeys, changeOf, tX,
    show Gen.opIndexBase = 1 from rfl, show Gen.regInitValue = 0 from rfl]

/-! ## AArch64: the lookup never reads a register's number, so the statements hold for ALL registers -/

def renameR (f : Txt → Txt) (r : PReg) : PReg := { r with name := f r.name }

/-- the same operand with other register numbers -/
def renameP (f : Txt → Txt) : POperand → POperand
  | .reg r => .reg (renameR f r)
  | .mem m => .mem { m with base := m.base.map (renameR f), index := m.index.map (renameR f) }
  | o => o

theorem checkOperand_a64_rename (f : Txt → Txt) (e : EOperand) (o : POperand) :
    Match.checkOperand .a64 e (renameP f o) = Match.checkOperand .a64 e o := by
  cases o with
  | reg r => cases e <;> simp [renameP, renameR, Match.checkOperand, Match.checkA64, Match.a64RegType]
  | mem m =>
    cases e with
    | mem b off i s pre post =>
      simp only [renameP, Match.checkOperand, Match.checkA64, Match.a64MemType]
      cases hb : m.base <;> cases hi : m.index <;> simp [Match.a64BaseOk, Match.a64IndexOk, renameR]
    | _ => simp [renameP, Match.checkOperand, Match.checkA64]
  | _ => rfl

theorem matchOperands_a64_rename (f : Txt → Txt) (es : List EOperand) (os : List POperand) :
    Match.matchOperands .a64 es (os.map (renameP f)) = Match.matchOperands .a64 es os := by
  induction es generalizing os with
  | nil => cases os <;> simp [Match.matchOperands]
  | cons e es ih =>
    cases os with
    | nil => simp [Match.matchOperands]
    | cons o os => simp [Match.matchOperands, checkOperand_a64_rename, ih]

/-- **the AArch64 lookup is blind to register numbers** (only prefix, shape and lanes are compared) -/
theorem lookup_a64_rename (f : Txt → Txt) (db : List IsaEntry) (name : Txt) (os : List POperand) :
    lookup .a64 db name (os.map (renameP f)) = lookup .a64 db name os := by
  have h : ∀ n, getInstruction .a64 db n (os.map (renameP f)) = getInstruction .a64 db n os := by
    intro n
    simp [getInstruction, Match.entryMatches, matchOperands_a64_rename]
  simp [lookup, h]

/-- **`add xd, xn, #imm` for ALL registers and ALL immediates** (isa/aarch64.yml): the destination is reported as
    `xn + imm` — under the SOURCE register's name, also when `d = n` (pointer increment). -/
theorem a64_add_imm_changes_all (d s : Txt) (n : Int) :
    regChanges .a64 Gen.isaDbA64 (some nAdd) [oA64 d, oA64 s, oImmA64 n]
        (assignSrcDst .a64 Gen.isaDbA64 (some nAdd) [oA64 d, oA64 s, oImmA64 n]).sem false =
      .ok [(120 :: d, some ⟨some (120 :: s), some n⟩)] := by
  have hk : entryIs (lookup .a64 Gen.isaDbA64 nAdd [pA64 [48], pA64 [49], pImmA64])
      [⟨false, true⟩, ⟨true, false⟩, ⟨true, false⟩]
      (some [.setValue 1 (.add (.val 2) (.val 3)), .setName 1 2]) = true := by decide +kernel
  have hren : lookup .a64 Gen.isaDbA64 nAdd [pA64 d, pA64 s, pImmA64] =
      lookup .a64 Gen.isaDbA64 nAdd [pA64 [48], pA64 [49], pImmA64] := by
    have := lookup_a64_rename (fun t => if t = [48] then d else s) Gen.isaDbA64 nAdd [pA64 [48], pA64 [49], pImmA64]
    simpa [renameP, renameR, pA64, pImmA64] using this
  rw [← hren] at hk
  obtain ⟨e, hl, hr, hp, hb, hf⟩ := entryIs_spec _ _ _ hk
  have hl' : lookup .a64 Gen.isaDbA64 nAdd ([oA64 d, oA64 s, oImmA64 n].map (·.p)) = some e := by
    simpa [oImmA64, oA64] using hl
  have hsem : (assignSrcDst .a64 Gen.isaDbA64 (some nAdd) [oA64 d, oA64 s, oImmA64 n]).sem =
      applyEntry e [oA64 d, oA64 s, oImmA64 n] := by
    simp only [assignSrcDst, semOf, roles_entry_direct _ _ _ _ e hl']
    exact writeBack_noMem e _ (by simp [oA64, oImmA64, pA64, pImmA64, isMemP])
  rw [reg_changes_program .a64 Gen.isaDbA64 nAdd _ _ e _ hl' hp (by simp [oImmA64, oA64, pImmA64, pA64])]
  rw [hsem, destNames_entry e _ hb hf, hr]
  by_cases hds : d = s
  · subst hds
    simp [bindOperands, oImmA64, oA64, pImmA64, pA64, valInt, nameGet, nameSet, statePut, fullName, exec, step, eval,
      IsaOp.get, IsaOp.set, arith, pick, indexed, indexedFrom, isDst, isSrcDst, destName, dedupKeys, changeOf, tX,
      show Gen.opIndexBase = 1 from rfl, show Gen.regInitValue = 0 from rfl]
  · have hne : (120 :: d == 120 :: s) = false := by simpa using hds
    simp [bindOperands, oImmA64, oA64, pImmA64, pA64, valInt, nameGet, nameSet, statePut, fullName, exec, step, eval,
      IsaOp.get, IsaOp.set, arith, pick, indexed, indexedFrom, isDst, isSrcDst, destName, dedupKeys, changeOf, tX,
      hne, show Gen.opIndexBase = 1 from rfl, show Gen.regInitValue = 0 from rfl]

/-! ## post-index by a register: `ld1 {vV.4s}, [xB], xI` for ALL registers -/

def nLd1 : Txt := [108, 100, 49]         -- "ld1"
def nSt1 : Txt := [115, 116, 49]         -- "st1"
def tV : Txt := [118]                     -- "v"

/-- `vN.4s` (a one-element register list is expanded to its member by the parser) -/
def pV4s (n : Txt) : POperand := .reg { name := n, pfx := some tV, shape := some [115], lanes := some [52] }
def oV4s (n : Txt) : Opnd := { p := pV4s n, key := 118 :: n }
/-- `[xB], xI`: post-indexed by the register `xI` — `post_indexed` is a dictionary without `"value"`;
    the index register shows in the operand's identity only -/
def pMemPost (b : Txt) : POperand :=
  .mem { base := some { name := b, pfx := some tX }, offset := .none, index := none, scale := 1, pre := false, post := true }
def oMemPostReg (b i : Txt) : Opnd := { p := pMemPost b, key := 109 :: (b ++ 44 :: i), postVal := .absent }

/-- **`ld1 {vV.4s}, [xB], xI` for ALL registers V, B, I** (isa/aarch64.yml has no entry for `ld1`: default roles):
    the vector register is the destination, the memory operand the source (`HAS_LD`), and the base `xB` is appended
    to `src_dst` with the post-index mark — it is read AND written, so dependency edges through the written-back
    base exist and carry `p_index_latency`; the post-indexed query reports `xB` as changed by an unknown amount
    (`{xB: None}`, never an error); the full query leaves the base out and reports the loaded register as unknown. -/
theorem a64_ld1_post_register_all (v b i : Txt) :
    assignSrcDst .a64 Gen.isaDbA64 (some nLd1) [oV4s v, oMemPostReg b i] =
      { sem := { src := [.op 1 (oMemPostReg b i)], dst := [.op 0 (oV4s v)],
                 srcDst := [.wb 1 { name := b, pfx := some tX } false true .absent] },
        hasLd := true, hasSt := false } ∧
    regChanges .a64 Gen.isaDbA64 (some nLd1) [oV4s v, oMemPostReg b i]
        (assignSrcDst .a64 Gen.isaDbA64 (some nLd1) [oV4s v, oMemPostReg b i]).sem true = .ok [(120 :: b, none)] ∧
    regChanges .a64 Gen.isaDbA64 (some nLd1) [oV4s v, oMemPostReg b i]
        (assignSrcDst .a64 Gen.isaDbA64 (some nLd1) [oV4s v, oMemPostReg b i]).sem false = .ok [(118 :: v, none)] := by
  have hk : lookup .a64 Gen.isaDbA64 nLd1 [pV4s [48], pMemPost [49]] = none ∧
      lookup .a64 Gen.isaDbA64 nLd1 (substituteMem [pV4s [48], pMemPost [49]]) = none := by
    constructor <;> decide +kernel
  have h1 : lookup .a64 Gen.isaDbA64 nLd1 ([oV4s v, oMemPostReg b i].map (·.p)) = none := by
    have := lookup_a64_rename (fun t => if t = [48] then v else b) Gen.isaDbA64 nLd1 [pV4s [48], pMemPost [49]]
    rw [hk.1] at this
    simpa [renameP, renameR, pV4s, pMemPost, oV4s, oMemPostReg] using this
  have h2 : lookup .a64 Gen.isaDbA64 nLd1 (substituteMem ([oV4s v, oMemPostReg b i].map (·.p))) = none := by
    have := lookup_a64_rename (fun t => if t = [48] then v else b) Gen.isaDbA64 nLd1 (substituteMem [pV4s [48], pMemPost [49]])
    rw [hk.2] at this
    simpa [renameP, renameR, pV4s, pMemPost, oV4s, oMemPostReg, substituteMem] using this
  have hsem : (assignSrcDst .a64 Gen.isaDbA64 (some nLd1) [oV4s v, oMemPostReg b i]).sem =
      { src := [.op 1 (oMemPostReg b i)], dst := [.op 0 (oV4s v)],
        srcDst := [.wb 1 { name := b, pfx := some tX } false true .absent] } := by
    simp only [assignSrcDst, semOf, roles_default_iff _ _ _ _ h1 h2,
      roles_spec_default_a64 (oV4s v) [oMemPostReg b i] (by simp)]
    simp [writeBack, wbOf, indexedFrom, oMemPostReg, pMemPost, oV4s, pV4s]
  refine ⟨?_, ?_, ?_⟩
  · have hs := hsem
    simp only [assignSrcDst] at hs ⊢
    rw [hs]
    simp [hasLoad, hasStore, isMem, isMemP, oMemPostReg, pMemPost, oV4s, pV4s]
  · exact reg_changes_post_register .a64 Gen.isaDbA64 nLd1 _ [oV4s v] (oMemPostReg b i) [] _ { name := b, pfx := some tX }
      (by simp [oV4s, pV4s]) rfl rfl rfl rfl
  · rw [reg_changes_unknown .a64 Gen.isaDbA64 nLd1 _ _ (by rw [h1]; rfl) (by simp [oV4s, pV4s, oMemPostReg, pMemPost]), hsem]
    simp [destNames, destName, oV4s, pV4s, fullName, tV, dedupKeys]

/-! ## the pre-indexed write-back -/

theorem preIndexed_append_pre (t : Track) (pre rest : List Opnd)
    (h : ∀ x ∈ pre, ∀ m', x.p = .mem m' → m'.pre = false) :
    preIndexed false t (pre ++ rest) = preIndexed false t rest := by
  induction pre generalizing t with
  | nil => rfl
  | cons x xs ih =>
    have hx := h x (by simp)
    have hxs : ∀ y ∈ xs, ∀ m', y.p = .mem m' → m'.pre = false := fun y hy => h y (by simp [hy])
    cases hp : x.p with
    | mem m' => simp [preIndexed, hp, hx m' hp, ih _ hxs]
    | _ => simp [preIndexed, hp, ih _ hxs]

/-- **pre-indexed access** (`ldr x1, [x2, #v]!`, entry without operation): the base register is reported as
    `base = base + v`, with the offset's own sign; every other destination register is unknown. -/
theorem reg_changes_pre_indexed (isa : Isa) (db : List IsaEntry) (name : Txt) (sem : Sem) (pre : List Opnd) (o : Opnd)
    (rest : List Opnd) (m : PMem) (b : PReg) (v : Int)
    (hop : (lookup isa db name ((pre ++ o :: rest).map (·.p))).bind (·.operation) = none)
    (hpre : ∀ x ∈ pre ++ rest, ∀ m', x.p = .mem m' → m'.pre = false)
    (ho : o.p = .mem m) (hp : m.pre = true) (hb : m.base = some b) (hv : o.off = .imm (.int v)) :
    regChanges isa db (some name) (pre ++ o :: rest) sem false =
      .ok (dedupKeys ((destNames sem).map fun r =>
        (r, if fullName b.pfx b.name = r then some { name := some (fullName b.pfx b.name), value := some v } else none))) := by
  have h1 : ∀ x ∈ pre, ∀ m', x.p = .mem m' → m'.pre = false := fun x hx => hpre x (by simp [hx])
  have h2 : ∀ x ∈ rest, ∀ m', x.p = .mem m' → m'.pre = false := fun x hx => hpre x (by simp [hx])
  have hch : ∀ r, changeOf (Track.mk [(fullName b.pfx b.name, Gen.preIndexedOp)]
        [(Gen.preIndexedOp, OpState.mk (some (fullName b.pfx b.name)) (some v))]) r =
      if fullName b.pfx b.name = r then some (OpState.mk (some (fullName b.pfx b.name)) (some v)) else none := by
    intro r
    by_cases hr : fullName b.pfx b.name = r
    · simp [changeOf, nameGet, IsaOp.get, hr]
    · simp [changeOf, nameGet, hr]
  simp only [regChanges, Bool.false_eq_true, if_false, hop, Option.isSome_none]
  rw [preIndexed_append_pre _ _ _ h1]
  simp only [preIndexed, ho, hp, if_true, hb, hv, valInt, Bool.false_eq_true, if_false]
  rw [preIndexed_none _ _ _ h2]
  split <;> simp_all

/-! ## `get_reg_changes` cannot hit its "pre-indexed instruction has operation set" error on the shipped databases -/

theorem arith_ne_valueError (f : Int → Int → Int) (a b : Option Int) : arith f a b ≠ .error .valueError := by
  cases a <;> cases b <;> simp [arith]

theorem eval_ne_valueError (s : State) (e : Expr) : eval s e ≠ .error .valueError := by
  induction e with
  | lit n => simp [eval]
  | val n => simp only [eval]; split <;> simp
  | add a b iha ihb =>
    simp only [eval]
    split
    · next err he => intro h; injection h with h; subst h; exact iha he
    · split
      · next err he => intro h; injection h with h; subst h; exact ihb he
      · exact arith_ne_valueError _ _ _
  | sub a b iha ihb =>
    simp only [eval]
    split
    · next err he => intro h; injection h with h; subst h; exact iha he
    · split
      · next err he => intro h; injection h with h; subst h; exact ihb he
      · exact arith_ne_valueError _ _ _

theorem step_ne_valueError (s : State) (st : Stmt) : step s st ≠ .error .valueError := by
  cases st with
  | setValue n e =>
    simp only [step]
    split
    · next err he => intro h; injection h with h; subst h; exact eval_ne_valueError s e he
    · split <;> simp
  | setName n m =>
    simp only [step]
    split
    · simp
    · split
      · simp
      · split <;> simp

theorem exec_ne_valueError (s : State) (p : Prog) : exec s p ≠ .error .valueError := by
  induction p generalizing s with
  | nil => simp [exec]
  | cons st rest ih =>
    simp only [exec]
    split
    · next err he => intro h; injection h with h; subst h; exact step_ne_valueError s st he
    · exact ih _

theorem bindOperands_ne_valueError (i : Nat) (roles : List Role) (ops : List Opnd) (t : Track) :
    bindOperands i roles ops t ≠ .error .valueError := by
  induction ops generalizing i roles t with
  | nil => simp [bindOperands]
  | cons o os ih =>
    unfold bindOperands
    cases hp : o.p with
    | reg r => simp only []; exact ih _ _ _
    | imm a b c =>
      simp only []
      cases hv : o.val <;> simp [valInt, ih]
    | _ => simp only []; exact ih _ _ _

theorem valInt_ne_valueError (v : Val) : valInt v ≠ .error .valueError := by
  cases v <;> simp [valInt]

theorem preIndexed_false_ne_valueError (t : Track) (ops : List Opnd) : preIndexed false t ops ≠ .error .valueError := by
  induction ops generalizing t with
  | nil => simp [preIndexed]
  | cons o os ih =>
    unfold preIndexed
    cases hp : o.p with
    | mem m =>
      simp only [Bool.false_eq_true, if_false]
      cases hpre : m.pre with
      | false => simp only [Bool.false_eq_true, if_false]; exact ih _
      | true =>
        simp only [if_true]
        cases hb : m.base with
        | none => simp
        | some b =>
          simp only []
          cases ho : o.off with
          | imm v =>
            simp only []
            cases hv : valInt v with
            | error e =>
              simp only []
              intro h
              injection h with h
              subst h
              exact valInt_ne_valueError _ hv
            | ok x => simp only []; exact ih _
          | absent => simp
          | obj => simp
    | _ => simp only []; exact ih _

def regOrImm : EOperand → Bool
  | .reg _ _ _ => true
  | .imm _ => true
  | _ => false

/-- a register or immediate pattern never matches a memory operand -/
theorem matchOperands_noMem (isa : Isa) (es : List EOperand) (os : List POperand)
    (h : Match.matchOperands isa es os = true) (hes : es.all regOrImm = true) : os.any isMemP = false := by
  induction es generalizing os with
  | nil =>
    cases os with
    | nil => rfl
    | cons o os => simp [Match.matchOperands] at h
  | cons e es ih =>
    cases os with
    | nil => simp [Match.matchOperands] at h
    | cons o os =>
      simp only [Match.matchOperands, Bool.and_eq_true] at h
      simp only [List.all_cons, Bool.and_eq_true] at hes
      simp only [List.any_cons, Bool.or_eq_false_iff]
      refine ⟨?_, ih os h.2 hes.2⟩
      cases o with
      | mem m =>
        have := h.1
        cases e <;> cases isa <;> simp_all [Match.checkOperand, Match.checkX86, Match.checkA64, regOrImm]
      | _ => rfl

theorem getInstruction_match (isa : Isa) (db : List IsaEntry) (name : Txt) (ops : List POperand) (e : IsaEntry)
    (h : getInstruction isa db name ops = some e) : Match.matchOperands isa e.e.operands ops = true := by
  unfold getInstruction at h
  have h1 := List.find?_some h
  simp only [Match.entryMatches, Bool.and_eq_true] at h1
  exact h1.2

theorem lookup_match (isa : Isa) (db : List IsaEntry) (name : Txt) (ops : List POperand) (e : IsaEntry)
    (h : lookup isa db name ops = some e) : Match.matchOperands isa e.e.operands ops = true := by
  unfold lookup at h
  split at h
  · next e' he' => injection h with h; subst h; exact getInstruction_match isa db name ops _ he'
  · split at h
    · exact getInstruction_match isa db _ ops e h
    · cases h

theorem opEntryOk_spec (e : IsaEntry) (p : Prog) (h : opEntryOk e = true) (hp : e.operation = some p) :
    e.e.operands.all regOrImm = true := by
  simp only [opEntryOk, hp, Option.isNone_some, Bool.false_or] at h
  rw [List.all_eq_true] at h ⊢
  intro x hx
  have := h x hx
  cases x <;> simp_all [regOrImm]

/-- **no ValueError**: in a database whose operations sit on register/immediate forms only (both shipped databases,
    `db_operations_on_register_forms`), the full query never raises "ISA information for pre_indexed instruction has
    operation set": an instruction that selects an entry with an operation has no memory operand at all. -/
theorem reg_changes_no_value_error (isa : Isa) (db : List IsaEntry) (hdb : db.all opEntryOk = true)
    (name : Txt) (ops : List Opnd) (sem : Sem) :
    regChanges isa db (some name) ops sem false ≠ .error .valueError := by
  simp only [regChanges, Bool.false_eq_true, if_false]
  cases hl : lookup isa db name (ops.map (·.p)) with
  | none =>
    simp only [Option.bind_none, Option.isSome_none]
    split
    · next err he => intro h; injection h with h; subst h; exact preIndexed_false_ne_valueError _ _ he
    · simp
  | some e =>
    cases hp : e.operation with
    | none =>
      simp only [Option.bind_some, hp, Option.isSome_none]
      split
      · next err he => intro h; injection h with h; subst h; exact preIndexed_false_ne_valueError _ _ he
      · simp
    | some p =>
      have hin := (lookup_some isa db name _ e hl).1
      have hok := List.all_eq_true.mp hdb e hin
      have hnm := matchOperands_noMem isa _ _ (lookup_match isa db name _ e hl) (opEntryOk_spec e p hok hp)
      have hpre : ∀ o ∈ ops, ∀ m, o.p = .mem m → m.pre = false := by
        intro o ho m hm
        rw [List.any_eq_false] at hnm
        have := hnm o.p (List.mem_map.mpr ⟨o, ho, rfl⟩)
        simp [hm, isMemP] at this
      simp only [Option.bind_some, hp, Option.isSome_some, preIndexed_none _ _ _ hpre]
      cases hb : bindOperands 0 e.roles ops {} with
      | error err =>
        simp only []
        intro h; injection h with h; subst h; exact bindOperands_ne_valueError _ _ _ _ hb
      | ok t =>
        simp only []
        cases hx : exec t.state p with
        | error err =>
          simp only []
          intro h; injection h with h; subst h; exact exec_ne_valueError _ _ hx
        | ok s => simp

/-- … instantiated with the two shipped databases -/
theorem shipped_no_value_error (name : Txt) (ops : List Opnd) (sem : Sem) :
    regChanges .x86 Gen.isaDbX86 (some name) ops sem false ≠ .error .valueError ∧
    regChanges .a64 Gen.isaDbA64 (some name) ops sem false ≠ .error .valueError :=
  ⟨reg_changes_no_value_error _ _ db_operations_on_register_forms.1 _ _ _,
   reg_changes_no_value_error _ _ db_operations_on_register_forms.2 _ _ _⟩

/-! ## non-vacuity: the hypotheses are satisfiable, and the shipped databases give the expected roles -/

deriving instance DecidableEq for Except

def rdx : Txt := [114, 100, 120]
def rsp : Txt := [114, 115, 112]
def xmm1 : Txt := [120, 109, 109, 49]
def xmm2 : Txt := [120, 109, 109, 50]
def xmm3 : Txt := [120, 109, 109, 51]
def nVxorpd : Txt := [118, 120, 111, 114, 112, 100]   -- "vxorpd"
def nPush : Txt := [112, 117, 115, 104]               -- "push"
def nAddqMem : Txt := nAddq

/-- a hand-made entry: operand 0 source, operand 1 source+destination, one hidden flag written, idiom flag set -/
def exEntry : IsaEntry :=
  { e := { name := nFoo, operands := [] }, roles := [⟨true, false⟩, ⟨true, true⟩],
    hidden := [(.flag [67, 70], ⟨false, true⟩)], brk := true }

/-- `(%rdx)` -/
def oMemRdx : Opnd :=
  { p := .mem { base := some { name := rdx }, offset := .none, index := none, scale := 1, pre := false, post := false },
    key := [109] }
/-- `[x2], #8` (post-indexed) and `[x2, #8]!` (pre-indexed) -/
def oMemPost : Opnd :=
  { p := .mem { base := some { name := [50], pfx := some tX }, offset := .none, index := none, scale := 1, pre := false, post := true },
    key := [109], postVal := .int 8 }
def oMemPre : Opnd :=
  { p := .mem { base := some { name := [50], pfx := some tX }, offset := .imm false, index := none, scale := 1, pre := true, post := false },
    key := [110], off := .imm (.int 8) }

-- roles_spec / roles_spec_hidden / roles_partition: different operands, so the idiom does not apply
example : (exEntry.brk && adjEq [oX86 rax, oX86 rbx]) = false := by decide
example : SemOp.op 0 (oX86 rax) ∈ (applyEntry exEntry [oX86 rax, oX86 rbx]).src ∧
    SemOp.op 1 (oX86 rbx) ∈ (applyEntry exEntry [oX86 rax, oX86 rbx]).srcDst ∧
    SemOp.hid (.flag [67, 70]) ∈ (applyEntry exEntry [oX86 rax, oX86 rbx]).dst := by decide
example : occ 1 (applyEntry exEntry [oX86 rax, oX86 rbx]).src + occ 1 (applyEntry exEntry [oX86 rax, oX86 rbx]).dst +
    occ 1 (applyEntry exEntry [oX86 rax, oX86 rbx]).srcDst = 1 := by decide
-- roles_spec_zero_idiom / roles_partition_zero_idiom: equal operands
example : exEntry.brk = true ∧ adjEq [oX86 rax, oX86 rax] = true := by decide
example : applyEntry exEntry [oX86 rax, oX86 rax] =
    { src := [], dst := [.op 0 (oX86 rax), .op 1 (oX86 rax), .hid (.flag [67, 70])], srcDst := [] } := by decide
-- the shipped x86 database: `vxorpd %xmm1, %xmm1, %xmm1` writes without reading, `vxorpd %xmm1, %xmm2, %xmm3` reads two
example : (assignSrcDst .x86 Gen.isaDbX86 (some nVxorpd) [oX86 xmm1, oX86 xmm1, oX86 xmm1]).sem =
    { src := [], dst := [.op 0 (oX86 xmm1), .op 1 (oX86 xmm1), .op 2 (oX86 xmm1)], srcDst := [] } := by decide +kernel
example : (assignSrcDst .x86 Gen.isaDbX86 (some nVxorpd) [oX86 xmm1, oX86 xmm2, oX86 xmm3]).sem =
    { src := [.op 0 (oX86 xmm1), .op 1 (oX86 xmm2)], dst := [.op 2 (oX86 xmm3)], srcDst := [] } := by decide +kernel
-- hidden operands: `push %rax` reads rax, writes memory at (%rsp) and updates rsp; HAS_ST, no HAS_LD
example : assignSrcDst .x86 Gen.isaDbX86 (some nPush) [oX86 rax] =
    { sem := { src := [.op 0 (oX86 rax)], dst := [.hid (.mem (some rsp) none 1 false)], srcDst := [.hid (.reg none rsp)] },
      hasLd := false, hasSt := true } := by decide +kernel
-- roles_entry_wildcard: `addq (%rdx), %rax` has no entry of its own; the register form `add gpr, gpr` decides
example : lookup .x86 Gen.isaDbX86 nAddq ([oMemRdx, oX86 rax].map (·.p)) = none ∧
    (lookup .x86 Gen.isaDbX86 nAddq (substituteMem ([oMemRdx, oX86 rax].map (·.p)))).isSome = true := by
  constructor <;> decide +kernel
example : ((assignSrcDst .x86 Gen.isaDbX86 (some nAddq) [oMemRdx, oX86 rax]).sem.src.take 1,
    (assignSrcDst .x86 Gen.isaDbX86 (some nAddq) [oMemRdx, oX86 rax]).sem.srcDst,
    (assignSrcDst .x86 Gen.isaDbX86 (some nAddq) [oMemRdx, oX86 rax]).hasLd,
    (assignSrcDst .x86 Gen.isaDbX86 (some nAddq) [oMemRdx, oX86 rax]).hasSt) =
    ([.op 0 oMemRdx], [.op 1 (oX86 rax)], true, false) := by decide +kernel
-- roles_default_iff + roles_spec_default_x86 / _a64 / _single: a mnemonic without entry
example : (assignSrcDst .x86 Gen.isaDbX86 (some nFoo) [oX86 rax, oX86 rbx, oX86 rdx]).sem =
    { src := [.op 0 (oX86 rax), .op 1 (oX86 rbx)], dst := [.op 2 (oX86 rdx)], srcDst := [] } := by decide +kernel
example : (assignSrcDst .a64 Gen.isaDbA64 (some nFoo) [oA64 [48], oA64 [49], oA64 [50]]).sem =
    { src := [.op 1 (oA64 [49]), .op 2 (oA64 [50])], dst := [.op 0 (oA64 [48])], srcDst := [] } := by decide +kernel
example : (assignSrcDst .a64 Gen.isaDbA64 (some nFoo) [oA64 [48]]).sem =
    { src := [.op 0 (oA64 [48])], dst := [], srcDst := [] } := by decide +kernel
-- roles_spec_writeback / writeback_register / reg_changes_post: `ldr x1, [x2], #8`
example : (assignSrcDst .a64 Gen.isaDbA64 (some nLdr) [oA64 [49], oMemPost]) =
    { sem := { src := [.op 1 oMemPost], dst := [.op 0 (oA64 [49])],
               srcDst := [.wb 1 { name := [50], pfx := some tX } false true (.int 8)] },
      hasLd := true, hasSt := false } := by decide +kernel
example : regChanges .a64 Gen.isaDbA64 (some nLdr) [oA64 [49], oMemPost]
      (assignSrcDst .a64 Gen.isaDbA64 (some nLdr) [oA64 [49], oMemPost]).sem true =
    .ok [(120 :: [50], some ⟨some (120 :: [50]), some 8⟩)] := by decide +kernel
-- … and the full query leaves the post-indexed base out, the loaded register is unknown (reg_changes_unknown)
example : regChanges .a64 Gen.isaDbA64 (some nLdr) [oA64 [49], oMemPost]
      (assignSrcDst .a64 Gen.isaDbA64 (some nLdr) [oA64 [49], oMemPost]).sem false =
    .ok [(120 :: [49], none)] := by decide +kernel
-- pre-indexed `ldr x1, [x2, #8]!`: the base is reported with the offset, the loaded register is unknown
example : regChanges .a64 Gen.isaDbA64 (some nLdr) [oA64 [49], oMemPre]
      (assignSrcDst .a64 Gen.isaDbA64 (some nLdr) [oA64 [49], oMemPre]).sem false =
    .ok [(120 :: [49], none), (120 :: [50], some ⟨some (120 :: [50]), some 8⟩)] := by decide +kernel
-- reg_changes_post_register / a64_ld1_post_register_all: `ld1 {v0.4s}, [x0], x1` on the shipped database — the base x0 is
-- written back (src_dst, post-index mark), the post-indexed query answers `{x0: None}` and is not an error
example : (assignSrcDst .a64 Gen.isaDbA64 (some nLd1) [oV4s [48], oMemPostReg [48] [49]]) =
    { sem := { src := [.op 1 (oMemPostReg [48] [49])], dst := [.op 0 (oV4s [48])],
               srcDst := [.wb 1 { name := [48], pfx := some tX } false true .absent] },
      hasLd := true, hasSt := false } := by decide +kernel
example : regChanges .a64 Gen.isaDbA64 (some nLd1) [oV4s [48], oMemPostReg [48] [49]]
      (assignSrcDst .a64 Gen.isaDbA64 (some nLd1) [oV4s [48], oMemPostReg [48] [49]]).sem true =
    .ok [(120 :: [48], none)] := by decide +kernel
-- `st1 {v0.4s}, [x2], x3` (no entry either; the code's default roles put the vector register into `destination`)
example : regChanges .a64 Gen.isaDbA64 (some nSt1) [oV4s [48], oMemPostReg [50] [51]]
      (assignSrcDst .a64 Gen.isaDbA64 (some nSt1) [oV4s [48], oMemPostReg [50] [51]]).sem true =
    .ok [(120 :: [50], none)] := by decide +kernel
-- the hypotheses of reg_changes_post_register at a later operand position: `ldr x1, [x2], x9` behind a register
example : (∀ x ∈ [oA64 [49]], ∀ m', x.p = .mem m' → m'.post = false) ∧ (oMemPostReg [50] [57]).postVal = .absent := by
  constructor
  · intro x hx m' hm; simp [oA64, pA64] at hx; subst hx; cases hm
  · rfl
-- what the unrepaired code did with the same operand: `post_indexed["value"]` on a dictionary without that key
example : valInt (oMemPostReg [48] [49]).postVal = .error .keyError := rfl
-- reg_changes_post_error: a `"value"` that is not an integer is the only failure of the post-indexed query
example : regChanges .a64 Gen.isaDbA64 (some nLd1) [oV4s [48], { oMemPostReg [48] [49] with postVal := .other }] {} true =
    .error .unsupported := by decide +kernel
-- reg_changes_no_value_error needs its hypothesis: an operation on a memory form does raise for a pre-indexed access
def badDb : List IsaEntry :=
  [{ e := { name := [76, 68, 82], operands := [.reg none (some tX) none, .mem (.str [42]) (.str [42]) (.str [42]) (.str [42]) (.str [42]) (.str [42])] },
     roles := [⟨false, true⟩, ⟨true, false⟩], operation := some [.setValue 1 (.lit 0)] }]
example : badDb.all opEntryOk = false ∧
    regChanges .a64 badDb (some nLdr) [oA64 [49], oMemPre] (assignSrcDst .a64 badDb (some nLdr) [oA64 [49], oMemPre]).sem false =
      .error .valueError := by
  constructor <;> decide +kernel
-- the operation theorems at concrete values
example : regChanges .x86 Gen.isaDbX86 (some nAddq) [oImmX86 (-8), oX86 rax]
      (assignSrcDst .x86 Gen.isaDbX86 (some nAddq) [oImmX86 (-8), oX86 rax]).sem false =
    .ok [(rax, some ⟨some rax, some (-8)⟩)] := x86_addq_imm_changes (-8)
-- `movq %rax, %rbx`: the copy is tracked under the source's name
example : regChanges .x86 Gen.isaDbX86 (some [109, 111, 118, 113]) [oX86 rax, oX86 rbx]
      (assignSrcDst .x86 Gen.isaDbX86 (some [109, 111, 118, 113]) [oX86 rax, oX86 rbx]).sem false =
    .ok [(rbx, some ⟨some rax, some 0⟩)] := by decide +kernel
-- an immediate that is a symbol (value None): the arithmetic raises, as `exec` does in the implementation
example : regChanges .x86 Gen.isaDbX86 (some nAddq) [{ oImmX86 0 with val := .none }, oX86 rax]
      (assignSrcDst .x86 Gen.isaDbX86 (some nAddq) [{ oImmX86 0 with val := .none }, oX86 rax]).sem false =
    .error .typeError := by decide +kernel

end OsacaVerif.Props.C03Roles
