import OsacaVerif.Model.Isa
import OsacaVerif.Gen.IsaDb_x86
import OsacaVerif.Gen.IsaDb_aarch64
namespace OsacaVerif.Props.C03Roles
open OsacaVerif OsacaVerif.Isa

theorem stub : (1 : Nat) = 1 := rfl

end OsacaVerif.Props.C03Roles
