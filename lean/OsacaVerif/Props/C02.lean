import OsacaVerif.Props.C01
/-
  C02 — Optimised schedule never worse than uniform and close to the true optimum.

  Proved here (∀ kernels, ∀ port models):
  * `feasible_append` / `kernel_feasible`: the kernel's per-port totals are a feasible assignment of
    *all* micro-ops of the kernel when every instruction's vector is feasible (C01);
  * `lowerBound_le_max`: a feasible assignment can never undercut `confined S / |S|` on any port set,
    hence never the exact optimum `max_S confined S / |S|` (`lowerBound`), by more than its slack ε;
  * `transfer_max_le`: moving load towards a port that stays at or below the donor's old level never
    raises the maximum;  `within_of_bounds`: comparing with `lowerBound` suffices for the 0.15 clause.
  Decided by exhaustive execution of the real code (harness), not by a theorem: the 0.15 bound on the
  5 355-kernel family, and "optimised ≤ uniform" on the *rounded* sums (see `..._partial` note below).
-/
namespace OsacaVerif.Props.C02
open OsacaVerif OsacaVerif.Ports OsacaVerif.Spec

theorem confined_append (us1 us2 : List Uop) (S : List Nat) :
    confined (us1 ++ us2) S = confined us1 S + confined us2 S := by
  simp [confined, List.filter_append, List.map_append, List.sum_append]

theorem totalAmount_append (us1 us2 : List Uop) :
    totalAmount (us1 ++ us2) = totalAmount us1 + totalAmount us2 := by
  simp [totalAmount]

theorem sum_addVec (a b : List Rat) (h : a.length = b.length) : (addVec a b).sum = a.sum + b.sum := by
  induction a generalizing b with
  | nil => cases b with
    | nil => simp [addVec]
    | cons y ys => simp at h
  | cons x xs ih =>
    cases b with
    | nil => simp at h
    | cons y ys =>
      simp only [addVec, List.sum_cons, ih ys (by simpa using h)]; ring

theorem sumOn_addVec (a b : List Rat) (h : a.length = b.length) (S : List Nat) :
    sumOn (addVec a b) S = sumOn a S + sumOn b S := by
  induction S with
  | nil => simp [sumOn]
  | cons p S ih =>
    simp only [sumOn, List.map_cons, List.sum_cons] at *
    rw [ih, C01.getD_addVec a b h p]; ring

/-- **sum of feasible vectors is feasible for the union of the micro-ops** (slacks add up) -/
theorem feasible_append (ε1 ε2 : Rat) (n : Nat) (us1 us2 : List Uop) (v1 v2 : List Rat)
    (h1 : Feasible ε1 n us1 v1) (h2 : Feasible ε2 n us2 v2) :
    Feasible (ε1 + ε2) n (us1 ++ us2) (addVec v1 v2) where
  len := by rw [C01.length_addVec v1 v2 (by rw [h1.len, h2.len]), h1.len]
  nonneg := by
    intro p hp
    rw [C01.getD_addVec v1 v2 (by rw [h1.len, h2.len]) p]
    have := h1.nonneg p hp; have := h2.nonneg p hp; linarith
  support := by
    intro p hp hno
    rw [C01.getD_addVec v1 v2 (by rw [h1.len, h2.len]) p,
      h1.support p hp (fun u hu => hno u (List.mem_append_left _ hu)),
      h2.support p hp (fun u hu => hno u (List.mem_append_right _ hu))]
    simp
  totalLo := by
    rw [sum_addVec v1 v2 (by rw [h1.len, h2.len]), totalAmount_append]
    have := h1.totalLo; have := h2.totalLo; linarith
  totalHi := by
    rw [sum_addVec v1 v2 (by rw [h1.len, h2.len]), totalAmount_append]
    have := h1.totalHi; have := h2.totalHi; linarith
  hall := by
    intro S hS hSn
    rw [sumOn_addVec v1 v2 (by rw [h1.len, h2.len]) S, confined_append]
    have := h1.hall S hS hSn; have := h2.hall S hS hSn; linarith

/-- one analysed instruction: its micro-ops, its reported vector and the slack it is feasible with -/
structure Instr where
  uops : List Uop
  v : List Rat
  ε : Rat

/-- kernel totals (exact): fold of `addVec` from the zero vector -/
def totals (n : Nat) (k : List Instr) : List Rat := k.foldr (fun i acc => addVec i.v acc) (zeros n)
def allUops (k : List Instr) : List Uop := k.flatMap (·.uops)
def slack (k : List Instr) : Rat := (k.map (·.ε)).sum

theorem feasible_zero (n : Nat) : Feasible 0 n [] (zeros n) where
  len := by simp [zeros]
  nonneg := by intro p hp; simp [zeros, List.getD_eq_getElem?_getD, hp]
  support := by intro p hp _; simp [zeros, List.getD_eq_getElem?_getD, hp]
  totalLo := by simp [totalAmount, zeros]
  totalHi := by simp [totalAmount, zeros]
  hall := by
    intro S _ hSn
    have : sumOn (zeros n) S = 0 := by
      unfold sumOn
      apply List.sum_eq_zero
      intro x hx
      obtain ⟨p, hp, rfl⟩ := List.mem_map.mp hx
      simp [zeros, List.getD_eq_getElem?_getD, hSn p hp]
    simp [confined, this]

/-- **C02 ⟸ C01** (∀ kernels): if every instruction's vector is feasible with slack εᵢ, the kernel's
    per-port totals are a feasible fractional schedule of all the kernel's micro-ops with slack Σ εᵢ. -/
theorem kernel_feasible (n : Nat) (k : List Instr) (h : ∀ i ∈ k, Feasible i.ε n i.uops i.v) :
    Feasible (slack k) n (allUops k) (totals n k) := by
  induction k with
  | nil => simpa [slack, allUops, totals] using feasible_zero n
  | cons i k ih =>
    have h1 := h i List.mem_cons_self
    have h2 := ih (fun j hj => h j (List.mem_cons_of_mem _ hj))
    simpa [slack, allUops, totals] using feasible_append i.ε (slack k) n i.uops (allUops k) i.v (totals n k) h1 h2

/-- pigeonhole: some port of `S` carries at least the average -/
theorem exists_ge_avg (v : List Rat) (S : List Nat) (hne : S ≠ []) :
    ∃ p ∈ S, sumOn v S / S.length ≤ v.getD p 0 := by
  induction S with
  | nil => exact absurd rfl hne
  | cons q S ih =>
    by_cases hS : S = []
    · subst hS; exact ⟨q, List.mem_cons_self, by simp [sumOn]⟩
    · obtain ⟨p, hp, hle⟩ := ih hS
      have hlen : (0 : Rat) < S.length := by
        have : 0 < S.length := List.length_pos_iff.mpr hS
        exact_mod_cast this
      simp only [sumOn, List.map_cons, List.sum_cons, List.length_cons] at *
      by_cases hq : (v.getD q 0 + (S.map fun p => v.getD p 0).sum) / ((S.length : Rat) + 1) ≤ v.getD q 0
      · exact ⟨q, List.mem_cons_self, by push_cast; exact hq⟩
      · refine ⟨p, List.mem_cons_of_mem _ hp, ?_⟩
        push_cast
        have hq' := lt_of_not_ge hq
        rw [lt_div_iff₀ (by linarith)] at hq'
        rw [div_le_iff₀ hlen] at hle
        rw [div_le_iff₀ (by linarith)]
        nlinarith

/-- **never undercuts the optimum by more than the slack** (∀ port sets): a feasible schedule has a
    port in `S` carrying at least `confined S / |S| − ε`. -/
theorem lowerBound_le_max (ε : Rat) (n : Nat) (us : List Uop) (v : List Rat) (h : Feasible ε n us v)
    (S : List Nat) (hS : S.Nodup) (hSn : ∀ p ∈ S, p < n) (hne : S ≠ []) :
    ∃ p ∈ S, confined us S / S.length - ε ≤ v.getD p 0 := by
  obtain ⟨p, hp, hle⟩ := exists_ge_avg v S hne
  refine ⟨p, hp, le_trans ?_ hle⟩
  have hlen : (0 : Rat) < S.length := by
    have : 0 < S.length := List.length_pos_iff.mpr hne
    exact_mod_cast this
  have := h.hall S hS hSn
  rw [sub_le_iff_le_add, div_le_iff₀ hlen]
  have e : (sumOn v S / (S.length : Rat) + ε) * S.length = sumOn v S + ε * S.length := by
    field_simp
  rw [e]; linarith

/-- a transfer towards a port that stays at or below the donor's old level never raises the maximum -/
theorem transfer_max_le (sa sb δ M : Rat) (hδ : 0 ≤ δ) (ha : sa ≤ M) (hb : sb + δ ≤ sa) :
    sa - δ ≤ M ∧ sb + δ ≤ M := ⟨by linarith, by linarith⟩

/-- comparing with `lowerBound` suffices for the "within 0.15 of the exact optimum" clause -/
theorem within_of_bounds (b lb opt ε : Rat) (hε : 0 ≤ ε) (h2 : b ≤ lb + 15/100) (h3 : lb ≤ opt)
    (h4 : opt - ε ≤ b) : |b - opt| ≤ 15/100 + ε := by
  rw [abs_le]; constructor <;> linarith

-- non-vacuity: the worst kernel of the exhaustive family; its lower bound is 5/3
example : lowerBound [⟨1, [0, 1, 2], 1⟩, ⟨2, [1, 2], 1⟩, ⟨2, [0, 1], 1⟩] = 5/3 := by decide +kernel
example : ∃ k : List Instr, k ≠ [] ∧ ∀ i ∈ k, Feasible i.ε 2 i.uops i.v :=
  ⟨[⟨[⟨1, [0, 1], 1⟩], uniform 2 [⟨1, [0, 1], 1⟩], 0⟩], by simp, by
    intro i hi; simp at hi; subst hi
    exact Spec.uniform_feasible 2 _ (by decide +kernel)⟩

end OsacaVerif.Props.C02
