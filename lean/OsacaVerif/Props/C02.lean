import OsacaVerif.Props.C01
import OsacaVerif.Lemmas.Round2
/-
  C02 — Optimised schedule never worse than uniform and close to the true optimum.

  Proved here (∀ kernels, ∀ port models):
  * `feasible_append` / `kernel_feasible`: the kernel's per-port totals are a feasible assignment of
    *all* micro-ops of the kernel when every instruction's vector is feasible (C01);
  * `lowerBound_le_max`: a feasible assignment can never undercut `confined S / |S|` on any port set,
    hence never the exact optimum `max_S confined S / |S|` (`lowerBound`), by more than its slack ε;
  * `transfer_max_le`: moving load towards a port that stays at or below the donor's old level never
    raises the maximum;  `within_of_bounds`: comparing with `lowerBound` suffices for the 0.15 clause.
  * `transfer_bottleneck_mono_rounded` / `transfer_bottleneck_vec` / `transfers_bottleneck_mono`: a
    guarded 0.01 step (guard on the *rounded* sums, as the code evaluates it) never raises the maximum
    of the rounded sums, for any number of steps, provided the receiving sum is not an exact rounding
    tie; at a tie it can (concrete counterexample below).
  Decided by exhaustive execution of the real code (harness), not by a theorem: the 0.15 bound on the
  5 355-kernel family, and "optimised ≤ uniform" on the rounded sums of the real runs (ties included).
-/
namespace OsacaVerif.Props.C02
open OsacaVerif OsacaVerif.Ports OsacaVerif.Spec

theorem confined_append (us1 us2 : List Uop) (S : List Nat) :
    confined (us1 ++ us2) S = confined us1 S + confined us2 S := by
  simp [confined, List.filter_append, List.map_append, List.sum_append]

theorem totalAmount_append (us1 us2 : List Uop) :
    totalAmount (us1 ++ us2) = totalAmount us1 + totalAmount us2 := by
  simp [totalAmount]

theorem sum_addVec (a b : List Rat) (h : a.length = b.length) : (addVec a b).sum = a.sum + b.sum := by
  induction a generalizing b with
  | nil => cases b with
    | nil => simp [addVec]
    | cons y ys => simp at h
  | cons x xs ih =>
    cases b with
    | nil => simp at h
    | cons y ys =>
      simp only [addVec, List.sum_cons, ih ys (by simpa using h)]; ring

theorem sumOn_addVec (a b : List Rat) (h : a.length = b.length) (S : List Nat) :
    sumOn (addVec a b) S = sumOn a S + sumOn b S := by
  induction S with
  | nil => simp [sumOn]
  | cons p S ih =>
    simp only [sumOn, List.map_cons, List.sum_cons] at *
    rw [ih, C01.getD_addVec a b h p]; ring

/-- **sum of feasible vectors is feasible for the union of the micro-ops** (slacks add up) -/
theorem feasible_append (ε1 ε2 : Rat) (n : Nat) (us1 us2 : List Uop) (v1 v2 : List Rat)
    (h1 : Feasible ε1 n us1 v1) (h2 : Feasible ε2 n us2 v2) :
    Feasible (ε1 + ε2) n (us1 ++ us2) (addVec v1 v2) where
  len := by rw [C01.length_addVec v1 v2 (by rw [h1.len, h2.len]), h1.len]
  nonneg := by
    intro p hp
    rw [C01.getD_addVec v1 v2 (by rw [h1.len, h2.len]) p]
    have := h1.nonneg p hp; have := h2.nonneg p hp; linarith
  support := by
    intro p hp hno
    rw [C01.getD_addVec v1 v2 (by rw [h1.len, h2.len]) p,
      h1.support p hp (fun u hu => hno u (List.mem_append_left _ hu)),
      h2.support p hp (fun u hu => hno u (List.mem_append_right _ hu))]
    simp
  totalLo := by
    rw [sum_addVec v1 v2 (by rw [h1.len, h2.len]), totalAmount_append]
    have := h1.totalLo; have := h2.totalLo; linarith
  totalHi := by
    rw [sum_addVec v1 v2 (by rw [h1.len, h2.len]), totalAmount_append]
    have := h1.totalHi; have := h2.totalHi; linarith
  hall := by
    intro S hS hSn
    rw [sumOn_addVec v1 v2 (by rw [h1.len, h2.len]) S, confined_append]
    have := h1.hall S hS hSn; have := h2.hall S hS hSn; linarith

/-- one analysed instruction: its micro-ops, its reported vector and the slack it is feasible with -/
structure Instr where
  uops : List Uop
  v : List Rat
  ε : Rat

/-- kernel totals (exact): fold of `addVec` from the zero vector -/
def totals (n : Nat) (k : List Instr) : List Rat := k.foldr (fun i acc => addVec i.v acc) (zeros n)
def allUops (k : List Instr) : List Uop := k.flatMap (·.uops)
def slack (k : List Instr) : Rat := (k.map (·.ε)).sum

theorem feasible_zero (n : Nat) : Feasible 0 n [] (zeros n) where
  len := by simp [zeros]
  nonneg := by intro p hp; simp [zeros, List.getD_eq_getElem?_getD, hp]
  support := by intro p hp _; simp [zeros, List.getD_eq_getElem?_getD, hp]
  totalLo := by simp [totalAmount, zeros]
  totalHi := by simp [totalAmount, zeros]
  hall := by
    intro S _ hSn
    have : sumOn (zeros n) S = 0 := by
      unfold sumOn
      apply List.sum_eq_zero
      intro x hx
      obtain ⟨p, hp, rfl⟩ := List.mem_map.mp hx
      simp [zeros, List.getD_eq_getElem?_getD, hSn p hp]
    simp [confined, this]

/-- **C02 ⟸ C01** (∀ kernels): if every instruction's vector is feasible with slack εᵢ, the kernel's
    per-port totals are a feasible fractional schedule of all the kernel's micro-ops with slack Σ εᵢ. -/
theorem kernel_feasible (n : Nat) (k : List Instr) (h : ∀ i ∈ k, Feasible i.ε n i.uops i.v) :
    Feasible (slack k) n (allUops k) (totals n k) := by
  induction k with
  | nil => simpa [slack, allUops, totals] using feasible_zero n
  | cons i k ih =>
    have h1 := h i List.mem_cons_self
    have h2 := ih (fun j hj => h j (List.mem_cons_of_mem _ hj))
    simpa [slack, allUops, totals] using feasible_append i.ε (slack k) n i.uops (allUops k) i.v (totals n k) h1 h2

/-- pigeonhole: some port of `S` carries at least the average -/
theorem exists_ge_avg (v : List Rat) (S : List Nat) (hne : S ≠ []) :
    ∃ p ∈ S, sumOn v S / S.length ≤ v.getD p 0 := by
  induction S with
  | nil => exact absurd rfl hne
  | cons q S ih =>
    by_cases hS : S = []
    · subst hS; exact ⟨q, List.mem_cons_self, by simp [sumOn]⟩
    · obtain ⟨p, hp, hle⟩ := ih hS
      have hlen : (0 : Rat) < S.length := by
        have : 0 < S.length := List.length_pos_iff.mpr hS
        exact_mod_cast this
      simp only [sumOn, List.map_cons, List.sum_cons, List.length_cons] at *
      by_cases hq : (v.getD q 0 + (S.map fun p => v.getD p 0).sum) / ((S.length : Rat) + 1) ≤ v.getD q 0
      · exact ⟨q, List.mem_cons_self, by push_cast; exact hq⟩
      · refine ⟨p, List.mem_cons_of_mem _ hp, ?_⟩
        push_cast
        have hq' := lt_of_not_ge hq
        rw [lt_div_iff₀ (by linarith)] at hq'
        rw [div_le_iff₀ hlen] at hle
        rw [div_le_iff₀ (by linarith)]
        nlinarith

/-- **never undercuts the optimum by more than the slack** (∀ port sets): a feasible schedule has a
    port in `S` carrying at least `confined S / |S| − ε`. -/
theorem lowerBound_le_max (ε : Rat) (n : Nat) (us : List Uop) (v : List Rat) (h : Feasible ε n us v)
    (S : List Nat) (hS : S.Nodup) (hSn : ∀ p ∈ S, p < n) (hne : S ≠ []) :
    ∃ p ∈ S, confined us S / S.length - ε ≤ v.getD p 0 := by
  obtain ⟨p, hp, hle⟩ := exists_ge_avg v S hne
  refine ⟨p, hp, le_trans ?_ hle⟩
  have hlen : (0 : Rat) < S.length := by
    have : 0 < S.length := List.length_pos_iff.mpr hne
    exact_mod_cast this
  have := h.hall S hS hSn
  rw [sub_le_iff_le_add, div_le_iff₀ hlen]
  have e : (sumOn v S / (S.length : Rat) + ε) * S.length = sumOn v S + ε * S.length := by
    field_simp
  rw [e]; linarith

/-- a transfer towards a port that stays at or below the donor's old level never raises the maximum -/
theorem transfer_max_le (sa sb δ M : Rat) (hδ : 0 ≤ δ) (ha : sa ≤ M) (hb : sb + δ ≤ sa) :
    sa - δ ≤ M ∧ sb + δ ≤ M := ⟨by linarith, by linarith⟩

/-- comparing with `lowerBound` suffices for the "within 0.15 of the exact optimum" clause -/
theorem within_of_bounds (b lb opt ε : Rat) (hε : 0 ≤ ε) (h2 : b ≤ lb + 15/100) (h3 : lb ≤ opt)
    (h4 : opt - ε ≤ b) : |b - opt| ≤ 15/100 + ε := by
  rw [abs_le]; constructor <;> linarith

-- non-vacuity: the worst kernel of the exhaustive family; its lower bound is 5/3
example : lowerBound [⟨1, [0, 1, 2], 1⟩, ⟨2, [1, 2], 1⟩, ⟨2, [0, 1], 1⟩] = 5/3 := by decide +kernel
example : ∃ k : List Instr, k ≠ [] ∧ ∀ i ∈ k, Feasible i.ε 2 i.uops i.v :=
  ⟨[⟨[⟨1, [0, 1], 1⟩], uniform 2 [⟨1, [0, 1], 1⟩], 0⟩], by simp, by
    intro i hi; simp at hi; subst hi
    exact Spec.uniform_feasible 2 _ (by decide +kernel)⟩

/-! ### the guarded 0.01 transfer on the *rounded* sums (the guard the code evaluates) -/

/-- Python `round(·, 2)` -/
abbrev r2 (x : Rat) : Rat := roundHalfEven x 2

/-- **`transfer_bottleneck_mono_rounded`** (∀ sums): when the guard `round(sa,2) > round(sb,2)` holds and
    the receiving sum `sb` is not an exact rounding tie, a transfer of 0.01 from `a` to `b` leaves
    both touched rounded sums at or below the donor's old rounded sum — the two columns swap or
    close their gap, the maximum cannot grow. Only the receiver needs the no-tie hypothesis: taking
    0.01 away never raises a rounded value, ties included. -/
theorem transfer_bottleneck_mono_rounded (sa sb : Rat) (hb : NoTie sb) (h : r2 sa > r2 sb) :
    max (r2 (sa - 1/100)) (r2 (sb + 1/100)) ≤ r2 sa := by
  apply max_le
  · exact round2_sub_inc_le sa
  · show roundHalfEven (sb + 1/100) 2 ≤ roundHalfEven sa 2
    rw [round2_add_inc sb hb]
    exact round2_lt_step sa sb h

/-- the statement with the no-tie hypothesis on both sums; then the touched columns move by exactly
    one step: `round(sa − 0.01) = round(sa) − 0.01`, `round(sb + 0.01) = round(sb) + 0.01` -/
theorem transfer_rounded_exact (sa sb : Rat) (ha : NoTie sa) (hb : NoTie sb) :
    r2 (sa - 1/100) = r2 sa - 1/100 ∧ r2 (sb + 1/100) = r2 sb + 1/100 :=
  ⟨round2_sub_inc sa ha, round2_add_inc sb hb⟩

/-- **the no-tie hypothesis is necessary** (finding about the guard, not about the model): with
    `sb = 0.005` (an exact tie, rounds to the even 0.00) and `sa = 0.012` the guard
    `round(sa) = 0.01 > 0.00 = round(sb)` holds, yet after the transfer `round(sb + 0.01) =
    round(0.015) = 0.02 > round(sa)`: the rounded maximum of the two columns grows. -/
example : r2 (12/1000) > r2 (5/1000) ∧ ¬ NoTie (5/1000) ∧
    ¬ (max (r2 (12/1000 - 1/100)) (r2 (5/1000 + 1/100)) ≤ r2 (12/1000)) := by decide +kernel

/-- bottleneck of a vector of exact column sums: the maximum of the rounded sums (`foldl max`) -/
def bottleneck (v : List Rat) : Rat := (v.map r2).foldl max 0

theorem r2_getD_le_bottleneck (v : List Rat) (j : Nat) (hj : j < v.length) :
    r2 (v.getD j 0) ≤ bottleneck v := by
  apply (le_foldl_max (v.map r2) 0).2
  apply List.mem_map.mpr
  exact ⟨v[j], List.getElem_mem hj, by simp [List.getD_eq_getElem?_getD, hj]⟩

theorem bottleneck_le_of_getD (v : List Rat) (B : Rat) (h0 : 0 ≤ B)
    (h : ∀ j < v.length, r2 (v.getD j 0) ≤ B) : bottleneck v ≤ B := by
  apply (foldl_max_le_iff _ _ _).mpr
  refine ⟨h0, ?_⟩
  intro x hx
  obtain ⟨y, hy, rfl⟩ := List.mem_map.mp hx
  obtain ⟨j, hj, rfl⟩ := List.getElem_of_mem hy
  have := h j hj
  simpa [List.getD_eq_getElem?_getD, hj] using this

/-- **lifted to vectors** (∀ port counts, ∀ sums): replacing the entries `a` and `b` of the column
    sums by `sa − 0.01` and `sb + 0.01` (one guarded balancing step, `Balance.moveRow`) does not
    increase the bottleneck `max_p round(sum_p, 2)`, provided the receiving sum is not a rounding tie.
    By induction this holds for any number of such steps (`transfers_bottleneck_mono`). -/
theorem transfer_bottleneck_vec (v : List Rat) (a b : Nat) (ha : a < v.length) (hb : b < v.length)
    (hnt : NoTie (v.getD b 0)) (hg : r2 (v.getD a 0) > r2 (v.getD b 0)) :
    bottleneck (Balance.moveRow v a b (1/100)) ≤ bottleneck v := by
  have hab : a ≠ b := by rintro rfl; exact lt_irrefl _ hg
  have hmono := transfer_bottleneck_mono_rounded _ _ hnt hg
  have hA := r2_getD_le_bottleneck v a ha
  apply bottleneck_le_of_getD _ _ (le_foldl_max _ 0).1
  intro j hj
  have hj' : j < v.length := by simpa [Balance.moveRow] using hj
  unfold Balance.moveRow
  rw [getD_addAt _ b j _ (by simpa using hb), getD_addAt v a j _ ha]
  by_cases h1 : a = j
  · subst h1
    have : ¬ b = a := fun e => hab e.symm
    simp only [if_true, if_neg this, add_zero]
    have e : v.getD a 0 + -(1/100) = v.getD a 0 - 1/100 := by ring
    rw [e]
    exact le_trans (le_trans (le_max_left _ _) hmono) hA
  · by_cases h2 : b = j
    · subst h2
      simp only [if_neg h1, if_true, add_zero]
      exact le_trans (le_trans (le_max_right _ _) hmono) hA
    · simp only [if_neg h1, if_neg h2, add_zero]
      exact r2_getD_le_bottleneck v j hj'

/-- a guarded 0.01 step on the column sums, as a decidable predicate: indices in range, guard on the
    rounded sums, receiver not an exact tie -/
def StepOk (v : List Rat) (ab : Nat × Nat) : Prop :=
  ab.1 < v.length ∧ ab.2 < v.length ∧ NoTie (v.getD ab.2 0) ∧ r2 (v.getD ab.1 0) > r2 (v.getD ab.2 0)

instance (v : List Rat) (ab : Nat × Nat) : Decidable (StepOk v ab) := by
  unfold StepOk; infer_instance

/-- a sequence of guarded steps, each checked on the vector it is applied to -/
def StepsOk : List Rat → List (Nat × Nat) → Prop
  | _, [] => True
  | v, ab :: rest => StepOk v ab ∧ StepsOk (Balance.moveRow v ab.1 ab.2 (1/100)) rest

instance : (v : List Rat) → (ms : List (Nat × Nat)) → Decidable (StepsOk v ms)
  | _, [] => isTrue trivial
  | v, ab :: rest =>
    have := instDecidableStepsOk (Balance.moveRow v ab.1 ab.2 (1/100)) rest
    by unfold StepsOk; infer_instance

def applySteps : List Rat → List (Nat × Nat) → List Rat
  | v, [] => v
  | v, ab :: rest => applySteps (Balance.moveRow v ab.1 ab.2 (1/100)) rest

/-- **any number of guarded steps** (∀ vectors, ∀ step sequences of any length): the bottleneck of
    the rounded sums never increases — "optimised ≤ uniform" on the rounded sums, away from ties. -/
theorem transfers_bottleneck_mono (v : List Rat) (ms : List (Nat × Nat)) (h : StepsOk v ms) :
    bottleneck (applySteps v ms) ≤ bottleneck v := by
  induction ms generalizing v with
  | nil => exact le_rfl
  | cons ab rest ih =>
    obtain ⟨⟨h1, h2, h3, h4⟩, hrest⟩ := h
    exact le_trans (ih _ hrest) (transfer_bottleneck_vec v ab.1 ab.2 h1 h2 h3 h4)

-- non-vacuity: a non-tie transfer, two guarded steps on a 3-port vector
example : NoTie (1/3) ∧ NoTie (251/1000) ∧ ¬ NoTie (15/1000) := by decide +kernel
example : StepsOk [1/2, 1/3, 0] [(0, 2), (0, 1)] ∧
    applySteps [1/2, 1/3, 0] [(0, 2), (0, 1)] = [48/100, 1/3 + 1/100, 1/100] ∧
    bottleneck [1/2, 1/3, 0] = 1/2 ∧ bottleneck (applySteps [1/2, 1/3, 0] [(0, 2), (0, 1)]) = 48/100 := by
  decide +kernel

end OsacaVerif.Props.C02
