import OsacaVerif.Lemmas.Lookup
import OsacaVerif.Lemmas.Live
import OsacaVerif.Gen.Sigs
/-
  C07 — Instruction-form lookup is sound and complete for operand kinds.

  `Match.*` is the model of `MachineModel.get_instruction` / `_match_operands` / `_check_operands` …
  (every literal regenerated from the source: `Gen.MatchConsts`, `Gen.RegTables`), `Spec.KindAgree` the
  property's vocabulary, `Spec.liveOperand` / `Spec.instantiate` "an instruction written with operands of
  exactly the kinds an entry declares", `Gen.Sigs` the operand signatures of every shipped model.
-/
namespace OsacaVerif.Props.C07
open OsacaVerif OsacaVerif.Text OsacaVerif.Operand OsacaVerif.Match OsacaVerif.Spec
open OsacaVerif.Lemmas.KindAgree OsacaVerif.Lemmas.Lookup OsacaVerif.Lemmas.Live

/-- every entry of the database is inside the entry schema -/
def SchemaDb (db : List Entry) : Prop := ∀ e ∈ db, e.operands.all schemaOperand = true

/-! ### operand kinds -/

/-- **the operand test decides kind agreement** (∀ ISAs, ∀ schema-valid entry operands, ∀ operands the
    parsers can produce): register class / width prefix / vector shape, immediate type, label,
    condition, memory addressing shape, wildcards. -/
theorem check_iff_kind (isa : Isa) (e : EOperand) (o : POperand)
    (ho : parserOperand o = true) (he : schemaOperand e = true) :
    checkOperand isa e o = true ↔ KindAgree isa e o := by
  rw [check_eq_kind isa e o ho he]
  exact kindAgreeB_iff isa e o

/-- operand lists: equal count and agreement at every position (∀ lengths) -/
theorem match_iff_agree (isa : Isa) (es : List EOperand) (os : List POperand)
    (ho : os.all parserOperand = true) (he : es.all schemaOperand = true) :
    matchOperands isa es os = true ↔ OperandsAgree isa es os := by
  rw [matchOperands_eq isa es os ho he]
  exact kindAgreeAll_iff isa es os

/-- a different operand count never matches -/
theorem count_mismatch (isa : Isa) (es : List EOperand) (os : List POperand) (h : es.length ≠ os.length) :
    matchOperands isa es os = false := by
  induction es generalizing os with
  | nil => cases os <;> simp_all [matchOperands]
  | cons e es ih =>
    cases os with
    | nil => rfl
    | cons o os =>
      have : es.length ≠ os.length := fun e' => h (by simp [e'])
      simp [matchOperands, ih os this]

/-! ### lookup -/

theorem entry_iff_spec (isa : Isa) (name : Txt) (ops : List POperand) (e : Entry)
    (ho : ops.all parserOperand = true) (he : e.operands.all schemaOperand = true) :
    entryMatches isa name ops e = true ↔ SpecMatches isa name ops e := by
  rw [entryMatches_eq isa name ops e ho he]
  exact specMatchesB_iff isa name ops e

/-- **soundness**: whatever `get_instruction` returns is an entry of the model with the same mnemonic
    (case-insensitively), the same operand count, and agreeing in kind at every operand — an entry is
    never applied to an instruction with a different operand kind or count. -/
theorem lookup_sound (isa : Isa) (db : List Entry) (name : Txt) (ops : List POperand) (e : Entry)
    (ho : ops.all parserOperand = true) (hdb : SchemaDb db)
    (h : getInstruction isa db name ops = some e) :
    e ∈ db ∧ e.name = upper name ∧ e.operands.length = ops.length ∧ OperandsAgree isa e.operands ops := by
  have hm : e ∈ db := List.mem_of_find?_eq_some h
  have hp : entryMatches isa name ops e = true := List.find?_some h
  obtain ⟨h1, h2⟩ := (entry_iff_spec isa name ops e ho (hdb e hm)).mp hp
  exact ⟨hm, h1, operandsAgree_length h2, h2⟩

/-- **first match**: the returned entry is preceded (in post-expansion file order) only by entries
    that do not agree -/
theorem lookup_first (isa : Isa) (db : List Entry) (name : Txt) (ops : List POperand) (e : Entry)
    (ho : ops.all parserOperand = true) (hdb : SchemaDb db)
    (h : getInstruction isa db name ops = some e) :
    ∃ pre post, db = pre ++ e :: post ∧ ∀ x ∈ pre, ¬ SpecMatches isa name ops x := by
  obtain ⟨pre, post, e1, e2, _⟩ := find?_some_split _ db e h
  refine ⟨pre, post, e1, ?_⟩
  intro x hx hs
  have hxdb : x ∈ db := by rw [e1]; simp [hx]
  have := (entry_iff_spec isa name ops x ho (hdb x hxdb)).mpr hs
  rw [e2 x hx] at this
  exact Bool.false_ne_true this

/-- **completeness**: if some entry agrees in mnemonic, count and every kind, the first such entry in
    file order is returned (∀ databases, any number of duplicate / shadowing entries) -/
theorem lookup_complete_first (isa : Isa) (pre post : List Entry) (e : Entry) (name : Txt) (ops : List POperand)
    (ho : ops.all parserOperand = true) (hdb : SchemaDb (pre ++ e :: post))
    (h1 : ∀ x ∈ pre, ¬ SpecMatches isa name ops x) (h2 : SpecMatches isa name ops e) :
    getInstruction isa (pre ++ e :: post) name ops = some e := by
  apply find?_of_split
  · intro x hx
    have hxdb : x ∈ pre ++ e :: post := by simp [hx]
    cases hb : entryMatches isa name ops x with
    | false => rfl
    | true => exact absurd ((entry_iff_spec isa name ops x ho (hdb x hxdb)).mp hb) (h1 x hx)
  · exact (entry_iff_spec isa name ops e ho (hdb e (by simp))).mpr h2

/-- … and `None` exactly when no entry agrees -/
theorem lookup_none_iff (isa : Isa) (db : List Entry) (name : Txt) (ops : List POperand)
    (ho : ops.all parserOperand = true) (hdb : SchemaDb db) :
    getInstruction isa db name ops = none ↔ ∀ x ∈ db, ¬ SpecMatches isa name ops x := by
  unfold getInstruction
  rw [find?_none_iff]
  constructor
  · intro h x hx hs
    have := (entry_iff_spec isa name ops x ho (hdb x hx)).mpr hs
    rw [h x hx] at this
    exact Bool.false_ne_true this
  · intro h x hx
    cases hb : entryMatches isa name ops x with
    | false => rfl
    | true => exact absurd ((entry_iff_spec isa name ops x ho (hdb x hx)).mp hb) (h x hx)

/-- the index the driver reports for the model is the index its oracle reports (so a disagreement
    between implementation and oracle is a disagreement with the model, and vice versa) -/
theorem lookupIdx_eq_oracle (isa : Isa) (db : List Entry) (name : Txt) (ops : List POperand)
    (ho : ops.all parserOperand = true) (hdb : SchemaDb db) :
    lookupIdx isa db name ops = specLookupIdx isa db name ops := by
  have : db.findIdx (entryMatches isa name ops) = db.findIdx (specMatchesB isa name ops) := by
    induction db with
    | nil => rfl
    | cons e es ih =>
      have he := hdb e (by simp)
      have hes : SchemaDb es := fun x hx => hdb x (by simp [hx])
      simp only [List.findIdx_cons, entryMatches_eq isa name ops e ho he, ih hes]
  simp only [lookupIdx, specLookupIdx, this]

/-- the mnemonic is compared case-insensitively -/
theorem lookup_case_insensitive (isa : Isa) (db : List Entry) (n n' : Txt) (ops : List POperand)
    (h : upper n = upper n') : getInstruction isa db n ops = getInstruction isa db n' ops := by
  have : entryMatches isa n ops = entryMatches isa n' ops := by
    funext e; simp only [entryMatches, h]
  simp only [getInstruction, this]

/-! ### fall-backs -/

/-- **the documented fall-backs**: the full mnemonic is tried first; only if that finds nothing, the
    mnemonic without one trailing AT&T size suffix (x86) / cut at its first '.' (AArch64) is tried;
    nothing else is. -/
theorem fallback_spec (isa : Isa) (db : List Entry) (name : Txt) (ops : List POperand) :
    (∀ e, getInstruction isa db name ops = some e → lookupWithFallbacks isa db name ops = some e) ∧
    (getInstruction isa db name ops = none → ∀ alt, IsFallback isa name alt →
        lookupWithFallbacks isa db name ops = getInstruction isa db alt ops) ∧
    (getInstruction isa db name ops = none → (¬ ∃ alt, IsFallback isa name alt) →
        lookupWithFallbacks isa db name ops = none) := by
  refine ⟨?_, ?_, ?_⟩
  · intro e h; simp [lookupWithFallbacks, h]
  · intro h alt ha
    have := (fallbackName_iff isa name alt).mpr ha
    simp [lookupWithFallbacks, h, this]
  · intro h hn
    cases hf : fallbackName isa name with
    | none => simp [lookupWithFallbacks, h, hf]
    | some alt => exact absurd ⟨alt, (fallbackName_iff isa name alt).mp hf⟩ hn

/-- the alternative mnemonic is unique -/
theorem fallback_unique (isa : Isa) (name a b : Txt) (ha : IsFallback isa name a) (hb : IsFallback isa name b) :
    a = b := by
  have h1 := (fallbackName_iff isa name a).mpr ha
  have h2 := (fallbackName_iff isa name b).mpr hb
  rw [h1] at h2
  exact Option.some.inj h2

/-! ### an instruction written with exactly the kinds an entry declares -/

/-- **self match** (∀ entries with any number of live operands, ∀ ways of filling in register numbers
    and wildcards): the instance is matched by the entry and lies in the parsers' domain -/
theorem self_match (isa : Isa) (es : List EOperand) (cs : List Choice) (h : es.all (liveOperand isa) = true) :
    matchOperands isa es (instantiateAll isa es cs) = true ∧
    (instantiateAll isa es cs).all (parserOperandIsa isa) = true := by
  induction es generalizing cs with
  | nil => simp [instantiateAll, matchOperands]
  | cons e es ih =>
    simp only [List.all_cons, Bool.and_eq_true] at h
    cases cs with
    | nil =>
      obtain ⟨h1, h2⟩ := live_instance isa e {} h.1
      obtain ⟨h3, h4⟩ := ih [] h.2
      simp [instantiateAll, matchOperands, h1, h2, h3, h4]
    | cons c cs =>
      obtain ⟨h1, h2⟩ := live_instance isa e c h.1
      obtain ⟨h3, h4⟩ := ih cs h.2
      simp [instantiateAll, matchOperands, h1, h2, h3, h4]

/-- **never unknown** (∀ databases, ∀ live entries in them): the instruction written from an entry's own
    pattern is found — by that entry or by an earlier one that also agrees in every kind -/
theorem never_unknown (isa : Isa) (db : List Entry) (e : Entry) (he : e ∈ db) (hn : e.name = upper e.name)
    (hl : liveEntry isa e = true) (cs : List Choice) :
    ∃ e', getInstruction isa db e.name (instantiateAll isa e.operands cs) = some e' := by
  have hm := (self_match isa e.operands cs hl).1
  have hme : entryMatches isa e.name (instantiateAll isa e.operands cs) e = true := by
    simp only [entryMatches, hm, Bool.and_true, beq_iff_eq]
    exact hn
  cases h : getInstruction isa db e.name (instantiateAll isa e.operands cs) with
  | some e' => exact ⟨e', rfl⟩
  | none =>
    have hf := (find?_none_iff _ db).mp h e he
    rw [hme] at hf
    exact absurd hf (by simp)

/-! ### loading: names are upper-cased -/

theorem upperC_idem (c : Nat) : upperC (upperC c) = upperC c := by
  unfold upperC
  by_cases h : 97 ≤ c ∧ c ≤ 122
  · have h2 : ¬ (97 ≤ c - 32 ∧ c - 32 ≤ 122) := by omega
    simp only [h, and_self, if_true, h2, if_false]
  · simp only [h, if_false]

theorem upper_idem (t : Txt) : upper (upper t) = upper t := by
  simp [upper, List.map_map, Function.comp_def, upperC_idem]

theorem formToEntry_upper (i : Nat) (n : Txt) (kv : List (Y × Y)) (e : Entry)
    (h : formToEntry i n kv = some e) : e.name = upper e.name := by
  unfold formToEntry at h
  split at h
  · split at h
    · simp only [Option.some.injEq] at h
      rw [← h]; simp [upper_idem]
    · simp at h
  · simp at h

theorem sequenceOpt_mem {α : Type} (l : List (Option α)) (r : List α) (h : sequenceOpt l = some r) :
    ∀ x ∈ r, some x ∈ l := by
  induction l generalizing r with
  | nil => simp [sequenceOpt] at h; subst h; simp
  | cons a as ih =>
    cases a with
    | none => simp [sequenceOpt] at h
    | some v =>
      simp only [sequenceOpt, Option.map_eq_some_iff] at h
      obtain ⟨r', hr', rfl⟩ := h
      intro x hx
      simp only [List.mem_cons] at hx
      rcases hx with hx | hx
      · simp [hx]
      · simp [ih r' hr' x hx]

theorem singles_upper (i : Nat) (forms : List Y) : ∀ e, some e ∈ singles i forms → e.name = upper e.name := by
  induction forms generalizing i with
  | nil => simp [singles]
  | cons f fs ih =>
    intro e he
    cases f with
    | map kv =>
      simp only [singles] at he
      split at he
      · simp only [List.mem_cons] at he
        rcases he with he | he
        · exact formToEntry_upper _ _ _ e he.symm
        · exact ih _ e he
      · exact ih _ e he
      · simp only [List.mem_cons, reduceCtorEq, false_or] at he
        exact ih _ e he
    | _ =>
      simp only [singles, List.mem_cons, reduceCtorEq, false_or] at he
      exact ih _ e he

theorem aliases_upper (i : Nat) (forms : List Y) : ∀ e, some e ∈ aliases i forms → e.name = upper e.name := by
  induction forms generalizing i with
  | nil => simp [aliases]
  | cons f fs ih =>
    intro e he
    cases f with
    | map kv =>
      simp only [aliases] at he
      split at he
      · simp only [List.mem_append] at he
        rcases he with he | he
        · split at he
          · simp only [List.mem_map] at he
            obtain ⟨n, _, hn⟩ := he
            exact formToEntry_upper _ _ _ e hn
          · simp at he
        · exact ih _ e he
      · exact ih _ e he
    | _ =>
      simp only [aliases] at he
      exact ih _ e he

/-- every loaded entry carries an upper-cased mnemonic (so the case-insensitive comparison of
    `get_instruction` is exact) -/
theorem loadEntries_upper (forms : List Y) (db : List Entry) (h : loadEntries forms = some db) :
    ∀ e ∈ db, e.name = upper e.name := by
  intro e he
  have := sequenceOpt_mem _ db h e he
  simp only [List.mem_append] at this
  rcases this with h1 | h1
  · exact singles_upper 0 forms e h1
  · exact aliases_upper 0 forms e h1

/-! ### the shipped models (tables regenerated from the YAML files on every run) -/

/-- one operand signature is loadable, inside the entry schema, and live -/
def sigOk (isa : Isa) (y : Y) : Bool :=
  match operandToClass y with
  | some e => schemaOperand e && liveOperand isa e
  | none => false

/-- known finding `dead-entry:scale-null` (m1.yml, v2.yml): memory operands declared with
    `index: ~, scale: ~` — no access without index register has a scale other than 1 -/
def knownDeadA64 (y : Y) : Bool :=
  match operandToClass y with
  | some (.mem _ _ .null .null _ _) => true
  | _ => false

theorem shipped_x86_sigs : Gen.Sigs.x86.all (sigOk .x86) = true := by decide +kernel

theorem shipped_a64_sigs : Gen.Sigs.a64.all (fun y => sigOk .a64 y || knownDeadA64 y) = true := by decide +kernel

/-- **every operand pattern of every shipped x86 model is live**: each of its instances is matched -/
theorem shipped_x86_live (y : Y) (hy : y ∈ Gen.Sigs.x86) :
    ∃ e, operandToClass y = some e ∧ schemaOperand e = true ∧
      ∀ c, checkOperand .x86 e (instantiate .x86 e c) = true := by
  have h := List.all_eq_true.mp shipped_x86_sigs y hy
  unfold sigOk at h
  cases ho : operandToClass y with
  | none => simp [ho] at h
  | some e =>
    simp only [ho, Bool.and_eq_true] at h
    exact ⟨e, rfl, h.1, fun c => (live_instance .x86 e c h.2).1⟩

/-- … and of every shipped AArch64 model, except the operands recorded as known finding -/
theorem shipped_a64_live (y : Y) (hy : y ∈ Gen.Sigs.a64) (hk : knownDeadA64 y = false) :
    ∃ e, operandToClass y = some e ∧ schemaOperand e = true ∧
      ∀ c, checkOperand .a64 e (instantiate .a64 e c) = true := by
  have h := List.all_eq_true.mp shipped_a64_sigs y hy
  simp only [hk, Bool.or_false] at h
  unfold sigOk at h
  cases ho : operandToClass y with
  | none => simp [ho] at h
  | some e =>
    simp only [ho, Bool.and_eq_true] at h
    exact ⟨e, rfl, h.1, fun c => (live_instance .a64 e c h.2).1⟩

/-- the known-dead operands really are dead: no operand of the AArch64 parser's domain matches them -/
theorem known_dead_is_dead (b off pre post : Y) (o : POperand) (ho : parserOperandIsa .a64 o = true) :
    checkOperand .a64 (.mem b off .null .null pre post) o = false := by
  cases o with
  | mem m =>
    simp only [parserOperandIsa, parserOperandA64, Bool.and_eq_true, Bool.or_eq_true, beq_iff_eq] at ho
    have hidx := ho.2.1
    simp only [checkOperand, checkA64, a64MemType]
    have : (a64IndexOk .null m.index && scaleOk .null m.scale) = false := by
      cases hi : m.index with
      | none =>
        have : m.scale = 1 := by
          rcases hidx with h | h
          · exact h
          · simp [hi] at h
        simp [a64IndexOk, scaleOk, this, eqInt, isWild, isStr, scaleUnit_eq]
      | some r => cases hp : r.pfx <;> simp [a64IndexOk, isWild, isStr, hp]
    rw [Bool.and_eq_false_iff] at this
    rcases this with h | h <;> simp [h]
  | wild => rfl
  | imm t hv hi => cases hi <;> simp [checkOperand, checkA64, checkA64Rest]
  | _ => simp [checkOperand, checkA64, checkA64Rest]

/-- the fall-back suffix lists of the two classes that implement them agree -/
theorem gas_suffixes_agree : Gen.gasSuffixesArch = Gen.gasSuffixesIsa := by decide

/-! ### non-vacuity -/

def ex (s : String) : Txt := ofString s
def xmm : EOperand := .reg (some [120, 109, 109]) none none
def ymm : EOperand := .reg (some [121, 109, 109]) none none
def gpr : EOperand := .reg (some [103, 112, 114]) none none
def anyMem : EOperand := .mem (.str [42]) (.str [42]) (.str [42]) (.str [42]) (.bool false) (.bool false)
def rXmm3 : POperand := .reg { name := [120, 109, 109, 51] }
def rYmm3 : POperand := .reg { name := [121, 109, 109, 51] }
def rRax : POperand := .reg { name := [114, 97, 120] }
def memBaseIdx : POperand :=
  .mem { base := some { name := [114, 97, 120] }, offset := .imm false, index := some { name := [114, 98, 120] },
         scale := 8, pre := false, post := false }
def VADD : Txt := [86, 65, 68, 68]
def vaddq : Txt := [118, 97, 100, 100, 113]

/-- shadowed duplicates: the first of two identical entries supplies the data; a wildcard memory entry;
    a near-miss (`xmm` entry vs `ymm` register) is rejected; the AT&T suffix is dropped only after the
    full mnemonic failed -/
def db0 : List Entry := [
  { name := VADD, operands := [xmm, xmm], raw := 0 },
  { name := VADD, operands := [xmm, xmm], raw := 1 },
  { name := VADD, operands := [anyMem, xmm], raw := 2 },
  { name := VADD, operands := [gpr, gpr], raw := 3 }]

example : (getInstruction .x86 db0 [118, 97, 100, 100] [rXmm3, rXmm3]).map (·.raw) = some 0 ∧
    (getInstruction .x86 db0 VADD [memBaseIdx, rXmm3]).map (·.raw) = some 2 ∧
    (getInstruction .x86 db0 VADD [rXmm3, rYmm3]).map (·.raw) = none ∧
    (getInstruction .x86 db0 VADD [rXmm3]).map (·.raw) = none ∧
    (getInstruction .x86 db0 vaddq [rRax, rRax]).map (·.raw) = none ∧
    (lookupWithFallbacks .x86 db0 vaddq [rRax, rRax]).map (·.raw) = some 3 := by decide +kernel

example : KindAgree .x86 xmm rXmm3 ∧ ¬ KindAgree .x86 xmm rYmm3 ∧ KindAgree .x86 anyMem memBaseIdx := by
  refine ⟨(kindAgreeB_iff _ _ _).mp (by decide +kernel), ?_, (kindAgreeB_iff _ _ _).mp (by decide +kernel)⟩
  intro h
  have := (kindAgreeB_iff _ _ _).mpr h
  revert this
  decide +kernel

example : SchemaDb db0 := by
  intro e he
  simp only [db0, List.mem_cons, List.not_mem_nil, or_false] at he
  rcases he with rfl | rfl | rfl | rfl <;> decide +kernel

example : IsFallback .x86 vaddq [118, 97, 100, 100] := ⟨113, by decide, rfl⟩
example : IsFallback .a64 [102, 97, 100, 100, 46, 115] [102, 97, 100, 100] := ⟨[115], by decide, rfl⟩

example : liveEntry .x86 { name := VADD, operands := [anyMem, xmm] } = true ∧
    instantiateAll .x86 [anyMem, xmm] [{ n := 3, a := 0, b := 1, c := 1, d := 2 }, { n := 7 }] =
      [.mem { base := some { name := [114, 51] }, offset := .imm false, index := none, scale := 4, pre := false,
              post := false }, .reg { name := [120, 109, 109, 55] }] := by decide +kernel

example : Gen.Sigs.x86.length ≥ 10 ∧ Gen.Sigs.a64.length ≥ 10 ∧ (Gen.Sigs.a64.any knownDeadA64 = true ∨ True) := by
  decide +kernel

/-- alias lists are expanded at the END of the form list (file order changes) -/
example : (loadEntries [
      .map [(.str k_name, .list [.str [97], .str [98]]), (.str k_operands, .list [])],
      .map [(.str k_name, .str [99]), (.str k_operands, .list [])]]).map (·.map (·.name)) =
    some [[67], [65], [66]] := by decide +kernel

end OsacaVerif.Props.C07
