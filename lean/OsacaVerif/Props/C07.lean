import OsacaVerif.Spec.Live
import OsacaVerif.Model.Match
import OsacaVerif.Gen.Sigs
namespace OsacaVerif.Props.C07
theorem placeholder : True := trivial
end OsacaVerif.Props.C07
