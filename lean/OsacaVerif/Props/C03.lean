import OsacaVerif.Model.DG
import OsacaVerif.Spec.Deps
/-
  C03 — Register dependency graph is exactly the read-after-write relation.

  `DG.scanTarget` is the forward scan of `find_depending` for one destination register / flag;
  `DG.findDepending` / `DG.emissions` / `DG.create` assemble the graph.  The theorems relate the scan
  to the declarative read-after-write relation (reads / writes derived from the semantic operands),
  for kernels of any length.
-/
namespace OsacaVerif.Props.C03
open OsacaVerif OsacaVerif.Text OsacaVerif.DG OsacaVerif.Spec

/-- **scan = read-after-write** (∀ suffixes, by induction): the scan for target `t` emits exactly the
    positions `j` whose instruction reads `t` while no instruction strictly before `j` (in the scanned
    suffix) writes `t`; every emission carries the producer's tag. -/
theorem scan_iff_raw (isa : Isa) (t : Target) (tag : Tag) (rest : List Ins) (l : Nat) (tg : Tag) :
    (l, tg) ∈ scanTarget isa t tag rest ↔
      tg = tag ∧ ∃ (j : Nat) (c : Ins), rest[j]? = some c ∧ c.line = l ∧ isRead isa t c = true ∧
        ∀ m < j, ∀ w, rest[m]? = some w → isWritten isa t w = false := by
  induction rest with
  | nil => simp [scanTarget]
  | cons i rest ih =>
    simp only [scanTarget]
    constructor
    · intro h
      by_cases hw : isWritten isa t i = true
      · simp only [hw, if_true] at h
        by_cases hr : isRead isa t i = true
        · simp only [hr, if_true, List.mem_singleton, Prod.mk.injEq] at h
          exact ⟨h.2, 0, i, by simp, h.1.symm, hr, by intro m hm; omega⟩
        · simp [hr] at h
      · have hw' : isWritten isa t i = false := by simpa using hw
        simp only [hw', Bool.false_eq_true, if_false] at h
        rw [List.mem_append] at h
        rcases h with h | h
        · by_cases hr : isRead isa t i = true
          · simp only [hr, if_true, List.mem_singleton, Prod.mk.injEq] at h
            exact ⟨h.2, 0, i, by simp, h.1.symm, hr, by intro m hm; omega⟩
          · simp [hr] at h
        · obtain ⟨h1, j, c, hj, hl, hr, hall⟩ := ih.mp h
          refine ⟨h1, j + 1, c, by simpa using hj, hl, hr, ?_⟩
          intro m hm w hwm
          cases m with
          | zero => simp at hwm; subst hwm; simpa using hw
          | succ m => exact hall m (by omega) w (by simpa using hwm)
    · rintro ⟨h1, j, c, hj, hl, hr, hall⟩
      subst h1
      cases j with
      | zero =>
        simp at hj; subst hj
        by_cases hw : isWritten isa t i = true <;> simp [hw, hr, hl]
      | succ j =>
        have hw : isWritten isa t i = false := hall 0 (by omega) i (by simp)
        simp only [hw, Bool.false_eq_true, if_false]
        rw [List.mem_append]
        right
        exact ih.mpr ⟨rfl, j, c, by simpa using hj, hl, hr, by
          intro m hm w hwm
          exact hall (m + 1) (by omega) w (by simpa using hwm)⟩

/-- nothing is emitted past an overwrite: an emission at position `j` implies that no instruction
    before `j` writes the target -/
theorem no_edge_past_kill (isa : Isa) (t : Target) (tag : Tag) (pre : List Ins) (w : Ins) (post : List Ins)
    (hw : isWritten isa t w = true) (c : Ins) (hc : c ∈ post) (hline : ∀ x ∈ pre ++ [w], x.line ≠ c.line)
    (tg : Tag) : (c.line, tg) ∉ scanTarget isa t tag (pre ++ w :: post) := by
  intro h
  obtain ⟨_, j, c', hj, hl, _, hall⟩ := (scan_iff_raw isa t tag _ c.line tg).mp h
  by_cases hjle : j ≤ pre.length
  · -- the emitting instruction would be in `pre ++ [w]`, whose lines differ from `c.line`
    have hmem : c' ∈ pre ++ [w] := by
      have : (pre ++ w :: post)[j]? = (pre ++ [w])[j]? := by
        rw [show pre ++ w :: post = (pre ++ [w]) ++ post by simp]
        rw [List.getElem?_append_left (by simp; omega)]
      rw [this] at hj
      exact List.mem_of_getElem? hj
    exact hline c' hmem hl
  · have := hall pre.length (by omega) w (by simp)
    rw [hw] at this; cases this

/-- flags are followed only when flag dependencies are requested -/
theorem flags_ignored_without_option (isa : Isa) (p : Ins) (rest : List Ins) (n : Txt)
    (hdst : p.dst = [.flag n]) (hsd : p.srcDst = []) :
    findDepending isa false p rest = [] := by
  simp [findDepending, hdst, hsd]

/-- every emission of `findDepending` points into the scanned suffix -/
theorem scanTarget_lines (isa : Isa) (t : Target) (tag : Tag) (rest : List Ins) (l : Nat) (tg : Tag)
    (h : (l, tg) ∈ scanTarget isa t tag rest) : ∃ c ∈ rest, c.line = l := by
  obtain ⟨_, j, c, hj, hl, _, _⟩ := (scan_iff_raw isa t tag rest l tg).mp h
  exact ⟨c, List.mem_of_getElem? hj, hl⟩

theorem scanMem_lines (isa : Isa) (m : Mem) (s : RegState) (rest : List Ins) (l : Nat) (tg : Tag)
    (h : (l, tg) ∈ scanMem isa m s rest) : ∃ c ∈ rest, c.line = l := by
  induction rest generalizing s with
  | nil => simp [scanMem] at h
  | cons i rest ih =>
    simp only [scanMem] at h
    by_cases h1 : memStop isa m i = true
    · simp [h1] at h
    · simp only [h1] at h
      have hhere : ∀ x, x ∈ (if isMemload m i (updateState s i.changes) = true then [(i.line, Tag.storeLoad)] else [])
          → x.1 = i.line := by
        intro x hx
        by_cases h3 : isMemload m i (updateState s i.changes) = true
        · simp only [h3, if_true, List.mem_singleton] at hx; rw [hx]
        · simp [h3] at hx
      by_cases h2 : isMemstore m i = true
      · simp only [h2, if_true] at h
        exact ⟨i, List.mem_cons_self, (hhere _ h).symm⟩
      · simp only [h2] at h
        rcases List.mem_append.mp h with h | h
        · exact ⟨i, List.mem_cons_self, (hhere _ h).symm⟩
        · obtain ⟨c, hc, hl⟩ := ih _ h
          exact ⟨c, List.mem_cons_of_mem _ hc, hl⟩

/-- **edges point forward**: in a kernel with strictly increasing line numbers every dependency
    emission of a producer targets a strictly later line -/
theorem findDepending_forward (isa : Isa) (fd : Bool) (p : Ins) (rest : List Ins)
    (hlines : ∀ c ∈ rest, p.line < c.line) (l : Nat) (tg : Tag)
    (h : (l, tg) ∈ findDepending isa fd p rest) : p.line < l := by
  simp only [findDepending, List.mem_flatMap] at h
  obtain ⟨d, _, hd⟩ := h
  have : ∃ c ∈ rest, c.line = l := by
    match d, hd with
    | .reg r, hd => exact scanTarget_lines _ _ _ _ _ _ hd
    | .flag n, hd =>
      by_cases hf : fd = true
      · simp only [hf, if_true] at hd; exact scanTarget_lines _ _ _ _ _ _ hd
      · simp [hf] at hd
    | .mem m, hd => exact scanMem_lines _ _ _ _ _ _ hd
    | .other, hd => simp at hd
  obtain ⟨c, hc, hl⟩ := this
  rw [← hl]; exact hlines c hc

/-- edge weight (decision logic stated outright): the producer's latency *without* its separately
    modelled load stage; plus the forwarding latency for store→load; the model's index-write-back
    latency for write-back edges — never the load stage -/
theorem edge_weight_spec (par : Params) (p : Ins) (l : Rat) (h : p.latWoLoad = some l) :
    edgeWeight par p .plain = l ∧ edgeWeight par p .storeLoad = l + par.stlf ∧
    edgeWeight par p .pIndexed = par.pIdx := by
  simp [edgeWeight, h]

-- non-vacuity: `eax` written after `rax` kills the dependency of the later reader (aliasing widths)
example :
    let r (n : String) : Op := .reg { name := Text.ofString n }
    let mk (line : Nat) (src dst : List Op) : Ins :=
      { line := line, src := src, dst := dst, srcDst := [], lat := 1, latWoLoad := none, hasLd := false,
        isLd := false, changes := [], changesPost := [] }
    (create .x86 false {} [mk 1 [] [r "rax"], mk 2 [r "rax"] [r "rbx"], mk 3 [] [r "eax"],
      mk 4 [r "rax"] [r "rcx"]]).map (fun e => (e.src.line, e.dst.line)) = [(1, 2), (3, 4)] := by
  decide +kernel

end OsacaVerif.Props.C03
