import OsacaVerif.Model.DG
import OsacaVerif.Spec.Deps
import OsacaVerif.Lemmas.DGraph
/-
  C03 — Register dependency graph is exactly the read-after-write relation.

  `DG.scanTarget` is the forward scan of `find_depending` for one destination register / flag;
  `DG.findDepending` / `DG.emissions` / `DG.create` assemble the graph.  The theorems relate the scan
  to the declarative read-after-write relation (reads / writes derived from the semantic operands),
  for kernels of any length.
-/
namespace OsacaVerif.Props.C03
open OsacaVerif OsacaVerif.Text OsacaVerif.DG OsacaVerif.Spec

/-- **scan = read-after-write** (∀ suffixes, by induction): the scan for target `t` emits exactly the
    positions `j` whose instruction reads `t` while no instruction strictly before `j` (in the scanned
    suffix) writes `t`; every emission carries the producer's tag. -/
theorem scan_iff_raw (isa : Isa) (t : Target) (tag : Tag) (rest : List Ins) (l : Nat) (tg : Tag) :
    (l, tg) ∈ scanTarget isa t tag rest ↔
      tg = tag ∧ ∃ (j : Nat) (c : Ins), rest[j]? = some c ∧ c.line = l ∧ isRead isa t c = true ∧
        ∀ m < j, ∀ w, rest[m]? = some w → isWritten isa t w = false := by
  induction rest with
  | nil => simp [scanTarget]
  | cons i rest ih =>
    simp only [scanTarget]
    constructor
    · intro h
      by_cases hw : isWritten isa t i = true
      · simp only [hw, if_true] at h
        by_cases hr : isRead isa t i = true
        · simp only [hr, if_true, List.mem_singleton, Prod.mk.injEq] at h
          exact ⟨h.2, 0, i, by simp, h.1.symm, hr, by intro m hm; omega⟩
        · simp [hr] at h
      · have hw' : isWritten isa t i = false := by simpa using hw
        simp only [hw', Bool.false_eq_true, if_false] at h
        rw [List.mem_append] at h
        rcases h with h | h
        · by_cases hr : isRead isa t i = true
          · simp only [hr, if_true, List.mem_singleton, Prod.mk.injEq] at h
            exact ⟨h.2, 0, i, by simp, h.1.symm, hr, by intro m hm; omega⟩
          · simp [hr] at h
        · obtain ⟨h1, j, c, hj, hl, hr, hall⟩ := ih.mp h
          refine ⟨h1, j + 1, c, by simpa using hj, hl, hr, ?_⟩
          intro m hm w hwm
          cases m with
          | zero => simp at hwm; subst hwm; simpa using hw
          | succ m => exact hall m (by omega) w (by simpa using hwm)
    · rintro ⟨h1, j, c, hj, hl, hr, hall⟩
      subst h1
      cases j with
      | zero =>
        simp at hj; subst hj
        by_cases hw : isWritten isa t i = true <;> simp [hw, hr, hl]
      | succ j =>
        have hw : isWritten isa t i = false := hall 0 (by omega) i (by simp)
        simp only [hw, Bool.false_eq_true, if_false]
        rw [List.mem_append]
        right
        exact ih.mpr ⟨rfl, j, c, by simpa using hj, hl, hr, by
          intro m hm w hwm
          exact hall (m + 1) (by omega) w (by simpa using hwm)⟩

/-- nothing is emitted past an overwrite: an emission at position `j` implies that no instruction
    before `j` writes the target -/
theorem no_edge_past_kill (isa : Isa) (t : Target) (tag : Tag) (pre : List Ins) (w : Ins) (post : List Ins)
    (hw : isWritten isa t w = true) (c : Ins) (hc : c ∈ post) (hline : ∀ x ∈ pre ++ [w], x.line ≠ c.line)
    (tg : Tag) : (c.line, tg) ∉ scanTarget isa t tag (pre ++ w :: post) := by
  intro h
  obtain ⟨_, j, c', hj, hl, _, hall⟩ := (scan_iff_raw isa t tag _ c.line tg).mp h
  by_cases hjle : j ≤ pre.length
  · -- the emitting instruction would be in `pre ++ [w]`, whose lines differ from `c.line`
    have hmem : c' ∈ pre ++ [w] := by
      have : (pre ++ w :: post)[j]? = (pre ++ [w])[j]? := by
        rw [show pre ++ w :: post = (pre ++ [w]) ++ post by simp]
        rw [List.getElem?_append_left (by simp; omega)]
      rw [this] at hj
      exact List.mem_of_getElem? hj
    exact hline c' hmem hl
  · have := hall pre.length (by omega) w (by simp)
    rw [hw] at this; cases this

/-- flags are followed only when flag dependencies are requested -/
theorem flags_ignored_without_option (isa : Isa) (p : Ins) (rest : List Ins) (n : Txt)
    (hdst : p.dst = [.flag n]) (hsd : p.srcDst = []) :
    findDepending isa false p rest = [] := by
  simp [findDepending, hdst, hsd]

/-- every emission of `findDepending` points into the scanned suffix -/
theorem scanTarget_lines (isa : Isa) (t : Target) (tag : Tag) (rest : List Ins) (l : Nat) (tg : Tag)
    (h : (l, tg) ∈ scanTarget isa t tag rest) : ∃ c ∈ rest, c.line = l := by
  obtain ⟨_, j, c, hj, hl, _, _⟩ := (scan_iff_raw isa t tag rest l tg).mp h
  exact ⟨c, List.mem_of_getElem? hj, hl⟩

theorem scanMem_lines (isa : Isa) (m : Mem) (s : RegState) (rest : List Ins) (l : Nat) (tg : Tag)
    (h : (l, tg) ∈ scanMem isa m s rest) : ∃ c ∈ rest, c.line = l := by
  induction rest generalizing s with
  | nil => simp [scanMem] at h
  | cons i rest ih =>
    simp only [scanMem] at h
    by_cases h1 : memStop isa m i = true
    · simp [h1] at h
    · simp only [h1] at h
      have hhere : ∀ x, x ∈ (if isMemload m i (updateState s i.changes) = true then [(i.line, Tag.storeLoad)] else [])
          → x.1 = i.line := by
        intro x hx
        by_cases h3 : isMemload m i (updateState s i.changes) = true
        · simp only [h3, if_true, List.mem_singleton] at hx; rw [hx]
        · simp [h3] at hx
      by_cases h2 : isMemstore m i = true
      · simp only [h2, if_true] at h
        exact ⟨i, List.mem_cons_self, (hhere _ h).symm⟩
      · simp only [h2] at h
        rcases List.mem_append.mp h with h | h
        · exact ⟨i, List.mem_cons_self, (hhere _ h).symm⟩
        · obtain ⟨c, hc, hl⟩ := ih _ h
          exact ⟨c, List.mem_cons_of_mem _ hc, hl⟩

/-- **edges point forward**: in a kernel with strictly increasing line numbers every dependency
    emission of a producer targets a strictly later line -/
theorem findDepending_forward (isa : Isa) (fd : Bool) (p : Ins) (rest : List Ins)
    (hlines : ∀ c ∈ rest, p.line < c.line) (l : Nat) (tg : Tag)
    (h : (l, tg) ∈ findDepending isa fd p rest) : p.line < l := by
  simp only [findDepending, List.mem_flatMap] at h
  obtain ⟨d, _, hd⟩ := h
  have : ∃ c ∈ rest, c.line = l := by
    match d, hd with
    | .reg r, hd => exact scanTarget_lines _ _ _ _ _ _ hd
    | .flag n, hd =>
      by_cases hf : fd = true
      · simp only [hf, if_true] at hd; exact scanTarget_lines _ _ _ _ _ _ hd
      · simp [hf] at hd
    | .mem m, hd => exact scanMem_lines _ _ _ _ _ _ hd
    | .other, hd => simp at hd
  obtain ⟨c, hc, hl⟩ := this
  rw [← hl]; exact hlines c hc

/-- edge weight (decision logic stated outright): the producer's latency *without* its separately
    modelled load stage; plus the forwarding latency for store→load; the model's index-write-back
    latency for write-back edges — never the load stage -/
theorem edge_weight_spec (par : Params) (p : Ins) (l : Rat) (h : p.latWoLoad = some l) :
    edgeWeight par p .plain = l ∧ edgeWeight par p .storeLoad = l + par.stlf ∧
    edgeWeight par p .pIndexed = par.pIdx := by
  simp [edgeWeight, h]

-- non-vacuity: `eax` written after `rax` kills the dependency of the later reader (aliasing widths)
example :
    let r (n : String) : Op := .reg { name := Text.ofString n }
    let mk (line : Nat) (src dst : List Op) : Ins :=
      { line := line, src := src, dst := dst, srcDst := [], lat := 1, latWoLoad := none, hasLd := false,
        isLd := false, changes := [], changesPost := [] }
    (create .x86 false {} [mk 1 [] [r "rax"], mk 2 [r "rax"] [r "rbx"], mk 3 [] [r "eax"],
      mk 4 [r "rax"] [r "rcx"]]).map (fun e => (e.src.line, e.dst.line)) = [(1, 2), (3, 4)] := by
  decide +kernel

/-! ### graph level: `emissions` / `create` against the declarative read-after-write relation -/

/-- `Spec.rawAt` spelled out for two existing positions -/
theorem rawAt_iff (isa : Isa) (fd : Bool) (k : List Ins) (i j : Nat) (p c : Ins)
    (hi : k[i]? = some p) (hj : k[j]? = some c) :
    rawAt isa fd k i j = true ↔
      i < j ∧ ∃ t ∈ targetsOf fd p, isRead isa t c = true ∧
        ∀ d < j - i - 1, ∀ m, k[i + 1 + d]? = some m → isWritten isa t m = false := by
  unfold rawAt
  rw [hi, hj]
  simp only [Bool.and_eq_true, decide_eq_true_eq, List.any_eq_true, List.all_eq_true, List.mem_range]
  constructor
  · rintro ⟨hij, t, ht, hr, hall⟩
    refine ⟨hij, t, ht, hr, fun d hd m hm => ?_⟩
    have := hall d hd
    rw [hm] at this
    simpa using this
  · rintro ⟨hij, t, ht, hr, hall⟩
    refine ⟨hij, t, ht, hr, fun d hd => ?_⟩
    cases hm : k[i + 1 + d]? with
    | none => rfl
    | some m => simp [hall d hd m hm]

/-- **C03 at graph level (`edges_iff_raw`)**: in a kernel with strictly increasing line numbers, for
    the instructions `p`, `c` at positions `i`, `j`: `create_DG` emits a dependency edge
    `p.line → c.line` on behalf of a register / flag destination of `p` **iff** `c` comes later, reads
    a register (flag) that `p` writes, and no instruction strictly between them overwrites it
    (`Spec.rawAt`, defined from the operand roles only).  `regEmissions` are exactly the emissions of
    `create_DG` that arise from a register / flag destination (`mem_emissions`, `regEmissions_sublist`);
    the remaining ones are load-node edges and store→load edges (C06). -/
theorem edges_iff_raw (isa : Isa) (fd : Bool) (par : Params) (k : List Ins) (hk : WFKernel k)
    (i j : Nat) (p c : Ins) (hi : k[i]? = some p) (hj : k[j]? = some c) :
    (∃ e ∈ regEmissions isa fd par k, e.src = ⟨p.line, false⟩ ∧ e.dst = ⟨c.line, false⟩) ↔
      rawAt isa fd k i j = true := by
  rw [rawAt_iff isa fd k i j p c hi hj]
  constructor
  · rintro ⟨e, he, hsrc, hdst⟩
    obtain ⟨i', p', hi', x, hx, rfl⟩ := (mem_regEmissions isa fd par k e).mp he
    simp only [depEdge, Node.mk.injEq, and_true] at hsrc hdst
    have hii : i' = i := hk.pos_unique hi' hi hsrc
    subst hii
    have hpp : p' = p := by rw [hi] at hi'; exact (Option.some.inj hi').symm
    subst hpp
    obtain ⟨t, ht, hscan⟩ := (mem_findDependingReg isa fd p' _ x).mp hx
    obtain ⟨_, j', c', hj', hl, hr, hall⟩ := (scan_iff_raw isa t _ _ x.1 x.2).mp hscan
    rw [List.getElem?_drop] at hj'
    have hjj : i' + 1 + j' = j := hk.pos_unique hj' hj (hl.trans hdst)
    have hcc : c' = c := by rw [hjj, hj] at hj'; exact (Option.some.inj hj').symm
    subst hcc
    refine ⟨by omega, t, ht, hr, ?_⟩
    intro d hd m hm
    exact hall d (by omega) m (by rw [List.getElem?_drop]; exact hm)
  · rintro ⟨hij, t, ht, hr, hall⟩
    have hscan : (c.line, targetTag t) ∈ scanTarget isa t (targetTag t) (k.drop (i + 1)) := by
      refine (scan_iff_raw isa t _ _ _ _).mpr ⟨rfl, j - i - 1, c, ?_, rfl, hr, ?_⟩
      · rw [List.getElem?_drop, ← hj]; congr 1; omega
      · intro m hm w hw
        rw [List.getElem?_drop] at hw
        exact hall m hm w hw
    refine ⟨depEdge par p (c.line, targetTag t), ?_, rfl, rfl⟩
    exact (mem_regEmissions isa fd par k _).mpr
      ⟨i, p, hi, _, (mem_findDependingReg isa fd p _ _).mpr ⟨t, ht, hscan⟩, rfl⟩

/-- completeness on the final graph: every read-after-write pair is an edge of `create` -/
theorem raw_edge_in_create (isa : Isa) (fd : Bool) (par : Params) (k : List Ins) (hk : WFKernel k)
    (i j : Nat) (p c : Ins) (hi : k[i]? = some p) (hj : k[j]? = some c)
    (h : rawAt isa fd k i j = true) :
    ∃ e ∈ create isa fd par k, e.src = ⟨p.line, false⟩ ∧ e.dst = ⟨c.line, false⟩ := by
  obtain ⟨e, he, hs, hd⟩ := (edges_iff_raw isa fd par k hk i j p c hi hj).mpr h
  have hem : e ∈ emissions isa fd par k := (regEmissions_sublist isa fd par k).subset he
  have : pairOf e ∈ (create isa fd par k).map pairOf :=
    (dedupLast_pairs_iff _ _).mpr (List.mem_map.mpr ⟨e, hem, rfl⟩)
  obtain ⟨e', he', hp⟩ := List.mem_map.mp this
  simp only [pairOf, Prod.mk.injEq] at hp
  exact ⟨e', he', hp.1.trans hs, hp.2.trans hd⟩

/-- **`dedupLast_pairs`** (`add_edge` semantics, ∀ emission lists): the result has exactly the
    (source, target) pairs of the emissions, each pair once, and an edge is in the result iff it is
    the LAST emission for its pair — so its weight is the weight of that last emission. -/
theorem dedupLast_pairs (es : List Edge) :
    ((dedupLast es).map pairOf).Nodup ∧
    (∀ pr, pr ∈ (dedupLast es).map pairOf ↔ pr ∈ es.map pairOf) ∧
    (∀ e, e ∈ dedupLast es ↔ ∃ pre post, es = pre ++ e :: post ∧ ∀ f ∈ post, pairOf f ≠ pairOf e) :=
  ⟨dedupLast_nodup es, dedupLast_pairs_iff es, mem_dedupLast es⟩

/-- **`create_edges_subset`**: the graph `create` consists of emissions only; it has exactly the
    (source, target) pairs of the emissions, each once; the weight of a pair is that of the last
    emission for it (as networkx' `add_edge` overwrites). -/
theorem create_edges_subset (isa : Isa) (fd : Bool) (par : Params) (k : List Ins) :
    (∀ e ∈ create isa fd par k, e ∈ emissions isa fd par k) ∧
    ((create isa fd par k).map pairOf).Nodup ∧
    (∀ pr, pr ∈ (create isa fd par k).map pairOf ↔ pr ∈ (emissions isa fd par k).map pairOf) ∧
    (∀ e, e ∈ create isa fd par k ↔ ∃ pre post, emissions isa fd par k = pre ++ e :: post ∧
        ∀ f ∈ post, pairOf f ≠ pairOf e) := by
  refine ⟨?_, dedupLast_nodup _, dedupLast_pairs_iff _, mem_dedupLast _⟩
  intro e he
  obtain ⟨pre, post, h, _⟩ := (mem_dedupLast _ e).mp he
  rw [h]; simp

/-- shape of every emission: a load-node edge `(line, load) → (line)` or a dependency edge from the
    producer to a strictly later line, both endpoints being lines of the kernel -/
theorem emissions_shape (isa : Isa) (fd : Bool) (par : Params) (k : List Ins) (hk : WFKernel k)
    (e : Edge) (he : e ∈ emissions isa fd par k) :
    e.dst.load = false ∧ (∃ a ∈ k, a.line = e.src.line) ∧ (∃ b ∈ k, b.line = e.dst.line) ∧
    ((e.src.load = false ∧ e.src.line < e.dst.line) ∨ (e.src.load = true ∧ e.src.line = e.dst.line)) := by
  induction k with
  | nil => simp [emissions] at he
  | cons p rest ih =>
    rw [emissions_cons] at he
    simp only [List.mem_append, List.mem_map] at he
    rcases he with (he | ⟨x, hx, rfl⟩) | he
    · unfold loadEdge at he
      split at he
      · simp only [List.mem_singleton] at he
        subst he
        exact ⟨rfl, ⟨p, by simp, rfl⟩, ⟨p, by simp, rfl⟩, Or.inr ⟨rfl, rfl⟩⟩
      · simp at he
    · have hlt := findDepending_forward isa fd p rest hk.head_lt x.1 x.2 hx
      have hin : ∃ c ∈ rest, c.line = x.1 := by
        rcases (mem_findDepending isa fd p rest x).mp hx with h | h
        · obtain ⟨t, _, hs⟩ := (mem_findDependingReg isa fd p rest x).mp h
          exact scanTarget_lines _ _ _ _ _ _ hs
        · simp only [findDependingMem, List.mem_flatMap] at h
          obtain ⟨d, _, hd⟩ := h
          cases d with
          | mem m => exact scanMem_lines _ _ _ _ _ _ hd
          | reg r => simp [memPart] at hd
          | flag n => simp [memPart] at hd
          | other => simp [memPart] at hd
      obtain ⟨c, hc, hcl⟩ := hin
      exact ⟨rfl, ⟨p, by simp, rfl⟩, ⟨c, List.mem_cons_of_mem _ hc, hcl⟩, Or.inl ⟨rfl, hlt⟩⟩
    · obtain ⟨h1, ⟨a, ha, hal⟩, ⟨b, hb, hbl⟩, h4⟩ := ih hk.tail he
      exact ⟨h1, ⟨a, List.mem_cons_of_mem _ ha, hal⟩, ⟨b, List.mem_cons_of_mem _ hb, hbl⟩, h4⟩

/-- **`edges_forward`**: in a kernel with strictly increasing line numbers every edge of the
    dependency graph goes from a smaller to a larger line; the only exception are the load-node
    edges, which stay on their line.  (Hence the graph is acyclic and line order is a topological
    order — what `get_critical_path` and the LCD search rely on.) -/
theorem edges_forward (isa : Isa) (fd : Bool) (par : Params) (k : List Ins) (hk : WFKernel k)
    (e : Edge) (he : e ∈ create isa fd par k) :
    e.dst.load = false ∧
    ((e.src.load = false ∧ e.src.line < e.dst.line) ∨ (e.src.load = true ∧ e.src.line = e.dst.line)) := by
  have h := emissions_shape isa fd par k hk e ((create_edges_subset isa fd par k).1 e he)
  exact ⟨h.1, h.2.2.2⟩

/-- both endpoints of every edge of `create` are lines of the kernel -/
theorem edges_in_kernel (isa : Isa) (fd : Bool) (par : Params) (k : List Ins) (hk : WFKernel k)
    (e : Edge) (he : e ∈ create isa fd par k) :
    (∃ a ∈ k, a.line = e.src.line) ∧ (∃ b ∈ k, b.line = e.dst.line) := by
  have h := emissions_shape isa fd par k hk e ((create_edges_subset isa fd par k).1 e he)
  exact ⟨h.2.1, h.2.2.1⟩

/-- no instruction of the kernel has a memory destination (no store): then there are no store→load
    emissions and the register/flag emissions are all dependency edges -/
def NoMemDst (k : List Ins) : Prop :=
  k.all (fun p => (p.dst ++ p.srcDst).all fun d => match d with | .mem _ => false | _ => true) = true

instance (k : List Ins) : Decidable (NoMemDst k) := by unfold NoMemDst; infer_instance

theorem memEmissions_nil (isa : Isa) (par : Params) (k : List Ins) (h : NoMemDst k) :
    memEmissions isa par k = [] := by
  induction k with
  | nil => rfl
  | cons p rest ih =>
    unfold NoMemDst at h ih
    simp only [List.all_cons, Bool.and_eq_true] at h
    simp only [memEmissions, ih h.2, List.append_nil, List.map_eq_nil_iff, findDependingMem,
      List.flatMap_eq_nil_iff]
    intro d hd
    have := List.all_eq_true.mp h.1 d hd
    cases d <;> simp_all [memPart]

theorem loadEmissions_src (k : List Ins) (e : Edge) (he : e ∈ loadEmissions k) : e.src.load = true := by
  induction k with
  | nil => simp [loadEmissions] at he
  | cons p rest ih =>
    simp only [loadEmissions, List.mem_append] at he
    rcases he with he | he
    · unfold loadEdge at he
      split at he
      · simp only [List.mem_singleton] at he; subst he; rfl
      · simp at he
    · exact ih he

/-- **C03 on the final graph** for kernels without stores: `create` has an edge between the
    instruction nodes of positions `i`, `j` iff `(i, j)` is a read-after-write pair. -/
theorem create_iff_raw (isa : Isa) (fd : Bool) (par : Params) (k : List Ins) (hk : WFKernel k)
    (hm : NoMemDst k) (i j : Nat) (p c : Ins) (hi : k[i]? = some p) (hj : k[j]? = some c) :
    (∃ e ∈ create isa fd par k, e.src = ⟨p.line, false⟩ ∧ e.dst = ⟨c.line, false⟩) ↔
      rawAt isa fd k i j = true := by
  constructor
  · rintro ⟨e, he, hs, hd⟩
    refine (edges_iff_raw isa fd par k hk i j p c hi hj).mp ⟨e, ?_, hs, hd⟩
    have hem := (create_edges_subset isa fd par k).1 e he
    rcases (mem_emissions isa fd par k e).mp hem with h | h | h
    · have := loadEmissions_src k e h
      rw [hs] at this; cases this
    · exact h
    · rw [memEmissions_nil isa par k hm] at h; cases h
  · exact raw_edge_in_create isa fd par k hk i j p c hi hj

/-- a concrete kernel for the non-vacuity checks: `eax` written at line 3 kills the dependency of
    line 4 on line 1 (aliasing widths) -/
def demoKernel : List Ins :=
  let r (n : String) : Op := .reg { name := Text.ofString n }
  let mk (line : Nat) (src dst : List Op) : Ins :=
    { line := line, src := src, dst := dst, srcDst := [], lat := 1, latWoLoad := none, hasLd := false,
      isLd := false, changes := [], changesPost := [] }
  [mk 1 [] [r "rax"], mk 2 [r "rax"] [r "rbx"], mk 3 [] [r "eax"], mk 4 [r "rax"] [r "rcx"]]

-- non-vacuity: the hypothesis `WFKernel` holds of the demo kernel; both sides of `edges_iff_raw` are
-- inhabited (positions 0 → 1 are RAW, positions 0 → 3 are not: killed at position 2)
example : WFKernel demoKernel := by decide +kernel
example : NoMemDst demoKernel := by decide +kernel
example : rawAt .x86 false demoKernel 0 1 = true ∧ rawAt .x86 false demoKernel 0 3 = false ∧
    rawAt .x86 false demoKernel 2 3 = true := by decide +kernel
example : (regEmissions .x86 false {} demoKernel).map (fun e => (e.src.line, e.dst.line)) = [(1, 2), (3, 4)] := by
  decide +kernel
-- non-vacuity of `dedupLast_pairs`: the later emission for the pair (1, 2) overwrites the weight in place
example : (dedupLast [⟨⟨1, false⟩, ⟨2, false⟩, 5⟩, ⟨⟨1, false⟩, ⟨3, false⟩, 1⟩, ⟨⟨1, false⟩, ⟨2, false⟩, 7⟩]).map
    (fun e => (e.src.line, e.dst.line, e.w)) = [(1, 2, 7), (1, 3, 1)] := by decide +kernel

end OsacaVerif.Props.C03
