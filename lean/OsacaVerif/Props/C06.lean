import OsacaVerif.Model.DG
import OsacaVerif.Lemmas.Tracking
import OsacaVerif.Lemmas.DGraph
/-
  C06 — Store-to-load dependencies through provably equal addresses on both ISAs.

  `DG.isMemload st ld-instruction state` is the model of `is_memload` (with the AArch64 prefix repair);
  `DG.updateState` of `_update_reg_changes` (with the copy-of-a-copy repair and the repair of the sticky unknown:
  a copy of another register into a register whose state is unknown makes it known again).
  Repaired code (repo-fix.diff, notes/C06.md): a symbolic displacement (`Mem.sym`) is comparable only with the very same
  symbol (`DG.dispDelta`); the scan starts from `DG.startState p` = the producer's changes AND its own post-index write-back.
-/
namespace OsacaVerif.Props.C06
open OsacaVerif OsacaVerif.Text OsacaVerif.DG

def memOp (base : Option Reg) (index : Option Reg) (scale : Int) (off : Option Int) : Mem :=
  { base := base, index := index, scale := scale, offset := off, pre := false, post := false, eqKey := [] }

def loadIns (m : Mem) : Ins :=
  { line := 2, src := [.mem m], dst := [], srcDst := [], lat := 0, latWoLoad := none, hasLd := true,
    isLd := false, changes := [], changesPost := [] }

/-- **equal address ⇒ dependency** (∀ registers, displacements, tracked increments): base-only
    addressing, the load's base is tracked as "store base + v", and the displacements compensate. -/
theorem same_location_edge (pre name : Txt) (ds dl v : Int) (s : RegState)
    (hs : lookup s (pre ++ name) = some (some { name := pre ++ name, value := v }))
    (h : dl - ds + v = 0) :
    isMemload (memOp (some { pre := pre, name := name }) none 1 (some ds))
      (loadIns (memOp (some { pre := pre, name := name }) none 1 (some dl))) s = true := by
  simp [isMemload, dispDelta, loadIns, memOp, fullName, hs]
  omega

/-- untouched base register (no entry in the state): dependency iff the displacements are equal -/
theorem untouched_iff_disp_eq (pre name : Txt) (ds dl : Int) (s : RegState)
    (hs : lookup s (pre ++ name) = none) :
    isMemload (memOp (some { pre := pre, name := name }) none 1 (some ds))
      (loadIns (memOp (some { pre := pre, name := name }) none 1 (some dl))) s = decide (dl = ds) := by
  simp [isMemload, dispDelta, loadIns, memOp, fullName, hs]
  by_cases h : dl = ds
  · simp [h]
  · simp [h]; omega

/-- **no dependency when the adjusted displacement differs** -/
theorem no_edge_when_disp_differs (pre name : Txt) (ds dl v : Int) (s : RegState)
    (hs : lookup s (pre ++ name) = some (some { name := pre ++ name, value := v }))
    (h : dl - ds + v ≠ 0) :
    isMemload (memOp (some { pre := pre, name := name }) none 1 (some ds))
      (loadIns (memOp (some { pre := pre, name := name }) none 1 (some dl))) s = false := by
  simp [isMemload, dispDelta, loadIns, memOp, fullName, hs]
  omega

/-- **no dependency when the base registers differ** (the load's base is tracked as a copy of a
    register other than the store's base) -/
theorem no_edge_when_regs_differ (sb lb : Reg) (origin : Txt) (ds dl v : Int) (s : RegState)
    (hs : lookup s (fullName lb) = some (some { name := origin, value := v }))
    (hne : fullName sb ≠ origin) :
    isMemload (memOp (some sb) none 1 (some ds)) (loadIns (memOp (some lb) none 1 (some dl))) s = false := by
  simp [isMemload, dispDelta, loadIns, memOp, hs, hne]

/-- a register changed beyond reconstruction never yields a dependency -/
theorem no_edge_when_unknown (sb lb : Reg) (ds dl : Int) (s : RegState)
    (hs : lookup s (fullName lb) = some none) :
    isMemload (memOp (some sb) none 1 (some ds)) (loadIns (memOp (some lb) none 1 (some dl))) s = false := by
  simp [isMemload, dispDelta, loadIns, memOp, hs]

/-- every tracked update writes exactly one entry: the register's own -/
theorem updateOne_setReg (s : RegState) (reg : Txt) (change : Option Change) :
    ∃ v, updateOne s reg change = setReg s reg v := by
  unfold updateOne
  repeat' split
  all_goals exact ⟨_, rfl⟩

/-- an increment of a register whose state is unknown stays unknown -/
theorem increment_of_unknown_stays_unknown (s : RegState) (r : Txt) (v : Int)
    (h : lookup s r = some none) : lookup (updateOne s r (some ⟨r, v⟩)) r = some none := by
  simp [updateOne, h, lookup_setReg]

/-- **a copy from a known register makes the register known** — whatever the register's own state was (tracked,
    untouched or unknown: the repaired behaviour, `mul x4, x4, x7 ; mov x4, x2`): it is the source's origin plus the
    source's up-to-now change plus the copy's constant -/
theorem copy_from_known_makes_known (s : RegState) (r src : Txt) (v : Int) (c : Change) (hne : src ≠ r)
    (hsrc : lookup s src = some (some c)) :
    lookup (updateOne s r (some ⟨src, v⟩)) r = some (some ⟨c.name, c.value + v⟩) := by
  simp [updateOne, hne, hsrc, lookup_setReg]

/-- … a copy from an untouched register likewise (the source still holds its value at the store) -/
theorem copy_from_untouched_makes_known (s : RegState) (r src : Txt) (v : Int) (hne : src ≠ r)
    (hsrc : lookup s src = none) :
    lookup (updateOne s r (some ⟨src, v⟩)) r = some (some ⟨src, v⟩) := by
  simp [updateOne, hne, hsrc, lookup_setReg]

/-- … and a copy from an unknown register is unknown -/
theorem copy_from_unknown_is_unknown (s : RegState) (r src : Txt) (v : Int) (hne : src ≠ r)
    (hsrc : lookup s src = some none) :
    lookup (updateOne s r (some ⟨src, v⟩)) r = some none := by
  simp [updateOne, hne, hsrc, lookup_setReg]

/-- no change in the list overwrites `r` with a copy of another register (unknown changes and increments of `r`
    itself are allowed, and so is anything that happens to other registers) -/
def NoCopyInto (r : Txt) (ch : List (Txt × Option Change)) : Prop :=
  ∀ e ∈ ch, e.1 = r → ∀ c, e.2 = some c → c.name = r

/-- an unknown register stays unknown as long as it is not overwritten by a copy of another register -/
theorem unknown_stays_without_copy (s : RegState) (r : Txt) (ch : List (Txt × Option Change))
    (hc : NoCopyInto r ch) (h : lookup s r = some none) : lookup (updateState s ch) r = some none := by
  unfold updateState
  induction ch generalizing s with
  | nil => simpa using h
  | cons e es ih =>
    simp only [List.foldl_cons]
    apply ih _ (fun e' he' => hc e' (List.mem_cons_of_mem _ he'))
    by_cases hq : r = e.1
    · subst hq
      cases hc2 : e.2 with
      | none => simp [updateOne, lookup_setReg]
      | some c =>
        have hn : c.name = e.1 := hc e (List.mem_cons_self ..) rfl c hc2
        simp [updateOne, hn, h, lookup_setReg]
    · obtain ⟨v, hv⟩ := updateOne_setReg s e.1 e.2
      rw [hv, lookup_setReg]
      simp [hq, h]

/-- **after an access post-indexed by a register** (`ld1 {v0.2d}, [x1], x2`, `st1 {v3.4s}, [x4], x5`): the
    post-indexed query reports `(base, None)` (Props/C03Roles `reg_changes_post_register`), the tracker records the
    base as changed beyond reconstruction, and from then on — whatever known or unknown changes `later` follow that
    do not overwrite the base with a copy of another register, for all displacements — no store→load dependency
    through that base is found. -/
theorem no_edge_after_register_post_index (sb lb : Reg) (ds dl : Int) (s : RegState)
    (later : List (Txt × Option Change)) (hc : NoCopyInto (fullName lb) later) :
    isMemload (memOp (some sb) none 1 (some ds)) (loadIns (memOp (some lb) none 1 (some dl)))
      (updateState (updateState s [(fullName lb, none)]) later) = false := by
  apply no_edge_when_unknown
  apply unknown_stays_without_copy _ _ _ hc
  simp [updateState, updateOne, lookup_setReg]

/-- one has a base register and the other has not: never the same location -/
theorem no_edge_base_vs_nobase (lb : Reg) (ds dl : Int) (s : RegState) :
    isMemload (memOp none none 1 (some ds)) (loadIns (memOp (some lb) none 1 (some dl))) s = false := by
  simp [isMemload, loadIns, memOp]

/-- different scale factors never match -/
theorem no_edge_when_scale_differs (b i : Reg) (sc1 sc2 : Int) (ds dl : Int) (s : RegState) (h : sc1 ≠ sc2) :
    isMemload (memOp (some b) (some i) sc1 (some ds)) (loadIns (memOp (some b) (some i) sc2 (some dl))) s = false := by
  simp only [isMemload, loadIns, memOp, List.append_nil, List.any_cons, List.any_nil, Bool.or_false]
  have hs : (sc1 != sc2) = true := by simpa using h
  cases lookup s (fullName i) with
  | none => simp [hs]
  | some o => cases o <;> simp [hs]

/-- a later store to the very same operand ends the search (∀ suffixes) -/
theorem store_ends_search (isa : Isa) (m : Mem) (s : RegState) (st : Ins) (rest : List Ins)
    (hstop : memStop isa m st = false) (hstore : isMemstore m st = true) (l : Nat) (tg : Tag)
    (h : (l, tg) ∈ scanMem isa m s (st :: rest)) : l = st.line := by
  simp only [scanMem, hstop, hstore, if_true, Bool.false_eq_true, if_false] at h
  by_cases h3 : isMemload m st (updateState s st.changes) = true
  · simp only [h3, if_true, List.mem_singleton, Prod.mk.injEq] at h; exact h.1
  · simp [h3] at h

/-! register-change tracking: constant increments and decrements add up, copies take over the origin -/

theorem update_add_add (r : Txt) (a b : Int) :
    lookup (updateState [] [(r, some ⟨r, a⟩), (r, some ⟨r, b⟩)]) r = some (some ⟨r, a + b⟩) := by
  simp [updateState, updateOne, lookup, setReg]

-- copy of a copy takes over the origin (the repaired behaviour): b := a + 8 ; c := b − 3 ⇒ c = a + 5
example : lookup (updateState [] [(ofString "rbx", some ⟨ofString "rax", 8⟩),
    (ofString "rcx", some ⟨ofString "rbx", -3⟩)]) (ofString "rcx") = some (some ⟨ofString "rax", 5⟩) := by
  decide +kernel

-- non-vacuity / regression witnesses (both ISAs: AArch64 names carry a prefix)
example : isMemload (memOp (some { pre := ofString "x", name := ofString "2" }) none 1 (some 8))
    (loadIns (memOp (some { pre := ofString "x", name := ofString "2" }) none 1 (some 8))) [] = true := by
  decide +kernel
example : isMemload (memOp (some { name := ofString "rbx" }) none 1 (some 8))
    (loadIns (memOp (some { name := ofString "rbx" }) none 1 (some 0)))
    (updateState [] [(ofString "rbx", some ⟨ofString "rbx", 8⟩)]) = true := by decide +kernel

-- no_edge_after_register_post_index: `str d1, [x2, #8]` ; `ld1 {v5.2d}, [x2], x9` ; `add x2, x2, #8` ; `ldr d2, [x2]`
example : isMemload (memOp (some { pre := ofString "x", name := ofString "2" }) none 1 (some 8))
    (loadIns (memOp (some { pre := ofString "x", name := ofString "2" }) none 1 (some 0)))
    (updateState (updateState [] [(ofString "x2", none)]) [(ofString "x2", some ⟨ofString "x2", 8⟩)]) = false := by
  decide +kernel
-- … while a post-index by a NUMBER keeps the base known: `ldr d5, [x2], #8` ; `ldr d2, [x2]` hits `str d1, [x2, #8]`
example : isMemload (memOp (some { pre := ofString "x", name := ofString "2" }) none 1 (some 8))
    (loadIns (memOp (some { pre := ofString "x", name := ofString "2" }) none 1 (some 0)))
    (updateState [] [(ofString "x2", some ⟨ofString "x2", 8⟩)]) = true := by decide +kernel

-- the repaired sticky unknown: `str d1, [x2, #8]` ; `mov x4, x2` ; `mul x4, x4, x7` ; `mov x4, x2` ; `ldr d2, [x4, #8]`
-- — the fresh copy makes `x4` known again and the load hits the store …
example : isMemload (memOp (some { pre := ofString "x", name := ofString "2" }) none 1 (some 8))
    (loadIns (memOp (some { pre := ofString "x", name := ofString "4" }) none 1 (some 8)))
    (updateState [] [(ofString "x4", some ⟨ofString "x2", 0⟩), (ofString "x4", none),
      (ofString "x4", some ⟨ofString "x2", 0⟩)]) = true := by decide +kernel
-- … while without the second copy (or with an increment of the unknown `x4` instead) it does not
example : isMemload (memOp (some { pre := ofString "x", name := ofString "2" }) none 1 (some 8))
    (loadIns (memOp (some { pre := ofString "x", name := ofString "4" }) none 1 (some 8)))
    (updateState [] [(ofString "x4", some ⟨ofString "x2", 0⟩), (ofString "x4", none),
      (ofString "x4", some ⟨ofString "x4", 8⟩)]) = false := by decide +kernel
-- the same on x86: `movq %rax, 8(%rbx)` ; `movq %rbx, %rcx` ; `imulq %rdx, %rcx` ; `movq %rbx, %rcx` ; `movq 8(%rcx), %rsi`
example : isMemload (memOp (some { name := ofString "rbx" }) none 1 (some 8))
    (loadIns (memOp (some { name := ofString "rcx" }) none 1 (some 8)))
    (updateState [] [(ofString "rcx", some ⟨ofString "rbx", 0⟩), (ofString "rcx", none),
      (ofString "rcx", some ⟨ofString "rbx", 0⟩)]) = true := by decide +kernel

/-! ### semantic soundness of the tracker (concrete register valuations, `Lemmas/Tracking.lean`)

  `Val = Txt → Int` (keyed by the full register name, as the tracker is).  `Exec ρ ch ρ'`: `ρ'` is a
  possible result of performing the reported changes `ch` left to right (`r := n + v`; an unknown
  change writes an arbitrary value; all other registers unchanged).  `Tracks ρ0 ρ s`: every register
  tracked as `(n, v)` holds `ρ0 n + v`, every register without entry holds its initial value.

  Outcome on the side condition asked for in DESIGN.md ("the name recorded for a tracked register is
  never itself overwritten"): it is NOT needed.  Entries refer to the valuation `ρ0` at the store,
  not to the current one, and the store's address is evaluated at `ρ0` as well — see the example
  `copy_then_clobber` below.  What the semantics does not cover is partial-register aliasing
  (`eax` vs `rax` are different keys of the tracker and of `Val`), see `alias_write_invisible`. -/

/-- **`tracks_preserved`**: `updateState` preserves the tracker's invariant along any execution of
    the reported changes (all states, all change lists, all non-deterministic outcomes) -/
theorem tracks_preserved (ρ0 ρ ρ' : Val) (s : RegState) (ch : List (Txt × Option Change))
    (h : Tracks ρ0 ρ s) (hx : Exec ρ ch ρ') : Tracks ρ0 ρ' (updateState s ch) :=
  tracks_updateState ρ0 ρ ρ' s ch h hx

/-- **`tracking_sound`**: whenever the tracked state describes the current valuation `ρ` relative to
    the valuation `ρ0` at the store and `is_memload` reports a dependency, a memory source operand of
    the instruction has *exactly* the store's address, `base (+ index·scale) + displacement`
    evaluated at the store (`ρ0`) resp. at the load (`ρ`).  No side condition. -/
theorem tracking_sound (σ : Txt → Int) (ρ0 ρ : Val) (st : Mem) (i : Ins) (s : RegState) (h : Tracks ρ0 ρ s)
    (hm : isMemload st i s = true) :
    ∃ ld, Op.mem ld ∈ i.src ++ i.srcDst ∧ addr σ st ρ0 = addr σ ld ρ :=
  isMemload_sound σ ρ0 ρ st i s h hm

/-- **`store_load_edge_sound`** (the property end to end, ∀ kernels): every store→load emission of
    `find_depending` for producer `p` names a memory destination `m` of `p` and an instruction `c` of
    the following code such that, starting from ANY valuation `ρ0`, for EVERY execution of `p`'s
    changes AND of `p`'s own post-index write-back (`changesPost`: `str x1, [x2], #8` leaves `x2 + 8`),
    of the instructions before `c`, and of `c`'s own pre-access changes, some memory source
    operand of `c` has the same concrete address as `m` had at the store — for EVERY meaning `σ` of the
    symbols that occur as displacements (a symbol is an unknown but fixed address constant). -/
theorem store_load_edge_sound (σ : Txt → Int) (isa : Isa) (p : Ins) (rest : List Ins) (l : Nat) (tg : Tag)
    (h : (l, tg) ∈ findDependingMem isa p rest) :
    ∃ m, Op.mem m ∈ p.dst ++ p.srcDst ∧ ∃ j c, rest[j]? = some c ∧ c.line = l ∧ tg = Tag.storeLoad ∧
      ∀ ρ0 ρa ρ1 ρj ρ', Exec ρ0 p.changes ρa → Exec ρa p.changesPost ρ1 →
        ExecSeq ρ1 (rest.take j) ρj → Exec ρj c.changes ρ' →
        ∃ ld, Op.mem ld ∈ c.src ++ c.srcDst ∧ addr σ m ρ0 = addr σ ld ρ' := by
  simp only [findDependingMem, List.mem_flatMap] at h
  obtain ⟨d, hd, hmem⟩ := h
  cases d with
  | mem m =>
    obtain ⟨j, c, hj, hl, htg, hall⟩ := scanMem_sound σ isa m rest l tg _ hmem
    refine ⟨m, hd, j, c, hj, hl, htg, ?_⟩
    intro ρ0 ρa ρ1 ρj ρ' h0 h1 hseq hc
    exact hall ρ0 ρ1 ρj ρ'
      (tracks_updateState ρ0 ρa ρ1 _ _ (tracks_updateState ρ0 ρ0 ρa [] _ (tracks_init ρ0) h0) h1) hseq hc
  | reg r => simp [memPart] at hmem
  | flag n => simp [memPart] at hmem
  | other => simp [memPart] at hmem

/-! ### the storing instruction's own post-index write-back -/

/-- `str …, [b], #n`: memory destination `[b]` (post-indexed), no pre-access change, write-back `b := b + n` -/
def postStore (b : Reg) (n : Int) : Ins :=
  { line := 1, src := [], dst := [.mem { memOp (some b) none 1 none with post := true }], srcDst := [],
    lat := 0, latWoLoad := none, hasLd := false, isLd := false, changes := [],
    changesPost := [(fullName b, some { name := fullName b, value := n })] }

theorem startState_postStore (b : Reg) (n : Int) :
    lookup (startState (postStore b n)) (fullName b) = some (some { name := fullName b, value := n }) := by
  simp [startState, postStore, updateState, updateOne, lookup, setReg]

/-- **`post_indexed_store_edge`** (∀ base registers, ∀ immediates `n ≠ 0`): after `store [b], #n` a load from
    `[b, #-n]` is the address-exact store→load dependency, and a load from `[b]` (which reads `b_old + n`) is not. -/
theorem post_indexed_store_edge (b : Reg) (n : Int) (hn : n ≠ 0) :
    isMemload (memOp (some b) none 1 none) (loadIns (memOp (some b) none 1 (some (-n))))
        (startState (postStore b n)) = true ∧
    isMemload (memOp (some b) none 1 none) (loadIns (memOp (some b) none 1 none))
        (startState (postStore b n)) = false := by
  have hs := startState_postStore b n
  constructor
  · simp [isMemload, dispDelta, loadIns, memOp, dispDelta, hs]
  · simp [isMemload, dispDelta, loadIns, memOp, dispDelta, hs, hn]

-- non-vacuity, through the whole scan: `str x1, [x2], #8 ; ldr x3, [x2, #-8]` is emitted, `… ; ldr x3, [x2]` is not
example :
    let x2 : Reg := { pre := ofString "x", name := ofString "2" }
    findDependingMem .a64 (postStore x2 8) [loadIns (memOp (some x2) none 1 (some (-8)))] = [(2, Tag.storeLoad)] ∧
    findDependingMem .a64 (postStore x2 8) [loadIns (memOp (some x2) none 1 none)] = [] := by
  decide +kernel

/-! ### symbolic displacements -/

/-- **`no_edge_symbol_vs_number`**: a symbolic displacement against a numeric or absent one (either way round) is
    never a dependency — whatever registers, scales and tracked state -/
theorem no_edge_symbol_vs_number (st ld : Mem) (s : RegState)
    (h : (st.sym.isSome ∧ ld.sym = none) ∨ (st.sym = none ∧ ld.sym.isSome)) :
    isMemload st (loadIns ld) s = false := by
  have hd : dispDelta st ld = none := by
    unfold dispDelta
    rcases h with ⟨h1, h2⟩ | ⟨h1, h2⟩
    · cases hs : st.sym with
      | none => simp [hs] at h1
      | some a => simp [h2]
    · cases hl : ld.sym with
      | none => simp [hl] at h2
      | some a => simp [h1]
  simp [isMemload, loadIns, hd]

/-- **`no_edge_different_symbols`**: two different symbols are never a dependency -/
theorem no_edge_different_symbols (st ld : Mem) (a b : Txt) (s : RegState)
    (ha : st.sym = some a) (hb : ld.sym = some b) (hne : a ≠ b) :
    isMemload st (loadIns ld) s = false := by
  have hd : dispDelta st ld = none := by simp [dispDelta, ha, hb, hne]
  simp [isMemload, loadIns, hd]

/-- the same symbol with the same (untouched) base register IS a dependency, and its address is exact for every
    meaning of the symbol (`store_load_edge_sound`) -/
theorem same_symbol_edge (b : Reg) (a : Txt) (s : RegState) (hs : lookup s (fullName b) = none) :
    isMemload { memOp (some b) none 1 none with sym := some a }
      (loadIns { memOp (some b) none 1 none with sym := some a }) s = true := by
  simp [isMemload, dispDelta, loadIns, memOp, dispDelta, hs]

-- non-vacuity: `movq %rax, foo(%rcx) ; movq foo(%rcx), %rbx` / `… bar(%rcx)` / `… 8(%rcx)`
example :
    let rcx : Reg := { name := ofString "rcx" }
    let foo : Mem := { memOp (some rcx) none 1 none with sym := some (ofString "foo") }
    let bar : Mem := { memOp (some rcx) none 1 none with sym := some (ofString "bar") }
    isMemload foo (loadIns foo) [] = true ∧ isMemload foo (loadIns bar) [] = false ∧
    isMemload foo (loadIns (memOp (some rcx) none 1 (some 8))) [] = false ∧
    isMemload (memOp (some rcx) none 1 none) (loadIns bar) [] = false := by
  decide +kernel

-- non-vacuity: a concrete execution exists (`rbx := rbx + 8` from a valuation with rbx = 100) and the
-- invariant holds of the tracked state; the conclusion of `tracking_sound` is then 100 + 8 = 108 + 0
example :
    let ρ0 : Val := fun r => if r = ofString "rbx" then 100 else 0
    Exec ρ0 [(ofString "rbx", some ⟨ofString "rbx", 8⟩)] (ρ0.set (ofString "rbx") 108) ∧
    Tracks ρ0 (ρ0.set (ofString "rbx") 108) (updateState [] [(ofString "rbx", some ⟨ofString "rbx", 8⟩)]) := by
  intro ρ0
  have hx : Exec ρ0 [(ofString "rbx", some ⟨ofString "rbx", 8⟩)] (ρ0.set (ofString "rbx") 108) :=
    Exec.cons (by simp [Step1, ρ0]) (Exec.nil _)
  exact ⟨hx, tracks_preserved ρ0 ρ0 _ [] _ (tracks_init ρ0) hx⟩

example :
    let ρ0 : Val := fun r => if r = ofString "rbx" then 100 else 0
    addr (fun _ => 0) (memOp (some { name := ofString "rbx" }) none 1 (some 8)) ρ0 = 108 ∧
    addr (fun _ => 0) (memOp (some { name := ofString "rbx" }) none 1 (some 0)) (ρ0.set (ofString "rbx") 108) = 108 := by
  decide +kernel

/-- no side condition on rename sources (`copy_then_clobber`): `rcx := rbx`, then `rbx` is changed
    beyond reconstruction; a load through `rcx` still hits the store through `rbx` — the tracker says
    so, and by `tracking_sound` it is right (`rcx` holds the value `rbx` had at the store). -/
theorem copy_then_clobber :
    isMemload (memOp (some { name := ofString "rbx" }) none 1 (some 8))
      (loadIns (memOp (some { name := ofString "rcx" }) none 1 (some 8)))
      (updateState [] [(ofString "rcx", some ⟨ofString "rbx", 0⟩), (ofString "rbx", none)]) = true := by
  decide +kernel

/-- limitation of the name-keyed tracker, outside the property's wording (`alias_write_invisible`):
    an unknown write to `eax` leaves the entry of `rax` untouched, so the dependency through `rax` is
    still reported.  The semantics above has the same granularity (`eax`, `rax` are different keys). -/
theorem alias_write_invisible :
    isMemload (memOp (some { name := ofString "rax" }) none 1 (some 0))
      (loadIns (memOp (some { name := ofString "rax" }) none 1 (some 0)))
      (updateState [] [(ofString "eax", none)]) = true := by
  decide +kernel

end OsacaVerif.Props.C06
