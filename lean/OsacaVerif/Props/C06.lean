import OsacaVerif.Model.DG
/-
  C06 — Store-to-load dependencies through provably equal addresses on both ISAs.

  `DG.isMemload st ld-instruction state` is the model of `is_memload` (with the AArch64 prefix repair);
  `DG.updateState` of `_update_reg_changes` (with the copy-of-a-copy repair).
-/
namespace OsacaVerif.Props.C06
open OsacaVerif OsacaVerif.Text OsacaVerif.DG

def memOp (base : Option Reg) (index : Option Reg) (scale : Int) (off : Option Int) : Mem :=
  { base := base, index := index, scale := scale, offset := off, pre := false, post := false, eqKey := [] }

def loadIns (m : Mem) : Ins :=
  { line := 2, src := [.mem m], dst := [], srcDst := [], lat := 0, latWoLoad := none, hasLd := true,
    isLd := false, changes := [], changesPost := [] }

/-- **equal address ⇒ dependency** (∀ registers, displacements, tracked increments): base-only
    addressing, the load's base is tracked as "store base + v", and the displacements compensate. -/
theorem same_location_edge (pre name : Txt) (ds dl v : Int) (s : RegState)
    (hs : lookup s (pre ++ name) = some (some { name := pre ++ name, value := v }))
    (h : dl - ds + v = 0) :
    isMemload (memOp (some { pre := pre, name := name }) none 1 (some ds))
      (loadIns (memOp (some { pre := pre, name := name }) none 1 (some dl))) s = true := by
  simp [isMemload, loadIns, memOp, fullName, hs]
  omega

/-- untouched base register (no entry in the state): dependency iff the displacements are equal -/
theorem untouched_iff_disp_eq (pre name : Txt) (ds dl : Int) (s : RegState)
    (hs : lookup s (pre ++ name) = none) :
    isMemload (memOp (some { pre := pre, name := name }) none 1 (some ds))
      (loadIns (memOp (some { pre := pre, name := name }) none 1 (some dl))) s = decide (dl = ds) := by
  simp [isMemload, loadIns, memOp, fullName, hs]
  by_cases h : dl = ds
  · simp [h]
  · simp [h]; omega

/-- **no dependency when the adjusted displacement differs** -/
theorem no_edge_when_disp_differs (pre name : Txt) (ds dl v : Int) (s : RegState)
    (hs : lookup s (pre ++ name) = some (some { name := pre ++ name, value := v }))
    (h : dl - ds + v ≠ 0) :
    isMemload (memOp (some { pre := pre, name := name }) none 1 (some ds))
      (loadIns (memOp (some { pre := pre, name := name }) none 1 (some dl))) s = false := by
  simp [isMemload, loadIns, memOp, fullName, hs]
  omega

/-- **no dependency when the base registers differ** (the load's base is tracked as a copy of a
    register other than the store's base) -/
theorem no_edge_when_regs_differ (sb lb : Reg) (origin : Txt) (ds dl v : Int) (s : RegState)
    (hs : lookup s (fullName lb) = some (some { name := origin, value := v }))
    (hne : fullName sb ≠ origin) :
    isMemload (memOp (some sb) none 1 (some ds)) (loadIns (memOp (some lb) none 1 (some dl))) s = false := by
  simp [isMemload, loadIns, memOp, hs, hne]

/-- a register changed beyond reconstruction never yields a dependency -/
theorem no_edge_when_unknown (sb lb : Reg) (ds dl : Int) (s : RegState)
    (hs : lookup s (fullName lb) = some none) :
    isMemload (memOp (some sb) none 1 (some ds)) (loadIns (memOp (some lb) none 1 (some dl))) s = false := by
  simp [isMemload, loadIns, memOp, hs]

/-- one has a base register and the other has not: never the same location -/
theorem no_edge_base_vs_nobase (lb : Reg) (ds dl : Int) (s : RegState) :
    isMemload (memOp none none 1 (some ds)) (loadIns (memOp (some lb) none 1 (some dl))) s = false := by
  simp [isMemload, loadIns, memOp]

/-- different scale factors never match -/
theorem no_edge_when_scale_differs (b i : Reg) (sc1 sc2 : Int) (ds dl : Int) (s : RegState) (h : sc1 ≠ sc2) :
    isMemload (memOp (some b) (some i) sc1 (some ds)) (loadIns (memOp (some b) (some i) sc2 (some dl))) s = false := by
  simp only [isMemload, loadIns, memOp, List.append_nil, List.any_cons, List.any_nil, Bool.or_false]
  have hs : (sc1 != sc2) = true := by simpa using h
  cases lookup s (fullName i) with
  | none => simp [hs]
  | some o => cases o <;> simp [hs]

/-- a later store to the very same operand ends the search (∀ suffixes) -/
theorem store_ends_search (isa : Isa) (m : Mem) (s : RegState) (st : Ins) (rest : List Ins)
    (hstop : memStop isa m st = false) (hstore : isMemstore m st = true) (l : Nat) (tg : Tag)
    (h : (l, tg) ∈ scanMem isa m s (st :: rest)) : l = st.line := by
  simp only [scanMem, hstop, hstore, if_true, Bool.false_eq_true, if_false] at h
  by_cases h3 : isMemload m st (updateState s st.changes) = true
  · simp only [h3, if_true, List.mem_singleton, Prod.mk.injEq] at h; exact h.1
  · simp [h3] at h

/-! register-change tracking: constant increments and decrements add up, copies take over the origin -/

theorem update_add_add (r : Txt) (a b : Int) :
    lookup (updateState [] [(r, some ⟨r, a⟩), (r, some ⟨r, b⟩)]) r = some (some ⟨r, a + b⟩) := by
  simp [updateState, updateOne, lookup, setReg]

-- copy of a copy takes over the origin (the repaired behaviour): b := a + 8 ; c := b − 3 ⇒ c = a + 5
example : lookup (updateState [] [(ofString "rbx", some ⟨ofString "rax", 8⟩),
    (ofString "rcx", some ⟨ofString "rbx", -3⟩)]) (ofString "rcx") = some (some ⟨ofString "rax", 5⟩) := by
  decide +kernel

-- non-vacuity / regression witnesses (both ISAs: AArch64 names carry a prefix)
example : isMemload (memOp (some { pre := ofString "x", name := ofString "2" }) none 1 (some 8))
    (loadIns (memOp (some { pre := ofString "x", name := ofString "2" }) none 1 (some 8))) [] = true := by
  decide +kernel
example : isMemload (memOp (some { name := ofString "rbx" }) none 1 (some 8))
    (loadIns (memOp (some { name := ofString "rbx" }) none 1 (some 0)))
    (updateState [] [(ofString "rbx", some ⟨ofString "rbx", 8⟩)]) = true := by decide +kernel

end OsacaVerif.Props.C06
