import OsacaVerif.Model.Pipeline
import OsacaVerif.Lemmas.Pipeline
import OsacaVerif.Props.C11
import OsacaVerif.Model.Compose
import OsacaVerif.Model.Isa
/-
  C11 at the level of the numeric analysis — the composed pipeline `Pipeline.run`
  (selection ∘ dependency graph ∘ critical path ∘ loop-carried dependencies ∘ column sums).

  * `analysis_rename_equivariant`, `analysis_renumber_invariant` — the analysis depends on the line
    numbers only through an order-preserving renaming (also the LCD offset `max(floor, max line + 1)`
    and the search depth, which are computed from the numbers, do not matter);
  * `noise_drop`, `noise_transparent`, `blank_and_noise_transparent` — comment / label / directive lines
    change nothing but line numbers (critical-path marks: for a positive total, see `cp_zero_quirk`);
  * `three_ways_same`, `three_ways_same_x86`, `three_ways_same_a64` — markers, `--lines a-b` and the body
    alone give the same analysis up to that renaming.

  All for kernels of any length, any per-instruction data, any ISA, with and without flag
  dependencies, any model parameters and any `floor`.
-/
namespace OsacaVerif.Props.C11Pipeline
open OsacaVerif OsacaVerif.Text OsacaVerif.Pipeline OsacaVerif.Marker OsacaVerif.Spec.KernelSelect
open OsacaVerif.Props.C11

/-! ### vocabulary -/

/-- a line with its number replaced -/
def setNum (n : Nat) (l : PLine) : PLine := { l with sel := { l.sel with num := n } }

/-- a line without its number: "the same line" -/
def eraseNum (l : PLine) : PLine := setNum 0 l

/-- the kernel numbered by position 0, 1, 2, … -/
def canon (k : List PLine) : List PLine := k.mapIdx (fun j l => setNum j l)

/-- the order-preserving map `position ↦ line number` of an increasing list of numbers (continued
    beyond the list) -/
def lineFn (nums : List Nat) (x : Nat) : Nat :=
  if x < nums.length then nums.getD x 0 else nums.getD (nums.length - 1) 0 + 1 + (x - nums.length)

theorem getD_lt (nums : List Nat) (x : Nat) (h : x < nums.length) : nums.getD x 0 = nums[x] := by
  simp [List.getD, List.getElem?_eq_getElem h]

theorem lineFn_lt (nums : List Nat) (x : Nat) (h : x < nums.length) : lineFn nums x = nums[x] := by
  unfold lineFn
  rw [if_pos h, getD_lt _ _ h]

theorem lineFn_incr (nums : List Nat) (h : nums.Pairwise (· < ·)) : Incr (lineFn nums) := by
  intro a b hab
  rw [List.pairwise_iff_getElem] at h
  unfold lineFn
  by_cases hb : b < nums.length
  · have ha : a < nums.length := by omega
    rw [if_pos ha, if_pos hb, getD_lt _ _ ha, getD_lt _ _ hb]
    exact h a b ha hb hab
  · rw [if_neg hb]
    by_cases ha : a < nums.length
    · rw [if_pos ha, getD_lt _ _ ha, getD_lt _ _ (by omega : nums.length - 1 < nums.length)]
      by_cases hlast : a = nums.length - 1
      · subst hlast; omega
      · have := h a (nums.length - 1) ha (by omega) (by omega); omega
    · rw [if_neg ha]; omega

theorem lineFn_incr' (k : List PLine) (h : Increasing k) : Incr (lineFn (k.map (·.num))) :=
  lineFn_incr _ h

theorem select_lines (spec : Txt) (file : List PLine) :
    select (.lines spec) file = match getLineRange spec with
      | some r => .ok (selectRange r file)
      | none => .badLines := rfl

theorem select_markers (isa : Txt) (file : List PLine) : select (.markers isa) file = selectMarkers file isa := rfl

theorem canon_length (k : List PLine) : (canon k).length = k.length := by simp [canon]

/-- an increasing kernel is its position-numbered form, renamed by `position ↦ line number` -/
theorem canon_rename (k : List PLine) :
    k = (canon k).map (renLine (lineFn (k.map (·.num)))) := by
  apply List.ext_getElem
  · simp [canon]
  · intro j h1 h2
    simp only [canon, List.getElem_map, List.getElem_mapIdx]
    have : lineFn (k.map (·.num)) j = (k[j]).num := by
      rw [lineFn_lt _ _ (by simpa using h1)]; simp
    show k[j] = setNum (lineFn (k.map (·.num)) j) k[j]
    rw [this]
    rfl

theorem canon_congr (k1 k2 : List PLine) (h : k1.map eraseNum = k2.map eraseNum) : canon k1 = canon k2 := by
  have hlen : k1.length = k2.length := by simpa using congrArg List.length h
  apply List.ext_getElem
  · simp [canon, hlen]
  · intro j h1 h2
    simp only [canon, List.getElem_mapIdx]
    have hj1 : j < k1.length := by simpa [canon] using h1
    have hj2 : j < k2.length := by omega
    have e : eraseNum k1[j] = eraseNum k2[j] := by
      have := congrArg (fun l => l[j]?) h
      simpa [hj1, hj2] using this
    have s1 : ∀ l : PLine, setNum j l = setNum j (eraseNum l) := fun _ => rfl
    rw [s1 k1[j], s1 k2[j], e]

theorem canon_lines (k : List PLine) : (canon k).map (·.num) = List.range k.length := by
  apply List.ext_getElem
  · simp [canon]
  · intro j h1 h2
    simp [canon, setNum, PLine.num]


/-! ### 0. the composition uses the stage models as they are -/

/-- the marker branch of `Pipeline.select` is C11's `reduceToSection` on the abstracted lines -/
theorem select_markers_is_reduceToSection (file : List PLine) (isa : Txt) :
    (match select (.markers isa) file with
      | .ok k => Marker.Sel.ok (k.map (·.sel))
      | .badIsa => .badIsa
      | _ => .raised) = reduceToSection (file.map (·.sel)) isa := by
  rw [select_markers]
  unfold selectMarkers cfgOf reduceToSection
  simp only
  by_cases h1 : (if Gen.isaLowered = true then lower isa else isa) = Gen.x86IsaName
  · simp only [h1, if_true]
    rw [← selectWith_spec]
    cases selectWith x86Cfg file <;> rfl
  · by_cases h2 : (if Gen.isaLowered = true then lower isa else isa) = Gen.a64IsaName
    · have hne : ¬ Gen.a64IsaName = Gen.x86IsaName := by decide
      simp only [h2, hne, if_true, if_false]
      rw [← selectWith_spec]
      cases selectWith a64Cfg file <;> rfl
    · simp only [h1, h2, if_false]

/-- the `--lines` branch is C11's `getLineRange` and `selectLines` -/
theorem select_lines_is_selectLines (file : List PLine) (spec : Txt) :
    (match select (.lines spec) file with
      | .ok k => some (k.map (·.sel))
      | _ => none) = (getLineRange spec).map (fun r => selectLines r (file.map (·.sel))) := by
  rw [select_lines]
  cases getLineRange spec with
  | none => rfl
  | some r => simp only [Option.map_some]; rw [← selectRange_spec]

/-- what the model stores on a line without mnemonic is what the models of `assign_tp_lt` (C08),
    `assign_src_dst` and `get_reg_changes` (C03Roles) compute for it -/
theorem noiseSem_is_stage_models (m : Compose.MModel) (i : Compose.Ins) (hi : i.mnemonic = none)
    (isa : Operand.Isa) (db : List Isa.IsaEntry) (ops : List Isa.Opnd) (sem : Isa.Sem) (onlyPost : Bool) :
    (∃ r, Compose.assignTpLt m i = .ok r ∧ r.tp = (noiseSem m.ports.length).tp ∧ r.lat = (noiseSem m.ports.length).lat ∧
      some r.latWoLoad = (noiseSem m.ports.length).latWoLoad ∧ r.pressure = (noiseSem m.ports.length).pressure ∧
      r.flags = (noiseSem m.ports.length).flags) ∧
    (Isa.assignSrcDst isa db none ops).sem = {} ∧ (Isa.assignSrcDst isa db none ops).hasLd = (noiseSem 0).hasLd ∧
    Isa.regChanges isa db none ops sem onlyPost = .ok [] := by
  refine ⟨⟨Compose.nonInstruction m, ?_, rfl, rfl, rfl, rfl, rfl⟩, rfl, rfl, rfl⟩
  unfold Compose.assignTpLt
  rw [hi]

/-- the entry the report model (C13) picks for the LCD column and the LCD total is the entry
    `firstMaxDep` picks: `Report.lcdMembers` / `Report.lcdSumRepr` of the handed-over record are
    `lcdMarks` / `lcdFigure` of the analysis -/
theorem report_lcd_selection (repr : Rat → Txt) (ports : List Txt) (iu : Bool) (c : Pipeline.Cfg) (k : List PLine) :
    Report.lcdMembers (toReport repr ports iu c.nports k (analyze c k)) =
      (analyze c k).lcdMarks.map (fun p => (p.1, repr p.2)) ∧
    ((analyze c k).lcdDict ≠ [] →
      Report.lcdSumRepr (toReport repr ports iu c.nports k (analyze c k)) = repr (analyze c k).lcdFigure) := by
  have key : ∀ (d : List (List Nat × LcdPost.Entry)) (g : List Nat × LcdPost.Entry → Report.Dep)
      (hg : ∀ x, (g x).lat = x.2.1), Report.firstMax (d.map g) = (firstMaxDep d).map g := by
    intro d g hg
    cases d with
    | nil => rfl
    | cons x xs =>
      simp only [List.map_cons, Report.firstMax, firstMaxDep, Option.map_some, Option.some.injEq]
      induction xs generalizing x with
      | nil => rfl
      | cons y ys ih =>
        simp only [List.map_cons, List.foldl_cons, hg]
        split
        · exact ih y
        · exact ih x
  unfold Report.lcdMembers Report.lcdSumRepr toReport
  simp only
  rw [key _ _ (fun _ => rfl)]
  show _ ∧ ((analyze c k).lcdDict ≠ [] → _)
  have hfig : (analyze c k).lcdFigure = match firstMaxDep (analyze c k).lcdDict with | some d => d.2.1 | none => 0 := rfl
  have hmarks : (analyze c k).lcdMarks = match firstMaxDep (analyze c k).lcdDict with | some d => d.2.2 | none => [] := rfl
  rw [hfig, hmarks]
  cases h : firstMaxDep (analyze c k).lcdDict with
  | none =>
    refine ⟨rfl, ?_⟩
    intro hne
    cases hd : (analyze c k).lcdDict with
    | nil => exact absurd hd hne
    | cons x xs => rw [hd] at h; simp [firstMaxDep] at h
  | some d => exact ⟨rfl, fun _ => rfl⟩

/-! ### 1. renumbering -/

/-- **analysis_rename_equivariant** (∀ kernels, ∀ order-preserving `f`): renaming the line numbers of
    the kernel renames the line numbers of the analysis and changes nothing else — per-line numbers,
    edges with weights, critical-path total and marks, loop-carried dependencies (members, latencies,
    dictionary order, reported entry), column sums. -/
theorem analysis_rename_equivariant (c : Pipeline.Cfg) (k : List PLine) (f : Nat → Nat) (hf : Incr f) :
    analyze c (k.map (renLine f)) = (analyze c k).rename f :=
  analyze_ren hf c k

/-- the renaming leaves every number that is not a line number alone -/
theorem rename_values (a : Analysis) (f : Nat → Nat) :
    (a.rename f).cpTotal = a.cpTotal ∧ (a.rename f).lcdFigure = a.lcdFigure ∧ (a.rename f).colSums = a.colSums ∧
    (a.rename f).edges.map (·.w) = a.edges.map (·.w) ∧ (a.rename f).cpMarks.map (·.2) = a.cpMarks.map (·.2) ∧
    (a.rename f).lcd.map (fun e => (e.lats, e.latency)) = a.lcd.map (fun e => (e.lats, e.latency)) ∧
    (a.rename f).lcdMarks.map (·.2) = a.lcdMarks.map (·.2) ∧
    (a.rename f).rows.map (fun r => (r.instr, r.lat, r.latWoLoad, r.tp, r.pressure)) =
      a.rows.map (fun r => (r.instr, r.lat, r.latWoLoad, r.tp, r.pressure)) := by
  simp [Analysis.rename, List.map_map, Function.comp_def, renEdge, renPair, renEntry, renRow]

/-- **analysis_renumber_invariant** (∀ kernels of any length, ∀ numberings): two kernels with the same
    lines in the same order and strictly increasing line numbers have the same analysis up to the
    renaming of line numbers: both analyses are the analysis `a₀` of the position-numbered kernel,
    renamed by the order-preserving maps `gᵢ : position ↦ line number in kernel i`. -/
theorem analysis_renumber_invariant (c : Pipeline.Cfg) (k1 k2 : List PLine)
    (hsame : k1.map eraseNum = k2.map eraseNum) (h1 : Increasing k1) (h2 : Increasing k2) :
    ∃ (a₀ : Analysis) (g1 g2 : Nat → Nat), Incr g1 ∧ Incr g2 ∧
      (∀ j (h : j < k1.length), g1 j = (k1[j]).num) ∧ (∀ j (h : j < k2.length), g2 j = (k2[j]).num) ∧
      a₀ = analyze c (canon k1) ∧ a₀.rows.map (·.line) = List.range k1.length ∧
      analyze c k1 = a₀.rename g1 ∧ analyze c k2 = a₀.rename g2 := by
  refine ⟨analyze c (canon k1), lineFn (k1.map (·.num)), lineFn (k2.map (·.num)),
    lineFn_incr' k1 h1, lineFn_incr' k2 h2, ?_, ?_, rfl, ?_, ?_, ?_⟩
  · intro j h; rw [lineFn_lt _ _ (by simpa using h)]; simp
  · intro j h; rw [lineFn_lt _ _ (by simpa using h)]; simp
  · show ((canon k1).map (rowOf c.nports)).map (·.line) = _
    rw [List.map_map, ← canon_lines]; rfl
  · rw [← analyze_ren (lineFn_incr' k1 h1), ← canon_rename]
  · rw [canon_congr k1 k2 hsame, ← analyze_ren (lineFn_incr' k2 h2), ← canon_rename]

/-- consequence: every number that is not a line number is equal, list by list -/
theorem analysis_renumber_values (c : Pipeline.Cfg) (k1 k2 : List PLine)
    (hsame : k1.map eraseNum = k2.map eraseNum) (h1 : Increasing k1) (h2 : Increasing k2) :
    (analyze c k1).cpTotal = (analyze c k2).cpTotal ∧ (analyze c k1).lcdFigure = (analyze c k2).lcdFigure ∧
    (analyze c k1).colSums = (analyze c k2).colSums ∧
    (analyze c k1).edges.map (·.w) = (analyze c k2).edges.map (·.w) ∧
    (analyze c k1).cpMarks.map (·.2) = (analyze c k2).cpMarks.map (·.2) ∧
    (analyze c k1).lcd.map (fun e => (e.lats, e.latency)) = (analyze c k2).lcd.map (fun e => (e.lats, e.latency)) := by
  obtain ⟨a₀, g1, g2, _, _, _, _, _, _, e1, e2⟩ := analysis_renumber_invariant c k1 k2 hsame h1 h2
  have r1 := rename_values a₀ g1
  have r2 := rename_values a₀ g2
  rw [e1, e2]
  exact ⟨r1.1.trans r2.1.symm, r1.2.1.trans r2.2.1.symm, r1.2.2.1.trans r2.2.2.1.symm,
    r1.2.2.2.1.trans r2.2.2.2.1.symm, r1.2.2.2.2.1.trans r2.2.2.2.2.1.symm,
    r1.2.2.2.2.2.1.trans r2.2.2.2.2.2.1.symm⟩

/-! ### 2. non-instruction lines -/

/-- what it means that the analysis `a` of a kernel says about its instructions what the analysis
    `b` of the instruction lines alone says -/
structure SameOnInstr (nports : Nat) (a b : Analysis) : Prop where
  rows : a.rows.filter (·.instr) = b.rows
  noiseRows : ∀ r ∈ a.rows, r.instr = false →
    r.lat = 0 ∧ r.latWoLoad = some 0 ∧ r.tp = 0 ∧ r.pressure = Ports.zeros nports
  edges : a.edges = b.edges
  lcd : a.lcd = b.lcd
  lcdDict : a.lcdDict = b.lcdDict
  lcdFigure : a.lcdFigure = b.lcdFigure
  lcdMarks : a.lcdMarks = b.lcdMarks
  colSums : a.colSums = b.colSums
  cpTotal : 0 ≤ b.cpTotal → a.cpTotal = b.cpTotal
  cpMarks : 0 < b.cpTotal → a.cpMarks = b.cpMarks

/-- **noise_drop** (∀ kernels with increasing numbers, ∀ positions and numbers of comment / label /
    directive lines): the analysis of a kernel and the analysis of its instruction lines alone agree
    — with the SAME line numbers: identical edge list, identical loop-carried dependencies
    (although offset and search depth are computed with the extra lines), identical column sums,
    identical per-instruction rows; the extra lines carry zeros; the critical-path total is the same
    (when non-negative, i.e. always for real latencies) and the marked lines are the same when the total
    is positive. -/
theorem noise_drop (c : Pipeline.Cfg) (k : List PLine) (hk : Increasing k) :
    SameOnInstr c.nports (analyze c k) (analyze c (k.filter (·.isInstr))) := by
  have he := create_instr c k
  have hl := lcd_instr c k hk
  refine ⟨rows_instr c.nports k, ?_, he, hl, ?_, ?_, ?_, colSums_instr c.nports k,
    cpTotal_instr c k hk, cpMarks_instr c k hk⟩
  · intro r hr hi
    obtain ⟨l, _, rfl⟩ := List.mem_map.mp hr
    have := row_noise c.nports l hi
    rw [this]; exact ⟨rfl, rfl, rfl, rfl⟩
  · show LcdPost.postE (List.map entryOf (LCD.lcd _ _ _ _ _)) = LcdPost.postE (List.map entryOf (LCD.lcd _ _ _ _ _))
    rw [hl]
  · show (match firstMaxDep (LcdPost.postE (List.map entryOf (LCD.lcd _ _ _ _ _))) with
      | some d => d.2.1 | none => 0) = (match firstMaxDep (LcdPost.postE (List.map entryOf (LCD.lcd _ _ _ _ _))) with
      | some d => d.2.1 | none => 0)
    rw [hl]
  · show (match firstMaxDep (LcdPost.postE (List.map entryOf (LCD.lcd _ _ _ _ _))) with
      | some d => d.2.2 | none => []) = (match firstMaxDep (LcdPost.postE (List.map entryOf (LCD.lcd _ _ _ _ _))) with
      | some d => d.2.2 | none => [])
    rw [hl]

/-- **noise_transparent** (∀ kernels, ∀ insertions): two kernels with increasing numbers whose
    INSTRUCTION lines are the same in the same order — e.g. one arises from the other by inserting any
    number of comment / label / directive lines at any positions, which renumbers everything behind
    them — have the same analysis of their instructions up to the renaming of line numbers: there is
    one analysis `a₀` (of the position-numbered instruction lines) and order-preserving maps
    `gᵢ : instruction ordinal ↦ line number in kernel i` such that `analyze kᵢ` agrees on the
    instructions (`SameOnInstr`) with `a₀` renamed by `gᵢ`. -/
theorem noise_transparent (c : Pipeline.Cfg) (k1 k2 : List PLine) (h1 : Increasing k1) (h2 : Increasing k2)
    (hsame : (k1.filter (·.isInstr)).map eraseNum = (k2.filter (·.isInstr)).map eraseNum) :
    ∃ (a₀ : Analysis) (g1 g2 : Nat → Nat), Incr g1 ∧ Incr g2 ∧
      (∀ j (h : j < (k1.filter (·.isInstr)).length), g1 j = ((k1.filter (·.isInstr))[j]).num) ∧
      (∀ j (h : j < (k2.filter (·.isInstr)).length), g2 j = ((k2.filter (·.isInstr))[j]).num) ∧
      a₀ = analyze c (canon (k1.filter (·.isInstr))) ∧
      SameOnInstr c.nports (analyze c k1) (a₀.rename g1) ∧ SameOnInstr c.nports (analyze c k2) (a₀.rename g2) := by
  obtain ⟨a₀, g1, g2, hg1, hg2, p1, p2, ha, _, e1, e2⟩ :=
    analysis_renumber_invariant c _ _ hsame (h1.sublist List.filter_sublist) (h2.sublist List.filter_sublist)
  refine ⟨a₀, g1, g2, hg1, hg2, p1, p2, ha, ?_, ?_⟩
  · rw [← e1]; exact noise_drop c k1 h1
  · rw [← e2]; exact noise_drop c k2 h2

/-- the numbers of the instructions are equal in the two analyses (critical path for a non-negative total) -/
theorem noise_transparent_values (c : Pipeline.Cfg) (k1 k2 : List PLine) (h1 : Increasing k1) (h2 : Increasing k2)
    (hsame : (k1.filter (·.isInstr)).map eraseNum = (k2.filter (·.isInstr)).map eraseNum) :
    (analyze c k1).lcdFigure = (analyze c k2).lcdFigure ∧ (analyze c k1).colSums = (analyze c k2).colSums ∧
    (analyze c k1).edges.map (·.w) = (analyze c k2).edges.map (·.w) ∧
    (analyze c k1).lcd.map (fun e => (e.lats, e.latency)) = (analyze c k2).lcd.map (fun e => (e.lats, e.latency)) ∧
    (0 ≤ (analyze c (k1.filter (·.isInstr))).cpTotal → (analyze c k1).cpTotal = (analyze c k2).cpTotal) := by
  have n1 := noise_drop c k1 h1
  have n2 := noise_drop c k2 h2
  have v := analysis_renumber_values c _ _ hsame (h1.sublist List.filter_sublist) (h2.sublist List.filter_sublist)
  refine ⟨by rw [n1.lcdFigure, n2.lcdFigure]; exact v.2.1, by rw [n1.colSums, n2.colSums]; exact v.2.2.1,
    by rw [n1.edges, n2.edges]; exact v.2.2.2.1, by rw [n1.lcd, n2.lcd]; exact v.2.2.2.2.2, ?_⟩
  intro hnn
  rw [n1.cpTotal hnn, n2.cpTotal (by rw [← v.1]; exact hnn)]
  exact v.1

/-- **blank lines and noise lines together**: a file is read by `parse_file` (`Marker.numberFrom`: blank
    lines get no instruction form but count for the numbering, `Props.C11.blank_line_transparent`) and
    each remaining text is parsed and matched by some per-line function `P` that does not see the number.
    Inserting a whitespace-only line anywhere changes the analysis of the whole file only by the
    renaming of line numbers. -/
theorem blank_line_transparent_analysis (c : Pipeline.Cfg) (P : Txt → PLine) (start : Nat) (xs ys : List Txt) (b : Txt)
    (hb : PyInt.isBlank b = true) :
    let k1 := (numberFrom start 0 (xs ++ ys)).map (fun p => setNum p.1 (P p.2))
    let k2 := (numberFrom start 0 (xs ++ b :: ys)).map (fun p => setNum p.1 (P p.2))
    ∃ (a₀ : Analysis) (g1 g2 : Nat → Nat), Incr g1 ∧ Incr g2 ∧
      analyze c k1 = a₀.rename g1 ∧ analyze c k2 = a₀.rename g2 := by
  intro k1 k2
  have hsame : k1.map eraseNum = k2.map eraseNum := by
    have e : ∀ l : List (Nat × Txt), (l.map (fun p => setNum p.1 (P p.2))).map eraseNum =
        (l.map (·.2)).map (fun t => eraseNum (P t)) := by
      intro l; simp only [List.map_map]; rfl
    show ((numberFrom start 0 (xs ++ ys)).map _).map eraseNum = ((numberFrom start 0 (xs ++ b :: ys)).map _).map eraseNum
    rw [e, e, blank_line_transparent start xs ys b hb]
  have hinc : ∀ ts, Increasing ((numberFrom start 0 ts).map (fun p => setNum p.1 (P p.2))) := by
    intro ts
    unfold Increasing
    rw [List.map_map]
    exact numbers_increasing start 0 ts
  obtain ⟨a₀, g1, g2, hg1, hg2, _, _, _, _, e1, e2⟩ :=
    analysis_renumber_invariant c k1 k2 hsame (hinc _) (hinc _)
  exact ⟨a₀, g1, g2, hg1, hg2, e1, e2⟩

/-! ### 3. three ways -/

/-- **three_ways_same** (∀ prologues, bodies, epilogues, marker styles; both ISAs through `Agree`): for a
    marked file whose body carries the numbers `a … b`, (1) the markers and (2) `--lines a-b` (or `a:b`)
    select exactly the body, hence give the same analysis; (3) the body alone as a file (any increasing
    numbering of the same lines, e.g. 1 … n) is selected completely, and its analysis is the same up to
    the renaming of line numbers. -/
theorem three_ways_same (c : Pipeline.Cfg) (mc : Marker.Cfg) (m : MarkerConv) (hag : Agree mc m)
    (pro sm body em epi alone : List PLine)
    (hpro : Quiet m (pro.map (·.sel)) (sm.map (·.sel) ++ (body.map (·.sel) ++ (em.map (·.sel) ++ epi.map (·.sel)))))
    (hsm : StartMarker m (sm.map (·.sel)))
    (hbody : Quiet m (body.map (·.sel)) (em.map (·.sel) ++ epi.map (·.sel)))
    (hem : EndMarker m (em.map (·.sel)))
    (a b : Nat) (colon : Bool)
    (hb : ∀ l ∈ body, a ≤ l.num ∧ l.num ≤ b) (hlo : ∀ l ∈ pro ++ sm, l.num < a) (hhi : ∀ l ∈ em ++ epi, b < l.num)
    (hinc : Increasing body)
    (hsame : alone.map eraseNum = body.map eraseNum) (hainc : Increasing alone)
    (halone : Quiet m (alone.map (·.sel)) []) :
    let file := pro ++ (sm ++ (body ++ (em ++ epi)))
    selectWith mc file = some body ∧
    select (.lines (renderSpec [.range a b colon])) file = .ok body ∧
    selectWith mc alone = some alone ∧
    ∃ (a₀ : Analysis) (g1 g2 : Nat → Nat), Incr g1 ∧ Incr g2 ∧
      (∀ j (h : j < body.length), g1 j = (body[j]).num) ∧ (∀ j (h : j < alone.length), g2 j = (alone[j]).num) ∧
      analyze c body = a₀.rename g1 ∧ analyze c alone = a₀.rename g2 := by
  intro file
  refine ⟨?_, ?_, ?_, ?_⟩
  · -- markers: the positions found by the scan are those of the body
    have hidx := marked_exact_sem mc (pro.map (·.sel)) (sm.map (·.sel)) (body.map (·.sel)) (em.map (·.sel))
      (epi.map (·.sel))
      (quiet_noStop mc _ _ (quiet_quietSeg mc m hag _ _ hpro))
      (startMarker_isStart mc m hag _ hsm _)
      (quiet_quietSeg mc m hag _ _ hbody)
      (endMarker_isEnd mc m hag _ hem _)
    have hfile : file = (pro ++ sm) ++ (body ++ (em ++ epi)) := by simp [file]
    rw [hfile]
    apply selectWith_of_reduce
    simp only [List.map_append, List.length_append, List.length_map, List.append_assoc] at hidx ⊢
    exact hidx
  · -- --lines
    rw [select_lines, lines_denotation [.range a b colon] (by simp)]
    simp only
    congr 1
    have hmem : ∀ n : Nat, ((n : Int) ∈ (denoteAll [.range a b colon]).map (fun (n : Nat) => (n : Int))) ↔
        (a ≤ n ∧ n ≤ b) := by
      intro n
      simp only [denoteAll, List.flatMap_cons, List.flatMap_nil, List.append_nil, Item.denote, List.mem_map,
        List.mem_range'_1]
      constructor
      · rintro ⟨k, hk, hkn⟩; have : k = n := by exact_mod_cast hkn
        omega
      · intro h; exact ⟨n, by omega, rfl⟩
    have hfile : file = (pro ++ sm) ++ (body ++ (em ++ epi)) := by simp [file]
    rw [hfile]
    unfold selectRange
    rw [List.filter_append (pro ++ sm), List.filter_append body]
    have f1 : (pro ++ sm).filter (fun l => ((denoteAll [.range a b colon]).map (fun (n : Nat) => (n : Int))).contains (l.num : Int)) = [] := by
      rw [List.filter_eq_nil_iff]; intro l hl
      rw [List.contains_iff_mem, hmem]; have := hlo l hl; omega
    have f2 : (em ++ epi).filter (fun l => ((denoteAll [.range a b colon]).map (fun (n : Nat) => (n : Int))).contains (l.num : Int)) = [] := by
      rw [List.filter_eq_nil_iff]; intro l hl
      rw [List.contains_iff_mem, hmem]; have := hhi l hl; omega
    have f3 : body.filter (fun l => ((denoteAll [.range a b colon]).map (fun (n : Nat) => (n : Int))).contains (l.num : Int)) = body := by
      rw [List.filter_eq_self]; intro l hl
      rw [List.contains_iff_mem, hmem]; exact hb l hl
    rw [f1, f2, f3]; simp
  · -- the body alone: no marker, the whole file
    unfold selectWith findMarkedSection
    have hq := quiet_quietSeg mc m hag _ [] halone
    have := scan_quiet mc (alone.map (·.sel)) [] hq 0 none
    rw [List.append_nil] at this
    rw [this]
    simp [scan, sliceOf]
  · obtain ⟨a₀, g1, g2, hg1, hg2, p1, p2, _, _, e1, e2⟩ :=
      analysis_renumber_invariant c body alone hsame.symm hinc hainc
    exact ⟨a₀, g1, g2, hg1, hg2, p1, p2, e1, e2⟩

theorem cfgOf_x86 (isa : Txt) (h : lower isa = [120, 56, 54]) : cfgOf isa = some x86Cfg := by
  unfold cfgOf
  simp only [show Gen.isaLowered = true from rfl, if_true, h, show Gen.x86IsaName = [120, 56, 54] from rfl]

theorem cfgOf_a64 (isa : Txt) (h : lower isa = [97, 97, 114, 99, 104, 54, 52]) : cfgOf isa = some a64Cfg := by
  unfold cfgOf
  have h1 : ([97, 97, 114, 99, 104, 54, 52] : Txt) ≠ [120, 56, 54] := by decide
  simp only [show Gen.isaLowered = true from rfl, if_true, h, show Gen.x86IsaName = [120, 56, 54] from rfl,
    show Gen.a64IsaName = [97, 97, 114, 99, 104, 54, 52] from rfl, h1, if_false]

/-- the whole pipeline, for a marker configuration reached through `reduce_to_section(kernel, isa)` -/
theorem three_ways_run (c : Pipeline.Cfg) (isa : Txt) (mc : Marker.Cfg) (hcfg : cfgOf isa = some mc)
    (file body alone : List PLine) (spec : Txt) (hne : body ≠ [])
    (h1 : selectWith mc file = some body) (h2 : select (.lines spec) file = .ok body)
    (h3 : selectWith mc alone = some alone) (hlen : alone.length = body.length) :
    run c (.markers isa) file = .ok (analyze c body) ∧ run c (.lines spec) file = .ok (analyze c body) ∧
    run c (.markers isa) alone = .ok (analyze c alone) := by
  have hne' : alone ≠ [] := by
    intro h; rw [h] at hlen; exact hne (List.length_eq_zero_iff.mp hlen.symm)
  refine ⟨?_, ?_, ?_⟩
  · unfold run
    rw [select_markers]
    unfold selectMarkers
    rw [hcfg]
    cases body with
    | nil => exact absurd rfl hne
    | cons x xs => simp only [h1]
  · unfold run
    rw [h2]
    cases body with
    | nil => exact absurd rfl hne
    | cons x xs => rfl
  · unfold run
    rw [select_markers]
    unfold selectMarkers
    rw [hcfg]
    cases alone with
    | nil => exact absurd rfl hne'
    | cons x xs => simp only [h3]

/-- **three_ways_same_x86**: through `run` with `--arch`'s ISA spelt in any case -/
theorem three_ways_same_x86 (c : Pipeline.Cfg) (isa : Txt) (hisa : lower isa = [120, 56, 54])
    (pro sm body em epi alone : List PLine) (hne : body ≠ [])
    (hpro : Quiet x86Marker (pro.map (·.sel)) (sm.map (·.sel) ++ (body.map (·.sel) ++ (em.map (·.sel) ++ epi.map (·.sel)))))
    (hsm : StartMarker x86Marker (sm.map (·.sel)))
    (hbody : Quiet x86Marker (body.map (·.sel)) (em.map (·.sel) ++ epi.map (·.sel)))
    (hem : EndMarker x86Marker (em.map (·.sel)))
    (a b : Nat) (colon : Bool)
    (hb : ∀ l ∈ body, a ≤ l.num ∧ l.num ≤ b) (hlo : ∀ l ∈ pro ++ sm, l.num < a) (hhi : ∀ l ∈ em ++ epi, b < l.num)
    (hinc : Increasing body)
    (hsame : alone.map eraseNum = body.map eraseNum) (hainc : Increasing alone)
    (halone : Quiet x86Marker (alone.map (·.sel)) []) :
    let file := pro ++ (sm ++ (body ++ (em ++ epi)))
    run c (.markers isa) file = .ok (analyze c body) ∧
    run c (.lines (renderSpec [.range a b colon])) file = .ok (analyze c body) ∧
    run c (.markers isa) alone = .ok (analyze c alone) ∧
    ∃ (a₀ : Analysis) (g1 g2 : Nat → Nat), Incr g1 ∧ Incr g2 ∧
      analyze c body = a₀.rename g1 ∧ analyze c alone = a₀.rename g2 := by
  intro file
  obtain ⟨s1, s2, s3, a₀, g1, g2, hg1, hg2, _, _, e1, e2⟩ :=
    three_ways_same c x86Cfg x86Marker x86_agree pro sm body em epi alone hpro hsm hbody hem a b colon hb hlo hhi
      hinc hsame hainc halone
  have hlen : alone.length = body.length := by simpa using congrArg List.length hsame
  obtain ⟨r1, r2, r3⟩ := three_ways_run c isa x86Cfg (cfgOf_x86 isa hisa) file body alone _ hne s1 s2 s3 hlen
  exact ⟨r1, r2, r3, a₀, g1, g2, hg1, hg2, e1, e2⟩

/-- **three_ways_same_a64** -/
theorem three_ways_same_a64 (c : Pipeline.Cfg) (isa : Txt) (hisa : lower isa = [97, 97, 114, 99, 104, 54, 52])
    (pro sm body em epi alone : List PLine) (hne : body ≠ [])
    (hpro : Quiet a64Marker (pro.map (·.sel)) (sm.map (·.sel) ++ (body.map (·.sel) ++ (em.map (·.sel) ++ epi.map (·.sel)))))
    (hsm : StartMarker a64Marker (sm.map (·.sel)))
    (hbody : Quiet a64Marker (body.map (·.sel)) (em.map (·.sel) ++ epi.map (·.sel)))
    (hem : EndMarker a64Marker (em.map (·.sel)))
    (a b : Nat) (colon : Bool)
    (hb : ∀ l ∈ body, a ≤ l.num ∧ l.num ≤ b) (hlo : ∀ l ∈ pro ++ sm, l.num < a) (hhi : ∀ l ∈ em ++ epi, b < l.num)
    (hinc : Increasing body)
    (hsame : alone.map eraseNum = body.map eraseNum) (hainc : Increasing alone)
    (halone : Quiet a64Marker (alone.map (·.sel)) []) :
    let file := pro ++ (sm ++ (body ++ (em ++ epi)))
    run c (.markers isa) file = .ok (analyze c body) ∧
    run c (.lines (renderSpec [.range a b colon])) file = .ok (analyze c body) ∧
    run c (.markers isa) alone = .ok (analyze c alone) ∧
    ∃ (a₀ : Analysis) (g1 g2 : Nat → Nat), Incr g1 ∧ Incr g2 ∧
      analyze c body = a₀.rename g1 ∧ analyze c alone = a₀.rename g2 := by
  intro file
  obtain ⟨s1, s2, s3, a₀, g1, g2, hg1, hg2, _, _, e1, e2⟩ :=
    three_ways_same c a64Cfg a64Marker a64_agree pro sm body em epi alone hpro hsm hbody hem a b colon hb hlo hhi
      hinc hsame hainc halone
  have hlen : alone.length = body.length := by simpa using congrArg List.length hsame
  obtain ⟨r1, r2, r3⟩ := three_ways_run c isa a64Cfg (cfgOf_a64 isa hisa) file body alone _ hne s1 s2 s3 hlen
  exact ⟨r1, r2, r3, a₀, g1, g2, hg1, hg2, e1, e2⟩

/-! ### non-vacuity: a concrete kernel with two dependency edges, one loop-carried cycle and noise lines -/

namespace Ex
def rax : Txt := [114, 97, 120]
def rbx : Txt := [114, 98, 120]
def rcx : Txt := [114, 99, 120]
def addq : Txt := [97, 100, 100, 113]
/-- `addq %src, %dst` with the data `add_semantics` would store (two ports) -/
def ins (n : Nat) (src dst : Txt) (lat tp : Rat) (pr : List Rat) : PLine :=
  { sel := ⟨n, some addq, none, none, [.reg src, .reg dst]⟩,
    sem := { src := [.reg { name := src }], dst := [.reg { name := dst }], lat := lat, latWoLoad := none,
             tp := tp, pressure := pr, used := pr.map (fun x => x != 0) } }
/-- a comment line; whatever stands in `sem` is not looked at -/
def cmt (n : Nat) : PLine :=
  { sel := ⟨n, none, some [104, 105], none, []⟩, sem := { lat := 9, tp := 3, pressure := [7, 7] } }
def lbl (n : Nat) : PLine := { sel := ⟨n, none, none, none, []⟩ }
def dir (n : Nat) : PLine := { sel := C11.Ex.dir n C11.Ex.p2align [[52]] }
def cfg : Pipeline.Cfg := { isa := .x86, nports := 2 }
def cfgF : Pipeline.Cfg := { isa := .x86, nports := 2, flagDeps := true, par := { stlf := 1, pIdx := 2 }, floor := 7 }

/-- rbx → rax → rcx → rbx: edges 3→4 (4 cy), 4→5 (1 cy), and the cycle 3-4-5 closed by 5→3' (2 cy) -/
def clean : List PLine := [ins 3 rbx rax 4 1 [1, 0], ins 4 rax rcx 1 (1/2) [1/2, 1/2], ins 5 rcx rbx 2 1 [0, 1]]
/-- the same instructions with comment / label / directive lines around and between them, one
    number beyond the `floor` 1000 -/
def noisy : List PLine := [cmt 10, ins 11 rbx rax 4 1 [1, 0], lbl 12, dir 13, ins 14 rax rcx 1 (1/2) [1/2, 1/2],
  ins 1500 rcx rbx 2 1 [0, 1], cmt 1501]

structure View where
  rows : List (Nat × Bool × Rat × Rat × List Rat)
  edges : List (Nat × Bool × Nat × Bool × Rat)
  cpTotal : Rat
  cpMarks : List (Nat × Rat)
  lcd : List (List Nat × List Rat × Rat)
  lcdDict : List (List Nat × Rat × List (Nat × Rat))
  lcdFigure : Rat
  lcdMarks : List (Nat × Rat)
  colSums : List Rat
  deriving DecidableEq

def view (a : Analysis) : View :=
  ⟨a.rows.map (fun r => (r.line, r.instr, r.lat, r.tp, r.pressure)),
   a.edges.map (fun e => (e.src.line, e.src.load, e.dst.line, e.dst.load, e.w)),
   a.cpTotal, a.cpMarks, a.lcd.map (fun e => (e.lines, e.lats, e.latency)), a.lcdDict, a.lcdFigure, a.lcdMarks,
   a.colSums⟩

-- the model evaluated directly: edges, CP 7 over all three, one cycle of latency 7, column sums
example : view (analyze cfg clean) =
    ⟨[(3, true, 4, 1, [1, 0]), (4, true, 1, 1/2, [1/2, 1/2]), (5, true, 2, 1, [0, 1])],
     [(3, false, 4, false, 4), (4, false, 5, false, 1)], 7, [(3, 4), (4, 1), (5, 2)],
     [([3, 4, 5], [4, 1, 2], 7)], [([3, 4, 5], 7, [(3, 4), (4, 1), (5, 2)])], 7, [(3, 4), (4, 1), (5, 2)],
     [3/2, 3/2]⟩ := by decide +kernel

-- with the noise lines: zeros on them, everything else the same under 3 ↦ 11, 4 ↦ 14, 5 ↦ 1500
example : view (analyze cfg noisy) =
    ⟨[(10, false, 0, 0, [0, 0]), (11, true, 4, 1, [1, 0]), (12, false, 0, 0, [0, 0]), (13, false, 0, 0, [0, 0]),
      (14, true, 1, 1/2, [1/2, 1/2]), (1500, true, 2, 1, [0, 1]), (1501, false, 0, 0, [0, 0])],
     [(11, false, 14, false, 4), (14, false, 1500, false, 1)], 7, [(11, 4), (14, 1), (1500, 2)],
     [([11, 14, 1500], [4, 1, 2], 7)], [([11, 14, 1500], 7, [(11, 4), (14, 1), (1500, 2)])], 7,
     [(11, 4), (14, 1), (1500, 2)], [3/2, 3/2]⟩ := by decide +kernel

example : view (analyze cfg noisy).instrView =
    view ((analyze cfg clean).rename (fun x => if x = 3 then 11 else if x = 4 then 14 else 1500)) := by
  decide +kernel

-- the hypotheses of the theorems hold of these kernels (also with flag dependencies, other model
-- parameters and a small floor), and the instances say what the evaluation shows
example : Increasing clean ∧ Increasing noisy := by decide
example : (clean.filter (·.isInstr)).map eraseNum = (noisy.filter (·.isInstr)).map eraseNum := rfl

example := analysis_renumber_invariant cfg clean (noisy.filter (·.isInstr)) rfl (by decide) (by decide)
example := analysis_renumber_invariant cfgF clean (noisy.filter (·.isInstr)) rfl (by decide) (by decide)
example := noise_transparent cfg clean noisy (by decide) (by decide) rfl
example := noise_transparent cfgF clean noisy (by decide) (by decide) rfl
example : SameOnInstr 2 (analyze cfg noisy) (analyze cfg (noisy.filter (·.isInstr))) := noise_drop cfg noisy (by decide)
example : 0 < (analyze cfg (noisy.filter (·.isInstr))).cpTotal := by decide +kernel

/-! three ways: the marked x86 file of `Props.C11.Ex` (decoys in the prologue, byte-style start marker,
    comment-style end marker, markers again in the epilogue) around a body with noise lines -/
def wrap (l : Marker.Line) : PLine := { sel := l }
def pro : List PLine := C11.Ex.pro.map wrap
def sm : List PLine := C11.Ex.sm.map wrap
def em : List PLine := C11.Ex.emC.map wrap
def epi : List PLine := C11.Ex.epi.map wrap
def body : List PLine := [ins 13 rbx rax 4 1 [1, 0], cmt 14, ins 15 rax rcx 1 (1/2) [1/2, 1/2], ins 16 rcx rbx 2 1 [0, 1]]
def alone : List PLine := [ins 1 rbx rax 4 1 [1, 0], cmt 2, ins 3 rax rcx 1 (1/2) [1/2, 1/2], ins 4 rcx rbx 2 1 [0, 1]]

example := three_ways_same_x86 cfg C11.Ex.isaX86 (by decide) pro sm body em epi alone (by simp [body])
  (quietB_sound _ _ _ (by decide +kernel))
  (.bytes _ _ (markerMovB_sound _ _ _ (by decide +kernel)) (by simp [sm, C11.Ex.sm]) (by decide +kernel)
    (fun l hl => plainB_sound l (by revert l; decide +kernel)))
  (quietB_sound _ _ _ (by decide +kernel)) (.comment _ rfl rfl)
  13 16 false (by decide) (by decide) (by decide) (by decide) rfl (by decide) (quietB_sound _ _ _ (by decide +kernel))

-- and the pipeline evaluated directly on the three inputs
example : (match run cfg (.markers C11.Ex.isaX86) (pro ++ (sm ++ (body ++ (em ++ epi)))) with
    | .ok a => some (view a) | _ => none) = some (view (analyze cfg body)) := by decide +kernel
example : (match run cfg (.lines [49, 51, 45, 49, 54]) (pro ++ (sm ++ (body ++ (em ++ epi)))) with   -- "13-16"
    | .ok a => some (view a) | _ => none) = some (view (analyze cfg body)) := by decide +kernel
example : (match run cfg (.markers C11.Ex.isaX86) alone with
    | .ok a => some (view a) | _ => none) =
      some (view ((analyze cfg body).rename (fun x => x - 12))) := by decide +kernel
-- outcomes other than an analysis
example : (match run cfg (.lines [52, 48]) alone with | .emptyKernel => true | _ => false) = true := by decide +kernel
example : (match run cfg (.lines [52, 44, 44]) alone with | .badLines => true | _ => false) = true := by decide +kernel
example : (match run cfg (.markers [109, 105, 112, 115]) alone with | .badIsa => true | _ => false) = true := by
  decide +kernel
end Ex

/-- **cp_zero_quirk**: the positivity hypothesis on the critical-path marks is needed.  In a kernel whose
    chains all have length 0 the first maximum of `chain_length` is the first LINE, instruction or
    not: here the comment line 1 is reported as the critical path instead of instruction 2. -/
theorem cp_zero_quirk :
    let k := [Ex.cmt 1, Ex.ins 2 Ex.rbx Ex.rax 0 1 [1, 0], Ex.ins 3 Ex.rax Ex.rcx 0 1 [1, 0]]
    (analyze Ex.cfg k).cpMarks = [(1, 0)] ∧ (analyze Ex.cfg (k.filter (·.isInstr))).cpMarks = [(2, 0)] ∧
    (analyze Ex.cfg k).cpTotal = (analyze Ex.cfg (k.filter (·.isInstr))).cpTotal := by
  decide +kernel

end OsacaVerif.Props.C11Pipeline
