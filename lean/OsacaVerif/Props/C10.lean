import OsacaVerif.Lemmas.A64DomainSound
import OsacaVerif.Lemmas.A64File
/-
  C10 — AArch64 parser recovers every line and operand exactly as written.

  Model: `Model/ParseA64.lean` (transcription of the pyparsing grammar of `ParserAArch64` and of its
  post-processing; every literal regenerated from the source into `Gen/A64Grammar.lean`).
  Specification: `Spec/RenderA64.lean` (instruction ASTs as written, their rendering under an arbitrary
  layout, the expected result) and `Spec/FileLinesA64.lean` (lines of a file, blank lines).
  All theorems hold for all inputs (unbounded numbers, operand lists, gaps, files).
-/
namespace OsacaVerif.Props.C10
open OsacaVerif OsacaVerif.Text OsacaVerif.ParseA64 OsacaVerif.Gen OsacaVerif.Spec.A64

/-! ### grammar constants the model's structure relies on -/
/-- the instruction grammar has the five operand slots -/
theorem operand_slots : A64.operandSlots = 5 := by decide
/-- line numbers are 1-based -/
theorem line_base : A64.lineBase = 1 := by decide

/-! ### files: one entry per non-blank line, numbered and verbatim -/
/-- the lines of a file are uniquely determined, and the model's `splitLines` computes them -/
theorem lines_unique (content : Txt) (ls : List Txt) :
    IsLinesOf content ls ↔ ls = splitLines content :=
  ⟨isLinesOf_unique content ls, fun h => h ▸ isLinesOf_splitLines content⟩

/-- **parseFile_lines** (∀ files, ∀ start offsets): the result has exactly one entry per non-blank line,
    in file order, carrying the 1-based number of the line in the file (plus `start`) and its verbatim
    text. -/
theorem parseFile_lines (content : Txt) (start : Nat) (ls : List Txt) (hls : IsLinesOf content ls) :
    FileSpec ls start ((parseFile content start).map entry) := by
  have := isLinesOf_unique content ls hls
  subst this
  obtain ⟨h1, h2, h3⟩ := parseLinesFrom_spec start (splitLines content) 0
  refine ⟨h1, ?_, ?_⟩
  · intro e he
    obtain ⟨j, hj, hn, hb⟩ := h2 e he
    exact ⟨j, hj, by omega, hb⟩
  · intro i l hi hb
    have := h3 i l hi hb
    simpa [parseFile] using this

/-- line numbers are strictly increasing (the kernel well-formedness the later analyses rely on) -/
theorem parseFile_wf (content : Txt) (start : Nat) :
    ((parseFile content start).map (·.lineNo)).Pairwise (· < ·) := by
  have := (parseLinesFrom_spec start (splitLines content) 0).1
  simp only [parseFile]
  rw [List.pairwise_map] at this ⊢
  exact this

/-- every entry is the parse of its own line -/
theorem parseFile_each (content : Txt) (start : Nat) :
    ∀ f ∈ parseFile content start, f.out = parseLine f.text :=
  parseLinesFrom_out start (splitLines content) 0

example : (parseFile (ofString "mov x0, x1\n\n \t\n// c\n.L1:") 7).map (fun f => (f.lineNo, toStr f.text)) =
    [(8, "mov x0, x1"), (11, "// c"), (12, ".L1:")] := by decide +kernel

/-! ### classification -/
/-- which fields of `InstructionForm` `parse_line` fills for a line of each class -/
structure Fields where
  comment : Bool
  label : Bool
  directive : Bool
  mnemonic : Bool
  deriving DecidableEq, Repr

def fieldsOf : Line → Fields
  | .comment _ => ⟨true, false, false, false⟩
  | .label _ c => ⟨c.isSome, true, false, false⟩
  | .directive _ _ c => ⟨c.isSome, false, true, false⟩
  | .instr _ _ c => ⟨c.isSome, false, false, true⟩

def isCommentClass (f : Fields) : Prop := f.comment = true ∧ f.label = false ∧ f.directive = false ∧ f.mnemonic = false
def isLabelClass (f : Fields) : Prop := f.label = true ∧ f.directive = false ∧ f.mnemonic = false
def isDirectiveClass (f : Fields) : Prop := f.label = false ∧ f.directive = true ∧ f.mnemonic = false
def isInstrClass (f : Fields) : Prop := f.label = false ∧ f.directive = false ∧ f.mnemonic = true

/-- **classify_exclusive** (∀ lines): a successfully parsed line is exactly one of comment, label,
    directive, instruction. -/
theorem classify_exclusive (s : Txt) (l : Line) (_h : parseLine s = .ok l) :
    let f := fieldsOf l
    (isCommentClass f ∧ ¬ isLabelClass f ∧ ¬ isDirectiveClass f ∧ ¬ isInstrClass f) ∨
    (¬ isCommentClass f ∧ isLabelClass f ∧ ¬ isDirectiveClass f ∧ ¬ isInstrClass f) ∨
    (¬ isCommentClass f ∧ ¬ isLabelClass f ∧ isDirectiveClass f ∧ ¬ isInstrClass f) ∨
    (¬ isCommentClass f ∧ ¬ isLabelClass f ∧ ¬ isDirectiveClass f ∧ isInstrClass f) := by
  cases l <;> simp [fieldsOf, isCommentClass, isLabelClass, isDirectiveClass, isInstrClass]

/-- the order of the attempts: comment, marker, label, directive, instruction — a line is given the
    first class whose grammar accepts it (∀ lines) -/
theorem classify_order (s : Txt) :
    (∀ c, commentLine s = some c → parseLine s = .ok (.comment c)) ∧
    (∀ c, commentLine s = none → llvmMarker s = some c → parseLine s = .ok (.comment c)) ∧
    (∀ n c, commentLine s = none → llvmMarker s = none → labelLine s = some (n, c) →
      parseLine s = .ok (.label n c)) ∧
    (∀ n ps c, commentLine s = none → llvmMarker s = none → labelLine s = none →
      directiveLine s = some (n, ps, c) → parseLine s = .ok (.directive n ps c)) ∧
    (commentLine s = none → llvmMarker s = none → labelLine s = none → directiveLine s = none →
      parseLine s = instrLine s) := by
  refine ⟨?_, ?_, ?_, ?_, ?_⟩
  · intro c h; simp [parseLine, h]
  · intro c h1 h2; simp [parseLine, h1, h2]
  · intro n c h1 h2 h3; simp [parseLine, h1, h2, h3]
  · intro n ps c h1 h2 h3 h4; simp [parseLine, h1, h2, h3, h4]
  · intro h1 h2 h3 h4; simp [parseLine, h1, h2, h3, h4]

/-- an instruction never comes out of `instrLine` as another class -/
theorem instrLine_class (s : Txt) (l : Line) (h : instrLine s = .ok l) : isInstrClass (fieldsOf l) := by
  unfold instrLine at h
  split at h
  · cases h
  · split at h
    · cases h; simp [fieldsOf, isInstrClass]
    · cases h
    · cases h

example : parseLine (ofString "// a  b") = .ok (.comment (ofString "a b")) ∧
    parseLine (ofString ".L1: // x") = .ok (.label (ofString ".L1") (some (ofString "x"))) ∧
    parseLine (ofString ".align 4") = .ok (.directive (ofString "align") [ofString "4"] none) ∧
    parseLine (ofString "ret") = .ok (.instr (ofString "ret") [] none) := by decide +kernel

/-- **comment lines** (∀ words, ∀ gaps): `//` and any words in any layout are a comment whose text is the
    words joined by single blanks -/
theorem comment_line_roundtrip (g : Txt) (xs : List (Txt × Txt)) (gEnd : Txt) (hg : Blank g)
    (hx : BodyOk xs) (hgE : Blank gEnd) :
    parseLine (g ++ 47 :: 47 :: commentBody xs gEnd) = .ok (.comment (joinSp (xs.map (·.2)))) := by
  obtain ⟨r, hc, hr⟩ := commentP_body g xs gEnd hg hx hgE
  simp [parseLine, commentLine, hc, atEnd, hr]

example : BodyOk [([32], ofString "ab"), ([9, 32], ofString "c")] := by
  simp [BodyOk, FirstGapNe, Blank, IsWord, ofString]; decide

/-! ### numbers -/
/-- decimal numerals (∀ n): the digits of `n` read back give `n` -/
theorem decimal_roundtrip (n : Nat) : natOfDigits 10 (showNat n) = n := natOfDigits_showNat n
/-- **immediates round-trip, decimal** (∀ n): `int(str(n), 0) = n` and `int("-"+str(n), 0) = -n` -/
theorem imm_dec_roundtrip (n : Nat) :
    pyInt0 (showNat n) = some (n : Int) ∧ pyInt0 (45 :: showNat n) = some (- (n : Int)) :=
  ⟨pyInt0_showNat n, pyInt0_neg_showNat n⟩
/-- **immediates round-trip, hexadecimal** (∀ n, lower- and upper-case digits) -/
theorem imm_hex_roundtrip (up : Bool) (n : Nat) :
    pyInt0 (48 :: 120 :: showHex up n) = some (n : Int) ∧
    pyInt0 (45 :: 48 :: 120 :: showHex up n) = some (- (n : Int)) :=
  ⟨pyInt0_showHex up n, pyInt0_neg_showHex up n⟩
/-- the grammar reads a written integer immediate (∀ value, sign, `#` or not, decimal or hexadecimal,
    ∀ gap in front, anything `Follow` behind) as the number text, and post-processing gives its value -/
theorem imm_parse_roundtrip (g : Txt) (i : IntA) (rest : Txt) (hg : Blank g) (hf : Follow rest) :
    immediate (g ++ (intText i ++ rest)) = some (.num (optNeg i.neg ++ intDigits i), rest) ∧
    processImmediate (.num (optNeg i.neg ++ intDigits i)) = .ok (.imm (.int (intVal i))) :=
  ⟨immediate_int g i rest hg hf, processImmediate_int i⟩

example : pyInt0 (ofString "-0x1F") = some (-31) ∧ pyInt0 (ofString "010") = none ∧
    showNat 4096 = ofString "4096" ∧ showHex true 48879 = ofString "BEEF" := by decide +kernel

/-! ### register ranges -/
/-- **range_expand** (∀ A ≤ B, ∀ first register, ∀ list index): `{rA - rB}` expands to exactly the
    registers `A, A+1, …, B` (B − A + 1 of them), each a copy of the first with its number replaced -/
theorem range_expand (ix : Option Txt) (first : Elem) (p : Txt) (hp : first.pre = some p) (a b : Nat)
    (_hab : a ≤ b) :
    expandRange ix first a b = .ok ((List.range (b + 1 - a)).map (fun i => rangeMember ix first p (a + i))) :=
  range_expand_any ix first p hp a b

theorem range_expand_length (ix : Option Txt) (first : Elem) (p : Txt) (hp : first.pre = some p) (a b : Nat)
    (hab : a ≤ b) : ∃ rs, expandRange ix first a b = .ok rs ∧ rs.length = b - a + 1 := by
  refine ⟨_, range_expand ix first p hp a b hab, ?_⟩
  simp; omega

example : (match expandRange none { pre := some [118], name := some [48], shape := some [83] } 0 2 with
    | .ok rs => rs | .error _ => []) =
    [{ pre := [118], name := [48], shape := some [115] }, { pre := [118], name := [49], shape := some [115] },
     { pre := [118], name := [50], shape := some [115] }] := by decide +kernel

/-! ### memory operands: scale -/
/-- **scale = 2^n** (∀ n, ∀ of the scaling operators `lsl`, `uxtw`, `sxtw`, `sxtx` in any case): an index
    register shifted by `n` gives scale `2^n` -/
theorem scale_pow2 (ix : RegTok) (op : Txt) (n : Nat)
    (hop : ix.shiftOp = some op) (hsh : ix.shift = some (.num (showNat n)))
    (hvalid : lower op ∈ [ofString "lsl", ofString "uxtw", ofString "sxtw", ofString "sxtx"]) :
    memScaleOf (some ix) = .ok (2 ^ n) := by
  have hv : A64.validShiftOps.contains (lower op) = true := by
    simp at hvalid
    rcases hvalid with h | h | h | h <;> rw [h] <;> decide
  have hbase : A64.scaleBase = 2 := by decide
  have hv' : lower op ∈ A64.validShiftOps := by simpa using hv
  simp [memScaleOf, hop, hsh, hv', pyInt10_showNat, hbase]

/-- without a shift amount the scale is 1 -/
theorem scale_default (ix : RegTok) (hsh : ix.shift = none) : memScaleOf (some ix) = .ok 1 := by
  have hd : A64.defaultScale = 1 := by decide
  simp [memScaleOf, hsh, hd]

/-- the scale of a processed memory operand is the one computed from its index (∀ memory operands) -/
theorem processMemory_scale (m : MemTok) (r : Mem) (h : processMemory m = .ok r) :
    memScaleOf m.index = .ok r.scale := by
  unfold processMemory at h
  split at h <;> try cases h
  rename_i off sc po h1 h2 h3
  split at h <;> try cases h
  split at h <;> try cases h
  rw [h2]

example : (match parseLine (ofString "ldr x0, [x1, w2, SXTW #3]") with
    | .ok (.instr _ [_, .mem m] _) => m.scale
    | _ => 0) = 8 := by decide +kernel

/-! ### round trip of rendered instruction lines -/
/-- the 17 condition codes of the architecture are what the grammar knows (ties `Gen` to the ISA) -/
theorem conditions_complete : condLits = [ofString "eq", ofString "ne", ofString "cs", ofString "hs",
    ofString "cc", ofString "lo", ofString "mi", ofString "pl", ofString "vs", ofString "vc", ofString "hi",
    ofString "ls", ofString "ge", ofString "lt", ofString "gt", ofString "le", ofString "al"] := by decide

/-- operand kinds for which the full round trip is closed so far.
    `last`: the operand is the last one of the line (a memory reference has to be);
    `fst`: it stands in the first operand slot (a condition code may not, a prefetch operation must). -/
inductive CoveredKind : Bool → Bool → OpA → Prop where
  | scalar (last fst : Bool) (p n : Nat) (hp : isScalarPrefixC p = true) : CoveredKind last fst (.reg (.scalar p n))
  | alias (last fst : Bool) (t : Txt) (ht : t ∈ aliasTexts) : CoveredKind last fst (.reg (.alias t))
  | vec (last fst : Bool) (p n : Nat) (lanes : Option Txt) (shape idx : Option Nat)
      (hp : isVectorPrefixC p = true) (hl : LanesOk lanes) (hs : ShapeOk shape) :
      CoveredKind last fst (.reg (.vec p n lanes shape idx))
  | pred (last fst : Bool) (p n : Nat) (tail : PredTail) (hp : lowerC p = 112) (ht : PredTailOk tail) :
      CoveredKind last fst (.reg (.pred p n tail))
  | list (last fst : Bool) (e0 : ElemA) (es : List ElemA) (idx : Option Nat) (hes : ∀ e ∈ e0 :: es, ElemOk e) :
      CoveredKind last fst (.list (e0 :: es) idx)
  | range (last fst : Bool) (first : ElemA) (b : Nat) (idx : Option Nat) (hf : ElemOk first) :
      CoveredKind last fst (.range first b idx)
  | int (last fst : Bool) (i : IntA) : CoveredKind last fst (.int i)
  | flt (last fst : Bool) (hash neg : Bool) (ip fp : Txt) (e : Option (Nat × Nat × Txt)) (f : Option Nat)
      (hok : FltOk ip fp e f) : CoveredKind last fst (.flt hash neg ip fp e f)
  | shimm (last fst : Bool) (hash hex : Bool) (v : Nat) (op : Txt) (ah : Bool) (amt : Nat)
      (hop : lower op ∈ scaleOps) : CoveredKind last fst (.shimm hash hex v op ah amt)
  | cond (last : Bool) (c : Txt) (hc : lower c ∈ condLits) : CoveredKind last false (.cond c)
  | ident (last fst : Bool) (i : IdentA) (hok : IdentOk i) : CoveredKind last fst (.ident i)
  | prf (last : Bool) (t g p : Txt) (ht : lower t ∈ prfT) (hg : lower g ∈ prfG) (hp : lower p ∈ prfP) :
      CoveredKind last true (.prf t g p)
  | mem (fst : Bool) (m : MemA) (hm : MemOk m) : CoveredKind true fst (.mem m)

theorem coveredKind_covered (last fst : Bool) (o : OpA) (h : CoveredKind last fst o) : CoveredOp last fst o := by
  cases h with
  | scalar _ _ p n hp => exact covered_scalar last fst p n hp
  | alias _ _ t ht => exact covered_alias last fst t ht
  | vec _ _ p n lanes shape idx hp hl hs => exact covered_vec last fst p n lanes shape idx hp hl hs
  | pred _ _ p n tail hp ht => exact covered_pred last fst p n tail hp ht
  | list _ _ e0 es idx hes => exact covered_list last fst e0 es idx hes
  | range _ _ first b idx hf => exact covered_range last fst first b idx hf
  | int _ _ i => exact covered_int last fst i
  | flt _ _ hash neg ip fp e f hok => exact covered_flt last fst hash neg ip fp e f hok
  | shimm _ _ hash hex v op ah amt hop => exact covered_shimm last fst hash hex v op ah amt hop
  | cond _ c hc => exact covered_cond last c hc
  | ident _ _ i hok => exact covered_identFull last fst i hok
  | prf _ t g p ht hg hp => exact covered_prf last t g p ht hg hp
  | mem _ m hm => exact covered_mem fst m hm

/-- every operand is of a covered kind at its position (valid operand order: memory reference last) -/
def KindsOk : Bool → List OpA → Prop
  | _, [] => True
  | fst, o :: os => CoveredKind os.isEmpty fst o ∧ KindsOk false os

theorem opsCovered_of_kinds (fst : Bool) (os : List OpA) (h : KindsOk fst os) : OpsCovered fst os := by
  induction os generalizing fst with
  | nil => trivial
  | cons o os ih => exact ⟨coveredKind_covered _ fst o h.1, ih false h.2⟩

/-- **a64_roundtrip** (full statement): ∀ instruction ASTs of the specification's domain — `InstrOk a`
    (mnemonic of alphanumerics and dots not starting with a dot, at most five operand slots, comment words
    of printable characters) and `KindsOk true a.ops` (every operand of one of the kinds of `Spec.A64.OpA`,
    well-formed, in valid order: prefetch operation only first, condition code not first, memory reference
    only last) — and ∀ layouts (blanks and tabs in every gap, also inside braces and brackets; at least one
    after the mnemonic and between comment words):

        parseLine (render a gaps) = ok (expectLine a)

    i.e. the rendered line is classified as an instruction and mnemonic, every operand and the comment are
    recovered exactly as written.  The operand kinds (`CoveredKind`):
      * scalar registers `[xwbhsdq]N` in either case (∀ N), the aliases `sp wsp xzr wzr` in either case,
      * vector / SVE registers `vN`, `vN.<lanes><shape>`, `zN.<shape>`, `…[idx]` (∀ N, lanes, shape, idx),
      * predicate registers `pN`, `pN/z`, `pN/m`, `pN.<shape>` (either case),
      * register lists `{e0, e1, …}[idx]` (∀ lengths ≥ 1) and ranges `{first - last}[idx]` (∀ bounds) of
        scalar / vector elements, expanded to their members,
      * integer immediates (∀ values; decimal or hexadecimal with lower/upper-case digits; with or
        without `#`; signed), floating-point immediates (mantissa, optional signed exponent, optional
        `f`), shifted immediates `#imm, lsl #n` (value `imm·2^n`, ∀ n),
      * condition codes (the 17 codes in any case), prefetch operations,
      * identifiers: label names (not spelled like a register, alias or condition code, not beginning with
        a prefetch type, not *being* a shift operator — names that begin with one, `lsl_loop`, `ror.tab`,
        `sxtw1`, `mul_vl`, are inside, in every slot and behind every operand kind), optionally with
        relocation `:lo12:`, offset `+n` / `+0xh` and `#`,
      * memory references `[base]`, `[base, #imm]`, `[base, #:rel:name]`, `[base, index]`,
        `[base, index, op]`, `[base, index, op #n]` with `op ∈ lsl uxtw sxtw sxtx` in any case (∀ n: scale
        `2^n`), base and index scalar registers or sp/zr aliases, optionally `!` or a post-index immediate. -/
theorem a64_roundtrip (a : InstrA) (gaps : List Txt) (hok : InstrOk a)
    (hkinds : KindsOk true a.ops) (hl : LayoutOk (linePieces a) gaps) :
    parseLine (render a gaps) = .ok (expectLine a) :=
  roundtrip_covered a gaps hok (opsCovered_of_kinds true a.ops hkinds) hl

/-! ### executable domain test (evaluated by the driver on every generated AST) -/
open OsacaVerif.ParseA64.Domain in
theorem layoutOkB_sound (ps : List Piece) (gs : List Txt) (h : layoutOkB ps gs = true) : LayoutOk ps gs := by
  induction ps generalizing gs with
  | nil =>
    match gs, h with
    | [g], h => exact ⟨g, rfl, h⟩
  | cons p ps ih =>
    match gs, h with
    | g :: gs, h =>
      simp only [layoutOkB, Bool.and_eq_true] at h
      refine ⟨h.1.1, ?_, ih gs h.2⟩
      intro hp hg
      have := h.1.2
      simp [hp, hg] at this

open OsacaVerif.ParseA64.Domain in
theorem opOkB_sound (last fst : Bool) (o : OpA) (h : opOkB last fst o = true) : CoveredKind last fst o := by
  match o, h with
  | .reg (.scalar p n), h => exact .scalar last fst p n h
  | .reg (.alias t), h => exact .alias last fst t (by simpa [opOkB, aliasTextsB, aliasTexts] using h)
  | .reg (.vec p n lanes shape idx), h =>
    simp only [opOkB, Bool.and_eq_true] at h
    exact .vec last fst p n lanes shape idx h.1.1 (lanesOkB_sound _ h.1.2) (shapeOkB_sound _ h.2)
  | .reg (.pred p n tail), h =>
    simp only [opOkB, Bool.and_eq_true, beq_iff_eq] at h
    exact .pred last fst p n tail h.1 (predTailOkB_sound _ h.2)
  | .list es idx, h =>
    simp only [opOkB, Bool.and_eq_true] at h
    match es, h with
    | e0 :: es', h =>
      exact .list last fst e0 es' idx (fun e he => elemOkB_sound e (List.all_eq_true.mp h.2 e he))
  | .range first b idx, h => exact .range last fst first b idx (elemOkB_sound first h)
  | .int i, _ => exact .int last fst i
  | .flt hash neg ip fp e f, h =>
    simp only [opOkB, Bool.and_eq_true] at h
    exact .flt last fst hash neg ip fp e f
      ⟨digitsB_sound _ h.1.1.1, digitsB_sound _ h.1.1.2, expOkB_sound _ h.1.2, fOkB_sound _ h.2⟩
  | .shimm hash hex v op ah amt, h =>
    exact .shimm last fst hash hex v op ah amt (by simpa [opOkB, scaleOpsB, scaleOps] using h)
  | .cond c, h =>
    simp only [opOkB, Bool.and_eq_true, Bool.not_eq_true'] at h
    have hf : fst = false := h.1
    subst hf
    exact .cond last c (by simpa [condLitsB, condLits] using h.2)
  | .ident i, h => exact .ident last fst i (identOkB_sound i h)
  | .prf t g p, h =>
    simp only [opOkB, Bool.and_eq_true] at h
    have hf : fst = true := h.1.1.1
    subst hf
    exact .prf last t g p (by simpa [prfT] using h.1.1.2) (by simpa [prfG] using h.1.2) (by simpa [prfP] using h.2)
  | .mem m, h =>
    simp only [opOkB, Bool.and_eq_true] at h
    have hl : last = true := h.1
    subst hl
    exact .mem fst m (memOkB_sound m h.2)

open OsacaVerif.ParseA64.Domain in
theorem kindsOkB_sound (fst : Bool) (os : List OpA) (h : kindsOkB fst os = true) : KindsOk fst os := by
  induction os generalizing fst with
  | nil => trivial
  | cons o os ih =>
    simp only [kindsOkB, Bool.and_eq_true] at h
    exact ⟨opOkB_sound _ fst o h.1, ih false h.2⟩

open OsacaVerif.ParseA64.Domain in
theorem instrOkB_sound (a : InstrA) (h : instrOkB a = true) : InstrOk a := by
  simp only [instrOkB, Bool.and_eq_true, decide_eq_true_eq] at h
  obtain ⟨⟨h1, h2⟩, h3⟩ := h
  refine ⟨?_, h2, ?_⟩
  · cases hm : a.mn with
    | nil => rw [hm] at h1; cases h1
    | cons m ms =>
      rw [hm] at h1
      simp only [Bool.and_eq_true, bne_iff_ne, ne_eq] at h1
      exact ⟨m, ms, rfl, fun c hc => List.all_eq_true.mp h1.1 c hc, h1.2⟩
  · cases hc : a.comment with
    | none => trivial
    | some ws =>
      rw [hc] at h3
      intro w hw
      have := List.all_eq_true.mp h3 w hw
      simp only [wordOkB, Bool.and_eq_true] at this
      exact ⟨by intro e; subst e; simp at this, fun c hc' => List.all_eq_true.mp this.2 c hc'⟩

open OsacaVerif.ParseA64.Domain in
/-- **a64_roundtrip, checkable form**: whenever the executable test `Domain.inDomain` accepts an AST and
    its layout (the harness evaluates it on every generated line and reports the share), the model parses
    the rendered line to exactly what was written. -/
theorem a64_roundtrip_checked (a : InstrA) (gaps : List Txt) (h : inDomain a gaps = true) :
    parseLine (render a gaps) = .ok (expectLine a) := by
  simp only [inDomain, Bool.and_eq_true] at h
  exact a64_roundtrip a gaps (instrOkB_sound a h.1.1) (kindsOkB_sound true a.ops h.1.2) (layoutOkB_sound _ _ h.2)

open OsacaVerif.ParseA64.Domain

-- non-vacuity: concrete instructions and layouts inside the domain, and the resulting lines
example :
    let a : InstrA := ⟨ofString "madd", [.reg (.scalar 120 0), .reg (.scalar 87 12), .int ⟨true, true, true, false, 255⟩,
      .int ⟨false, false, false, false, 7⟩], some [ofString "c1", ofString "c2"]⟩
    let gaps : List Txt := [[9], [32], [], [32], [], [], [32, 32], [9], [32], [], [32], [9]]
    inDomain a gaps = true ∧ render a gaps = ofString "\tmadd x0, W12,#-0xff  ,\t7 //c1 c2\t" ∧
    parseLine (render a gaps) = .ok (expectLine a) := by decide +kernel

-- a memory reference with a scaled index, pre-index; a vector element and a condition code
example :
    let a : InstrA := ⟨ofString "ldr", [.reg (.vec 86 3 (some [52]) (some 83) (some 1)), .cond (ofString "Eq"),
      .mem ⟨.alias (ofString "SP"), .idx (.scalar 119 2) (some ⟨ofString "SXTW", some (true, 3)⟩), true, none⟩], none⟩
    let gaps : List Txt := [[], [32], [], [9], [], [32], [32], [32], [], [32], [32], [9], [32], [32], [32]]
    inDomain a gaps = true ∧ render a gaps = ofString "ldr V3.4S[1],\tEq, [ SP ,w2 , SXTW\t#3 ] ! " ∧
    parseLine (render a gaps) = .ok (expectLine a) ∧
    (match expectLine a with | .instr _ [_, _, .mem m] _ => m.scale | _ => 0) = 8 := by decide +kernel

-- the repaired defect `a64-shiftop-prefix-label`: a label operand that begins with a shift-operator name
-- directly behind a register is inside the domain and comes back as written (before the repair the
-- register's optional shift tail swallowed `lsl` and the line lost its last operand)
example :
    let a : InstrA := ⟨ofString "cbz", [.reg (.scalar 120 1), .ident ⟨false, none, ofString "lsl_loop", none⟩], none⟩
    let gaps : List Txt := [[], [32], [], [32], []]
    inDomain a gaps = true ∧ render a gaps = ofString "cbz x1, lsl_loop" ∧
    parseLine (render a gaps) = .ok (expectLine a) ∧
    expectLine a = .instr (ofString "cbz")
      [.reg { pre := [120], name := [49] }, .ident { reloc := none, name := ofString "lsl_loop", offset := none }] none := by
  decide +kernel

-- … behind a register, an immediate and an identifier, compact layout, either case, with offset; `mul`
-- followed by a blank; a shift that is meant stays a shift (`x2, lsl #3` inside a memory reference)
example :
    let a : InstrA := ⟨ofString "op", [.reg (.scalar 120 1), .ident ⟨false, none, ofString "ROR.tab", some (ofString "8")⟩,
      .int ⟨true, false, false, false, 5⟩, .ident ⟨false, none, ofString "sxtw1", none⟩,
      .ident ⟨false, none, ofString "mul", none⟩], some [ofString "vl"]⟩
    let gaps : List Txt := [[], [32], [], [], [], [], [], [], [], [], [32], [32], []]
    inDomain a gaps = true ∧ render a gaps = ofString "op x1,ROR.tab+8,#5,sxtw1,mul // vl" ∧
    parseLine (render a gaps) = .ok (expectLine a) := by decide +kernel

example :
    let a : InstrA := ⟨ofString "ldr", [.reg (.scalar 120 0),
      .mem ⟨.scalar 120 1, .idx (.scalar 120 2) (some ⟨ofString "lsl", some (false, 3)⟩), false, none⟩], none⟩
    let gaps : List Txt := [[], [32], [], [32], [], [], [], [], [32], [32], [], []]
    inDomain a gaps = true ∧ render a gaps = ofString "ldr x0, [x1,x2, lsl 3]" ∧
    parseLine (render a gaps) = .ok (expectLine a) := by decide +kernel

-- the boundary of the domain: a name that *is* a shift operator is outside (it is read as the shift of
-- the register in front of it), and so is an amount glued to the operator (`lsl3` is a name)
example :
    let a : InstrA := ⟨ofString "cbz", [.reg (.scalar 120 1), .ident ⟨false, none, ofString "lsl", none⟩], none⟩
    let gaps : List Txt := [[], [32], [], [32], []]
    inDomain a gaps = false ∧ parseLine (render a gaps) ≠ .ok (expectLine a) := by decide +kernel

example : MemOk ⟨.alias (ofString "SP"), .idx (.scalar 119 2) (some ⟨ofString "SXTW", some (true, 3)⟩), true, none⟩ :=
  ⟨.alias _ (by decide), ⟨.scalar _ _ (by decide), fun x hx => by cases hx; decide⟩, fun _ => rfl⟩

end OsacaVerif.Props.C10

