import OsacaVerif.Model.ParseA64
/-
  C10 — AArch64 parser recovers every line and operand exactly as written.
-/
namespace OsacaVerif.Props.C10
open OsacaVerif OsacaVerif.Text OsacaVerif.ParseA64 OsacaVerif.Gen

/-- the instruction grammar has the five operand slots the model transcribes -/
theorem operand_slots : A64.operandSlots = 5 := by decide

end OsacaVerif.Props.C10
