import OsacaVerif.Lemmas.Duality
import OsacaVerif.Props.C01Oracle
import OsacaVerif.Props.C02
/-
  C02 (duality part) — `Spec.lowerBound` *is* the optimum of fractional scheduling.

  C02 compares the optimised port schedule with "the exact optimum of fractionally scheduling the
  kernel's micro-ops on their admissible ports".  `Props/C01Oracle.lean` shows that
  `Spec.lowerBound us` is `max_S confined(S)/|S|`; here the LP-duality / fractional Hall (Gale
  supply–demand) theorem is proved: that number is the minimum, over all explicit assignment
  matrices `x[i][p]`, of the load of the busiest port.

  Proved (∀ port counts `n`, ∀ micro-op lists, no bound on sizes):
  * `assignment_feasible`     — column sums of any schedule are `Spec.Feasible 0`;
  * `assignment_ge_lowerBound`— no schedule beats `lowerBound` (weak duality);
  * `optimum_attained`        — some schedule attains `lowerBound` (strong duality; Hall's marriage
                                theorem on units × slots after clearing denominators);
  * `optimum_eq_lowerBound`   — `IsOptimum n us opt ↔ opt = lowerBound us`;
  * `feasible_ge_optimum`     — a vector feasible with slack ε never undercuts the optimum by more
                                than ε.
-/
namespace OsacaVerif.Props.C02Duality
open OsacaVerif OsacaVerif.Ports OsacaVerif.Spec OsacaVerif.Duality
open OsacaVerif.Props.C01Oracle
open Finset

/-- **1. easy direction** (∀ n, ∀ micro-op lists, ∀ matrices; no well-formedness needed): the
    per-port totals of a fractional schedule are non-negative, vanish on unused ports, add up to
    the total amount exactly, and satisfy Hall's condition for every port set. -/
theorem assignment_feasible (n : Nat) (us : List Uop) (x : List (List Rat))
    (h : Assignment n us x) : Feasible 0 n us (Spec.colSums n x) where
  len := length_colSums n x
  nonneg := by
    intro p hp
    rw [getD_colSums n x p hp, neg_zero]
    exact Finset.sum_nonneg fun i _ => h.entry_nonneg i p
  support := by
    intro p hp hno
    rw [getD_colSums n x p hp]
    apply Finset.sum_eq_zero
    intro i hi
    have hi' : i < us.length := by rw [← h.rows]; exact Finset.mem_range.mp hi
    apply h.support i hi' p hp
    apply hno
    rw [List.getD_eq_getElem _ _ hi']
    exact List.getElem_mem _
  totalLo := by
    rw [zero_mul, sub_zero, sum_eq_range, length_colSums, totalAmount_eq_range,
      Finset.sum_congr rfl (fun p hp => getD_colSums n x p (Finset.mem_range.mp hp)),
      Finset.sum_comm, h.rows]
    exact le_of_eq (Finset.sum_congr rfl fun i hi =>
      (h.rowSum_range i (Finset.mem_range.mp hi)).symm)
  totalHi := by
    rw [zero_mul, add_zero, sum_eq_range, length_colSums, totalAmount_eq_range,
      Finset.sum_congr rfl (fun p hp => getD_colSums n x p (Finset.mem_range.mp hp)),
      Finset.sum_comm, h.rows]
    exact le_of_eq (Finset.sum_congr rfl fun i hi => h.rowSum_range i (Finset.mem_range.mp hi))
  hall := by
    intro S hS hSn
    rw [zero_mul, sub_zero, sumOn_eq_sum _ S hS, confined_eq_range,
      Finset.sum_congr rfl (fun p hp => getD_colSums n x p (hSn p (List.mem_toFinset.mp hp))),
      Finset.sum_comm, h.rows]
    apply Finset.sum_le_sum
    intro i hi
    have hi' : i < us.length := Finset.mem_range.mp hi
    split_ifs with hc
    · -- micro-op `i` is confined to `S`: its whole row lies in the columns of `S`
      rw [← h.rowSum_range i hi']
      apply le_of_eq
      symm
      apply Finset.sum_subset
      · intro p hp
        exact Finset.mem_range.mpr (hSn p (List.mem_toFinset.mp hp))
      · intro p hp hpS
        apply h.support i hi' p (Finset.mem_range.mp hp)
        intro hmem
        apply hpS
        rw [List.mem_toFinset]
        have := List.all_eq_true.mp hc p hmem
        simpa using this
    · exact Finset.sum_nonneg fun p _ => h.entry_nonneg i p

/-- a vector feasible with slack ε never undercuts `lowerBound` by more than ε at its busiest port
    (`C02.lowerBound_le_max` at the set where `lowerBound` is attained) -/
theorem feasible_ge_lowerBound (ε : Rat) (n : Nat) (us : List Uop) (v : List Rat)
    (hb : PortsBounded n us) (h : Feasible ε n us v) (hε : 0 ≤ ε) :
    lowerBound us - ε ≤ maxLoad v := by
  rcases lowerBound_attained us with h0 | ⟨S, hne, hS, hsub, heq⟩
  · rw [h0]; linarith [maxLoad_nonneg v]
  · have hSn : ∀ p ∈ S, p < n := by
      intro p hp
      obtain ⟨u, hu, hpu⟩ := (mem_usedPorts us p).mp (hsub p hp)
      exact hb u hu p hpu
    obtain ⟨p, hp, hle⟩ := C02.lowerBound_le_max ε n us v h S hS hSn hne
    rw [heq]
    exact le_trans hle (getD_le_maxLoad v p (by rw [h.len]; exact hSn p hp))

/-- **2. weak duality** (∀ n, ∀ well-formed micro-op lists, ∀ schedules): the busiest port of any
    fractional schedule carries at least `lowerBound us`. -/
theorem assignment_ge_lowerBound (n : Nat) (us : List Uop) (hw : WFUops n us)
    (x : List (List Rat)) (h : Assignment n us x) :
    lowerBound us ≤ maxLoad (Spec.colSums n x) := by
  have := feasible_ge_lowerBound 0 n us _ (WFUops.portsBounded hw)
    (assignment_feasible n us x h) le_rfl
  simpa using this

/-- Hall's condition for the micro-ops in the form `frac_hall` wants it, from `lowerBound_ge_all` -/
theorem hall_of_wf (n : Nat) (us : List Uop) (hw : WFUops n us) (J : Finset (Fin us.length)) :
    ∑ i ∈ J, us[i].amount ≤ lowerBound us *
      (#(J.biUnion fun i => ({p : Fin n | (p : ℕ) ∈ us[i].ports} : Finset (Fin n))) : ℚ) := by
  classical
  rcases J.eq_empty_or_nonempty with rfl | ⟨i0, hi0⟩
  · simp
  set SF : Finset (Fin n) :=
    J.biUnion fun i => ({p : Fin n | (p : ℕ) ∈ us[i].ports} : Finset (Fin n)) with hSF
  let S : List ℕ := (SF.image Fin.val).toList
  have hSnd : S.Nodup := Finset.nodup_toList _
  have hSlen : S.length = #SF := by
    rw [Finset.length_toList, Finset.card_image_of_injective _ Fin.val_injective]
  have hSmem : ∀ p, p ∈ S ↔ ∃ i ∈ J, p ∈ us[i].ports := by
    intro p
    simp only [S, Finset.mem_toList, Finset.mem_image, hSF, Finset.mem_biUnion, Finset.mem_filter,
      Finset.mem_univ, true_and]
    constructor
    · rintro ⟨q, ⟨i, hi, hq⟩, rfl⟩; exact ⟨i, hi, hq⟩
    · rintro ⟨i, hi, hp⟩
      exact ⟨⟨p, (hw _ (List.getElem_mem i.2)).2.2.2 p hp⟩, ⟨i, hi, hp⟩, rfl⟩
  have hSne : S ≠ [] := by
    obtain ⟨p, hp⟩ := List.exists_mem_of_ne_nil _ (hw us[i0] (List.getElem_mem i0.2)).2.2.1
    exact List.ne_nil_of_mem ((hSmem p).mpr ⟨i0, hi0, hp⟩)
  have hlb := lowerBound_ge_all n us hw S hSne hSnd
  have hpos : (0 : ℚ) < S.length := by
    have : 0 < S.length := List.length_pos_iff.mpr hSne
    exact_mod_cast this
  rw [div_le_iff₀ hpos, hSlen] at hlb
  refine le_trans ?_ hlb
  rw [confined_eq_range, Finset.sum_range]
  have hget : ∀ i : Fin us.length, us.getD (i : ℕ) default = us[i] := fun i =>
    List.getD_eq_getElem _ _ i.2
  simp only [hget]
  have hconf : ∀ i ∈ J, (us[i].ports.all (· ∈ S)) = true := by
    intro i hi
    rw [List.all_eq_true]
    intro p hp
    simpa using (hSmem p).mpr ⟨i, hi, hp⟩
  calc ∑ i ∈ J, us[i].amount
      = ∑ i ∈ J, (if us[i].ports.all (· ∈ S) then us[i].amount else 0) :=
        Finset.sum_congr rfl fun i hi => by rw [if_pos (hconf i hi)]
    _ ≤ ∑ i : Fin us.length, (if us[i].ports.all (· ∈ S) then us[i].amount else 0) := by
        apply Finset.sum_le_sum_of_subset_of_nonneg (Finset.subset_univ J)
        intro i _ _
        split_ifs
        · exact amount_nonneg_of_wf hw _ (List.getElem_mem i.2)
        · exact le_rfl

/-- **3. strong duality — the optimum is attained** (∀ n, ∀ well-formed micro-op lists): there is
    an explicit fractional schedule whose busiest port carries at most `lowerBound us`. -/
theorem optimum_attained (n : Nat) (us : List Uop) (hw : WFUops n us) :
    ∃ x, Assignment n us x ∧ maxLoad (Spec.colSums n x) ≤ lowerBound us := by
  classical
  obtain ⟨x, hx0, hxs, hxr, hxc⟩ := frac_hall (fun i : Fin us.length => us[i].amount)
    (fun i => ({p : Fin n | (p : ℕ) ∈ us[i].ports} : Finset (Fin n))) (lowerBound us)
    (fun i => amount_nonneg_of_wf hw _ (List.getElem_mem i.2)) (lowerBound_nonneg us)
    (hall_of_wf n us hw)
  have hgetD : ∀ i (hi : i < us.length) p (hp : p < n),
      ((List.ofFn fun i => List.ofFn fun p => x i p).getD i []).getD p 0 = x ⟨i, hi⟩ ⟨p, hp⟩ := by
    intro i hi p hp
    have h1 : (List.ofFn fun i => List.ofFn fun p => x i p).getD i []
        = List.ofFn fun p => x ⟨i, hi⟩ p := by
      rw [List.getD_eq_getElem _ _ (by simpa using hi)]
      simp only [List.getElem_ofFn]
    rw [h1, List.getD_eq_getElem _ _ (by simpa using hp)]
    simp only [List.getElem_ofFn]
  refine ⟨List.ofFn fun i => List.ofFn fun p => x i p, ⟨?_, ?_, ?_, ?_, ?_⟩, ?_⟩
  · simp
  · intro r hr
    obtain ⟨i, rfl⟩ := (List.mem_ofFn' _ _).mp hr
    simp
  · intro r hr c hc
    obtain ⟨i, rfl⟩ := (List.mem_ofFn' _ _).mp hr
    obtain ⟨p, rfl⟩ := (List.mem_ofFn' _ _).mp hc
    exact hx0 i p
  · intro i hi p hp hnot
    rw [hgetD i hi p hp]
    apply hxs
    rw [List.getD_eq_getElem _ _ hi] at hnot
    simpa using hnot
  · intro i hi
    rw [List.getD_eq_getElem _ _ (by simpa using hi), List.getD_eq_getElem _ _ hi]
    simp only [List.getElem_ofFn, List.sum_ofFn]
    exact hxr ⟨i, hi⟩
  · rw [maxLoad_le_iff]
    refine ⟨lowerBound_nonneg us, ?_⟩
    intro c hc
    obtain ⟨p, hp, rfl⟩ := List.getElem_of_mem hc
    have hp' : p < n := by simpa [length_colSums] using hp
    rw [← List.getD_eq_getElem _ 0 hp, getD_colSums _ _ p hp', List.length_ofFn, Finset.sum_range]
    refine le_trans (le_of_eq ?_) (hxc ⟨p, hp'⟩)
    exact Finset.sum_congr rfl fun i _ => hgetD i i.2 p hp'

/-- **4. `lowerBound` is the optimum of fractional scheduling** (∀ n, ∀ well-formed micro-op
    lists): some schedule's busiest port carries exactly `lowerBound us`, none carries less. -/
theorem lowerBound_isOptimum (n : Nat) (us : List Uop) (hw : WFUops n us) :
    IsOptimum n us (lowerBound us) := by
  obtain ⟨x, hx, hle⟩ := optimum_attained n us hw
  exact ⟨⟨x, hx, le_antisymm hle (assignment_ge_lowerBound n us hw x hx)⟩,
    assignment_ge_lowerBound n us hw⟩

/-- the optimum is unique, hence equal to `lowerBound` -/
theorem optimum_eq_lowerBound (n : Nat) (us : List Uop) (hw : WFUops n us) (opt : Rat) :
    IsOptimum n us opt ↔ opt = lowerBound us := by
  constructor
  · rintro ⟨⟨x, hx, hxe⟩, hmin⟩
    obtain ⟨y, hy, hye⟩ := optimum_attained n us hw
    apply le_antisymm
    · exact le_trans (hmin y hy) hye
    · rw [← hxe]; exact assignment_ge_lowerBound n us hw x hx
  · rintro rfl; exact lowerBound_isOptimum n us hw

/-- **5. C02's clause with the proved optimum** (∀ ε ≥ 0, ∀ n, ∀ well-formed micro-op lists,
    ∀ vectors): a per-port vector that is feasible with slack ε never undercuts the exact optimum
    of fractional scheduling by more than ε at its busiest port. -/
theorem feasible_ge_optimum (ε : Rat) (hε : 0 ≤ ε) (n : Nat) (us : List Uop) (hw : WFUops n us)
    (v : List Rat) (h : Feasible ε n us v) (opt : Rat) (hopt : IsOptimum n us opt) :
    opt - ε ≤ maxLoad v := by
  rw [(optimum_eq_lowerBound n us hw opt).mp hopt]
  exact feasible_ge_lowerBound ε n us v (WFUops.portsBounded hw) h hε

/-- the same with a witness port (needs at least one port; holds for any ε) -/
theorem feasible_ge_optimum_port (ε : Rat) (n : Nat) (hn : 0 < n) (us : List Uop)
    (hw : WFUops n us) (v : List Rat) (h : Feasible ε n us v) (opt : Rat)
    (hopt : IsOptimum n us opt) : ∃ p < n, opt - ε ≤ v.getD p 0 := by
  rw [(optimum_eq_lowerBound n us hw opt).mp hopt]
  rcases lowerBound_attained us with h0 | ⟨S, hne, hS, hsub, heq⟩
  · exact ⟨0, hn, by rw [h0, zero_sub]; exact h.nonneg 0 hn⟩
  · have hSn : ∀ p ∈ S, p < n := by
      intro p hp
      obtain ⟨u, hu, hpu⟩ := (mem_usedPorts us p).mp (hsub p hp)
      exact (hw u hu).2.2.2 p hpu
    obtain ⟨p, hp, hle⟩ := C02.lowerBound_le_max ε n us v h S hS hSn hne
    exact ⟨p, hSn p hp, by rw [heq]; exact hle⟩

/-! ### non-vacuity: the worst kernel of the exhaustive family (three micro-ops on three ports,
    lower bound 5/3), an optimal and a sub-optimal schedule of it -/

/-- the kernel of `C02`'s non-vacuity example -/
abbrev exUs : List Uop := [⟨1, [0, 1, 2], 1⟩, ⟨2, [1, 2], 1⟩, ⟨2, [0, 1], 1⟩]
/-- an optimal schedule: every port carries 5/3 -/
abbrev exOpt : List (List Rat) := [[0, 1, 0], [0, 1/3, 5/3], [5/3, 1/3, 0]]
/-- the uniform schedule: port 1 carries 7/3 -/
abbrev exUni : List (List Rat) := [[1/3, 1/3, 1/3], [0, 1, 1], [1, 1, 0]]

example : WFUops 3 exUs := by decide +kernel
example : lowerBound exUs = 5/3 := by decide +kernel
example : Assignment 3 exUs exOpt ∧ Spec.colSums 3 exOpt = [5/3, 5/3, 5/3] ∧
    maxLoad (Spec.colSums 3 exOpt) = 5/3 := by decide +kernel
example : Assignment 3 exUs exUni ∧ Spec.colSums 3 exUni = [4/3, 7/3, 4/3] ∧
    maxLoad (Spec.colSums 3 exUni) = 7/3 := by decide +kernel
-- the clauses of `Assignment` bite: a row outside the admissible ports, an incomplete row
example : ¬ Assignment 3 exUs [[0, 1, 0], [1/3, 0, 5/3], [5/3, 1/3, 0]] := by decide +kernel
example : ¬ Assignment 3 exUs [[0, 1, 0], [0, 1/3, 4/3], [5/3, 1/3, 0]] := by decide +kernel
-- 1: the theorem applies (and its conclusion is the decidable oracle's verdict)
example : Feasible 0 3 exUs [5/3, 5/3, 5/3] := by
  have h := assignment_feasible 3 exUs exOpt (by decide +kernel)
  rwa [show Spec.colSums 3 exOpt = [5/3, 5/3, 5/3] from by decide +kernel] at h
example : checkFeasible 0 3 exUs (Spec.colSums 3 exUni) = none := by decide +kernel
-- 2: weak duality is strict for the uniform schedule, tight for the optimal one
example : lowerBound exUs < maxLoad (Spec.colSums 3 exUni) := by decide +kernel
example : lowerBound exUs ≤ maxLoad (Spec.colSums 3 exOpt) :=
  assignment_ge_lowerBound 3 exUs (by decide +kernel) exOpt (by decide +kernel)
-- 3/4: hypotheses satisfiable, conclusion non-trivial (5/3 > 0, strictly below the uniform 7/3)
example : ∃ x, Assignment 3 exUs x ∧ maxLoad (Spec.colSums 3 x) ≤ 5/3 := by
  have h := optimum_attained 3 exUs (by decide +kernel)
  rwa [show lowerBound exUs = 5/3 from by decide +kernel] at h
example : IsOptimum 3 exUs (5/3) :=
  (optimum_eq_lowerBound 3 exUs (by decide +kernel) (5/3)).mpr (by decide +kernel)
example : ¬ IsOptimum 3 exUs (7/3) := fun h =>
  absurd ((optimum_eq_lowerBound 3 exUs (by decide +kernel) (7/3)).mp h) (by decide +kernel)
-- 5: a vector feasible only with slack 1/100 (5/3 truncated to two places on every port): its
-- busiest port undercuts the optimum 5/3, but by less than 1/100
example : Feasible (1/100) 3 exUs [166/100, 166/100, 166/100] ∧
    ¬ Feasible 0 3 exUs [166/100, 166/100, 166/100] ∧
    maxLoad [166/100, 166/100, 166/100] < 5/3 :=
  ⟨checkFeasible_sound _ (by decide +kernel) 3 _ _ (by decide +kernel),
   fun h => absurd h.totalLo (by decide +kernel), by decide +kernel⟩
example : (5/3 : Rat) - 1/100 ≤ maxLoad [166/100, 166/100, 166/100] :=
  feasible_ge_optimum (1/100) (by decide +kernel) 3 exUs (by decide +kernel) _
    (checkFeasible_sound _ (by decide +kernel) 3 _ _ (by decide +kernel)) (5/3)
    ((optimum_eq_lowerBound 3 exUs (by decide +kernel) (5/3)).mpr (by decide +kernel))
example : ∃ p < 3, (5/3 : Rat) - 1/100 ≤ [166/100, 166/100, 166/100].getD p 0 :=
  feasible_ge_optimum_port (1/100) 3 (by decide) exUs (by decide +kernel) _
    (checkFeasible_sound _ (by decide +kernel) 3 _ _ (by decide +kernel)) (5/3)
    ((optimum_eq_lowerBound 3 exUs (by decide +kernel) (5/3)).mpr (by decide +kernel))

end OsacaVerif.Props.C02Duality
