import OsacaVerif.Gen.Consts
import OsacaVerif.Lemmas.Balance
import OsacaVerif.Lemmas.WellFormed
/-
  C01 — Port pressure is a feasible split of each instruction's micro-ops.

  * uniform scheduling: `average_port_pressure`'s loop = closed form = exactly feasible;
  * optimised scheduling: every run of the balancer that consists of guarded moves (checked on the
    recorded trace of the real run) keeps the vector feasible up to ½·INC per micro-op, with the
    total exact — for any number of moves and passes;
  * kernel totals: column sums over exactly the lines with throughput ≠ 0.
-/
namespace OsacaVerif.Props.C01
open OsacaVerif OsacaVerif.Text OsacaVerif.Ports OsacaVerif.Spec OsacaVerif.Balance

/-- the loop of `average_port_pressure` computes the closed-form uniform split (∀ inputs) -/
theorem average_eq_uniform (n : Nat) (us : List Uop) (h : ∀ u ∈ us, ∀ p ∈ u.ports, p < n) :
    average n us = uniform n us := Ports.average_eq_uniform n us h

/-- **uniform scheduling is exactly feasible** (ε = 0): ∀ port counts, ∀ micro-op lists with
    non-negative cycles/multipliers and non-empty admissible port sets. -/
theorem uniform_feasible (n : Nat) (us : List Uop) (hw : WFUops n us) :
    Feasible 0 n us (average n us) := by
  rw [average_eq_uniform n us (fun u hu => (hw u hu).2.2.2)]
  exact Spec.uniform_feasible n us hw

/-- the balancer starts from the uniform split -/
theorem pressure_init (n : Nat) (us : List Uop) : pressure n (Balance.init n us) = uniform n us := by
  simp only [pressure, Balance.init, uniform, initRow, List.map_map]
  apply List.map_congr_left
  intro p hp
  have hp' : p < n := by simpa using hp
  congr 1
  apply List.map_congr_left
  intro u _
  simp [initRow, List.getD_eq_getElem?_getD, hp']

/-- lower bound a cell may reach during balancing: −½·INC (INC regenerated from the source) -/
def lo : Rat := -(Gen.balanceInc / 2)

theorem lo_nonpos : lo ≤ 0 := by decide +kernel

/-- **optimised scheduling** (∀ port models, ∀ micro-op lists, ∀ sequences of guarded moves — any
    length, any interleaving over micro-ops, one pass or several): the resulting vector is feasible
    up to ½·INC per micro-op; its total is exact. -/
theorem steps_feasible (n : Nat) (us : List Uop) (hw : WFUops n us) (ms : List Move) (x : Decomp)
    (hrun : run lo us (Balance.init n us) ms = some x) :
    Feasible (Gen.balanceInc / 2 * us.length) n us (pressure n x) := by
  have hinv := run_inv lo n us hw ms _ x (init_inv lo lo_nonpos n us hw) hrun
  have := feasible_of_inv lo lo_nonpos n us x hinv
  simpa [lo] using this

/-- composition path (C08): a vector obtained by scaling with a multiplier is the uniform split of
    the micro-ops carrying that multiplier -/
theorem uniform_mult (n : Nat) (m : Rat) (us : List Uop) :
    uniform n (us.map fun u => { u with mult := m * u.mult }) = scale m (uniform n us) := by
  simp only [uniform, scale, List.map_map]
  apply List.map_congr_left
  intro p _
  simp only [Function.comp_def, share]
  rw [← List.sum_map_mul_left]
  congr 1
  apply List.map_congr_left
  intro u _
  ring

/-! ### kernel totals -/

theorem length_addVec (a b : List Rat) (h : a.length = b.length) : (addVec a b).length = a.length := by
  induction a generalizing b with
  | nil => cases b <;> simp [addVec]
  | cons x xs ih =>
    cases b with
    | nil => simp at h
    | cons y ys => simp [addVec, ih ys (by simpa using h)]

theorem getD_addVec (a b : List Rat) (h : a.length = b.length) (p : Nat) :
    (addVec a b).getD p 0 = a.getD p 0 + b.getD p 0 := by
  induction a generalizing b p with
  | nil =>
    cases b with
    | nil => simp [addVec]
    | cons y ys => simp at h
  | cons x xs ih =>
    cases b with
    | nil => simp at h
    | cons y ys =>
      cases p with
      | zero => simp [addVec]
      | succ p => simpa [addVec] using ih ys (by simpa using h) p

theorem foldl_addVec (n : Nat) (acc : List Rat) (ls : List Line) (hacc : acc.length = n)
    (hl : ∀ l ∈ ls, l.pressure.length = n) (p : Nat) :
    (ls.foldl (fun a l => addVec a l.pressure) acc).length = n ∧
    (ls.foldl (fun a l => addVec a l.pressure) acc).getD p 0 =
      acc.getD p 0 + (ls.map (·.pressure.getD p 0)).sum := by
  induction ls generalizing acc with
  | nil => simp [hacc]
  | cons l ls ih =>
    have hlen : l.pressure.length = n := hl l List.mem_cons_self
    have h1 : (addVec acc l.pressure).length = n := by
      rw [length_addVec acc l.pressure (by rw [hacc, hlen]), hacc]
    obtain ⟨i1, i2⟩ := ih (addVec acc l.pressure) h1 (fun l' hl' => hl l' (List.mem_cons_of_mem _ hl'))
    refine ⟨by simpa using i1, ?_⟩
    simp only [List.foldl_cons, List.map_cons, List.sum_cons]
    rw [i2, getD_addVec acc l.pressure (by rw [hacc, hlen])]
    ring

/-- **kernel totals** (∀ kernels whose lines carry a pressure vector of the model's length):
    before rounding, column `p` of `get_throughput_sum` is the sum of the pressure values of exactly
    the lines whose throughput differs from the skip value; all other lines never contribute. -/
theorem colSums_spec (skip : Rat) (n : Nat) (k : List Line) (hl : ∀ l ∈ k, l.pressure.length = n)
    (hne : (k.filter (·.tp != skip)) ≠ []) (p : Nat) :
    (colSumsExact skip k).length = n ∧
    (colSumsExact skip k).getD p 0 = ((k.filter (·.tp != skip)).map (·.pressure.getD p 0)).sum := by
  cases hf : k.filter (·.tp != skip) with
  | nil => exact absurd hf hne
  | cons l ls =>
    have hmem : ∀ l' ∈ l :: ls, l'.pressure.length = n := by
      intro l' hl'
      have : l' ∈ k.filter (·.tp != skip) := by rw [hf]; exact hl'
      exact hl l' (List.mem_filter.mp this).1
    obtain ⟨h1, h2⟩ := foldl_addVec n l.pressure ls (hmem l List.mem_cons_self)
      (fun l' hl' => hmem l' (List.mem_cons_of_mem _ hl')) p
    simp only [colSumsExact, hf]
    exact ⟨h1, by simpa using h2⟩

/-- lines whose throughput equals the skip value can be removed or inserted without changing the totals -/
theorem colSums_ignores_skipped (skip : Rat) (digits : Nat) (k : List Line) :
    colSums skip digits k = colSums skip digits (k.filter (·.tp != skip)) := by
  simp [colSums, colSumsExact, List.filter_filter]

-- non-vacuity
example : WFUops 3 [⟨1, [0, 1], 1⟩, ⟨2, [1], 1⟩, ⟨1/2, [0, 1, 2], 2⟩] := by decide +kernel
example : average 3 [⟨1, [0, 1], 1⟩, ⟨2, [1], 1⟩] = [1/2, 5/2, 0] := by decide +kernel
example : (run lo [⟨1, [0, 1], 1⟩] (Balance.init 2 [⟨1, [0, 1], 1⟩])
    [⟨0, 0, 1, 1/100⟩, ⟨0, 0, 1, 1/100⟩]).map (pressure 2) = some [48/100, 52/100] := by decide +kernel
example : colSums 0 2 [⟨1, [1/3, 1]⟩, ⟨0, [5, 5]⟩, ⟨1/2, [1/3, 0]⟩] = [67/100, 1] := by decide +kernel
example : roundHalfEven (5/1000) 2 = 0 ∧ roundHalfEven (15/1000) 2 = 2/100 ∧
    roundHalfEven (-5/1000) 2 = 0 ∧ roundHalfEven (251/1000) 2 = 25/100 := by decide +kernel

end OsacaVerif.Props.C01
