import OsacaVerif.Gen.DbAll
import OsacaVerif.Lemmas.WellFormed
import OsacaVerif.Model.Sanity
/-
  C15 — Every shipped model entry is well-formed and can be costed.

  `Gen.Db_<arch>` (regenerated from the YAML files on every run) carries, per shipped model, the port
  list and every distinct raw value the costing code consumes, together with the kernel-decided
  theorem `Db_<arch>.wf`.  The theorems below lift that to: costing any of them cannot raise, and
  yields the exactly feasible uniform split (C01).
-/
namespace OsacaVerif.Props.C15
open OsacaVerif OsacaVerif.Text OsacaVerif.Ports OsacaVerif.Spec OsacaVerif.Sanity

/-- every value of every shipped model is well-formed (table, regenerated per run) -/
theorem shipped_all_wf : ∀ d ∈ Gen.allDbs, dbWF d = true := by
  have h := Gen.allDbs_wf
  rw [List.all_eq_true] at h
  exact h

/-- all micro-op lists a shipped model can hand to the costing code -/
def costedValues (d : Db) : List Y :=
  d.ppValues ++ d.loadRows ++ d.storeRows ++ [d.loadDefault, d.storeDefault]

theorem costedValues_wf (d : Db) (h : dbWF d = true) : ∀ y ∈ costedValues d, wfPPY d.ports y = true := by
  intro y hy
  simp only [dbWF, Bool.and_eq_true, List.all_eq_true] at h
  obtain ⟨⟨⟨⟨⟨h1, _⟩, h3⟩, h4⟩, h5⟩, h6⟩ := h
  simp only [costedValues, List.mem_append, List.mem_cons, List.not_mem_nil, or_false] at hy
  rcases hy with ((hy | hy) | hy) | hy | hy
  · exact h1 y hy
  · exact h3 y hy
  · exact h4 y hy
  · rw [hy]; exact h5
  · rw [hy]; exact h6

/-- **a well-formed list can always be costed** (∀ port lists, ∀ raw lists; re-export) -/
theorem wf_costable (ports : List Txt) (l : List Y) (h : wfPPY ports (.list l) = true) :
    ∃ us, resolveList ports (.list l) = .ok us ∧ WFUops ports.length us ∧
      averageY ports (.list l) = .ok (uniform ports.length us) ∧
      Feasible 0 ports.length us (uniform ports.length us) :=
  Spec.wf_costable ports l h

/-- **C15 for the shipped models**: costing any micro-op list of any shipped model — instruction
    form, load/store table row or default; for alternatives: each alternative — never raises and
    returns an exactly feasible split. -/
theorem shipped_costable (d : Db) (hd : d ∈ Gen.allDbs) (y : Y) (hy : y ∈ costedValues d) :
    (∀ l, y = .list l → ∃ us, averageY d.ports y = .ok (uniform d.ports.length us) ∧
        Feasible 0 d.ports.length us (uniform d.ports.length us)) ∧
    (∀ kv, y = .map kv → ∀ e ∈ kv, ∃ l us, e.2 = .list l ∧
        averageY d.ports (.list l) = .ok (uniform d.ports.length us) ∧
        Feasible 0 d.ports.length us (uniform d.ports.length us)) := by
  have hw := costedValues_wf d (shipped_all_wf d hd) y hy
  constructor
  · intro l hl; subst hl
    obtain ⟨us, _, _, h3, h4⟩ := Spec.wf_costable d.ports l hw
    exact ⟨us, h3, h4⟩
  · intro kv hkv e he; subst hkv
    obtain ⟨l, hl, hwl⟩ := wf_alternatives d.ports kv hw e he
    obtain ⟨us, _, _, h3, h4⟩ := Spec.wf_costable d.ports l hwl
    exact ⟨l, us, hl, h3, h4⟩

/-- throughput and latency of every shipped form are absent or non-negative numbers -/
theorem shipped_nums_wf (d : Db) (hd : d ∈ Gen.allDbs) : ∀ y ∈ d.numValues, wfNumY y = true := by
  have h := shipped_all_wf d hd
  simp only [dbWF, Bool.and_eq_true, List.all_eq_true] at h
  exact h.1.1.1.1.2

/-- `--db-check` counters = number of forms whose field is absent (∀ form lists) -/
theorem counts_spec (forms : List FormNums) :
    sanityCounts forms =
      { noTp := (forms.filter (fun f => isNull f.tp)).length,
        noLat := (forms.filter (fun f => isNull f.lat)).length,
        noPP := (forms.filter (fun f => isNull f.pp)).length } := by
  have gen : ∀ (c : Counts), forms.foldl (fun c f =>
      ({ noTp := if isNull f.tp then c.noTp + 1 else c.noTp,
         noLat := if isNull f.lat then c.noLat + 1 else c.noLat,
         noPP := if isNull f.pp then c.noPP + 1 else c.noPP } : Counts)) c =
      { noTp := c.noTp + (forms.filter (fun f => isNull f.tp)).length,
        noLat := c.noLat + (forms.filter (fun f => isNull f.lat)).length,
        noPP := c.noPP + (forms.filter (fun f => isNull f.pp)).length } := by
    induction forms with
    | nil => intro c; simp
    | cons f fs ih =>
      intro c
      simp only [List.foldl_cons, ih, List.filter_cons]
      cases h1 : isNull f.tp <;> cases h2 : isNull f.lat <;> cases h3 : isNull f.pp <;>
        simp <;> omega
  simpa [sanityCounts] using gen {}

-- non-vacuity: the tables are not empty, and a malformed list is rejected by the predicate
example : Gen.allDbs.length ≥ 1 ∧ (Gen.allDbs.all fun d => !d.ppValues.isEmpty) = true := by decide +kernel
example : wfPPY [[48], [49]] (.list [.list [.num 1, .list [.str [54, 55]]]]) = false := by decide +kernel
example : wfPPY [[48], [49]] (.list [.list [.num 1, .str [48, 49]]]) = true := by decide +kernel
example : wfPPY [[48], [49]] (.list [.list [.num 1, .str [48], .str [49]]]) = false := by decide +kernel
example : wfPPY [[48], [49]] (.list [.num 1, .list [.str [48]]]) = false := by decide +kernel

end OsacaVerif.Props.C15
