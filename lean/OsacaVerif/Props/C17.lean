import OsacaVerif.Model.Cache
import OsacaVerif.Model.CacheName
import OsacaVerif.Spec.CacheSpec
import OsacaVerif.Lemmas.Cache
import OsacaVerif.Lemmas.CacheName
import OsacaVerif.Gen.CacheConsts
/-
  C17 — Model caches are transparent, also after interrupted or racing writes.

  `Cache.step` / `Cache.run` model `MachineModel.__init__`, `_get_cached`, `_write_in_cache` and
  `utils.find_datafile` over an abstract file system (`Model/Cache.lean`); `Cache.race` runs any number
  of loaders interleaved at open / write / rename granularity.  `Spec.CacheSpec` is the machine without
  any cache.  `Cfg` says how cache files are read and written; `shippedCfg` is what the translator reads
  off the current source (`Gen.CacheConsts`).

  Everything below holds for *all* histories (lists of operations of any length), all model-file
  contents, all loaders `parse`, all data-directory layouts `dirs`, all schedules and any number of racing
  processes.  The only assumption is `HashInj`: the content hash separates the contents (SHA-256).
-/
namespace OsacaVerif.Props.C17
open OsacaVerif OsacaVerif.Cache OsacaVerif.Spec OsacaVerif.Text OsacaVerif.CacheName

/-- the invariant of the design: cache files of the current version hold `parse` of the content they are
    keyed by, reads cannot raise, runtime-cache entries come from some content -/
def CacheInv (cfg : Cfg) (w : World) (s : St) : Prop := Good cfg w s ∧ RtInv w s

/-- how the *current source* reads and writes cache files -/
def shippedCfg : Cfg := ⟨Gen.cacheInternalVersion, Gen.cacheTolerantRead, Gen.cacheAtomicWrite⟩

/-! ### the tie to the source: what the model assumes about the code's shape -/

/-- The facts of the source the model is built on, re-extracted on every run: unreadable cache files are
    skipped; cache files are written under a temporary name and renamed; a lazy load touches no cache;
    the runtime-cache probe never decides the result; the version stamp is in the data before it is
    written; the user's data directory is searched before the package's; the install-time cache builder
    uses the same full load; there are two data directories. -/
theorem source_shape :
    Gen.cacheTolerantRead = true ∧ Gen.cacheAtomicWrite = true ∧ Gen.cacheLazyBypasses = true
    ∧ Gen.cacheRtProbeOverwritten = true ∧ Gen.cacheVersionStamped = true
    ∧ Gen.cacheUserDirFirst = true ∧ Gen.cacheBuildUsesLoader = true
    ∧ Gen.cacheDataDirs.length = 2 := by decide

theorem shipped_tolerant : shippedCfg.tolerantRead = true := source_shape.1
theorem shipped_atomic : shippedCfg.atomicWrite = true := source_shape.2.1

/-! ### invariant -/

/-- a fresh installation satisfies the invariant (as soon as one half of the repair is present) -/
theorem inv_init {cfg : Cfg} {w : World} (files : Dir → Stem → Option Content) (wr : Dir → Bool)
    (hw : Bool) (h : cfg.tolerantRead = true ∨ cfg.atomicWrite = true) :
    CacheInv cfg w (init files wr hw) :=
  ⟨good_init files wr hw h, rtInv_init files wr hw⟩

/-- **`inv_step`**: every operation — load, lazy load, edit, killed writer, cut cache file, removed cache
    file, cache of another format version, install-time cache, permission change, new process, N racing
    loaders under any schedule — preserves the invariant.  (Without tolerant reads the one excluded
    operation is damage to a final cache file from outside OSACA.) -/
theorem inv_step {cfg : Cfg} {w : World} {s : St} (hinj : HashInj w) (h : CacheInv cfg w s) (op : Op)
    (hop : cfg.tolerantRead = true ∨ op.isCorrupt = false) :
    CacheInv cfg w (step cfg w s op).1 := by
  obtain ⟨_, h2, h3, _⟩ := step_spec hinj h.1 h.2 op hop
  exact ⟨h2, h3⟩

/-- the invariant holds in every reachable state -/
theorem inv_reachable {cfg : Cfg} {w : World} (hinj : HashInj w) (files : Dir → Stem → Option Content)
    (wr : Dir → Bool) (hw : Bool) (ops : List Op)
    (h : cfg.tolerantRead = true ∨ (cfg.atomicWrite = true ∧ ∀ op ∈ ops, op.isCorrupt = false)) :
    CacheInv cfg w (run cfg w (init files wr hw) ops).1 := by
  have h0 : cfg.tolerantRead = true ∨ cfg.atomicWrite = true := h.imp id And.left
  obtain ⟨_, h2, h3, _⟩ := run_spec hinj ops (good_init files wr hw h0) (rtInv_init files wr hw)
    (h.imp id And.right)
  exact ⟨h2, h3⟩

/-! ### transparency -/

/-- **`history_transparent`** (refinement of the cache-less machine): the outcomes of all loads of any
    history are those of the machine that has no cache at all.  Either half of the repair suffices for
    its part: tolerant reads for every history; atomic writes for every history in which nothing but
    OSACA touches the cache files. -/
theorem history_transparent {cfg : Cfg} {w : World} (hinj : HashInj w)
    (files : Dir → Stem → Option Content) (wr : Dir → Bool) (hw : Bool) (ops : List Op)
    (h : cfg.tolerantRead = true ∨ (cfg.atomicWrite = true ∧ ∀ op ∈ ops, op.isCorrupt = false)) :
    (run cfg w (init files wr hw) ops).2 = CacheSpec.run w files ops := by
  have h0 : cfg.tolerantRead = true ∨ cfg.atomicWrite = true := h.imp id And.left
  exact (run_spec hinj ops (good_init files wr hw h0) (rtInv_init files wr hw) (h.imp id And.right)).1

/-- **`load_transparent`** (∀ reachable states): after any history, a load — full or lazy — returns what
    the loader makes of the *current* content of the file the name resolves to: never an error, never
    stale data; whether it is served cold, from the companion cache, from the home cache, after an edit,
    after an edit back, after a killed writer, a cut file or a race. -/
theorem load_transparent {cfg : Cfg} {w : World} (hinj : HashInj w)
    (files : Dir → Stem → Option Content) (wr : Dir → Bool) (hw : Bool) (ops : List Op)
    (h : cfg.tolerantRead = true ∨ (cfg.atomicWrite = true ∧ ∀ op ∈ ops, op.isCorrupt = false))
    (stem : Stem) (lazy : Bool) :
    (step cfg w (run cfg w (init files wr hw) ops).1 (.load stem lazy)).2
      = [CacheSpec.expected w (CacheSpec.filesAfter files ops) stem lazy] := by
  have h0 : cfg.tolerantRead = true ∨ cfg.atomicWrite = true := h.imp id And.left
  obtain ⟨_, h2, h3, h4⟩ := run_spec hinj ops (good_init files wr hw h0) (rtInv_init files wr hw)
    (h.imp id And.right)
  have := (step_spec hinj h2 h3 (.load stem lazy) (Or.inr rfl)).1
  rw [this, h4]; rfl

/-- **the cache state is irrelevant**: two states that agree on the model files — whatever their cache
    files, leftovers, permissions and runtime caches — give the same outcomes for every history. -/
theorem cache_state_irrelevant {cfg : Cfg} {w : World} (hinj : HashInj w) {s₁ s₂ : St}
    (h₁ : CacheInv cfg w s₁) (h₂ : CacheInv cfg w s₂) (hf : s₁.files = s₂.files) (ops : List Op)
    (h : cfg.tolerantRead = true ∨ ∀ op ∈ ops, op.isCorrupt = false) :
    (run cfg w s₁ ops).2 = (run cfg w s₂ ops).2 := by
  rw [(run_spec hinj ops h₁.1 h₁.2 h).1, (run_spec hinj ops h₂.1 h₂.2 h).1, hf]

/-- **`torn_ignored`**: take any state satisfying the invariant and cut or damage *any set* of cache files
    (`bad`), leave any number of temporary files behind: a load still returns the cache-less result, and
    the invariant still holds afterwards. -/
theorem torn_ignored {cfg : Cfg} {w : World} (hinj : HashInj w) (ht : cfg.tolerantRead = true) {s : St}
    (h : CacheInv cfg w s) (bad : Key → Bool) (leftovers : Nat) (stem : Stem) :
    let s' : St := { s with cache := fun k => if bad k then .torn else s.cache k, temps := leftovers }
    (loadFull cfg w s' stem).2.1 = CacheSpec.expected w s.files stem false
    ∧ CacheInv cfg w (loadFull cfg w s' stem).1 := by
  intro s'
  have hG : Good cfg w s' := by
    refine ⟨?_, Or.inl ht⟩
    intro k v x hk
    simp only [s'] at hk
    split at hk
    · cases hk
    · exact h.1.1 k v x hk
  have hR : RtInv w s' := rtInv_of_rt_eq (s := s) rfl h.2
  obtain ⟨r1, r2, r3, _⟩ := loadFull_spec hinj hG hR stem
  exact ⟨r1, r2, r3⟩

/-- **`race_safe`** (ALL interleavings, any number of processes): `n` processes cold-starting on the same
    model at the same time, interleaved in any way at probe / open / write / close / rename granularity,
    all return the cache-less result, leave the model files alone and end in a state satisfying the
    invariant. -/
theorem race_safe {cfg : Cfg} {w : World} (hinj : HashInj w) {s : St} (h : CacheInv cfg w s)
    (stem : Stem) (n : Nat) (sched : List Nat) :
    (race cfg w s stem n sched).2 = List.replicate n (CacheSpec.expected w s.files stem false)
    ∧ CacheInv cfg w (race cfg w s stem n sched).1
    ∧ (race cfg w s stem n sched).1.files = s.files := by
  obtain ⟨r1, r2, r3, r4⟩ := race_spec hinj h.1 stem n sched
  exact ⟨r1, ⟨r2, rtInv_of_rt_eq r4 h.2⟩, r3⟩

/-- … and the racers may be **killed anywhere**: stop any schedule at any point (every loader wherever it
    happens to be — before its probe, with its file open, half written, written but not yet renamed):
    the shared file system satisfies the invariant, the model files are untouched, and the next load of
    any model returns the cache-less result. -/
theorem race_interrupted_safe {cfg : Cfg} {w : World} (hinj : HashInj w) {s : St} (h : CacheInv cfg w s)
    (d : Dir) (stem : Stem) (c : Content) (sched : List Nat) (stem' : Stem) :
    let sh := (runSched cfg w d stem c s (fun _ => Proc.fresh) sched).1
    CacheInv cfg w sh ∧ sh.files = s.files
    ∧ (loadFull cfg w sh stem').2.1 = CacheSpec.expected w s.files stem' false := by
  intro sh
  obtain ⟨h1, h2, h3, _⟩ := runSched_spec hinj d stem c sched
    (show RaceInv cfg w c s (fun _ => Proc.fresh) from ⟨h.1, fun _ => pinv_fresh cfg w c⟩)
  have hR : RtInv w sh := rtInv_of_rt_eq h3 h.2
  refine ⟨⟨h1.1, hR⟩, h2, ?_⟩
  rw [(loadFull_spec hinj h1.1 hR stem').1, h2]

/-- **`atomic_no_torn`**: with atomic writes, no history of OSACA's own operations — killed writers at any
    offset and races under any schedule included — ever leaves a cut file under a final cache name.
    (So also an OSACA that cannot skip unreadable files, e.g. an older release sharing the cache
    directory, never trips over a file written by this one.) -/
theorem atomic_no_torn {cfg : Cfg} {w : World} (hinj : HashInj w) (ha : cfg.atomicWrite = true)
    (files : Dir → Stem → Option Content) (wr : Dir → Bool) (hw : Bool) (ops : List Op)
    (hops : ∀ op ∈ ops, op.isCorrupt = false) :
    NoTorn (run cfg w (init files wr hw) ops).1 :=
  run_noTorn hinj ha ops (good_init files wr hw (Or.inr ha)) (rtInv_init files wr hw)
    (by intro k; simp [init]) hops

/-! ### the shipped code -/

/-- **C17 for the current source**: for every history whatsoever the observations equal those of the
    cache-less machine.  Stops compiling when the translator finds that unreadable cache files are no
    longer skipped. -/
theorem shipped_history_transparent {w : World} (hinj : HashInj w)
    (files : Dir → Stem → Option Content) (wr : Dir → Bool) (hw : Bool) (ops : List Op) :
    (run shippedCfg w (init files wr hw) ops).2 = CacheSpec.run w files ops :=
  history_transparent hinj files wr hw ops (Or.inl shipped_tolerant)

/-- … and its own writers never expose a cut file.  Stops compiling when cache files are written in place
    again. -/
theorem shipped_no_torn {w : World} (hinj : HashInj w) (files : Dir → Stem → Option Content)
    (wr : Dir → Bool) (hw : Bool) (ops : List Op) (hops : ∀ op ∈ ops, op.isCorrupt = false) :
    NoTorn (run shippedCfg w (init files wr hw) ops).1 :=
  atomic_no_torn hinj shipped_atomic files wr hw ops hops

/-! ### the code before the repair: concrete counterexamples (D6) -/

/-- contents, hashes and data are numbers; two data directories (user first) -/
def idWorld : World := ⟨id, fun c => c + 1000, id, fun _ => [0, 1]⟩
theorem idWorld_hashInj : HashInj idWorld := fun _ _ h => h

/-- the package directory holds model 0 with content 7; everything writable -/
def files0 : Dir → Stem → Option Content := fun d st => if d = 1 ∧ st = 0 then some 7 else none
def init0 : St := init files0 (fun _ => true) true

/-- write in place, read without error handling (the code before `fix:`) -/
def oldCfg : Cfg := ⟨1, false, false⟩

/-- `load_transparent` is false of the old code: a first run killed during the cache write makes the next
    run fail, where the cache-less machine returns the model. -/
theorem old_crash_breaks_load :
    (run oldCfg idWorld init0 [.crashWrite 0 2, .load 0 false]).2 = [.error]
    ∧ CacheSpec.run idWorld files0 [.crashWrite 0 2, .load 0 false] = [.ok 7] := by decide

/-- `race_safe` is false of the old code: process 0 has opened (truncated) the companion file when
    process 1 probes it. -/
theorem old_race_breaks :
    (race oldCfg idWorld init0 0 2 [0, 0, 0, 1]).2 = [.ok 7, .error] := by decide

/-- atomic writes alone do not protect against damage from outside: the side condition of
    `history_transparent` is needed. -/
theorem atomic_only_needs_undamaged_files :
    (run ⟨1, false, true⟩ idWorld init0 [.load 0 false, .corrupt (compKey 1 0 7), .load 0 false]).2
      = [.ok 7, .error] := by decide

/-! ### cache file names -/

/-- For model files whose stem has no dot the companion cache name is the plain concatenation … -/
theorem companionName_plain (stem hex : Txt) (hs : 46 ∉ stem) (hh : 46 ∉ hex) :
    companionName stem hex = [46] ++ stem ++ [95] ++ hex ++ Gen.cacheCompanionSuffix :=
  companionName_dotfree stem hex hs hh

/-- … hence **injective** in (stem, hash): different content (or another model) ⇒ another cache file.
    Hashes are hex digests of one fixed length. -/
theorem companionName_injective (s₁ h₁ s₂ h₂ : Txt) (hs₁ : 46 ∉ s₁) (hh₁ : 46 ∉ h₁) (hs₂ : 46 ∉ s₂)
    (hh₂ : 46 ∉ h₂) (hl : h₁.length = h₂.length) (h : companionName s₁ h₁ = companionName s₂ h₂) :
    s₁ = s₂ ∧ h₁ = h₂ :=
  companionName_inj s₁ h₁ s₂ h₂ hs₁ hh₁ hs₂ hh₂ hl h

theorem homeName_injective (s₁ h₁ s₂ h₂ : Txt) (hs₁ : 46 ∉ s₁) (hh₁ : 46 ∉ h₁) (hs₂ : 46 ∉ s₂)
    (hh₂ : 46 ∉ h₂) (hl : h₁.length = h₂.length) (h : homeName s₁ h₁ = homeName s₂ h₂) :
    s₁ = s₂ ∧ h₁ = h₂ :=
  homeName_inj s₁ h₁ s₂ h₂ hs₁ hh₁ hs₂ hh₂ hl h

/-- every shipped model file has a dot-free stem, so the above covers all of them -/
theorem shipped_stems_dotfree : ∀ s ∈ Gen.cacheShippedStems, 46 ∉ s := by decide

/-- Outside the shipped set: for a model file whose stem contains a dot, `with_suffix` *replaces* the
    tail that holds the hash — the cache name no longer depends on the content (`my.model.yml`). -/
theorem dotted_stem_loses_hash :
    companionName [109, 121, 46, 109, 111, 100, 101, 108] [97, 97] = companionName [109, 121, 46, 109, 111, 100, 101, 108] [98, 98]
    ∧ homeName [109, 121, 46, 109, 111, 100, 101, 108] [97, 97] = homeName [109, 121, 46, 109, 111, 100, 101, 108] [98, 98] := by
  decide

/-! ### non-vacuity -/

-- the hypotheses are satisfiable and the reachable states are not trivial:
example : HashInj idWorld := idWorld_hashInj
example : CacheInv shippedCfg idWorld init0 := inv_init _ _ _ (Or.inl shipped_tolerant)
-- cold, warm from the companion cache (new process), edit picked up, edit back served from the old cache
example : (run shippedCfg idWorld init0
    [.load 0 false, .newProcess, .load 0 false, .edit 1 0 (some 9), .load 0 false,
     .edit 1 0 (some 7), .load 0 false, .load 0 true]).2 = [.ok 7, .ok 7, .ok 9, .ok 7, .ok 1007] := by
  decide
example : (loadFull shippedCfg idWorld (run shippedCfg idWorld init0 [.load 0 false, .newProcess]).1 0).2.2
    = .companion := by decide
-- read-only data directory: served from the home cache
example : (loadFull shippedCfg idWorld
    (run shippedCfg idWorld (init files0 (fun _ => false) true) [.load 0 false, .newProcess]).1 0).2
    = (.ok 7, .home) := by decide
-- the user's data directory shadows the package file; a cache of another format version is not used
example : (run shippedCfg idWorld init0
    [.load 0 false, .edit 0 0 (some 8), .load 0 false, .foreign (compKey 0 0 8) 0 55, .newProcess,
     .load 0 false, .edit 0 0 none, .load 0 false]).2 = [.ok 7, .ok 8, .ok 8, .ok 7] := by decide
-- killed writer, cut files, race of three: the repaired code is not impressed
example : (run shippedCfg idWorld init0
    [.crashWrite 0 0, .load 0 false, .corrupt (compKey 1 0 7), .corrupt (homeKey 0 7), .newProcess,
     .load 0 false, .drop (compKey 1 0 7), .concurrent 0 3 [0, 1, 2, 2, 1, 0, 0, 1, 0, 2]]).2
    = [.ok 7, .ok 7, .ok 7, .ok 7, .ok 7] := by decide
-- two racers stopped mid-way (one has its temporary file half written, the other has not probed yet)
example : ((runSched shippedCfg idWorld 1 0 7 init0 (fun _ => Proc.fresh) [0, 0, 0, 0]).2 0).pc = .half
    ∧ ((runSched shippedCfg idWorld 1 0 7 init0 (fun _ => Proc.fresh) [0, 0, 0, 0]).2 1).pc = .probeComp := by
  decide
-- a killed writer does change the state (a leftover temporary file), and `corrupt` really cuts a file
example : (run shippedCfg idWorld init0 [.crashWrite 0 0]).1.temps = 1 := by decide
example : (run shippedCfg idWorld init0 [.load 0 false, .corrupt (compKey 1 0 7)]).1.cache (compKey 1 0 7)
    = .torn := by decide
-- names
example : companionName [122, 101, 110, 49] [97, 98, 49, 50] = ([46, 122, 101, 110, 49, 95, 97, 98, 49, 50, 46, 112, 105, 99, 107, 108, 101] : Txt)
    ∧ homeName [122, 101, 110, 49] [97, 98, 49, 50] = ([122, 101, 110, 49, 95, 97, 98, 49, 50, 46, 112, 105, 99, 107, 108, 101] : Txt) := by decide
example : ([122, 101, 110, 49] : Txt) ∈ Gen.cacheShippedStems ∧ ([120, 56, 54] : Txt) ∈ Gen.cacheShippedStems := by decide

end OsacaVerif.Props.C17
